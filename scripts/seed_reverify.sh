#!/bin/sh
# seed_reverify.sh <seed-id>...
# Re-confirms a seed whose patch was ported to today's tree (patch_rebased.diff): in a scratch worktree of
# /repo at HEAD the ported change compiles, the pinned suite passes with it, its demonstration fails with
# it and passes without it. Appends the result to /verif/seeded/<id>/verify_rebased.log.
export GOFLAGS=-mod=mod GOPROXY=off GOSUMDB=off GOTOOLCHAIN=local
unset GOWORK
for ID in "$@"; do
  D=/verif/seeded/$ID
  P=$D/patch_rebased.diff
  [ -f $P ] || { echo "$ID: no patch_rebased.diff"; continue; }
  WT=/tmp/reverify-$ID
  git -C /repo worktree add --detach -q $WT HEAD || exit 2
  PKG=$(cat $D/demo_pkg.txt)
  (
  cd $WT
  echo "== $ID at $(git rev-parse --short HEAD)"
  cp $D/seed_demo_test.go $PKG/zz_seed_demo_test.go
  echo "== demo without change (must PASS)"
  timeout 300 go test -vet=off -count=1 -run TestSeedDemo $PKG > /tmp/rv_without.log 2>&1; RC_WITHOUT=$?
  tail -3 /tmp/rv_without.log; echo "rc=$RC_WITHOUT"
  git apply $P || echo APPLY-FAILED
  echo "== build with change"; go build ./... && echo BUILD-OK
  echo "== demo with change (must FAIL)"
  timeout 300 go test -vet=off -count=1 -run TestSeedDemo $PKG > /tmp/rv_with.log 2>&1; RC_WITH=$?
  tail -8 /tmp/rv_with.log; echo "rc=$RC_WITH"
  rm -f $PKG/zz_seed_demo_test.go
  echo "== suite with change"
  /verif/scripts/suite.sh $WT; RC_SUITE=$?
  echo "suite rc=$RC_SUITE"
  if [ $RC_WITH -ne 0 ] && [ $RC_SUITE -eq 0 ] && [ $RC_WITHOUT -eq 0 ]; then echo CONFIRMED; else echo REJECTED; fi
  ) > $D/verify_rebased.log 2>&1
  git -C /repo worktree remove --force $WT
  echo "$ID: $(tail -1 $D/verify_rebased.log)"
done
