#!/bin/sh
# seed_check.sh <seed-id> [tier]: applies /verif/seeded/<id>/patch.diff to /repo, runs every check,
# reverts /repo, and prints which properties raised a violation.
ID=$1; TIER=${2:-quick}
P=/verif/seeded/$ID/patch.diff
[ -f /verif/seeded/$ID/patch_rebased.diff ] && P=/verif/seeded/$ID/patch_rebased.diff
git -C /repo diff --quiet || { echo "/repo is dirty"; exit 2; }
git -C /repo apply $P || { echo "patch does not apply"; exit 2; }
for i in 01 02 03 04 05 06 07 08 09 10 11 12 13 14 15 16 17 18 19 20; do
  out=$(/verif/bin/pvcheck -p C$i -tier $TIER -no-evidence 2>&1); rc=$?
  if [ $rc -ne 0 ]; then echo "C$i DETECTS:"; echo "$out" | grep -B1 '^VIOLATION' | grep -v '^VIOLATION' | grep -v '^--' | cut -c1-400; fi
done
git -C /repo checkout -- .
git -C /repo status --short | head -3
