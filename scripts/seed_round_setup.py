#!/usr/bin/env python3
"""seed_round_setup.py <round-number>
Creates /tmp/seed<N>/Cxx (scratch git worktrees of /repo at HEAD, detached) and /tmp/seed<N>/Cxx.prompt.txt,
the complete task description for one fresh sub-agent per property. The prompt contains the text of the
property, the sandbox environment, and one line per idea already produced for that property in earlier
rounds (so that a different one is chosen) - nothing else from /verif."""
import json, glob, subprocess, sys, os
N = sys.argv[1]
base = '/tmp/seed%s' % N
os.makedirs(base, exist_ok=True)
known = {}
for l in open('/verif/properties.jsonl'):
    p = json.loads(l); known[p['id']] = p
ideas = {}
for f in sorted(glob.glob('/verif/seeded/*/meta.json')):
    m = json.load(open(f)); ideas.setdefault(m['property'], []).append(m['breaks'])
T = '''You are working in a scratch git worktree of the Go project ichiban/prolog (an embeddable ISO Prolog interpreter: lexer, parser, clause compiler, continuation/promise-based VM, ISO builtins) at {dir}. Work ONLY inside {dir}. Do not read, list or modify anything under /repo or /verif (they are off limits for this task), and do not create commits. IMPORTANT: never use `git stash` (the stash is shared with other worktrees of the same repository and other people use it concurrently); to test against the unmodified tree use `git diff > /tmp/{pid}.r{n}.patch && git apply -R /tmp/{pid}.r{n}.patch`, run the test, then `git apply /tmp/{pid}.r{n}.patch` and delete the patch file.

Environment (sandbox without network) - use for every shell command:
  export GOFLAGS=-mod=mod GOPROXY=off GOSUMDB=off GOTOOLCHAIN=local
Build: `go build ./...`   Test suite: `go test -vet=off -count=1 ./...` (about 10 s). On the UNMODIFIED tree exactly two subtests fail (TestOpen and TestOpen/the_source/sink_specified_by_sourceSink_cannot_be_opened, because the sandbox runs as root); ignore those two, everything else passes.

Here is a semantic property the library is supposed to satisfy:

{prop}
TASK. Make a small, realistic change to the library's non-test source (.go files of the root package or of engine/, or bootstrap.pl) that BREAKS this property, such that:
 1. the project still compiles (`go build ./...`);
 2. the existing test suite still passes exactly as before (only the same two TestOpen failures) - do not edit or delete existing tests;
 3. ordinary use would NOT expose it at once: it must need something specific to manifest - a particular interleaving, a fault at a particular point, a multi-step sequence of operations, an unusual input or combination of inputs, or two cooperating sites that each look fine alone. Think of a plausible refactoring slip, a well-meant "optimisation", an off-by-one, a dropped or weakened guard, a copy/paste of the wrong sibling - the kind of regression a maintainer could introduce by accident and a reviewer could miss. Prefer a change of a few lines. Do not add obviously artificial code (no "if input == magic" backdoors, no sleeps, no random behaviour).
 4. It must be a DIFFERENT idea from these, which other people already produced for this property - pick another mechanism, another function, another clause of the property statement, another file if you can:
{avoid}
 5. First make sure the behaviour you are going to break is CORRECT on the unmodified tree (your demonstration must pass there). If, while studying the code, you find an input for which the UNMODIFIED tree already violates the property, do not use it as your seed; describe it in SEED_NOTES.md under a heading "Pre-existing" (the exact query/program/Go snippet and what you observed) and still deliver a seeded change of your own. Spend real effort on this part: probe the unmodified tree with unusual inputs for every clause of the property statement before you decide on your seed.

DELIVER, all inside {dir}:
 (a) the change itself as UNCOMMITTED modifications of tracked files (I will take `git diff`);
 (b) a demonstration: a NEW test file named seed_demo_test.go in the package of your choice (root package `prolog` or `engine`) containing one test function `TestSeedDemo` that FAILS with your change and PASSES on the unmodified tree. Verify both directions yourself (see the note on git stash above). The test must terminate quickly in both cases (use timeouts/contexts if the failure mode is a hang).
 (c) a file SEED_NOTES.md with: what you changed and where; why it breaks the property; what it needs in order to manifest (why normal use and the existing tests do not hit it); the exact commands you ran and their outcome (full suite with the change, demo with and without the change); and the "Pre-existing" section if you found anything.
Finish by replying with a short summary (changed file(s)/function(s), trigger, demo result, pre-existing defects if any).'''
for i in range(1, 21):
    pid = 'C%02d' % i
    d = '%s/%s' % (base, pid)
    if not os.path.isdir(d):
        subprocess.check_call(['git', '-C', '/repo', 'worktree', 'add', '-q', '--detach', d, 'HEAD'])
    p = known[pid]
    prop = "Title: %s\n\nStatement: %s\n\nQuantified over: %s\n" % (p['title'], p['statement'], p['quantifier']['text'])
    avoid = ''.join('    - ' + x + '\n' for x in ideas.get(pid, []))
    open('%s/%s.prompt.txt' % (base, pid), 'w').write(T.format(dir=d, prop=prop, avoid=avoid, pid=pid, n=N))
print('round', N, 'set up at', base)
