#!/bin/sh
# seed_verify.sh <worktree> <seed-id> <property>
# Confirms a seeded change produced in a scratch worktree: it compiles, the pinned suite still passes,
# its demonstration fails with the change and passes without it. On success stores
# /verif/seeded/<seed-id>/{patch.diff,seed_demo_test.go(.pkg),SEED_NOTES.md,verify.log}.
WT=$1; ID=$2; PROP=$3
export GOFLAGS=-mod=mod GOPROXY=off GOSUMDB=off GOTOOLCHAIN=local
unset GOWORK
OUT=/verif/seeded/$ID
mkdir -p $OUT
cd $WT || exit 2
DEMO=$(git ls-files --others --exclude-standard | grep 'seed_demo_test.go$' | head -1)
[ -z "$DEMO" ] && { echo "no seed_demo_test.go"; exit 2; }
PKG=./$(dirname $DEMO)
git diff > $OUT/patch.diff
[ -s $OUT/patch.diff ] || { echo "empty patch"; exit 2; }
{
echo "== worktree $WT demo $DEMO pkg $PKG"
echo "== build with change"; go build ./... && echo BUILD-OK
echo "== demo with change (must FAIL)"
timeout 300 go test -vet=off -count=1 -run 'TestSeedDemo' $PKG > /tmp/seed_demo_with.log 2>&1; RC_WITH=$?
tail -15 /tmp/seed_demo_with.log; echo "rc=$RC_WITH"
echo "== suite with change (demo file moved away)"
mv $DEMO /tmp/seed_demo_hold.go
/verif/scripts/suite.sh $WT; RC_SUITE=$?
mv /tmp/seed_demo_hold.go $DEMO
echo "suite rc=$RC_SUITE"
echo "== demo without change (must PASS)"
git apply -R $OUT/patch.diff || echo "REVERSE-APPLY-FAILED"
timeout 300 go test -vet=off -count=1 -run 'TestSeedDemo' $PKG > /tmp/seed_demo_without.log 2>&1; RC_WITHOUT=$?
git apply $OUT/patch.diff || echo "RE-APPLY-FAILED"
tail -5 /tmp/seed_demo_without.log; echo "rc=$RC_WITHOUT"
echo "== verdict"
if [ $RC_WITH -ne 0 ] && [ $RC_SUITE -eq 0 ] && [ $RC_WITHOUT -eq 0 ]; then echo CONFIRMED; else echo REJECTED; fi
} > $OUT/verify.log 2>&1
cp $DEMO $OUT/seed_demo_test.go
echo "$PKG" > $OUT/demo_pkg.txt
[ -f SEED_NOTES.md ] && cp SEED_NOTES.md $OUT/
tail -3 $OUT/verify.log
