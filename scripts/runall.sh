#!/bin/sh
# runs every registered check (quick by default) and prints one line per property
TIER=${1:-quick}
for i in 01 02 03 04 05 06 07 08 09 10 11 12 13 14 15 16 17 18 19 20; do
  out=$(/verif/bin/pvcheck -p C$i -tier $TIER 2>&1); rc=$?
  echo "C$i rc=$rc $(echo "$out" | grep -c '^VIOLATION') violations $(echo "$out" | grep -c '^KNOWN-FINDING') known  $(echo "$out" | tail -1)"
done
