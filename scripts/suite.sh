#!/bin/sh
# Runs the repository's pinned test suite (guard off) in $1 (default /repo) and checks that every
# test of BASELINE.json's stable_pass list passes. Used after every fix: commit; not a property check.
DIR=${1:-/repo}
export GOFLAGS=-mod=mod GOPROXY=off GOSUMDB=off GOTOOLCHAIN=local
unset GOWORK
OUT=$(mktemp)
(cd "$DIR" && go test -json -vet=off -count=1 -timeout 25m ./... > "$OUT" 2>/dev/null)
python3 - "$OUT" <<'PY'
import json,sys
passed=set(); failed=set()
for l in open(sys.argv[1]):
    try: e=json.loads(l)
    except Exception: continue
    t=e.get('Test')
    if not t: continue
    k=e['Package']+'::'+t
    if e.get('Action')=='pass': passed.add(k)
    if e.get('Action')=='fail': failed.add(k)
b=json.load(open('/root/.vp/BASELINE.json'))
missing=[t for t in b['stable_pass'] if t not in passed]
print('passed',len(passed),'failed',len(failed),'baseline',len(b['stable_pass']),'missing',len(missing))
for m in missing[:20]: print('  MISSING',m)
unexpected=[f for f in failed if f not in b.get('always_fail',[])]
for m in unexpected[:20]: print('  NEWFAIL',m)
sys.exit(1 if missing or unexpected else 0)
PY
RC=$?
rm -f "$OUT"
exit $RC
