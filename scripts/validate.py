#!/usr/bin/env python3-vt
# validates MANIFEST.json and every evidence file against the schemas
import json,glob,sys,jsonschema
ok=True
m=json.load(open('/verif/MANIFEST.json'))
jsonschema.validate(m,json.load(open('/root/.vp/MANIFEST.schema.json')))
ids={c['property_id'] for c in m['checks']}|{n['property_id'] for n in m.get('not_applicable',[])}
want={json.loads(l)['id'] for l in open('/verif/properties.jsonl')}
if ids!=want: print('manifest does not cover',want^ids); ok=False
print('manifest ok: checks',len(m['checks']),'not_applicable',len(m.get('not_applicable',[])))
es=json.load(open('/root/.vp/EVIDENCE.schema.json'))
for c in m['checks']:
    try:
        e=json.load(open(c['evidence_file']))
        jsonschema.validate(e,es)
        print(' evidence ok',c['property_id'],e['tier'],'obl',e['coverage'].get('obligations'),'nontrivial',e['coverage'].get('distinct_nontrivial'),'viol',e.get('violations'))
    except Exception as ex:
        print(' EVIDENCE BAD',c['property_id'],str(ex)[:200]); ok=False
sys.exit(0 if ok else 1)
