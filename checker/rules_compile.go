package main

import (
	"fmt"
	"go/ast"
	"go/constant"
	"go/token"
	"go/types"
	"sort"
	"strings"

	"golang.org/x/tools/go/ssa"
)

// ---------------------------------------------------------------------------
// compiler / interpreter tables (AST level)

type emitSite struct {
	pos     ast.Node
	opcode  *types.Const
	operand ast.Expr // nil if none
	fn      string
	stack   []ast.Node
}

// instructionLits finds every composite literal of the instruction struct type with a constant opcode.
func (c *Ctx) instructionLits() []emitSite {
	var out []emitSite
	op := c.opcodeType()
	if op == nil {
		return nil
	}
	pk := c.EngPkg
	for _, file := range pk.Syntax {
		var stack []ast.Node
		ast.Inspect(file, func(n ast.Node) bool {
			if n == nil {
				stack = stack[:len(stack)-1]
				return true
			}
			stack = append(stack, n)
			cl, ok := n.(*ast.CompositeLit)
			if !ok {
				return true
			}
			tv, ok := pk.TypesInfo.Types[cl]
			if !ok {
				return true
			}
			st, ok := tv.Type.Underlying().(*types.Struct)
			if !ok || st.NumFields() != 2 || !types.Identical(st.Field(0).Type(), op) {
				return true
			}
			var e emitSite
			e.pos, e.fn = cl, enclosingName(stack)
			e.stack = append([]ast.Node(nil), stack...)
			for i, el := range cl.Elts {
				var key string
				val := el
				if kv, ok := el.(*ast.KeyValueExpr); ok {
					key = kv.Key.(*ast.Ident).Name
					val = kv.Value
				} else {
					key = st.Field(i).Name()
				}
				switch key {
				case st.Field(0).Name():
					if id, ok := val.(*ast.Ident); ok {
						e.opcode, _ = pk.TypesInfo.Uses[id].(*types.Const)
					}
				case st.Field(1).Name():
					e.operand = val
				}
			}
			if e.opcode != nil {
				out = append(out, e)
			}
			return true
		})
	}
	return out
}

// execArms returns, per opcode constant, the case clause of the interpreter switch.
type execArm struct {
	clause *ast.CaseClause
	consts []*types.Const
}

func (c *Ctx) execSwitch() (*ast.SwitchStmt, []execArm) {
	op := c.opcodeType()
	pk := c.EngPkg
	var sw *ast.SwitchStmt
	for _, file := range pk.Syntax {
		ast.Inspect(file, func(n ast.Node) bool {
			s, ok := n.(*ast.SwitchStmt)
			if !ok || s.Tag == nil || sw != nil {
				return true
			}
			if tv, ok := pk.TypesInfo.Types[s.Tag]; ok && op != nil && types.Identical(tv.Type, op) {
				sw = s
			}
			return true
		})
	}
	if sw == nil {
		return nil, nil
	}
	var arms []execArm
	for _, s := range sw.Body.List {
		cc := s.(*ast.CaseClause)
		var a execArm
		a.clause = cc
		for _, e := range cc.List {
			if id, ok := e.(*ast.Ident); ok {
				if k, ok := pk.TypesInfo.Uses[id].(*types.Const); ok {
					a.consts = append(a.consts, k)
				}
			}
		}
		arms = append(arms, a)
	}
	return sw, arms
}

// operandObjects: the variables of the interpreter switch that hold the current instruction's operand
// (assigned from the Term-typed field of the instruction struct in the switch's init statement), plus the
// selector expression itself.
func (c *Ctx) operandObjects() map[types.Object]bool {
	out := map[types.Object]bool{}
	sw, _ := c.execSwitch()
	if sw == nil {
		return out
	}
	info := c.EngPkg.TypesInfo
	isOperandSel := func(e ast.Expr) bool {
		sel, ok := e.(*ast.SelectorExpr)
		if !ok {
			return false
		}
		s := info.Selections[sel]
		if s == nil || s.Kind() != types.FieldVal {
			return false
		}
		st, ok := deref(s.Recv()).Underlying().(*types.Struct)
		return ok && st.NumFields() == 2 && st.Field(1) == s.Obj()
	}
	if as, ok := sw.Init.(*ast.AssignStmt); ok && len(as.Lhs) == len(as.Rhs) {
		for i, rhs := range as.Rhs {
			if isOperandSel(rhs) {
				if id, ok := as.Lhs[i].(*ast.Ident); ok {
					if o := info.Defs[id]; o != nil {
						out[o] = true
					} else if o := info.Uses[id]; o != nil {
						out[o] = true
					}
				}
			}
		}
	}
	return out
}

// armAssertedType: the type the arm asserts the instruction operand to (nil if it uses it as a Term).
func (c *Ctx) armAssertedType(a execArm) types.Type {
	var t types.Type
	operands := c.operandObjects()
	info := c.EngPkg.TypesInfo
	ast.Inspect(a.clause, func(n ast.Node) bool {
		ta, ok := n.(*ast.TypeAssertExpr)
		if !ok || ta.Type == nil {
			return true
		}
		switch x := ta.X.(type) {
		case *ast.Ident:
			if !operands[info.Uses[x]] {
				return true // an assertion on some other term (e.g. the argument being matched)
			}
		case *ast.SelectorExpr:
			s := info.Selections[x]
			if s == nil {
				return true
			}
			st, ok := deref(s.Recv()).Underlying().(*types.Struct)
			if !ok || st.NumFields() != 2 || st.Field(1) != s.Obj() {
				return true
			}
		default:
			return true
		}
		t = info.Types[ta.Type].Type
		return true
	})
	return t
}

// armStackEffect classifies an arm by what it does to the argument stack: "push", "pop", "".
func (c *Ctx) armStackEffect(a execArm) string {
	// locate the astack parameter: the [][]Term parameter of exec
	eff := ""
	ast.Inspect(a.clause, func(n ast.Node) bool {
		as, ok := n.(*ast.AssignStmt)
		if !ok {
			return true
		}
		for i, lhs := range as.Lhs {
			id, ok := lhs.(*ast.Ident)
			if !ok {
				continue
			}
			t := c.EngPkg.TypesInfo.TypeOf(id)
			sl, ok := t.(*types.Slice)
			if !ok {
				continue
			}
			if _, ok := sl.Elem().(*types.Slice); !ok {
				continue // not [][]Term
			}
			var rhs ast.Expr
			if len(as.Rhs) == len(as.Lhs) {
				rhs = as.Rhs[i]
			}
			switch x := rhs.(type) {
			case *ast.CallExpr:
				if isBuiltinCall(c.EngPkg.TypesInfo, x, "append") {
					eff = "push"
				}
			case *ast.SliceExpr:
				eff = "pop"
			}
		}
		return true
	})
	return eff
}

func ruleOperandAgree(c *Ctx, r *Report) {
	const rule = "R-OPERAND-AGREE"
	sw, arms := c.execSwitch()
	if sw == nil {
		r.undecided(rule, "anchor:exec-switch", "-", "locate the interpreter switch over opcodes", "not found")
		return
	}
	asserted := map[string]types.Type{}
	armOf := map[string]bool{}
	for _, a := range arms {
		t := c.armAssertedType(a)
		for _, k := range a.consts {
			armOf[k.Name()] = true
			if t != nil {
				asserted[k.Name()] = t
			}
		}
	}
	emitted := map[string]bool{}
	for _, e := range c.instructionLits() {
		emitted[e.opcode.Name()] = true
		want := asserted[e.opcode.Name()]
		key := fmt.Sprintf("%s/emit(%s)", e.fn, e.opcode.Name())
		desc := "the operand the compiler emits has the type the interpreter arm asserts"
		switch {
		case want == nil && e.operand == nil:
			r.ok(rule, key, c.Pos(e.pos.Pos()), desc, "no operand emitted, none asserted", false)
		case want == nil:
			r.ok(rule, key, c.Pos(e.pos.Pos()), desc, "the arm uses the operand as a Term without assertion", false)
		case e.operand == nil:
			r.bad(rule, key, c.Pos(e.pos.Pos()), desc, "no operand is emitted but the arm asserts "+typeName(want)+": nil.("+typeName(want)+") panics on first execution")
		default:
			got := c.EngPkg.TypesInfo.TypeOf(e.operand)
			if types.Identical(got, want) {
				r.ok(rule, key, c.Pos(e.pos.Pos()), desc, "emits "+typeName(got)+", arm asserts "+typeName(want), true)
			} else {
				r.bad(rule, key, c.Pos(e.pos.Pos()), desc, "emits "+typeName(got)+" but the arm asserts "+typeName(want)+": interface conversion panic on first execution of such a clause")
			}
		}
	}
	// every opcode with an asserting arm is emitted with an operand somewhere is covered above; an opcode that
	// is emitted but has no arm is R-ENUM-TOTAL's business.
	var names []string
	for n := range asserted {
		names = append(names, n)
	}
	sort.Strings(names)
	r.analysed(rule, fmt.Sprintf("%d arms with operand assertions: %s", len(names), strings.Join(names, " ")))
}

// emission sequence helpers --------------------------------------------------

// opcodeOfStmt: if stmt is `x.bytecode = append(x.bytecode, instruction{opcode: K …})` returns K.
func (c *Ctx) emittedOpcode(stmt ast.Stmt) *types.Const {
	as, ok := stmt.(*ast.AssignStmt)
	if !ok || len(as.Rhs) != 1 {
		return nil
	}
	call, ok := as.Rhs[0].(*ast.CallExpr)
	if !ok || !isBuiltinCall(c.EngPkg.TypesInfo, call, "append") || len(call.Args) != 2 {
		return nil
	}
	cl, ok := call.Args[1].(*ast.CompositeLit)
	if !ok {
		return nil
	}
	for _, e := range c.instructionLits() {
		if e.pos == ast.Node(cl) {
			return e.opcode
		}
	}
	return nil
}

func rulePushPop(c *Ctx, r *Report) {
	const rule = "R-PUSH-POP"
	_, arms := c.execSwitch()
	push, pop := map[string]bool{}, map[string]bool{}
	for _, a := range arms {
		eff := c.armStackEffect(a)
		for _, k := range a.consts {
			switch eff {
			case "push":
				push[k.Name()] = true
			case "pop":
				pop[k.Name()] = true
			}
		}
	}
	if len(push) == 0 || len(pop) == 0 {
		r.undecided(rule, "anchor:stack-ops", "-", "classify interpreter arms into push/pop of the argument stack", fmt.Sprintf("push=%d pop=%d", len(push), len(pop)))
		return
	}
	// every statement list that emits a push opcode must emit exactly one pop opcode later in the same
	// list, with nothing but loops/recursive argument emission in between, and no return in between.
	n := 0
	for _, file := range c.EngPkg.Syntax {
		var stack []ast.Node
		ast.Inspect(file, func(nd ast.Node) bool {
			if nd == nil {
				stack = stack[:len(stack)-1]
				return true
			}
			stack = append(stack, nd)
			var list []ast.Stmt
			switch x := nd.(type) {
			case *ast.BlockStmt:
				list = x.List
			case *ast.CaseClause:
				list = x.Body
			default:
				return true
			}
			for i, st := range list {
				k := c.emittedOpcode(st)
				if k == nil || !push[k.Name()] {
					continue
				}
				n++
				fn := enclosingName(stack)
				key := fmt.Sprintf("%s/%s", fn, k.Name())
				desc := "an emitted structure opcode is closed by exactly one pop opcode on every path"
				pops, early := 0, false
				for _, later := range list[i+1:] {
					if k2 := c.emittedOpcode(later); k2 != nil && pop[k2.Name()] {
						pops++
					}
					ast.Inspect(later, func(m ast.Node) bool {
						if _, ok := m.(*ast.ReturnStmt); ok && pops == 0 {
							early = true
						}
						if inner, ok := m.(ast.Stmt); ok && m != ast.Node(later) {
							if k3 := c.emittedOpcode(inner); k3 != nil && pop[k3.Name()] {
								pops += 100 // a pop inside a loop/branch: count cannot be exactly one
							}
						}
						return true
					})
				}
				switch {
				case early:
					r.bad(rule, key, c.Pos(st.Pos()), desc, "a return between the structure opcode and its pop leaves the argument stack unbalanced")
				case pops == 1:
					r.ok(rule, key, c.Pos(st.Pos()), desc, "followed by exactly one pop emission in the same statement list", true)
				default:
					r.bad(rule, key, c.Pos(st.Pos()), desc, fmt.Sprintf("%d pop emissions follow (want exactly 1): astack is corrupted for every nested term", pops%100+pops/100))
				}
			}
			return true
		})
	}
	var ps []string
	for k := range push {
		ps = append(ps, k)
	}
	sort.Strings(ps)
	r.analysed(rule, "push opcodes "+strings.Join(ps, " ")+fmt.Sprintf("; %d emission sites", n))
}

// R-HEAD-BODY-SIBLINGS: the head and the body argument compilers switch over the same term
// representations and emit, for each, opcodes of the same kind.
func ruleHeadBodySiblings(c *Ctx, r *Report) {
	const rule = "R-HEAD-BODY-SIBLINGS"
	_, arms := c.execSwitch()
	// kind of an opcode = (asserted operand type, stack effect, reads-args vs appends-args)
	kind := map[string]string{}
	for _, a := range arms {
		t := c.armAssertedType(a)
		ts := "Term"
		if t != nil {
			ts = typeName(t)
		}
		eff := c.armStackEffect(a)
		// distinguishing list/partial (both Integer): whether the arm mentions the partial constructor or type
		extra := ""
		ast.Inspect(a.clause, func(n ast.Node) bool {
			if id, ok := n.(*ast.Ident); ok && (id.Name == "PartialList" || id.Name == "partial") {
				extra = "+partial"
			}
			if id, ok := n.(*ast.Ident); ok && id.Name == "vars" {
				extra = "+var"
			}
			return true
		})
		for _, k := range a.consts {
			kind[k.Name()] = ts + "/" + eff + extra
		}
	}
	// find the two sibling functions: methods of clause with a type switch whose arms emit opcodes
	type sib struct {
		name string
		arms map[string][]string // case type list -> kinds emitted (in order)
		pos  ast.Node
	}
	var sibs []sib
	for _, file := range c.EngPkg.Syntax {
		for _, d := range file.Decls {
			fd, ok := d.(*ast.FuncDecl)
			if !ok || fd.Body == nil {
				continue
			}
			var ts *ast.TypeSwitchStmt
			for _, st := range fd.Body.List {
				if t, ok := st.(*ast.TypeSwitchStmt); ok {
					ts = t
				}
			}
			if ts == nil {
				continue
			}
			s := sib{name: fd.Name.Name, arms: map[string][]string{}, pos: fd}
			emits := 0
			for _, st := range ts.Body.List {
				cc := st.(*ast.CaseClause)
				var tys []string
				for _, e := range cc.List {
					tys = append(tys, typeName(c.EngPkg.TypesInfo.TypeOf(e)))
				}
				label := strings.Join(tys, ",")
				if cc.List == nil {
					label = "default"
				}
				for _, b := range cc.Body {
					if k := c.emittedOpcode(b); k != nil {
						emits++
						s.arms[label] = append(s.arms[label], kind[k.Name()])
					}
				}
			}
			if emits >= 4 {
				sibs = append(sibs, s)
			}
		}
	}
	if len(sibs) != 2 {
		r.undecided(rule, "anchor:siblings", "-", "locate the head and body argument compilers (two functions whose type switch arms emit opcodes)", fmt.Sprintf("found %d", len(sibs)))
		return
	}
	a, b := sibs[0], sibs[1]
	labels := map[string]bool{}
	for l := range a.arms {
		labels[l] = true
	}
	for l := range b.arms {
		labels[l] = true
	}
	var ls []string
	for l := range labels {
		ls = append(ls, l)
	}
	sort.Strings(ls)
	for _, l := range ls {
		key := fmt.Sprintf("%s~%s/case %s", a.name, b.name, l)
		desc := "head and body compilers treat each term representation with opcodes of the same kind"
		ka, kb := strings.Join(a.arms[l], " "), strings.Join(b.arms[l], " ")
		switch {
		case a.arms[l] == nil || b.arms[l] == nil:
			r.bad(rule, key, c.Pos(a.pos.Pos()), desc, fmt.Sprintf("representation handled by only one of the two (%s: %q, %s: %q)", a.name, ka, b.name, kb))
		case ka == kb:
			r.ok(rule, key, c.Pos(a.pos.Pos()), desc, "both emit ["+ka+"]", true)
		default:
			r.bad(rule, key, c.Pos(a.pos.Pos()), desc, fmt.Sprintf("%s emits [%s] but %s emits [%s]", a.name, ka, b.name, kb))
		}
	}
	r.analysed(rule, a.name, b.name)
}

// ---------------------------------------------------------------------------
// C20: R-COMMIT-AFTER-SUCCESS, R-STAGING-LOCAL

func (c *Ctx) loaderEntry() *ssa.Function { return c.method("VM", "Compile") }

func (c *Ctx) liveDBWritesIn(fn *ssa.Function) []writeSite {
	var out []writeSite
	for _, fld := range [][2]string{{"VM", "procedures"}, {"userDefined", "clauses"}} {
		for _, w := range c.stateWrites(fld[0], fld[1]) {
			if w.fn == fn && !w.fresh {
				out = append(out, w)
			}
		}
	}
	return out
}

func ruleCommitAfterSuccess(c *Ctx, r *Report) {
	const rule = "R-COMMIT-AFTER-SUCCESS"
	entry := c.loaderEntry()
	if entry == nil {
		r.undecided(rule, "anchor:loader", "-", "locate the loader entry point", "not found")
		return
	}
	// staging steps: calls in the entry that return exactly one error and receive the address of the local text value
	var staging []*ssa.Call
	eachInstr(entry, func(in ssa.Instruction) {
		call, ok := in.(*ssa.Call)
		if !ok || call.Call.StaticCallee() == nil {
			return
		}
		sig := call.Call.StaticCallee().Signature
		if sig.Results().Len() != 1 || !isErrorType(sig.Results().At(0).Type()) {
			return
		}
		for _, a := range call.Call.Args {
			if al, ok := a.(*ssa.Alloc); ok && isEngNamed(al.Type(), "text") {
				staging = append(staging, call)
			}
		}
	})
	if len(staging) < 2 {
		r.undecided(rule, "anchor:staging", c.Pos(entry.Pos()), "locate the staging steps (calls on the local text value returning error)", fmt.Sprintf("found %d, want >= 2", len(staging)))
		return
	}
	writes := c.liveDBWritesIn(entry)
	// writes in closures of the entry
	for _, a := range withAnon(entry)[1:] {
		writes = append(writes, c.liveDBWritesIn(a)...)
	}
	for i, w := range writes {
		key := fmt.Sprintf("%s/commit[%d](%s)", fname(w.fn), i+1, w.what)
		desc := "the live database is written only after the whole text was staged successfully"
		if w.fn != entry {
			r.bad(rule, key, c.at(w.in), desc, "write inside a closure: ordering with the staging steps cannot be established")
			continue
		}
		facts := c.factsAt(w.in.Block())
		missing := []string{}
		for _, s := range staging {
			ok := false
			for f := range facts {
				bo, isB := f.cond.(*ssa.BinOp)
				if !isB {
					continue
				}
				if (bo.X == ssa.Value(s) && isNilConst(bo.Y)) || (bo.Y == ssa.Value(s) && isNilConst(bo.X)) {
					if (bo.Op.String() == "!=" && !f.pol) || (bo.Op.String() == "==" && f.pol) {
						ok = true
					}
				}
			}
			if !ok {
				missing = append(missing, s.Call.StaticCallee().Name())
			}
		}
		if len(missing) == 0 {
			r.ok(rule, key, c.at(w.in), desc, "dominated by the err==nil edge of every staging step", true)
		} else {
			r.bad(rule, key, c.at(w.in), desc, "not dominated by the success edge of "+strings.Join(missing, ", ")+": a text that fails to load would leave clauses behind")
		}
	}
	// the commit loop contains no return: no block of the cycle containing a write has a returning successor
	for _, w := range writes {
		if w.fn != entry {
			continue
		}
		wb := w.in.Block()
		scc := sccOf(wb)
		bad := false
		for b := range scc {
			for _, s := range b.Succs {
				if scc[s] {
					continue
				}
				if _, isRet := s.Instrs[len(s.Instrs)-1].(*ssa.Return); isRet {
					bad = true
				}
			}
		}
		key := fmt.Sprintf("%s/commit-loop(%s)", fname(entry), w.what)
		if len(scc) > 1 {
			if bad {
				r.bad(rule, key, c.at(w.in), "the commit is not abandoned half-way", "a return leaves the commit loop early: only part of the text's predicates would be installed")
			} else {
				r.ok(rule, key, c.at(w.in), "the commit is not abandoned half-way", "no block of the commit loop branches to a return", true)
			}
		}
	}
	r.analysed(rule, fname(entry), fmt.Sprintf("%d staging steps, %d live writes", len(staging), len(writes)))
}

// sccOf returns the set of blocks on a cycle with b (b itself if none).
func sccOf(b *ssa.BasicBlock) map[*ssa.BasicBlock]bool {
	fwd := map[*ssa.BasicBlock]bool{}
	var dfs func(x *ssa.BasicBlock, succ bool, seen map[*ssa.BasicBlock]bool)
	dfs = func(x *ssa.BasicBlock, succ bool, seen map[*ssa.BasicBlock]bool) {
		if seen[x] {
			return
		}
		seen[x] = true
		next := x.Preds
		if succ {
			next = x.Succs
		}
		for _, n := range next {
			dfs(n, succ, seen)
		}
	}
	bwd := map[*ssa.BasicBlock]bool{}
	dfs(b, true, fwd)
	dfs(b, false, bwd)
	out := map[*ssa.BasicBlock]bool{}
	for x := range fwd {
		if bwd[x] {
			out[x] = true
		}
	}
	// b alone without self loop: fwd∩bwd = {b}
	return out
}

// R-STAGING-LOCAL: nothing statically reachable from the staging steps (without re-entering the loader)
// writes the live database.
func ruleStagingLocal(c *Ctx, r *Report) {
	const rule = "R-STAGING-LOCAL"
	entry := c.loaderEntry()
	if entry == nil {
		r.undecided(rule, "anchor:loader", "-", "locate the loader entry point", "not found")
		return
	}
	var roots []*ssa.Function
	eachInstr(entry, func(in ssa.Instruction) {
		call, ok := in.(*ssa.Call)
		if !ok || call.Call.StaticCallee() == nil {
			return
		}
		for _, a := range call.Call.Args {
			if al, ok := a.(*ssa.Alloc); ok && isEngNamed(al.Type(), "text") {
				roots = append(roots, call.Call.StaticCallee())
			}
		}
	})
	// forward static reachability, not passing through the loader entry (a nested load is its own transaction)
	seen := map[*ssa.Function]bool{}
	var visit func(f *ssa.Function)
	visit = func(f *ssa.Function) {
		if f == nil || seen[f] || f == entry || !c.isLibPkg(funcPkg(f)) {
			return
		}
		seen[f] = true
		for _, a := range f.AnonFuncs {
			visit(a)
		}
		eachInstr(f, func(in ssa.Instruction) {
			if ci, ok := in.(ssa.CallInstruction); ok {
				visit(ci.Common().StaticCallee())
			}
		})
	}
	for _, f := range roots {
		visit(f)
	}
	// predicates entered dynamically (directives) are excluded on purpose: they run at once by design.
	stop := map[*ssa.Function]bool{}
	for _, e := range c.registered() {
		stop[e.Fn] = true
	}
	var names []string
	nbad := 0
	for f := range seen {
		if stop[f] {
			continue
		}
		names = append(names, fname(f))
		for _, w := range c.liveDBWritesIn(f) {
			// text.flush writes the clauses of a *staged* userDefined: its base comes from the text's own map
			if c.isStagedProcedureWrite(w) {
				r.ok(rule, fmt.Sprintf("%s/write(%s)", fname(f), w.what), c.at(w.in), "staging functions write only the staging area", "the procedure written is taken from the text's own table", true)
				continue
			}
			nbad++
			r.bad(rule, fmt.Sprintf("%s/write(%s)", fname(f), w.what), c.at(w.in), "staging functions write only the staging area", "a staging step writes the live database before the text is known to load")
		}
	}
	sort.Strings(names)
	if nbad == 0 {
		r.ok(rule, fname(entry)+"/staging-closure", c.Pos(entry.Pos()), "staging functions write only the staging area", fmt.Sprintf("%d functions statically reachable from the staging steps contain no live write", len(names)), true)
	}
	r.analysed(rule, names...)
}

// isStagedProcedureWrite: a write to userDefined.clauses whose *userDefined originates from the text's
// own clauses map (lookup) or a fresh allocation stored into it.
func (c *Ctx) isStagedProcedureWrite(w writeSite) bool {
	st, ok := w.in.(*ssa.Store)
	if !ok {
		return false
	}
	base, ok := fieldAddrOf(st.Addr, "userDefined", "clauses")
	if !ok {
		return false
	}
	good := true
	n := 0
	c.origins(base, func(l ssa.Value) {
		n++
		switch x := l.(type) {
		case *ssa.Alloc:
			// new userDefined
		case *ssa.Extract:
			lk, ok := x.Tuple.(*ssa.Lookup)
			if !ok {
				good = false
				return
			}
			if _, ok := loadsField(lk.X, "text", "clauses"); !ok {
				good = false
			}
		case *ssa.Lookup:
			if _, ok := loadsField(x.X, "text", "clauses"); !ok {
				good = false
			}
		default:
			good = false
		}
	})
	return good && n > 0
}

// ---------------------------------------------------------------------------
// C18: R-OP-ATOMIC, R-OPS-SOURCE

// opsMutators: methods that update or delete entries of an `operators` map.
func (c *Ctx) opsMutators() map[*ssa.Function]bool {
	out := map[*ssa.Function]bool{}
	isOps := func(t types.Type) bool { return isEngNamed(t, "operators") }
	for _, fn := range c.LibFuncs() {
		eachInstr(fn, func(in ssa.Instruction) {
			switch x := in.(type) {
			case *ssa.MapUpdate:
				if isOps(x.Map.Type()) {
					out[fn] = true
				}
			case *ssa.Call:
				if b, ok := x.Call.Value.(*ssa.Builtin); ok && b.Name() == "delete" && isOps(x.Call.Args[0].Type()) {
					out[fn] = true
				}
			}
		})
	}
	return out
}

func ruleOpAtomic(c *Ctx, r *Report) {
	const rule = "R-OP-ATOMIC"
	op := c.registeredFn("op", 3)
	if op == nil {
		r.undecided(rule, "anchor:op/3", "-", "locate op/3", "not registered")
		return
	}
	mut := c.opsMutators()
	ks := paramsWhere(op, c.isContType)
	var mutBlocks []*ssa.BasicBlock
	var mutCalls []ssa.Instruction
	eachInstr(op, func(in ssa.Instruction) {
		switch x := in.(type) {
		case *ssa.Call:
			if f := x.Call.StaticCallee(); f != nil && mut[f] {
				mutBlocks = append(mutBlocks, x.Block())
				mutCalls = append(mutCalls, in)
			}
		case *ssa.MapUpdate:
			if isEngNamed(x.Map.Type(), "operators") {
				mutBlocks = append(mutBlocks, x.Block())
				mutCalls = append(mutCalls, in)
			}
		}
	})
	if len(mutCalls) == 0 {
		r.undecided(rule, "anchor:mutations", c.Pos(op.Pos()), "locate the operator-table mutations in op/3", "none found")
		return
	}
	// error exits: returns whose value does not originate solely from the continuation call
	isErrExit := func(b *ssa.BasicBlock) bool {
		ret, ok := b.Instrs[len(b.Instrs)-1].(*ssa.Return)
		if !ok || len(ret.Results) != 1 {
			return false
		}
		onlyK := true
		for _, l := range c.originSet(ret.Results[0]) {
			call, _ := callOfValue(l)
			if call == nil || call.Call.IsInvoke() || len(ks) != 1 {
				onlyK = false
				continue
			}
			if ok, _ := c.comesOnlyFrom(call.Call.Value, func(x ssa.Value) bool { return x == ssa.Value(ks[0]) }); !ok {
				onlyK = false
			}
		}
		return !onlyK
	}
	for i, mb := range mutBlocks {
		key := fmt.Sprintf("%s/mutation[%d]", fname(op), i+1)
		desc := "no error exit of op/3 is reachable once the operator table has been touched (validate everything, then mutate)"
		var hit *ssa.BasicBlock
		seen := map[*ssa.BasicBlock]bool{}
		stack := []*ssa.BasicBlock{}
		for _, s := range mb.Succs {
			stack = append(stack, s)
		}
		// an error exit later in the same block cannot exist (returns end blocks); check the block itself if it returns
		if isErrExit(mb) {
			hit = mb
		}
		for len(stack) > 0 && hit == nil {
			b := stack[len(stack)-1]
			stack = stack[:len(stack)-1]
			if seen[b] {
				continue
			}
			seen[b] = true
			if isErrExit(b) {
				hit = b
				break
			}
			stack = append(stack, b.Succs...)
		}
		if hit == nil {
			r.ok(rule, key, c.at(mutCalls[i]), desc, "every return reachable from the mutation yields the continuation's promise", true)
		} else {
			r.bad(rule, key, c.at(mutCalls[i]), desc, "the error return at "+c.Pos(c.instrPos(hit.Instrs[len(hit.Instrs)-1]))+" is reachable after this mutation: an op/3 call that raises an error would leave part of its updates in the table")
		}
	}
	r.analysed(rule, fname(op), fmt.Sprintf("%d mutation sites", len(mutCalls)))
}

func ruleOpsSource(c *Ctx, r *Report) {
	const rule = "R-OPS-SOURCE"
	desc := "reader and writer use the interpreter's one operator table"
	// (1) write_term/3 fills WriteOptions.ops from vm.operators
	wt := c.registeredFn("write_term", 3)
	if wt == nil {
		r.undecided(rule, "anchor:write_term/3", "-", desc, "not registered")
	} else {
		found := false
		eachInstr(wt, func(in ssa.Instruction) {
			st, ok := in.(*ssa.Store)
			if !ok {
				return
			}
			if _, ok := fieldAddrOf(st.Addr, "WriteOptions", "ops"); !ok {
				return
			}
			found = true
			good := true
			for _, l := range c.originSet(st.Val) {
				base, ok := loadsField(l, "VM", "operators")
				if !ok {
					good = false
					continue
				}
				if p, ok := base.(*ssa.Parameter); !ok || p.Parent() != wt {
					good = false
				}
			}
			if good {
				r.ok(rule, fname(wt)+"/WriteOptions.ops", c.at(st), desc, "ops is loaded from the vm parameter's operator table", true)
			} else {
				r.bad(rule, fname(wt)+"/WriteOptions.ops", c.at(st), desc, "the writer's operator table is not vm.operators: written text would not read back under the current table")
			}
		})
		if !found {
			r.bad(rule, fname(wt)+"/WriteOptions.ops", c.Pos(wt.Pos()), desc, "write_term/3 does not set the operator table of its write options")
		}
	}
	// (2) every Parser whose operators field is set takes it from a VM's table; parsers built without a
	// table are used only for atom()/number().
	nparser := 0
	for _, fn := range c.LibFuncs() {
		eachInstr(fn, func(in ssa.Instruction) {
			al, ok := in.(*ssa.Alloc)
			if !ok || !isEngNamed(al.Type(), "Parser") {
				return
			}
			if _, isStruct := deref(al.Type()).Underlying().(*types.Struct); !isStruct {
				return
			}
			if pt, ok := al.Type().Underlying().(*types.Pointer); !ok || !isEngNamed(pt.Elem(), "Parser") || isPtr(pt.Elem()) {
				return
			}
			nparser++
			key := fmt.Sprintf("%s/Parser", fname(fn))
			var opsStore *ssa.Store
			var methods []string
			for _, ref := range *al.Referrers() {
				switch x := ref.(type) {
				case *ssa.FieldAddr:
					if fieldName(x) == "operators" {
						for _, r2 := range *x.Referrers() {
							if st, ok := r2.(*ssa.Store); ok {
								opsStore = st
							}
						}
					}
				case *ssa.Call:
					if f := x.Call.StaticCallee(); f != nil {
						methods = append(methods, f.Name())
					}
				}
			}
			if opsStore != nil {
				good := true
				for _, l := range c.originSet(opsStore.Val) {
					if _, ok := loadsField(l, "VM", "operators"); !ok {
						good = false
					}
				}
				if good {
					r.ok(rule, key, c.at(al), desc, "Parser.operators is loaded from a VM's operator table", true)
				} else {
					r.bad(rule, key, c.at(al), desc, "Parser.operators is not taken from the VM")
				}
				return
			}
			sort.Strings(methods)
			restricted := true
			for _, m := range methods {
				if m != "atom" && m != "number" {
					restricted = false
				}
			}
			if restricted && !c.allocEscapes(al) {
				r.ok(rule, key, c.at(al), desc, "parser without operator table is used only for "+strings.Join(methods, ","), true)
			} else {
				r.bad(rule, key, c.at(al), desc, "a parser built without the VM's operator table is used for "+strings.Join(methods, ",")+" or escapes")
			}
		})
	}
	// (3) read_term/3 builds its parser from its own vm
	if rt := c.registeredFn("read_term", 3); rt != nil {
		np := c.fn("NewParser")
		ok := false
		eachInstr(rt, func(in ssa.Instruction) {
			call, isCall := in.(*ssa.Call)
			if !isCall || call.Call.StaticCallee() != np || np == nil {
				return
			}
			if p, isP := call.Call.Args[0].(*ssa.Parameter); isP && p.Parent() == rt {
				ok = true
			}
		})
		if ok {
			r.ok(rule, fname(rt)+"/NewParser(vm)", c.Pos(rt.Pos()), desc, "read_term/3 parses with a parser built from its own vm", true)
		} else {
			r.bad(rule, fname(rt)+"/NewParser(vm)", c.Pos(rt.Pos()), desc, "read_term/3 does not build its parser from its vm parameter")
		}
	}
	r.analysed(rule, fmt.Sprintf("%d Parser constructions", nparser))
}

// allocEscapes: the address of the allocation is stored, returned or passed to a non-method call.
func (c *Ctx) allocEscapes(al *ssa.Alloc) bool {
	for _, ref := range *al.Referrers() {
		switch x := ref.(type) {
		case *ssa.Store:
			if x.Val == ssa.Value(al) {
				return true
			}
		case *ssa.Return:
			return true
		case *ssa.Call:
			if len(x.Call.Args) == 0 || x.Call.Args[0] != ssa.Value(al) || x.Call.StaticCallee() == nil || x.Call.StaticCallee().Signature.Recv() == nil {
				return true
			}
		case *ssa.MakeClosure:
			return true
		}
	}
	return false
}

// R-OPS-WRITERS: the operator table is mutated only from code statically reachable from op/3 (and from
// host-API initialisers); no other registered predicate reaches a mutator.
func ruleOpsWriters(c *Ctx, r *Report) {
	const rule = "R-OPS-WRITERS"
	desc := "the operator table is changed only by op/3"
	regs := c.registered()
	n := 0
	for fn := range c.opsMutators() {
		n++
		anc := c.staticAncestors(fn, nil)
		var owners, intruders []string
		for _, e := range regs {
			if anc[e.Fn] {
				id := fmt.Sprintf("%s/%d", e.Name, e.Arity)
				if id == "op/3" {
					owners = append(owners, id)
				} else {
					intruders = append(intruders, id)
				}
			}
		}
		key := fname(fn) + "/mutator"
		if len(intruders) > 0 {
			sort.Strings(intruders)
			r.bad(rule, key, c.Pos(fn.Pos()), desc, "a function that updates operator entries is statically reachable from "+strings.Join(intruders, ", "))
		} else {
			r.ok(rule, key, c.Pos(fn.Pos()), desc, "reachable only from "+strings.Join(append(owners, "host API"), ", "), true)
		}
	}
	// assignments of the whole VM.operators field
	for _, w := range c.stateWrites("VM", "operators") {
		st, ok := w.in.(*ssa.Store)
		if !ok {
			continue
		}
		n++
		key := fmt.Sprintf("%s/write(%s)", fname(w.fn), w.what)
		// allowed: initialising a nil table with an empty one
		if _, isMake := st.Val.(*ssa.MakeMap); isMake {
			nilGuard := false
			for f := range c.factsAt(st.Block()) {
				if bo, ok := f.cond.(*ssa.BinOp); ok && f.pol && bo.Op.String() == "==" && (isNilConst(bo.X) || isNilConst(bo.Y)) {
					nilGuard = true
				}
			}
			if nilGuard {
				r.ok(rule, key, c.at(st), desc, "nil table replaced by an empty one (lazy initialisation)", true)
				continue
			}
		}
		r.bad(rule, key, c.at(st), desc, "the whole operator table is replaced")
	}
	r.analysed(rule, fmt.Sprintf("%d mutators/assignments", n))
}

// ---------------------------------------------------------------------------
// R-OP-DEFINES-ALL (C18; added after seed C18b): op(P, T, Names) makes every name in Names the operator
// (P, T). In the commit loop of op/3 every iteration reaches the table's define step; an iteration may skip
// it only across a branch that compares a whole `operator` value (priority, specifier and name together).
// A skip decided on one field - "same priority, nothing to do" - keeps the old specifier.

func ruleOpDefinesAll(c *Ctx, r *Report) {
	const rule = "R-OP-DEFINES-ALL"
	desc := "every iteration of the commit loop of op/3 reaches operators.define"
	op := c.registeredFn("op", 3)
	define := c.method("operators", "define")
	if op == nil || define == nil {
		r.undecided(rule, "anchor", "-", "locate op/3 and operators.define", "not found")
		return
	}
	// does define return at once for priority 0?  (its entry block branches on <priority parameter> == 0 into a
	// block that only returns)
	defineNoopForZero := false
	if len(define.Blocks) > 0 && len(define.Params) >= 2 {
		b0 := define.Blocks[0]
		if x, opk, k, ok := cmpConst(ifCond(b0)); ok && k == 0 && x == ssa.Value(define.Params[1]) && (opk == token.EQL || opk == token.NEQ) {
			t := b0.Succs[0]
			if opk == token.NEQ {
				t = b0.Succs[1]
			}
			if len(t.Instrs) == 1 {
				if _, isRet := t.Instrs[0].(*ssa.Return); isRet {
					defineNoopForZero = true
				}
			}
		}
	}
	n := 0
	eachInstr(op, func(in ssa.Instruction) {
		call, ok := in.(*ssa.Call)
		if !ok || call.Call.StaticCallee() != define {
			return
		}
		n++
		key := fmt.Sprintf("%s/define#%d", fname(op), n)
		D := call.Block()
		// innermost loop header: a block dominating D that D can reach again
		var H *ssa.BasicBlock
		for _, b := range blocksOf(op) {
			back := false
			for _, p := range b.Preds {
				if b.Dominates(p) {
					back = true
				}
			}
			if b != D && back && b.Dominates(D) && reachableFromAvoiding(D, b, nil) {
				if H == nil || H.Dominates(b) {
					H = b
				}
			}
		}
		if H == nil {
			r.bad(rule, key, c.at(in), desc, "define is not inside a loop over the names")
			return
		}
		// node-removal search: from the body entry back to the header without entering D
		reach := func(from, to, avoid *ssa.BasicBlock, stopAtHeader bool) bool {
			seen := map[*ssa.BasicBlock]bool{}
			var dfs func(b *ssa.BasicBlock) bool
			dfs = func(b *ssa.BasicBlock) bool {
				if b == avoid {
					return false
				}
				if b == to {
					return true
				}
				if seen[b] || (stopAtHeader && b == H) {
					return false
				}
				seen[b] = true
				cond := ifCond(b)
				for si, s := range b.Succs {
					if bo, ok := cond.(*ssa.BinOp); ok && avoid != nil && (bo.Op == token.EQL || bo.Op == token.NEQ) && isEngNamed(bo.X.Type(), "operator") && !isPtr(bo.X.Type()) {
						continue // whole-operator comparison: either outcome may skip
					}
					// skipping define where the priority is known to be 0 skips nothing: define itself returns at
					// once for priority 0 (checked on define's own entry block)
					if avoid != nil && defineNoopForZero {
						if x, op, k, ok := cmpConst(cond); ok && k == 0 && c.sameVar(x, call.Call.Args[1]) && ((op == token.EQL && si == 0) || (op == token.NEQ && si == 1)) {
							continue
						}
					}
					if dfs(s) {
						return true
					}
				}
				return false
			}
			return dfs(from)
		}
		var entry *ssa.BasicBlock
		for _, s := range H.Succs {
			if reach(s, D, nil, true) {
				entry = s
			}
		}
		if entry == nil {
			r.undecided(rule, key, c.at(in), desc, "cannot locate the loop body")
			return
		}
		skip := reach(entry, H, D, false)
		if skip {
			r.bad(rule, key, c.at(in), desc, "an iteration can return to the loop header without passing through define (and not across a whole-operator comparison): that name keeps its old definition")
		} else {
			r.ok(rule, key, c.at(in), desc, "cut-set check: removing the define block disconnects the body entry from the back edge", true)
		}
	})
	if n == 0 {
		r.bad(rule, fname(op)+"/define", c.Pos(op.Pos()), desc, "op/3 never calls operators.define")
	}
	// (added after seed C18e) the loop that applies the request to every name is left only at its header: a
	// return (or break) inside the body ends the call after the first names - successfully - and the rest of
	// the list keeps its old definitions
	mut := c.opsMutators()
	doneLoops := map[*ssa.BasicBlock]bool{}
	eachInstr(op, func(in ssa.Instruction) {
		call, ok := in.(*ssa.Call)
		if !ok || !mut[call.Call.StaticCallee()] {
			return
		}
		H, exits := loopEarlyExits(op, call.Block())
		if H == nil || doneLoops[H] {
			return
		}
		doneLoops[H] = true
		key := fname(op) + "/apply-loop-exits"
		d2 := "the loop of op/3 that applies the request to each name is left only when the names are exhausted"
		if len(exits) == 0 {
			r.ok(rule, key, c.at(H.Instrs[0]), d2, "no edge leaves the loop body except through its header", true)
		} else {
			r.bad(rule, key, c.at(exits[0].Instrs[len(exits[0].Instrs)-1]), d2, "the body can leave the loop here: the names after the current one are not processed although op/3 succeeds")
		}
	})
	r.analysed(rule, fname(op))
}

// loopEarlyExits: the innermost natural loop around `anchor` (header H) and the blocks of its body, other than
// H, that have a successor outside the loop.
func loopEarlyExits(fn *ssa.Function, anchor *ssa.BasicBlock) (*ssa.BasicBlock, []*ssa.BasicBlock) {
	var H *ssa.BasicBlock
	for _, b := range blocksOf(fn) {
		back := false
		for _, p := range b.Preds {
			if b.Dominates(p) {
				back = true
			}
		}
		if back && (b == anchor || b.Dominates(anchor)) && (b == anchor || reachableFromAvoiding(anchor, b, nil)) {
			if H == nil || H.Dominates(b) {
				H = b
			}
		}
	}
	if H == nil {
		return nil, nil
	}
	in := map[*ssa.BasicBlock]bool{H: true}
	for _, b := range blocksOf(fn) {
		if b != H && H.Dominates(b) && reachableFromAvoiding(b, H, nil) {
			in[b] = true
		}
	}
	var exits []*ssa.BasicBlock
	for _, b := range blocksOf(fn) {
		if !in[b] || b == H {
			continue
		}
		for _, s := range b.Succs {
			if !in[s] {
				exits = append(exits, b)
				break
			}
		}
	}
	return H, exits
}

// loopIterationSkips: can an iteration of the innermost loop around `anchor` get from the body entry back
// to the loop header without entering any of the `must` blocks? (block-level node-removal search)
func loopIterationSkips(fn *ssa.Function, anchor *ssa.BasicBlock, must map[*ssa.BasicBlock]bool) (found bool, skips bool) {
	var H *ssa.BasicBlock
	plainReach := func(from, to *ssa.BasicBlock, stopAt *ssa.BasicBlock) bool {
		seen := map[*ssa.BasicBlock]bool{}
		var dfs func(b *ssa.BasicBlock) bool
		dfs = func(b *ssa.BasicBlock) bool {
			if b == to {
				return true
			}
			if seen[b] || b == stopAt {
				return false
			}
			seen[b] = true
			for _, s := range b.Succs {
				if dfs(s) {
					return true
				}
			}
			return false
		}
		for _, s := range from.Succs {
			if dfs(s) {
				return true
			}
		}
		return false
	}
	for _, b := range blocksOf(fn) {
		back := false
		for _, p := range b.Preds {
			if b.Dominates(p) {
				back = true
			}
		}
		if b != anchor && back && b.Dominates(anchor) && plainReach(anchor, b, nil) {
			if H == nil || H.Dominates(b) {
				H = b
			}
		}
	}
	if H == nil {
		return false, false
	}
	var entry *ssa.BasicBlock
	for _, s := range H.Succs {
		if s == anchor || plainReach(s, anchor, H) {
			entry = s
		}
	}
	if entry == nil {
		return false, false
	}
	seen := map[*ssa.BasicBlock]bool{}
	var dfs func(b *ssa.BasicBlock) bool
	dfs = func(b *ssa.BasicBlock) bool {
		if must[b] {
			return false
		}
		if b == H {
			return true
		}
		if seen[b] {
			return false
		}
		seen[b] = true
		for _, s := range b.Succs {
			if dfs(s) {
				return true
			}
		}
		return false
	}
	return true, dfs(entry)
}

// ---------------------------------------------------------------------------
// R-COMMIT-ALL (C20; added after seed C20b): the commit loop of the loader installs every predicate of
// the loaded text: each iteration either stores the new definition into VM.procedures or merges its clauses
// into the existing (multifile) one. No iteration leaves the loop body without a write to the database -
// a predicate that the text (re)declares without clauses must replace the old definition too.

func ruleCommitAll(c *Ctx, r *Report) {
	const rule = "R-COMMIT-ALL"
	desc := "every iteration of the loader's commit loop writes the predicate to the database"
	compile := c.method("VM", "Compile")
	if compile == nil {
		r.undecided(rule, "anchor:Compile", "-", "locate VM.Compile", "not found")
		return
	}
	must := map[*ssa.BasicBlock]bool{}
	var anchor *ssa.MapUpdate
	eachInstr(compile, func(in ssa.Instruction) {
		switch x := in.(type) {
		case *ssa.MapUpdate:
			if c.vmFieldOfMap(x.Map) == "procedures" {
				must[x.Block()] = true
				if anchor == nil {
					anchor = x
				}
			}
		case *ssa.Store:
			if fa, ok := x.Addr.(*ssa.FieldAddr); ok && fieldName(fa) == "clauses" && isEngNamed(deref(fa.X.Type()), "userDefined") {
				must[x.Block()] = true
			}
		}
	})
	key := fname(compile) + "/commit-loop"
	if anchor == nil {
		r.bad(rule, key, c.Pos(compile.Pos()), desc, "no store into VM.procedures found in Compile")
		return
	}
	found, skips := loopIterationSkips(compile, anchor.Block(), must)
	switch {
	case !found:
		r.bad(rule, key, c.at(anchor), desc, "the store into VM.procedures is not inside a loop over the staged predicates")
	case skips:
		r.bad(rule, key, c.at(anchor), desc, "an iteration can return to the loop header without writing: that predicate of the loaded text is silently not installed")
	default:
		r.ok(rule, key, c.at(anchor), desc, fmt.Sprintf("node-removal check: without the %d writing blocks the body entry cannot reach the back edge", len(must)), true)
	}
	r.analysed(rule, fname(compile))
}

// ---------------------------------------------------------------------------
// R-COMMA-FIXED (C18; added after seed C18c): ','/2 cannot be given any other operator definition,
// whatever priority and specifier are asked for (ISO 8.14.3.3 l). In the validation of op/3 the branch
// decisions taken in the arm for the name ',' do not depend on the requested priority or specifier: the
// arm's conditions have no data dependence on those parameters. (A test that looks at the class of the
// REQUESTED specifier lets op(200, fy, ',') through and the reader then accepts `(, a)`.)

func ruleCommaFixed(c *Ctx, r *Report) {
	const rule = "R-COMMA-FIXED"
	fn := c.fn("validateOp")
	comma := c.global("atomComma")
	if fn == nil || comma == nil {
		r.undecided(rule, "anchor", "-", "locate validateOp and atomComma", "not found")
		return
	}
	desc := "the decision about the operator ',' does not depend on the requested priority or specifier"
	// parameters that describe the request
	var req []ssa.Value
	for _, p := range fn.Params {
		if isEngNamed(p.Type(), "Integer") || isEngNamed(p.Type(), "operatorSpecifier") {
			req = append(req, p)
		}
	}
	// the arm: blocks reached only across the edge name == atomComma
	isCommaCond := func(cond ssa.Value) bool {
		bo, ok := cond.(*ssa.BinOp)
		if !ok || bo.Op != token.EQL {
			return false
		}
		for _, side := range []ssa.Value{bo.X, bo.Y} {
			if ld, ok := side.(*ssa.UnOp); ok && ld.Op == token.MUL && ld.X == ssa.Value(comma) {
				return true
			}
		}
		return false
	}
	n := 0
	var offending ssa.Instruction
	dep := ""
	found := false
	for _, b := range blocksOf(fn) {
		iff, ok := b.Instrs[len(b.Instrs)-1].(*ssa.If)
		if !ok {
			continue
		}
		if isCommaCond(iff.Cond) {
			found = true
			continue
		}
		// is b inside the arm? unreachable from the entry once the true edges of `name == ','` are cut
		inArm := !reachableAvoiding(fn, b, func(from *ssa.BasicBlock, i int, cond ssa.Value) bool {
			return isCommaCond(cond) && i == 0
		})
		if !inArm {
			continue
		}
		n++
		dataSlice(iff.Cond, func(v ssa.Value) bool {
			for _, q := range req {
				if v == q {
					offending, dep = iff, valName(q)
				}
			}
			return true
		})
	}
	key := fname(fn) + "/comma-arm"
	switch {
	case !found:
		r.bad(rule, key, c.Pos(fn.Pos()), desc, "no arm for the name ',' found in the validation")
	case offending != nil:
		r.bad(rule, key, c.at(offending), desc, "a branch in the arm for ',' depends on the parameter "+dep+": some requested specifiers or priorities get through")
	default:
		r.ok(rule, key, c.Pos(fn.Pos()), desc, fmt.Sprintf("%d branch conditions in the arm, none depends on the request", n), true)
	}
	r.analysed(rule, fname(fn))
}

// ---------------------------------------------------------------------------
// R-OPS-CLASS-LOCAL (C18; added after seed C18d): a name may be an operator in up to three classes (prefix,
// infix, postfix), one table entry holding the three slots. op/3 changes the slot of the class of the given
// specifier and nothing else. Removing the WHOLE entry (delete on the operator table) is therefore done only
// under the fact that every slot of the entry is empty - a comparison of the entry with the zero entry.
// `op(0, fy, -)` deleting the entry for - takes the infix minus with it.

func ruleOpsClassLocal(c *Ctx, r *Report) {
	const rule = "R-OPS-CLASS-LOCAL"
	desc := "a whole entry of the operator table is deleted only when all its class slots are empty"
	isOps := func(t types.Type) bool { return isEngNamed(t, "operators") && !isPtr(t) }
	n := 0
	for _, fn := range c.LibFuncs() {
		if funcPkg(fn) != c.Engine {
			continue
		}
		seen := 0
		eachInstr(fn, func(in ssa.Instruction) {
			ci, ok := in.(ssa.CallInstruction)
			if !ok {
				return
			}
			b, ok := ci.Common().Value.(*ssa.Builtin)
			if !ok || b.Name() != "delete" || len(ci.Common().Args) < 2 || !isOps(ci.Common().Args[0].Type()) {
				return
			}
			n++
			seen++
			key := fmt.Sprintf("%s/delete#%d", fname(fn), seen)
			allEmpty := false
			for f := range c.factsAt(in.Block()) {
				bo, ok := f.cond.(*ssa.BinOp)
				if !ok || (bo.Op != token.EQL && bo.Op != token.NEQ) || (bo.Op == token.EQL) != f.pol {
					continue
				}
				// a comparison of two values of the entry type ([N]operator)
				if arr, ok := bo.X.Type().Underlying().(*types.Array); ok && isEngNamed(arr.Elem(), "operator") {
					allEmpty = true
				}
			}
			if allEmpty {
				r.ok(rule, key, c.at(in), desc, "under the fact entry == zero entry", true)
			} else {
				r.bad(rule, fmt.Sprintf("%s/delete", fname(fn)), c.at(in), desc, "the entry is deleted without knowing that its other class slots are empty: removing a prefix operator removes the infix operator of the same name too")
			}
		})
	}
	if n == 0 {
		r.info(rule, "scan/deletes", "-", desc, "no delete on the operator table (slots are emptied in place)")
	}
	r.analysed(rule, fmt.Sprintf("%d deletes on the operator table", n))
}

// ---------------------------------------------------------------------------
// R-DISCONTIGUOUS-INDEP (C20; added after seed C20d): the clauses of a predicate are consecutive in a text
// unless the predicate is declared discontiguous/1 - for dynamic predicates as well. In the loader's flush
// the branch that raises the discontiguity error does not depend on the predicate's `dynamic` attribute.

func ruleDiscontiguousIndep(c *Ctx, r *Report) {
	const rule = "R-DISCONTIGUOUS-INDEP"
	flush := c.method("text", "flush")
	if flush == nil {
		r.undecided(rule, "anchor:text.flush", "-", "locate text.flush", "not found")
		return
	}
	desc := "the discontiguity check does not depend on whether the predicate is dynamic"
	// the error return: a Return whose error result is a MakeInterface of *discontiguousError
	var errRet ssa.Instruction
	eachInstr(flush, func(in ssa.Instruction) {
		ret, ok := in.(*ssa.Return)
		if !ok || len(ret.Results) != 1 {
			return
		}
		for _, l := range c.originSet(ret.Results[0]) {
			if strings.Contains(l.Type().String(), "discontiguousError") {
				errRet = in
			}
		}
	})
	key := fname(flush) + "/discontiguity-check"
	if errRet == nil {
		r.bad(rule, key, c.Pos(flush.Pos()), desc, "flush never raises the discontiguity error")
		return
	}
	var dep ssa.Value
	for f := range c.factsAt(errRet.Block()) {
		dataSlice(f.cond, func(v ssa.Value) bool {
			if ld, ok := v.(*ssa.UnOp); ok && ld.Op == token.MUL {
				if fa, ok := ld.X.(*ssa.FieldAddr); ok && fieldName(fa) == "dynamic" {
					dep = v
				}
			}
			return true
		})
	}
	// also conditions evaluated in the && chain leading to the error block
	for _, b := range blocksOf(flush) {
		if cnd := ifCond(b); cnd != nil && reachableFromAvoiding(b, errRet.Block(), nil) && b.Dominates(errRet.Block()) {
			dataSlice(cnd, func(v ssa.Value) bool {
				if ld, ok := v.(*ssa.UnOp); ok && ld.Op == token.MUL {
					if fa, ok := ld.X.(*ssa.FieldAddr); ok && fieldName(fa) == "dynamic" {
						dep = v
					}
				}
				return true
			})
		}
	}
	if dep == nil {
		r.ok(rule, key, c.at(errRet), desc, "no branch leading to the error reads the dynamic attribute", true)
	} else {
		r.bad(rule, key, c.at(errRet), desc, "a branch leading to the discontiguity error reads the dynamic attribute: separated runs of a dynamic predicate load silently and replace the earlier definition")
	}
	r.analysed(rule, fname(flush))
}

// ---------------------------------------------------------------------------
// R-PARTIAL-COUNT-EMIT (C10; added after seed C10d): for a partial list in a clause head the compiler emits
// "get a partial list of N elements" followed by the N elements. N is counted by one iteration and the
// elements are emitted by another: both must range over the same value (the proper-list spine of the prefix).
// Counting over the partial list itself also counts the cells of a tail that is bound at compile time: the
// compiled head then stands for a longer list than the stored term.

func rulePartialCountEmit(c *Ctx, r *Report) {
	const rule = "R-PARTIAL-COUNT-EMIT"
	desc := "the count and the emission of a partial list's prefix iterate over the same value"
	n := 0
	for _, name := range []string{"compileHeadArg", "compileBodyArg"} {
		fn := c.method("clause", name)
		if fn == nil {
			r.undecided(rule, "anchor:"+name, "-", "locate clause."+name, "not found")
			continue
		}
		// stores into the List field of ListIterator values built in this function
		var lists [][]ssa.Value
		var at []ssa.Instruction
		eachInstr(fn, func(in ssa.Instruction) {
			st, ok := in.(*ssa.Store)
			if !ok {
				return
			}
			fa, ok := st.Addr.(*ssa.FieldAddr)
			if !ok || fieldName(fa) != "List" || !isEngNamed(deref(fa.X.Type()), "ListIterator") {
				return
			}
			lists = append(lists, c.originSet(st.Val))
			at = append(at, in)
		})
		if len(lists) == 1 {
			// the count may be delegated to a helper that returns an int: it has to be given the value the
			// emitting iterator ranges over (what the helper does with a text is R-TEXT-RUNE's business)
			helper := ""
			eachInstr(fn, func(in ssa.Instruction) {
				call, ok := in.(*ssa.Call)
				if !ok || helper != "" {
					return
				}
				callee := call.Call.StaticCallee()
				if callee == nil || funcPkg(callee) != c.Engine || callee.Signature.Results().Len() != 1 {
					return
				}
				if b, ok := callee.Signature.Results().At(0).Type().Underlying().(*types.Basic); !ok || b.Info()&types.IsInteger == 0 {
					return
				}
				for _, a := range call.Call.Args {
					if sameLeafSetByName(lists[0], c.originSet(a)) {
						helper = callee.Name()
					}
				}
			})
			if helper != "" {
				n++
				r.ok(rule, fname(fn)+"/iterators", c.at(at[0]), desc, "the count is delegated to "+helper+", which is given the value the emitting iterator ranges over", true)
			}
			continue
		}
		if len(lists) < 2 {
			continue
		}
		n++
		key := fname(fn) + "/iterators"
		same := true
		for i := 1; i < len(lists); i++ {
			if !sameLeafSetByName(lists[0], lists[i]) {
				same = false
			}
		}
		if same {
			r.ok(rule, key, c.at(at[0]), desc, fmt.Sprintf("%d iterators over the same value", len(lists)), true)
		} else {
			r.bad(rule, key, c.at(at[len(at)-1]), desc, "the iterators range over different values: the element count and the emitted elements can disagree (a tail bound at compile time is counted as part of the prefix)")
		}
	}
	if n == 0 {
		r.info(rule, "scan/iterators", "-", desc, "no function counts and emits with two iterators")
	}
	r.analysed(rule, fmt.Sprintf("%d functions with a counting and an emitting iterator", n))
}

// sameLeafSetByName: the two origin sets denote the same values (identical SSA values, or loads of the same
// field of the same base).
func sameLeafSetByName(a, b []ssa.Value) bool {
	if len(a) != len(b) || len(a) == 0 {
		return false
	}
	name := func(v ssa.Value) string { return valName(v) + ":" + v.Type().String() }
	m := map[string]int{}
	for _, x := range a {
		m[name(x)]++
	}
	for _, y := range b {
		m[name(y)]--
	}
	for _, k := range m {
		if k != 0 {
			return false
		}
	}
	return true
}

// ---------------------------------------------------------------------------
// R-BAR-INFIX-ONLY (C18; added after seed C18g): "'|' only infix with priority 0 or above 1000".  In the
// validation of op/3 the arm for the name '|' lets a request pass only as an infix operator: every path that
// leaves the arm without raising crosses an edge on which the class of the requested specifier is known to be
// the infix class (cut-set check on the blocks dominated by the arm's entry).  A condition rewritten as
// `infix && p == 0 || p > 1000` lets op(1001, fy, '|') through on the second disjunct.
func ruleBarInfixOnly(c *Ctx, r *Report) {
	const rule = "R-BAR-INFIX-ONLY"
	desc := "a request for the operator '|' passes the validation of op/3 only with an infix specifier"
	fn := c.fn("validateOp")
	bar := c.global("atomBar")
	infixK, _ := c.Engine.Members["operatorClassInfix"].(*ssa.NamedConst)
	if fn == nil || bar == nil || infixK == nil {
		r.undecided(rule, "anchor:validateOp/atomBar/operatorClassInfix", "-", "locate them", "not found")
		return
	}
	infixV, _ := constInt(infixK.Value)
	// the arm: the successor taken when <name> == atomBar
	var entry *ssa.BasicBlock
	for _, b := range blocksOf(fn) {
		bo, ok := ifCond(b).(*ssa.BinOp)
		if !ok || (bo.Op != token.EQL && bo.Op != token.NEQ) {
			continue
		}
		for _, side := range []ssa.Value{bo.X, bo.Y} {
			if ld, ok := side.(*ssa.UnOp); ok && ld.X == ssa.Value(bar) {
				if bo.Op == token.EQL {
					entry = b.Succs[0]
				} else {
					entry = b.Succs[1]
				}
			}
		}
	}
	key := fname(fn) + "/bar-arm"
	if entry == nil {
		r.undecided(rule, key, c.Pos(fn.Pos()), desc, "the arm for '|' was not recognised")
		return
	}
	isClassCall := func(v ssa.Value) bool {
		call, ok := v.(*ssa.Call)
		return ok && call.Call.StaticCallee() != nil && call.Call.StaticCallee().Name() == "class"
	}
	// edge (b, i) establishes class == infix?
	establishes := func(b *ssa.BasicBlock, i int) bool {
		cond := ifCond(b)
		neg := false
		for {
			u, ok := cond.(*ssa.UnOp)
			if !ok || u.Op != token.NOT {
				break
			}
			cond, neg = u.X, !neg
		}
		x, op, k, ok := cmpConst(cond)
		if !ok || k != infixV || !isClassCall(x) {
			return false
		}
		eqOnTrue := (op == token.EQL) != neg
		return (eqOnTrue && i == 0) || (!eqOnTrue && i == 1)
	}
	// the walk knows the value of a boolean phi whose incoming edge carries a constant (conditions computed as
	// values: `bad := a || b; if bad {`), so that it does not follow the branch that contradicts it
	type state struct {
		b     *ssa.BasicBlock
		known string
	}
	seen := map[state]bool{}
	var leak *ssa.BasicBlock
	var walk func(b *ssa.BasicBlock, from *ssa.BasicBlock, known map[ssa.Value]bool)
	walk = func(b *ssa.BasicBlock, from *ssa.BasicBlock, known map[ssa.Value]bool) {
		if leak != nil {
			return
		}
		nk := map[ssa.Value]bool{}
		for k, v := range known {
			nk[k] = v
		}
		if from != nil {
			idx := -1
			for i, p := range b.Preds {
				if p == from {
					idx = i
				}
			}
			for _, in := range b.Instrs {
				phi, ok := in.(*ssa.Phi)
				if !ok {
					break
				}
				delete(nk, phi)
				if idx >= 0 {
					if k, ok := phi.Edges[idx].(*ssa.Const); ok && k.Value != nil && k.Value.Kind() == constant.Bool {
						nk[phi] = constant.BoolVal(k.Value)
					} else if v, ok := nk[phi.Edges[idx]]; ok {
						nk[phi] = v
					}
				}
			}
		}
		var ks []string
		for k, v := range nk {
			ks = append(ks, fmt.Sprintf("%s=%v", k.Name(), v))
		}
		sort.Strings(ks)
		st := state{b, strings.Join(ks, ",")}
		if seen[st] {
			return
		}
		seen[st] = true
		if !(b == entry || entry.Dominates(b)) {
			leak = b // left the arm without the infix edge
			return
		}
		if _, isRet := b.Instrs[len(b.Instrs)-1].(*ssa.Return); isRet {
			return // raising (or any return inside the arm) is not "passing"
		}
		cond := ifCond(b)
		neg := false
		for cond != nil {
			u, ok := cond.(*ssa.UnOp)
			if !ok || u.Op != token.NOT {
				break
			}
			cond, neg = u.X, !neg
		}
		for i, s := range b.Succs {
			if establishes(b, i) {
				continue
			}
			if v, ok := nk[cond]; ok && cond != nil && len(b.Succs) == 2 {
				takesTrue := v != neg
				if (i == 0) != takesTrue {
					continue // contradicts what is known about the condition
				}
			}
			// taking this edge teaches the value of the condition itself
			k2 := nk
			if cond != nil && len(b.Succs) == 2 {
				k2 = map[ssa.Value]bool{}
				for k, v := range nk {
					k2[k] = v
				}
				k2[cond] = (i == 0) != neg
			}
			walk(s, b, k2)
		}
	}
	walk(entry, nil, map[ssa.Value]bool{})
	if leak == nil {
		r.ok(rule, key, c.at(entry.Instrs[0]), desc, "cut-set check: without the edges on which the class is known infix the arm cannot be left except by a return", true)
	} else {
		r.bad(rule, key, c.at(entry.Instrs[0]), desc, "the arm can be left towards "+c.at(leak.Instrs[0])+" on a path that never learnt that the class is infix: a prefix or postfix '|' is accepted for some priority")
	}
	r.analysed(rule, fname(fn))
}

// ---------------------------------------------------------------------------
// R-VALIDATE-WHOLE (C18; added after seed C18h): "never an infix and a postfix operator of the same name" is
// decided by validateOp before anything is stored. A validation that walks over the existing definitions has to
// look at all of them: no success return (a nil result) is taken from the middle of a loop - a `return nil`
// where `continue` was meant accepts the new operator as soon as one compatible definition was seen (a name that
// is already a prefix operator can then become infix AND postfix).
func ruleValidateWhole(c *Ctx, r *Report) {
	const rule = "R-VALIDATE-WHOLE"
	desc := "the validation of an operator definition does not answer `fine` from inside a loop over the existing definitions"
	fn := c.fn("validateOp")
	if fn == nil {
		r.undecided(rule, "anchor:validateOp", "-", desc, "not found")
		return
	}
	// loop bodies
	inLoop := map[*ssa.BasicBlock]bool{}
	for _, h := range blocksOf(fn) {
		back := false
		for _, p := range h.Preds {
			if h.Dominates(p) {
				back = true
			}
		}
		if !back {
			continue
		}
		for _, b := range blocksOf(fn) {
			if b != h && h.Dominates(b) && reachableFromAvoiding2(b, h) {
				inLoop[b] = true
			}
		}
	}
	var bad ssa.Instruction
	nret := 0
	eachInstr(fn, func(in ssa.Instruction) {
		ret, ok := in.(*ssa.Return)
		if !ok || len(ret.Results) == 0 {
			return
		}
		success := false
		for _, l := range c.originSet(ret.Results[len(ret.Results)-1]) {
			if isNilConst(l) {
				success = true
			}
		}
		if !success {
			return
		}
		nret++
		for _, p := range in.Block().Preds {
			if inLoop[p] {
				bad = in
			}
		}
		if inLoop[in.Block()] {
			bad = in
		}
	})
	key := fname(fn) + "/success-returns"
	switch {
	case nret == 0:
		r.undecided(rule, key, c.Pos(fn.Pos()), desc, "no success return found")
	case bad != nil:
		r.bad(rule, key, c.at(bad), desc, "a success return is reached from inside a loop: the remaining definitions are not looked at, and a combination the table must never hold is accepted")
	default:
		r.ok(rule, key, c.Pos(fn.Pos()), desc, fmt.Sprintf("%d success return(s), none from inside a loop", nret), true)
	}
	r.analysed(rule, fname(fn))
}

// ---------------------------------------------------------------------------
// R-COMPILE-BODY-SOURCE (C03, C10; added after seed C03h): "the compiled form of a clause denotes its source term
// (same body goals in order)" and a cut in it is the cut the source has. The function that turns a clause term
// into stored clauses hands the clause compiler only PARTS of that term: the head and body it passes to
// compileClause come from Arg(...) of the clause term, from the alternatives iterator, from the term itself or are
// nil - never from a term constructor. A body that compile builds itself ("(If -> Then) is call(If), !, Then")
// puts a clause-level cut where the source has the local cut of ->/2: the predicate's remaining clauses are cut away.
func ruleCompileBodySource(c *Ctx, r *Report) {
	const rule = "R-COMPILE-BODY-SOURCE"
	desc := "the clause compiler is handed parts of the source clause, not terms built on the way"
	fn := c.fn("compile")
	cc := c.fn("compileClause")
	if fn == nil || cc == nil {
		r.undecided(rule, "anchor:compile/compileClause", "-", desc, "not found")
		return
	}
	n := 0
	eachInstr(fn, func(in ssa.Instruction) {
		call, ok := in.(*ssa.Call)
		if !ok || call.Call.StaticCallee() != cc {
			return
		}
		for ai, a := range call.Call.Args {
			if !isEngNamed(a.Type(), "Term") {
				continue
			}
			n++
			key := fmt.Sprintf("%s/compileClause#%d.arg%d", fname(fn), (n+1)/2, ai)
			bad := ""
			for _, l := range c.originSet(a) {
				switch x := l.(type) {
				case *ssa.Parameter:
				case *ssa.Const:
					if !x.IsNil() {
						bad = "a constant"
					}
				case *ssa.Call:
					switch {
					case x.Call.IsInvoke() && x.Call.Method.Name() == "Arg":
					case x.Call.StaticCallee() != nil && x.Call.StaticCallee().Name() == "Current" && recvNamed(x.Call.StaticCallee()) == "altIterator":
					case x.Call.StaticCallee() != nil && x.Call.StaticCallee().Name() == "Resolve" && recvNamed(x.Call.StaticCallee()) == "Env":
					default:
						bad = "the result of " + calleeName(x.Common())
					}
				case *ssa.Extract:
					// comma-ok assertion of a part of the term
					if ta, ok := x.Tuple.(*ssa.TypeAssert); ok {
						_ = ta
					} else {
						bad = "a value of " + valName(l)
					}
				default:
					bad = "a value of " + valName(l)
				}
			}
			if bad == "" {
				r.ok(rule, key, c.at(in), desc, "a part of the clause term (Arg, the alternatives iterator, the term itself) or nil", true)
			} else {
				r.bad(rule, key, c.at(in), desc, "the clause compiler is given "+bad+": a body assembled by compile itself does not denote the source (a cut put there cuts the predicate's other clauses, which the source's ->/2 never does)")
			}
		}
	})
	if n == 0 {
		r.undecided(rule, fname(fn)+"/compileClause", c.Pos(fn.Pos()), desc, "no call of compileClause in compile")
	}
	r.analysed(rule, fname(fn))
}

// ---------------------------------------------------------------------------
// R-PRIORITY-DOMAIN (C18; added after seed C18i): op/3 accepts priorities 0..1200, so 0..1200 is what current_op/3
// can be asked about: "current_op/3 enumerates exactly the table" in every instantiation pattern. Wherever
// domain_error(operator_priority, _) is raised for an integer, the values that get past the test are exactly
// 0..1200: on the other branch of the deciding test the branch facts bound the integer by 0 below and 1200 above.
func rulePriorityDomain(c *Ctx, r *Report) {
	const rule = "R-PRIORITY-DOMAIN"
	desc := "the integers accepted as an operator priority are exactly 0..1200"
	de := c.fn("domainError")
	kc, _ := c.Engine.Members["validDomainOperatorPriority"].(*ssa.NamedConst)
	if de == nil || kc == nil {
		r.undecided(rule, "anchor:domainError/validDomainOperatorPriority", "-", desc, "not found")
		return
	}
	want, _ := constInt(kc.Value)
	n := 0
	for _, fn := range c.LibFuncs() {
		if funcPkg(fn) != c.Engine {
			continue
		}
		k := 0
		eachInstr(fn, func(in ssa.Instruction) {
			call, ok := in.(*ssa.Call)
			if !ok || call.Call.StaticCallee() != de || len(call.Call.Args) == 0 {
				return
			}
			if kv, ok := constInt(call.Call.Args[0]); !ok || kv != want {
				return
			}
			// the tests that lead here: the predecessors of this block end in comparisons of one Integer with
			// constants (p < 0 || p > 1200 is two blocks); the accepting branch is the successor of such a test
			// that is neither this block nor another test of the chain
			var v ssa.Value
			chain := map[*ssa.BasicBlock]bool{}
			for _, p := range in.Block().Preds {
				if x, _, _, ok := cmpConst(ifCond(p)); ok && isEngNamed(x.Type(), "Integer") {
					v = x
					chain[p] = true
				}
			}
			// `switch { case p < 0 || p > 1200: }` makes the disjunction a VALUE: the branch is on a phi whose constant
			// edges come from the tests that were true and whose last edge is the last test itself
			phiFacts := map[fact]bool{}
			if v == nil {
				for _, p := range in.Block().Preds {
					phi, ok := ifCond(p).(*ssa.Phi)
					if !ok || len(p.Succs) != 2 || p.Succs[0] != in.Block() {
						continue
					}
					okAll := true
					for i, e := range phi.Edges {
						if kc, isConst := e.(*ssa.Const); isConst {
							q := phi.Block().Preds[i]
							x, _, _, ok := cmpConst(ifCond(q))
							if !ok || !isEngNamed(x.Type(), "Integer") || kc.Value == nil || !constant.BoolVal(kc.Value) || len(q.Succs) != 2 {
								okAll = false
								continue
							}
							v = x
							phiFacts[fact{ifCond(q), false}] = true
						} else if x, _, _, ok := cmpConst(e); ok && isEngNamed(x.Type(), "Integer") {
							v = x
							phiFacts[fact{e, false}] = true
						} else {
							okAll = false
						}
					}
					if !okAll {
						v = nil
					}
				}
			}
			if v == nil {
				return // raised for a non-integer (the type was wrong): nothing about the range here
			}
			var accept *ssa.BasicBlock
			for p := range chain {
				for _, s := range p.Succs {
					if s != in.Block() && !chain[s] {
						accept = s
					}
				}
			}
			if accept == nil && len(phiFacts) == 0 {
				return
			}
			n++
			k++
			key := fmt.Sprintf("%s/priority-test#%d", fname(fn), k)
			// what is known on the accepting path: every test of the chain came out the way that does not lead here
			acc := map[fact]bool{}
			for p := range chain {
				if len(p.Succs) == 2 {
					acc[fact{ifCond(p), p.Succs[0] != in.Block()}] = true
				}
			}
			for f := range phiFacts {
				acc[f] = true
			}
			rg := c.rangeFromFacts(acc, v)
			if rg.hasLo && rg.lo == 0 && rg.hasHi && rg.hi == 1200 {
				r.ok(rule, key, c.at(in), desc, "past the test the integer is known to lie in 0..1200", true)
			} else {
				lo, hi := "-inf", "+inf"
				if rg.hasLo {
					lo = fmt.Sprint(rg.lo)
				}
				if rg.hasHi {
					hi = fmt.Sprint(rg.hi)
				}
				r.bad(rule, key, c.at(in), desc, "past the test the integer is known to lie in "+lo+".."+hi+", not 0..1200: a priority op/3 accepts is refused here (or one it refuses is accepted), so the table is reported differently depending on how the priority argument is instantiated")
			}
		})
	}
	if n == 0 {
		r.undecided(rule, "scan/priority-tests", "-", desc, "no range test that raises domain_error(operator_priority, _) found")
	}
}

// ---------------------------------------------------------------------------
// R-LOOP-ERR-CHECKED (C20, C10; added after seed C20j): "a non-callable clause" fails a load whichever goal of the
// body is the culprit. In the clause compiler (the methods of clause), an error returned by a call made inside a
// loop is looked at inside that loop: the extracted error has a use in a condition (or a return) within the cycle.
// An error that is only stored and tested after the loop is overwritten by the next round - `h :- 1, a.` loads.
func ruleLoopErrChecked(c *Ctx, r *Report) {
	const rule = "R-LOOP-ERR-CHECKED"
	desc := "an error produced in a loop of the clause compiler is examined in that loop"
	n := 0
	for _, fn := range c.LibFuncs() {
		if funcPkg(fn) != c.Engine || recvNamed(fn) != "clause" || fn.Parent() != nil {
			continue
		}
		k := 0
		eachInstr(fn, func(in ssa.Instruction) {
			call, ok := in.(*ssa.Call)
			if !ok || !reachableFromSucc(call.Block(), call.Block()) {
				return
			}
			res := call.Call.Signature().Results()
			if res.Len() == 0 || !isErrorType(res.At(res.Len()-1).Type()) {
				return
			}
			callee := call.Call.StaticCallee()
			if callee == nil || !c.isLibPkg(funcPkg(callee)) {
				return
			}
			var errV ssa.Value = call
			if res.Len() > 1 {
				errV = nil
				for _, ref := range *call.Referrers() {
					if e, ok := ref.(*ssa.Extract); ok && e.Index == res.Len()-1 {
						errV = e
					}
				}
			}
			n++
			k++
			key := fmt.Sprintf("%s/%s#%d", fname(fn), c.stableFuncName(callee), k)
			checked := false
			if errV != nil {
				for _, ref := range *errV.Referrers() {
					switch x := ref.(type) {
					case *ssa.BinOp:
						// compared (with nil) in a block of the same cycle
						b := x.Block()
						if b == call.Block() || (reachableFromSucc(b, call.Block()) && reachableFromSucc(call.Block(), b)) {
							checked = true
						}
					case *ssa.Return:
						checked = true
					}
				}
			}
			if checked {
				r.ok(rule, key, c.at(in), desc, "the error is compared or returned inside the loop", true)
			} else {
				r.bad(rule, key, c.at(in), desc, "the error of this call is not looked at before the next round of the loop overwrites it: a goal that is not callable is forgotten unless it is the last one (bar(X) :- 1, foo(X). loads as bar(X) :- foo(X).)")
			}
		})
	}
	if n == 0 {
		r.undecided(rule, "scan/loop-calls", "-", desc, "no error-returning call inside a loop of the clause compiler")
	}
}

// ---------------------------------------------------------------------------
// R-SPEC-TABLE-INVERSE (C18; added after seed C18j): op/3 turns the specifier ATOM into the internal specifier with
// one table, current_op/3 and the writer turn it back with another (operatorSpecifier.Term). "current_op/3
// enumerates exactly the table" requires the two to be inverse: for every entry atom -> specifier of the forward
// map, the reverse array maps that specifier to the same atom. (Both tables are read from their initialisers.)
func ruleSpecTableInverse(c *Ctx, r *Report) {
	const rule = "R-SPEC-TABLE-INVERSE"
	desc := "the table from specifier atoms to specifiers and the one back are inverse"
	fwd := c.global("operatorSpecifiers")
	term := c.method("operatorSpecifier", "term")
	if fwd == nil || term == nil {
		r.undecided(rule, "anchor:operatorSpecifiers/operatorSpecifier.Term", "-", desc, "not found")
		return
	}
	// forward: MapUpdate instructions on the global's map in the package initialiser: key = load of an atom global
	forward := map[string]int64{} // atom global name -> specifier value
	for _, fn := range c.LibFuncs() {
		if !isInitFn(fn) {
			continue
		}
		eachInstr(fn, func(in ssa.Instruction) {
			mu, ok := in.(*ssa.MapUpdate)
			if !ok {
				return
			}
			stored := false
			for _, ref := range *mu.Map.Referrers() {
				if st, ok := ref.(*ssa.Store); ok && st.Addr == ssa.Value(fwd) {
					stored = true
				}
			}
			if !stored {
				return
			}
			ld, ok := mu.Key.(*ssa.UnOp)
			if !ok {
				return
			}
			g, ok := ld.X.(*ssa.Global)
			if !ok {
				return
			}
			if v, ok := constInt(mu.Value); ok {
				forward[c.stableGlobalName(g)] = v
			}
		})
	}
	// reverse: the array literal in Term(): stores of loads of atom globals at constant indices
	reverse := map[int64]string{}
	eachInstr(term, func(in ssa.Instruction) {
		st, ok := in.(*ssa.Store)
		if !ok {
			return
		}
		ia, ok := st.Addr.(*ssa.IndexAddr)
		if !ok {
			return
		}
		idx, ok := constInt(ia.Index)
		if !ok {
			return
		}
		v := st.Val
		if mi, ok := v.(*ssa.MakeInterface); ok {
			v = mi.X
		}
		if ld, ok := v.(*ssa.UnOp); ok && ld.Op == token.MUL {
			if g, ok := ld.X.(*ssa.Global); ok {
				reverse[idx] = c.stableGlobalName(g)
			}
		}
	})
	if len(forward) == 0 || len(reverse) == 0 {
		r.undecided(rule, "tables", c.Pos(fwd.Pos()), desc, fmt.Sprintf("could not read the tables (forward %d entries, reverse %d)", len(forward), len(reverse)))
		return
	}
	var names []string
	for a := range forward {
		names = append(names, a)
	}
	sort.Strings(names)
	for _, a := range names {
		key := "operatorSpecifiers[" + a + "]"
		if back, ok := reverse[forward[a]]; ok && back == a {
			r.ok(rule, key, c.Pos(fwd.Pos()), desc, "maps to a specifier that maps back to it", true)
		} else {
			r.bad(rule, key, c.Pos(fwd.Pos()), desc, fmt.Sprintf("%s maps to a specifier whose atom is %q: op/3 stores another specifier than the one it was given, and current_op/3 reports that one", a, reverse[forward[a]]))
		}
	}
}
