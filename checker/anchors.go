package main

import (
	"encoding/json"
	"fmt"
	"go/constant"
	"go/types"
	"os"
	"path/filepath"
	"sort"
	"strings"

	"golang.org/x/tools/go/ssa"
)

// Renamed anchors.
//
// Many rules find "their" function by name (c.fn, c.method, c.global).  A rename is a behaviour-preserving
// edit; an anchor that is no longer found makes the rule UNDECIDED, which fails the check - an alarm on code in
// which the property holds.  To avoid that without guessing, /verif/anchors.json (committed; written only by
// `pvcheck -anchors`, never at check time) records for every function and method of the two library packages
// a fingerprint taken on the tree the rules were confirmed on: its signature and the names of the library
// functions it statically calls and is statically called by; and for every package-level atom variable the
// name it interns.  When a lookup by name fails, the function is re-identified as the UNIQUE function of today's
// tree that has the recorded signature, whose own name is not a name the baseline knows (so it is new), and
// whose caller/callee neighbourhood agrees with the recorded one to at least 60% (Jaccard, the missing names
// mapped consistently), with a clear margin to the runner-up; an atom variable is re-identified by the text it
// interns.  Anything less certain stays unresolved, as before.  Every re-identification is printed in the
// evidence ("anchor X resolved to Y").

type anchorFP struct {
	Sig     string   `json:"sig"`
	Callees []string `json:"callees,omitempty"`
	Callers []string `json:"callers,omitempty"`
}

type anchorFile struct {
	Comment string              `json:"comment"`
	Funcs   map[string]anchorFP `json:"funcs"`   // key: pkg.Name or pkg.(Recv).Name
	Atoms   map[string]string   `json:"atoms"`   // global variable name -> interned text
	Globals map[string]string   `json:"globals"` // every other package-level variable of the engine -> its type
}

func anchorKey(fn *ssa.Function) string {
	pkg := "engine"
	if fn.Pkg != nil && fn.Pkg.Pkg.Path() == rootPkgPath {
		pkg = "root"
	}
	if recv := fn.Signature.Recv(); recv != nil {
		tn := typeName(deref(recv.Type()))
		tn = tn[strings.LastIndex(tn, ".")+1:]
		return pkg + ".(" + tn + ")." + fn.Name()
	}
	return pkg + "." + fn.Name()
}

func (c *Ctx) fingerprints() (map[string]anchorFP, map[*ssa.Function]string) {
	fps := map[string]anchorFP{}
	keyOf := map[*ssa.Function]string{}
	var fns []*ssa.Function
	for _, fn := range c.LibFuncs() {
		if fn.Parent() == nil && fn.Synthetic == "" && c.isLibPkg(funcPkg(fn)) {
			fns = append(fns, fn)
			keyOf[fn] = anchorKey(fn)
		}
	}
	callees := map[*ssa.Function]map[string]bool{}
	callers := map[*ssa.Function]map[string]bool{}
	for _, fn := range fns {
		for _, f := range withAnon(fn) {
			eachInstr(f, func(in ssa.Instruction) {
				ci, ok := in.(ssa.CallInstruction)
				if !ok {
					return
				}
				callee := ci.Common().StaticCallee()
				if callee == nil || keyOf[topFunc(callee)] == "" || topFunc(callee) == fn {
					return
				}
				t := topFunc(callee)
				if callees[fn] == nil {
					callees[fn] = map[string]bool{}
				}
				if callers[t] == nil {
					callers[t] = map[string]bool{}
				}
				callees[fn][keyOf[t]] = true
				callers[t][keyOf[fn]] = true
			})
		}
	}
	list := func(m map[string]bool) []string {
		var out []string
		for k := range m {
			out = append(out, k)
		}
		sort.Strings(out)
		return out
	}
	for _, fn := range fns {
		fps[keyOf[fn]] = anchorFP{Sig: types.TypeString(fn.Signature, func(p *types.Package) string { return p.Name() }), Callees: list(callees[fn]), Callers: list(callers[fn])}
	}
	return fps, keyOf
}

func (c *Ctx) atomTexts() map[string]string {
	out := map[string]string{}
	newAtom := c.Engine.Func("NewAtom")
	for _, fn := range c.LibFuncs() {
		if !isInitFn(fn) || funcPkg(fn) != c.Engine {
			continue
		}
		eachInstr(fn, func(in ssa.Instruction) {
			st, ok := in.(*ssa.Store)
			if !ok {
				return
			}
			g, ok := st.Addr.(*ssa.Global)
			if !ok {
				return
			}
			call, ok := st.Val.(*ssa.Call)
			if !ok || call.Call.StaticCallee() != newAtom || len(call.Call.Args) != 1 {
				return
			}
			if k, ok := call.Call.Args[0].(*ssa.Const); ok && k.Value != nil && k.Value.Kind() == constant.String {
				out[g.Name()] = constant.StringVal(k.Value)
			}
		})
	}
	return out
}

func writeAnchors(c *Ctx, path string) error {
	fps, _ := c.fingerprints()
	globals := map[string]string{}
	atoms := c.atomTexts()
	for name, m := range c.Engine.Members {
		if g, ok := m.(*ssa.Global); ok && atoms[name] == "" && !strings.Contains(name, "$") {
			globals[name] = typeName(deref(g.Type()))
		}
	}
	af := anchorFile{Globals: globals, Comment: "fingerprints of the library's functions on the tree the rules were confirmed on; written by `pvcheck -anchors`, read only when an anchor is not found by name (checker/anchors.go)", Funcs: fps, Atoms: c.atomTexts()}
	b, err := json.MarshalIndent(af, "", " ")
	if err != nil {
		return err
	}
	return os.WriteFile(path, b, 0o644)
}

var anchorNotes []string

func (c *Ctx) loadAnchors() *anchorFile {
	if c.anchors != nil {
		return c.anchors
	}
	c.anchors = &anchorFile{}
	b, err := os.ReadFile(filepath.Join(verifDir(), "anchors.json"))
	if err == nil {
		_ = json.Unmarshal(b, c.anchors)
	}
	return c.anchors
}

// refind: the function the baseline knows as `key`, under whatever name it has today.
func (c *Ctx) refind(key string) *ssa.Function {
	if f, ok := c.refound[key]; ok {
		return f
	}
	if c.refound == nil {
		c.refound = map[string]*ssa.Function{}
	}
	c.refound[key] = nil
	af := c.loadAnchors()
	want, ok := af.Funcs[key]
	if !ok {
		return nil
	}
	fps, keyOf := c.fingerprints()
	// names that vanished / appeared
	gone := map[string]bool{}
	for k := range af.Funcs {
		if _, ok := fps[k]; !ok {
			gone[k] = true
		}
	}
	sim := func(a, b []string) (inter, union int) {
		m := map[string]bool{}
		for _, x := range a {
			if !gone[x] {
				m[x] = true
			}
		}
		n := map[string]bool{}
		for _, x := range b {
			if _, known := af.Funcs[x]; known {
				n[x] = true
			}
		}
		for x := range m {
			if n[x] {
				inter++
			}
		}
		union = len(m) + len(n) - inter
		return
	}
	type cand struct {
		fn    *ssa.Function
		score float64
	}
	var cands []cand
	prefix := key[:strings.LastIndex(key, ".")+1]
	for fn, k := range keyOf {
		if _, known := af.Funcs[k]; known {
			continue // a function the baseline knows under this name is itself
		}
		if !strings.HasPrefix(k, prefix) || fps[k].Sig != want.Sig {
			continue
		}
		i1, u1 := sim(want.Callees, fps[k].Callees)
		i2, u2 := sim(want.Callers, fps[k].Callers)
		score := 1.0
		if u1+u2 > 0 {
			score = float64(i1+i2) / float64(u1+u2)
		}
		cands = append(cands, cand{fn, score})
	}
	sort.Slice(cands, func(i, j int) bool { return cands[i].score > cands[j].score })
	if len(cands) == 0 || cands[0].score < 0.6 || (len(cands) > 1 && cands[0].score-cands[1].score < 0.2) {
		return nil
	}
	c.refound[key] = cands[0].fn
	anchorNotes = append(anchorNotes, fmt.Sprintf("anchor %s not found by name: resolved to %s (same signature, neighbourhood agreement %.0f%%)", key, keyOf[cands[0].fn], cands[0].score*100))
	return cands[0].fn
}

func (c *Ctx) refindAtom(name string) *ssa.Global {
	af := c.loadAnchors()
	text, ok := af.Atoms[name]
	if !ok {
		// another kind of variable: the unique variable of the recorded type that the baseline does not know
		typ, ok := af.Globals[name]
		if !ok {
			return nil
		}
		var found *ssa.Global
		n := 0
		for gname, m := range c.Engine.Members {
			g, isG := m.(*ssa.Global)
			if !isG || af.Globals[gname] != "" || af.Atoms[gname] != "" || strings.Contains(gname, "$") {
				continue
			}
			if typeName(deref(g.Type())) == typ {
				found = g
				n++
			}
		}
		if n != 1 {
			return nil
		}
		anchorNotes = append(anchorNotes, fmt.Sprintf("anchor %s not found by name: resolved to %s (the only new variable of type %s)", name, found.Name(), typ))
		return found
	}
	var found *ssa.Global
	n := 0
	for g, t := range c.atomTexts() {
		if t == text {
			if gv, ok := c.Engine.Members[g].(*ssa.Global); ok {
				found = gv
				n++
			}
		}
	}
	if n != 1 {
		return nil
	}
	anchorNotes = append(anchorNotes, fmt.Sprintf("anchor %s not found by name: resolved to %s (interns the same text %q)", name, found.Name(), text))
	return found
}

// baselineName: the name under which the baseline knows fn ("" if fn has its baseline name or is unknown).  Rules
// that key allow-lists by function name ask for it so that a renamed function keeps its entry.
func (c *Ctx) baselineName(fn *ssa.Function) string {
	af := c.loadAnchors()
	if len(af.Funcs) == 0 {
		return ""
	}
	k := anchorKey(fn)
	if _, known := af.Funcs[k]; known {
		return ""
	}
	prefix := k[:strings.LastIndex(k, ".")+1]
	_, keyOf := c.fingerprints()
	present := map[string]bool{}
	for _, kk := range keyOf {
		present[kk] = true
	}
	for old := range af.Funcs {
		if present[old] || !strings.HasPrefix(old, prefix) {
			continue
		}
		if c.refind(old) == fn {
			return old[strings.LastIndex(old, ".")+1:]
		}
	}
	return ""
}

// stableGlobalName: the name of a package-level variable as the rules know it. (Atom globals that were renamed are
// re-identified by their interned text; here the two tables of a rule only have to use the SAME name for the same
// variable, so the current name will do.)
func (c *Ctx) stableGlobalName(g *ssa.Global) string {
	return g.Name()
}
