package main

import (
	"fmt"
	"go/constant"
	"go/token"
	"go/types"
	"sort"
	"strings"

	"golang.org/x/tools/go/ssa"
)

// ---------------------------------------------------------------------------
// R-DCG-THREAD (C17): every grammar construct threads the two hidden arguments from `list` to `rest`.

// variadicElems returns the elements of the implicit slice of a variadic call argument.
func variadicElems(v ssa.Value) []ssa.Value {
	sl, ok := v.(*ssa.Slice)
	if !ok {
		return nil
	}
	al, ok := sl.X.(*ssa.Alloc)
	if !ok {
		return nil
	}
	at, ok := deref(al.Type()).Underlying().(*types.Array)
	if !ok {
		return nil
	}
	out := make([]ssa.Value, at.Len())
	for _, ref := range *al.Referrers() {
		ia, ok := ref.(*ssa.IndexAddr)
		if !ok {
			continue
		}
		k, ok := constInt(ia.Index)
		if !ok || int(k) >= len(out) {
			continue
		}
		for _, r2 := range *ia.Referrers() {
			if st, ok := r2.(*ssa.Store); ok && st.Addr == ssa.Value(ia) {
				out[k] = st.Val
			}
		}
	}
	return out
}

type dcgGraph struct {
	c     *Ctx
	fn    *ssa.Function
	edges map[ssa.Value][]ssa.Value
	undir map[ssa.Value][]ssa.Value
	fresh []ssa.Value
	uses  map[ssa.Value]int
	eq    map[[2]ssa.Value]bool // explicit A = B goals
}

func (g *dcgGraph) norm(v ssa.Value) ssa.Value {
	for i := 0; i < 8 && v != nil; i++ {
		switch x := v.(type) {
		case *ssa.MakeInterface:
			v = x.X
		case *ssa.ChangeInterface:
			v = x.X
		case *ssa.Call:
			if f := x.Call.StaticCallee(); f != nil {
				switch f.Name() {
				case "NewVariable":
					return x
				case "PartialList":
					// list = [elems|tail]: the hidden argument continues at the tail
					v = x.Call.Args[0]
					continue
				}
			}
			return nil
		case *ssa.Parameter:
			return x
		case *ssa.UnOp:
			// load of a captured/local variable cell holding a parameter or fresh variable
			if x.Op == token.MUL {
				if cell := g.c.varCell(x.X); cell != nil {
					sts := g.c.storesTo(cell)
					if len(sts) == 1 {
						v = sts[0].Val
						continue
					}
				}
			}
			return nil
		default:
			return nil
		}
	}
	return nil
}

func (g *dcgGraph) edge(a, b ssa.Value, both bool) {
	na, nb := g.norm(a), g.norm(b)
	if na == nil || nb == nil {
		return
	}
	g.uses[na]++
	g.uses[nb]++
	g.edges[na] = append(g.edges[na], nb)
	g.undir[na] = append(g.undir[na], nb)
	g.undir[nb] = append(g.undir[nb], na)
	if both {
		g.edges[nb] = append(g.edges[nb], na)
		if g.eq == nil {
			g.eq = map[[2]ssa.Value]bool{}
		}
		g.eq[[2]ssa.Value{na, nb}] = true
		g.eq[[2]ssa.Value{nb, na}] = true
	}
}

func (g *dcgGraph) reach(from ssa.Value, m map[ssa.Value][]ssa.Value) map[ssa.Value]bool {
	seen := map[ssa.Value]bool{from: true}
	st := []ssa.Value{from}
	for len(st) > 0 {
		x := st[len(st)-1]
		st = st[:len(st)-1]
		for _, y := range m[x] {
			if !seen[y] {
				seen[y] = true
				st = append(st, y)
			}
		}
	}
	return seen
}

// isDCGTranslator: signature (Term, Term, Term, *Env) (Term, error)
func (c *Ctx) isDCGTranslatorSig(sig *types.Signature) bool {
	if sig.Params().Len() != 4 || sig.Results().Len() != 2 {
		return false
	}
	for i := 0; i < 3; i++ {
		if !isEngNamed(sig.Params().At(i).Type(), "Term") {
			return false
		}
	}
	return c.isEnvPtr(sig.Params().At(3).Type()) && isEngNamed(sig.Results().At(0).Type(), "Term")
}

// isDCGConstrSig: signature ([]Term, Term, Term, *Env) (Term, error)
func (c *Ctx) isDCGConstrSig(sig *types.Signature) bool {
	if sig.Params().Len() != 4 || sig.Results().Len() != 2 {
		return false
	}
	if _, ok := sig.Params().At(0).Type().Underlying().(*types.Slice); !ok {
		return false
	}
	return isEngNamed(sig.Params().At(1).Type(), "Term") && isEngNamed(sig.Params().At(2).Type(), "Term") && c.isEnvPtr(sig.Params().At(3).Type())
}

func (c *Ctx) buildDCGGraph(fn *ssa.Function) *dcgGraph {
	g := &dcgGraph{c: c, fn: fn, edges: map[ssa.Value][]ssa.Value{}, undir: map[ssa.Value][]ssa.Value{}, uses: map[ssa.Value]int{}}
	equal := c.global("atomEqual")
	eachInstr(fn, func(in ssa.Instruction) {
		call, ok := in.(*ssa.Call)
		if !ok {
			return
		}
		cc := &call.Call
		callee := cc.StaticCallee()
		if callee != nil && callee.Name() == "NewVariable" {
			g.fresh = append(g.fresh, call)
			return
		}
		// (a) sub-translations
		var sig *types.Signature
		if callee != nil {
			sig = callee.Signature
		} else if !cc.IsInvoke() {
			sig, _ = cc.Value.Type().Underlying().(*types.Signature)
		}
		if sig != nil && sig.Recv() == nil && c.isDCGTranslatorSig(sig) && len(cc.Args) == 4 {
			g.edge(cc.Args[1], cc.Args[2], false)
			return
		}
		if sig != nil && c.isDCGConstrSig(sig) && len(cc.Args) == 4 {
			g.edge(cc.Args[1], cc.Args[2], false)
			return
		}
		// (b) constructed goals
		if callee != nil && callee.Name() == "Apply" && callee.Signature.Recv() != nil && len(cc.Args) == 2 {
			elems := variadicElems(cc.Args[1])
			recvIsEqual := false
			if ld, ok := cc.Args[0].(*ssa.UnOp); ok && ld.Op == token.MUL && equal != nil && ld.X == ssa.Value(equal) {
				recvIsEqual = true
			}
			switch {
			case recvIsEqual && len(elems) == 2:
				g.edge(elems[0], elems[1], true)
			case !recvIsEqual && len(elems) >= 3:
				g.edge(elems[len(elems)-2], elems[len(elems)-1], false)
			}
			return
		}
		// (d) append(args, list, rest)
		if b, ok := cc.Value.(*ssa.Builtin); ok && b.Name() == "append" && len(cc.Args) == 2 {
			if elems := variadicElems(cc.Args[1]); len(elems) == 2 {
				g.edge(elems[0], elems[1], false)
			}
		}
	})
	return g
}

func ruleDCGThread(c *Ctx, r *Report) {
	const rule = "R-DCG-THREAD"
	var fns []*ssa.Function
	for _, fn := range c.LibFuncs() {
		if funcPkg(fn) != c.Engine {
			continue
		}
		sig := fn.Signature
		if sig.Recv() != nil {
			continue
		}
		if c.isDCGConstrSig(sig) || (c.isDCGTranslatorSig(sig) && fn.Parent() == nil) {
			fns = append(fns, fn)
		}
	}
	if len(fns) < 10 {
		r.undecided(rule, "anchor:translators", "-", "locate the DCG construct table entries and helpers", fmt.Sprintf("only %d functions with the translator signatures found", len(fns)))
		return
	}
	var names []string
	for _, fn := range fns {
		names = append(names, fname(fn))
		g := c.buildDCGGraph(fn)
		list, rest := ssa.Value(fn.Params[1]), ssa.Value(fn.Params[2])
		key := fname(fn) + "/list->rest"
		desc := "the translation threads the hidden arguments from the input list to the remainder"
		// pure dispatchers (dcgBody, dcgCBody) forward (list, rest) unchanged to other translators
		if len(g.edges) == 0 && len(g.fresh) == 0 {
			r.bad(rule, key, c.Pos(fn.Pos()), desc, "the hidden arguments are not used at all")
			continue
		}
		seen := g.reach(list, g.edges)
		if seen[rest] {
			r.ok(rule, key, c.Pos(fn.Pos()), desc, fmt.Sprintf("rest is reachable from list over %d hidden-argument edges", countEdges(g.edges)), true)
		} else {
			r.bad(rule, key, c.Pos(fn.Pos()), desc, "rest is not reachable from list: phrase/3 would leave the remainder unconstrained or equal to something else")
		}
		for i, fv := range g.fresh {
			k2 := fmt.Sprintf("%s/fresh[%d]", fname(fn), i+1)
			d2 := "every fresh difference-list variable is fed by the threading (reachable from list)"
			directEq := g.eq[[2]ssa.Value{list, rest}]
			if seen[fv] && len(g.edges[fv]) == 0 && !directEq {
				r.bad(rule, k2, c.at(fv.(ssa.Instruction)), "a fresh difference-list variable that nothing continues from is allowed only beside an explicit list = rest (look-ahead constructs)", "the variable receives the remainder of a sub-body but nothing starts from it: what that sub-body consumed is forgotten")
			} else if seen[fv] {
				r.ok(rule, k2, c.at(fv.(ssa.Instruction)), d2, "reachable from list", true)
			} else {
				r.bad(rule, k2, c.at(fv.(ssa.Instruction)), d2, "a fresh variable is not connected to the input list")
			}
		}
	}
	// the rule translator: its three fresh variables form one connected structure and the head's first hidden argument starts the body
	if ex := c.fn("expandDCG"); ex != nil {
		g := c.buildDCGGraph(ex)
		key := fname(ex) + "/connected"
		if len(g.fresh) == 0 {
			r.bad(rule, key, c.Pos(ex.Pos()), "the rule translation connects head and body through fresh variables", "no fresh variable")
		} else {
			comp := g.reach(g.fresh[0], g.undir)
			all := true
			for _, fv := range g.fresh {
				if !comp[fv] || g.uses[fv] < 2 {
					all = false
				}
			}
			if all {
				r.ok(rule, key, c.Pos(ex.Pos()), "the rule translation connects head and body through fresh variables", fmt.Sprintf("%d fresh variables, each used at least twice, one connected component", len(g.fresh)), true)
			} else {
				r.bad(rule, key, c.Pos(ex.Pos()), "the rule translation connects head and body through fresh variables", "a fresh variable is used once or is disconnected: head and body would not share the difference list")
			}
		}
	}
	// (added after seed C17e) the push-back of `H, PB --> B`: H(S0, S) :- B(S0, S1), S = PB ++ S1.  The terminals of
	// the push-back lead FROM the head's remainder TO the body's remainder; the other way round is the
	// translation of `H --> B, PB` (the push-back is consumed instead of being put back).  The undirected
	// connectivity check above cannot tell the two apart.
	if ex := c.fn("expandDCG"); ex != nil {
		nt, body, terms := c.fn("dcgNonTerminal"), c.fn("dcgBody"), c.fn("dcgTerminals")
		key := fname(ex) + "/push-back-direction"
		desc := "the push-back terminals lead from the head's remainder to the body's remainder"
		var T *ssa.Call
		eachInstr(ex, func(in ssa.Instruction) {
			if call, ok := in.(*ssa.Call); ok && terms != nil && call.Call.StaticCallee() == terms {
				T = call
			}
		})
		switch {
		case nt == nil || body == nil || terms == nil:
			r.undecided(rule, key, c.Pos(ex.Pos()), desc, "dcgNonTerminal, dcgBody or dcgTerminals not found")
		case T == nil:
			r.info(rule, key, c.Pos(ex.Pos()), desc, "the rule translator does not call dcgTerminals: no push-back support to check")
		default:
			var H, B *ssa.Call
			eachInstr(ex, func(in ssa.Instruction) {
				call, ok := in.(*ssa.Call)
				if !ok || !(call.Block() == T.Block() || call.Block().Dominates(T.Block())) {
					return
				}
				switch call.Call.StaticCallee() {
				case nt:
					H = call // the last one that dominates the push-back: the head of this branch
				case body:
					B = call
				}
			})
			if H == nil || B == nil || len(T.Call.Args) < 3 || len(H.Call.Args) < 3 || len(B.Call.Args) < 3 {
				r.undecided(rule, key, c.at(T), desc, "the head and body translation that precede the push-back were not recognised")
			} else if c.sameVar(unbox(T.Call.Args[1]), unbox(H.Call.Args[2])) && c.sameVar(unbox(T.Call.Args[2]), unbox(B.Call.Args[2])) {
				r.ok(rule, key, c.at(T), desc, "dcgTerminals(PB, <head's rest>, <body's rest>)", true)
			} else {
				r.bad(rule, key, c.at(T), desc, "the list and rest arguments of the push-back are not (head's rest, body's rest): the push-back terminals are consumed after the body instead of being put back in front of the remainder")
			}
		}
	}
	sort.Strings(names)
	r.analysed(rule, names...)
	_ = strings.Join
}

func countEdges(m map[ssa.Value][]ssa.Value) int {
	n := 0
	for _, v := range m {
		n += len(v)
	}
	return n
}

// ---------------------------------------------------------------------------
// R-DCG-LOOKAHEAD (added after seed C17): a sub-body translated for a goal that is placed under \+ gets a
// remainder variable of its own; sharing the enclosing remainder would make the negation test "consumes
// exactly up to rest" instead of "derives some prefix".

func ruleDCGLookahead(c *Ctx, r *Report) {
	const rule = "R-DCG-LOOKAHEAD"
	neg := c.global("atomNegation")
	if neg == nil {
		r.undecided(rule, "anchor:atomNegation", "-", "locate the \\+ atom", "not found")
		return
	}
	n := 0
	for _, fn := range c.LibFuncs() {
		if funcPkg(fn) != c.Engine || !(c.isDCGConstrSig(fn.Signature) || c.isDCGTranslatorSig(fn.Signature)) {
			continue
		}
		g := c.buildDCGGraph(fn)
		eachInstr(fn, func(in ssa.Instruction) {
			call, ok := in.(*ssa.Call)
			if !ok {
				return
			}
			callee := call.Call.StaticCallee()
			if callee == nil || callee.Name() != "Apply" || len(call.Call.Args) != 2 {
				return
			}
			ld, ok := call.Call.Args[0].(*ssa.UnOp)
			if !ok || ld.X != ssa.Value(neg) {
				return
			}
			// the goal placed under \+
			for _, e := range variadicElems(call.Call.Args[1]) {
				for _, l := range c.originSet(e) {
					sub, idx := callOfValue(l)
					if sub == nil || idx != 0 || len(sub.Call.Args) != 4 {
						continue
					}
					var sig *types.Signature
					if f := sub.Call.StaticCallee(); f != nil {
						sig = f.Signature
					} else {
						sig, _ = sub.Call.Value.Type().Underlying().(*types.Signature)
					}
					if sig == nil || !(c.isDCGTranslatorSig(sig) || c.isDCGConstrSig(sig)) {
						continue
					}
					n++
					key := fname(fn) + "/negated-body.rest"
					desc := "the body under \\+ is translated with a fresh remainder variable"
					rest := g.norm(sub.Call.Args[2])
					if rc, ok := rest.(*ssa.Call); ok && rc.Call.StaticCallee() != nil && rc.Call.StaticCallee().Name() == "NewVariable" {
						r.ok(rule, key, c.at(sub), desc, "remainder argument is a NewVariable() of this entry", true)
					} else {
						r.bad(rule, key, c.at(sub), desc, "the negated body is tied to "+valName(sub.Call.Args[2])+": with an instantiated remainder \\+ succeeds whenever the body does not consume exactly that much")
					}
				}
			}
		})
	}
	if n == 0 {
		r.bad(rule, "dcg/negation", "-", "the body under \\+ is translated with a fresh remainder variable", "no translation placed under \\+ found")
	}
	r.analysed(rule, fmt.Sprintf("%d sub-translations under \\+", n))
}

// ---------------------------------------------------------------------------
// R-DCG-STEADFAST (C17; added after seed C17b): in the output of a translator, the LEFT operand of a
// conjunction (','/2) or of an if-then ('->'/2) is never a translated sub-body whose remainder is the
// caller's own `rest`. If it were, the right operand would have to consume nothing and the caller's
// (possibly bound) remainder would constrain the left sub-body before the right one - a cut, a {}/1 goal,
// a negation - has run: phrase(p, L, []) then commits to another parse than phrase(p, L, R), R = [].

func ruleDCGSteadfast(c *Ctx, r *Report) {
	const rule = "R-DCG-STEADFAST"
	desc := "the left operand of a generated conjunction does not end at the caller's remainder"
	comma, then := c.global("atomComma"), c.global("atomThen")
	if comma == nil || then == nil {
		r.undecided(rule, "anchor:atomComma", "-", "locate atomComma/atomThen", "not found")
		return
	}
	n := 0
	for _, fn := range c.LibFuncs() {
		if funcPkg(fn) != c.Engine || fn.Signature.Recv() != nil || fn.Parent() != nil && false {
			continue
		}
		sig := fn.Signature
		if !(c.isDCGConstrSig(sig) || c.isDCGTranslatorSig(sig)) || len(fn.Params) != 4 {
			continue
		}
		rest := ssa.Value(fn.Params[2])
		seen := 0
		eachInstr(fn, func(in ssa.Instruction) {
			call, ok := in.(*ssa.Call)
			if !ok {
				return
			}
			callee := call.Call.StaticCallee()
			if callee == nil || callee.Name() != "Apply" || callee.Signature.Recv() == nil || len(call.Call.Args) != 2 {
				return
			}
			ld, ok := call.Call.Args[0].(*ssa.UnOp)
			if !ok || ld.Op != token.MUL || (ld.X != ssa.Value(comma) && ld.X != ssa.Value(then)) {
				return
			}
			elems := variadicElems(call.Call.Args[1])
			if len(elems) != 2 || elems[0] == nil {
				return
			}
			n++
			seen++
			key := fmt.Sprintf("%s/conj#%d", fname(fn), seen)
			var offending ssa.Instruction
			for _, l := range c.originSet(elems[0]) {
				sub, _ := callOfValue(l)
				if sub == nil || len(sub.Call.Args) != 4 {
					continue
				}
				var ssig *types.Signature
				if f := sub.Call.StaticCallee(); f != nil {
					ssig = f.Signature
				} else if !sub.Call.IsInvoke() {
					ssig, _ = sub.Call.Value.Type().Underlying().(*types.Signature)
				}
				if ssig == nil || !(c.isDCGTranslatorSig(ssig) || c.isDCGConstrSig(ssig)) {
					continue
				}
				g := &dcgGraph{c: c, fn: fn}
				if g.norm(sub.Call.Args[2]) == rest {
					offending = sub
				}
			}
			if offending == nil {
				r.ok(rule, key, c.at(in), desc, "the left operand is not a sub-body ending at rest", true)
			} else {
				r.bad(rule, fmt.Sprintf("%s/conj-left-ends-at-rest", fname(fn)), c.at(offending), desc, "the sub-body translated here ends at the caller's remainder and is then placed before another goal: a bound remainder constrains it before that goal runs (not steadfast)")
			}
		})
	}
	r.analysed(rule, fmt.Sprintf("%d generated conjunctions / if-thens in the DCG translators", n))
}

// unbox: the value inside a MakeInterface (each use of a variable as an interface is a conversion of its own).
func unbox(v ssa.Value) ssa.Value {
	if mi, ok := v.(*ssa.MakeInterface); ok {
		return mi.X
	}
	return v
}

// ---------------------------------------------------------------------------
// R-DCG-CBODY-TESTED (C17; added after seed C17f): the DCG translator has a general body translator (anything:
// a variable becomes phrase/3, a non-terminal gets the hidden arguments, a control construct is translated) and
// a control-only one that answers with a sentinel error for everything else - which only the general one knows
// how to take.  Outside the general translator the control-only one may be applied only to the operand that has
// just been TESTED to be a control construct (`If -> Then` on the left of `;`): the term it is given is the
// same slice element whose Functor() was compared with '->'.  Applied to an untested operand (the else-part),
// the sentinel escapes: ( a -> b | t ) is stored as a call of '|'/4.
func ruleDCGCBodyTested(c *Ctx, r *Report) {
	const rule = "R-DCG-CBODY-TESTED"
	desc := "the control-only DCG translator is applied only to an operand that was tested to be a control construct"
	cbody, body := c.fn("dcgCBody"), c.fn("dcgBody")
	then := c.global("atomThen")
	if cbody == nil || body == nil || then == nil {
		r.undecided(rule, "anchor:dcgCBody/dcgBody/atomThen", "-", "locate the translators", "not found")
		return
	}
	elemOf := func(v ssa.Value) (ssa.Value, int64, bool) {
		for _, l := range c.originSet(v) {
			ld, ok := l.(*ssa.UnOp)
			if !ok || ld.Op != token.MUL {
				continue
			}
			ia, ok := ld.X.(*ssa.IndexAddr)
			if !ok {
				continue
			}
			if k, ok := constInt(ia.Index); ok {
				return ia.X, k, true
			}
		}
		return nil, 0, false
	}
	n := 0
	for _, fn := range c.LibFuncs() {
		if funcPkg(fn) != c.Engine || fn == body {
			continue
		}
		// the operands tested against '->' in this function
		type el struct {
			base ssa.Value
			idx  int64
		}
		tested := map[el]bool{}
		eachInstr(fn, func(in ssa.Instruction) {
			bo, ok := in.(*ssa.BinOp)
			if !ok || (bo.Op != token.EQL && bo.Op != token.NEQ) {
				return
			}
			for _, pair := range [][2]ssa.Value{{bo.X, bo.Y}, {bo.Y, bo.X}} {
				ld, ok := pair[1].(*ssa.UnOp)
				if !ok || ld.X != ssa.Value(then) {
					continue
				}
				fc, ok := pair[0].(*ssa.Call)
				if !ok || !fc.Call.IsInvoke() || fc.Call.Method.Name() != "Functor" {
					continue
				}
				// Functor() of Resolve(args[i])
				for _, l := range c.originSet(fc.Call.Value) {
					if rc, _ := callOfValue(l); rc != nil && len(rc.Call.Args) == 2 {
						if b, i, ok := elemOf(rc.Call.Args[1]); ok {
							tested[el{b, i}] = true
						}
					}
				}
			}
		})
		k := 0
		eachInstr(fn, func(in ssa.Instruction) {
			call, ok := in.(*ssa.Call)
			if !ok || call.Call.IsInvoke() || len(call.Call.Args) < 1 {
				return
			}
			may := call.Call.StaticCallee() == cbody
			if !may {
				for _, l := range c.originSet(call.Call.Value) {
					if f, ok := l.(*ssa.Function); ok && f == cbody {
						may = true
					}
				}
			}
			if !may {
				return
			}
			n++
			k++
			key := fmt.Sprintf("%s/dcgCBody-call#%d", fname(fn), k)
			b, i, ok := elemOf(call.Call.Args[0])
			if ok && tested[el{b, i}] {
				r.ok(rule, key, c.at(in), desc, fmt.Sprintf("applied to operand %d, whose functor is compared with '->' in this function", i), true)
			} else {
				r.bad(rule, key, c.at(in), desc, "the control-only translator may be applied here to an operand that was not tested: for a plain non-terminal or a variable its sentinel error escapes to the enclosing translation, which then takes the whole construct for a non-terminal")
			}
		})
	}
	if n == 0 {
		r.info(rule, "scan/calls", "-", desc, "the control-only translator is called from the general one only")
	}
}

// ---------------------------------------------------------------------------
// R-DCG-PAIR-LAST (C17; added after seed C17i): a non-terminal with arguments A1..An translates to a goal whose
// LAST two arguments are the list pair: nt(A1, ..., An, S0, S) - also for call//N, whose goal is
// call(G, A1, ..., An, S0, S). Wherever the translation builds a term whose arguments contain the function's
// `rest` parameter, nothing comes after it: in an argument list written as a literal `rest` is the last element
// (and `list` the one before it); in one assembled with append, the append that adds the pair is the last one.
func ruleDCGPairLast(c *Ctx, r *Report) {
	const rule = "R-DCG-PAIR-LAST"
	desc := "the list pair is the last two arguments of every goal the DCG translation builds"
	n := 0
	for _, fn := range c.LibFuncs() {
		if funcPkg(fn) != c.Engine {
			continue
		}
		var list, rest ssa.Value
		for _, p := range fn.Params {
			if isEngNamed(p.Type(), "Term") && p.Name() == "list" {
				list = p
			}
			if isEngNamed(p.Type(), "Term") && p.Name() == "rest" {
				rest = p
			}
		}
		if list == nil || rest == nil {
			continue
		}
		// position of v in the array literal behind slice value sl (-1 if absent), and the literal's length
		posIn := func(sl ssa.Value, v ssa.Value) (int64, int64) {
			s, ok := sl.(*ssa.Slice)
			if !ok {
				return -1, 0
			}
			al, ok := s.X.(*ssa.Alloc)
			if !ok {
				return -1, 0
			}
			arr, ok := deref(al.Type()).Underlying().(*types.Array)
			if !ok {
				return -1, 0
			}
			pos := int64(-1)
			for _, ref := range *al.Referrers() {
				ia, ok := ref.(*ssa.IndexAddr)
				if !ok {
					continue
				}
				idx, _ := constInt(ia.Index)
				for _, r2 := range *ia.Referrers() {
					if st, ok := r2.(*ssa.Store); ok && st.Val == v {
						pos = idx
					}
				}
			}
			return pos, arr.Len()
		}
		k := 0
		eachInstr(fn, func(in ssa.Instruction) {
			call, ok := in.(*ssa.Call)
			if !ok {
				return
			}
			callee := call.Call.StaticCallee()
			if callee == nil || callee.Name() != "Apply" || recvNamed(callee) != "Atom" || len(call.Call.Args) != 2 {
				return
			}
			bad := ""
			mentions := false
			type vl struct {
				v    ssa.Value
				last bool
			}
			seen := map[vl]bool{}
			var check func(v ssa.Value, last bool)
			check = func(v ssa.Value, last bool) {
				if v == nil || seen[vl{v, last}] {
					return
				}
				seen[vl{v, last}] = true
				switch x := v.(type) {
				case *ssa.Phi:
					for _, e := range x.Edges {
						check(e, last)
					}
				case *ssa.Slice:
					pr, ln := posIn(x, rest)
					pl, _ := posIn(x, list)
					if pr < 0 {
						return
					}
					mentions = true
					switch {
					case !last:
						bad = "further arguments are appended after the list pair"
					case pr != ln-1 || pl != ln-2:
						bad = fmt.Sprintf("the list pair stands at positions %d and %d of %d arguments", pl+1, pr+1, ln)
					}
				case *ssa.Call:
					if b, ok := x.Call.Value.(*ssa.Builtin); ok && b.Name() == "append" && len(x.Call.Args) == 2 {
						check(x.Call.Args[1], last) // what this append adds
						check(x.Call.Args[0], false)
					}
				}
			}
			check(call.Call.Args[1], true)
			if !mentions {
				return
			}
			n++
			k++
			key := fmt.Sprintf("%s/Apply#%d", fname(fn), k)
			if bad == "" {
				r.ok(rule, key, c.at(in), desc, "list and rest are the last two arguments", true)
			} else {
				r.bad(rule, key, c.at(in), desc, bad+": the goal threads the wrong arguments as the list pair (call(G, S0, S, A) where call(G, A, S0, S) is meant), so the called predicate gets its arguments permuted")
			}
		})
	}
	if n == 0 {
		r.undecided(rule, "scan/goals-with-pair", "-", desc, "no goal built from the list pair found")
	}
}

// ---------------------------------------------------------------------------
// R-PHRASE-NO-PREFILTER (C17; added after seed C17j): phrase/3 is the call of the translated body with the two
// lists - nothing else decides its truth. The Go function registered for it (and its closures) never produces a
// plain failure of its own: no call of Bool with the constant false. What the lists may look like afterwards
// depends on the grammar (a push-back rule leaves a remainder LONGER than the input); a guard that "knows" the
// remainder is a suffix refuses true goals.
func rulePhraseNoPrefilter(c *Ctx, r *Report) {
	const rule = "R-PHRASE-NO-PREFILTER"
	desc := "phrase/3 never fails by a test of its own: it errors or calls the translated body"
	fn := c.registeredFn("phrase", 3)
	boolFn := c.fn("Bool")
	if fn == nil || boolFn == nil {
		r.undecided(rule, "anchor:phrase/3", "-", desc, "not registered")
		return
	}
	var bad ssa.Instruction
	for _, g := range withAnon(fn) {
		eachInstr(g, func(in ssa.Instruction) {
			call, ok := in.(*ssa.Call)
			if !ok || call.Call.StaticCallee() != boolFn || len(call.Call.Args) != 1 {
				return
			}
			if k, ok := call.Call.Args[0].(*ssa.Const); ok && k.Value != nil && !constant.BoolVal(k.Value) {
				bad = in
			}
		})
	}
	key := fname(fn) + "/own-failure"
	if bad != nil {
		r.bad(rule, key, c.at(bad), desc, "phrase/3 fails here without asking the grammar: what it assumes about the two lists (the remainder is no longer than the input) is false for a rule with push-back")
	} else {
		r.ok(rule, key, c.Pos(fn.Pos()), desc, "no Bool(false) in the function or its closures", true)
	}
}
