package main

import (
	"fmt"
	"go/token"
	"go/types"

	"golang.org/x/tools/go/ssa"
)

// Facts implied by a helper call.
//
// The single largest source of false alarms met while building this checker was a guard that had been moved
// into a helper: `if x < 0 || x > max { return err }` becomes `if !inRange(x) { return err }`, a type test
// becomes `if err := s.prepare(kind); err != nil { return err }`.  The branch facts of the caller then speak
// about the call, not about x.  This file gives every rule the facts back, once, in the fact engine:
//
//   - a call h(a1..an) of a library function with one bool result that is known TRUE (FALSE) implies every fact
//     that holds at all places where h returns something other than the constant false (true);
//   - a call of a library function whose error result is known NIL implies every fact that holds at all places
//     where h returns an error that is not a package-level error value.
//
// Only facts whose condition is built from h's parameters, constants, loads of fields reached from a
// parameter, len/cap and pure calls of such operands can be carried over; they are re-expressed over the
// caller's argument values by CLONING the callee's SSA nodes with the operands substituted (a clone keeps its
// type and position; its Block and Parent still point into the helper, which no consumer of facts relies on).
// The expansion is additive (a rule can only discharge more) and at most two helper levels deep.

func (c *Ctx) helperImplied(f fact) []fact {
	var call *ssa.Call
	mode := ""
	if cl, ok := f.cond.(*ssa.Call); ok {
		call, mode = cl, "true"
		if !f.pol {
			mode = "false"
		}
	} else if x, op, ok := nilCmp(f.cond); ok && (op == token.EQL) == f.pol && isErrorType(x.Type()) {
		v := x
		if ex, ok := v.(*ssa.Extract); ok {
			v = ex.Tuple
		}
		if cl, ok := v.(*ssa.Call); ok {
			call, mode = cl, "nil-error"
		}
	}
	if call == nil || call.Call.IsInvoke() {
		return nil
	}
	h := call.Call.StaticCallee()
	if h == nil || h.Blocks == nil || !c.isLibPkg(funcPkg(h)) || len(h.FreeVars) > 0 {
		return nil
	}
	res := h.Signature.Results()
	switch mode {
	case "true", "false":
		if res.Len() != 1 {
			return nil
		}
		if b, ok := res.At(0).Type().Underlying().(*types.Basic); !ok || b.Kind() != types.Bool {
			return nil
		}
	case "nil-error":
		if res.Len() == 0 || !isErrorType(res.At(res.Len()-1).Type()) {
			return nil
		}
	}
	if len(call.Call.Args) != len(h.Params) {
		return nil
	}
	var out []fact
	for _, hf := range c.helperSummary(h, mode) {
		if v, ok := c.cloneOver(hf.cond, h, call.Call.Args, 0); ok {
			out = append(out, fact{v, hf.pol})
		}
	}
	return out
}

// helperSummary: the facts (over h's own values) that hold at every qualifying return of h.
func (c *Ctx) helperSummary(h *ssa.Function, mode string) []fact {
	key := fmt.Sprintf("%p/%s", h, mode)
	if c.helperS == nil {
		c.helperS = map[string][]fact{}
	}
	if s, ok := c.helperS[key]; ok {
		return s
	}
	c.helperS[key] = nil // recursion guard
	c.noExpand++
	defer func() { c.noExpand-- }()
	g := c.guardsOf(h)
	var acc map[fact]bool
	first := true
	for _, b := range blocksOf(h) {
		ret, ok := b.Instrs[len(b.Instrs)-1].(*ssa.Return)
		if !ok || len(ret.Results) == 0 {
			continue
		}
		site := map[fact]bool{}
		for f := range c.factsAt(b) { // expands one more level of helpers (see factsAt)
			site[f] = true
		}
		switch mode {
		case "true", "false":
			want := mode == "true"
			v := ret.Results[0]
			if k, ok := v.(*ssa.Const); ok {
				if k.Value != nil && (k.Value.String() == "true") != want {
					continue
				}
			} else {
				g.addCondFacts(site, v, want, 0)
			}
		case "nil-error":
			v := ret.Results[len(ret.Results)-1]
			nonNil := true
			for _, l := range c.originSet(v) {
				u, isLoad := l.(*ssa.UnOp)
				if isLoad && u.Op == token.MUL {
					if _, isGlobal := u.X.(*ssa.Global); isGlobal {
						continue
					}
				}
				if _, isMI := l.(*ssa.MakeInterface); isMI {
					continue
				}
				nonNil = false
			}
			// ... or is known non-nil right here (`if err != nil { return err }`)
			for f := range site {
				if x, op, ok := nilCmp(f.cond); ok && (op == token.NEQ) == f.pol && (x == v || c.sameVar(x, v)) {
					nonNil = true
				}
			}
			if nonNil {
				continue
			}
		}
		if first {
			acc, first = site, false
		} else {
			for f := range acc {
				if !site[f] {
					delete(acc, f)
				}
			}
		}
	}
	var out []fact
	for f := range acc {
		out = append(out, f)
	}
	c.helperS[key] = out
	return out
}

// cloneOver re-expresses a value of h over the caller's arguments; ok=false if it mentions anything else.
func (c *Ctx) cloneOver(v ssa.Value, h *ssa.Function, args []ssa.Value, depth int) (ssa.Value, bool) {
	if depth > 6 {
		return nil, false
	}
	switch x := v.(type) {
	case *ssa.Const:
		return x, true
	case *ssa.Parameter:
		for i, p := range h.Params {
			if p == x {
				return args[i], true
			}
		}
		return nil, false
	case *ssa.BinOp:
		a, ok1 := c.cloneOver(x.X, h, args, depth+1)
		b, ok2 := c.cloneOver(x.Y, h, args, depth+1)
		if !ok1 || !ok2 {
			return nil, false
		}
		n := *x
		n.X, n.Y = a, b
		return &n, true
	case *ssa.UnOp:
		switch x.Op {
		case token.NOT, token.SUB:
			a, ok := c.cloneOver(x.X, h, args, depth+1)
			if !ok {
				return nil, false
			}
			n := *x
			n.X = a
			return &n, true
		case token.MUL:
			fa, ok := x.X.(*ssa.FieldAddr)
			if !ok {
				return nil, false
			}
			base, ok := c.cloneOver(fa.X, h, args, depth+1)
			if !ok {
				return nil, false
			}
			nfa := *fa
			nfa.X = base
			n := *x
			n.X = &nfa
			return &n, true
		}
	case *ssa.FieldAddr:
		base, ok := c.cloneOver(x.X, h, args, depth+1)
		if !ok {
			return nil, false
		}
		n := *x
		n.X = base
		return &n, true
	case *ssa.Convert:
		a, ok := c.cloneOver(x.X, h, args, depth+1)
		if !ok {
			return nil, false
		}
		n := *x
		n.X = a
		return &n, true
	case *ssa.ChangeType:
		a, ok := c.cloneOver(x.X, h, args, depth+1)
		if !ok {
			return nil, false
		}
		n := *x
		n.X = a
		return &n, true
	case *ssa.Call:
		if x.Call.IsInvoke() {
			return nil, false
		}
		pure := false
		if b, ok := x.Call.Value.(*ssa.Builtin); ok && (b.Name() == "len" || b.Name() == "cap") {
			pure = true
		}
		if callee := x.Call.StaticCallee(); callee != nil && callee.Pkg != nil {
			switch callee.Pkg.Pkg.Path() {
			case "unicode/utf8", "unicode", "math", "strings":
				pure = true
			}
		}
		if !pure {
			return nil, false
		}
		n := *x
		n.Call.Args = make([]ssa.Value, len(x.Call.Args))
		for i, a := range x.Call.Args {
			t, ok := c.cloneOver(a, h, args, depth+1)
			if !ok {
				return nil, false
			}
			n.Call.Args[i] = t
		}
		return &n, true
	}
	return nil, false
}
