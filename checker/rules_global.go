package main

import (
	"fmt"
	"go/token"
	"go/types"
	"sort"
	"strings"

	"golang.org/x/tools/go/ssa"
)

// ---------------------------------------------------------------------------
// C14: package-level state

func (c *Ctx) libGlobals() []*ssa.Global {
	var out []*ssa.Global
	for _, pk := range []*ssa.Package{c.Engine, c.Root} {
		var names []string
		for n := range pk.Members {
			names = append(names, n)
		}
		sort.Strings(names)
		for _, n := range names {
			if g, ok := pk.Members[n].(*ssa.Global); ok && !strings.HasPrefix(n, "init$") {
				out = append(out, g)
			}
		}
	}
	return out
}

func isInitFn(fn *ssa.Function) bool {
	t := topFunc(fn)
	return t.Name() == "init" || strings.HasPrefix(t.Name(), "init#")
}

type gAccess struct {
	depth  int // call levels between the access and the lock that covers it (underLock)
	in     ssa.Instruction
	fn     *ssa.Function
	write  bool
	atomic bool
	lockOp string // Lock, RLock, Unlock, RUnlock
	escape bool   // address/alias leaves the access path
	what   string
}

// rootedAt: addr is g or a field/element address chain starting at g.
func rootedAt(addr ssa.Value, g *ssa.Global) bool {
	b, _ := baseOfAddr(addr)
	return b == ssa.Value(g)
}

func isSyncLockCall(call *ssa.CallCommon) string {
	f := call.StaticCallee()
	if f == nil || f.Pkg == nil || f.Pkg.Pkg.Path() != "sync" {
		return ""
	}
	switch f.Name() {
	case "Lock", "RLock", "Unlock", "RUnlock":
		return f.Name()
	}
	return ""
}

func isAtomicCall(call *ssa.CallCommon) bool {
	f := call.StaticCallee()
	return f != nil && f.Pkg != nil && f.Pkg.Pkg.Path() == "sync/atomic"
}

// globalAccesses enumerates how library code touches g (directly, through field/element addresses, and
// through map/slice values loaded from it).
func (c *Ctx) globalAccesses(g *ssa.Global) []gAccess {
	var out []gAccess
	for _, fn := range c.LibFuncs() {
		// values in fn derived from g: addresses rooted at g, and container values loaded from them
		derivedAddr := map[ssa.Value]bool{}
		derivedVal := map[ssa.Value]bool{}
		changed := true
		for changed {
			changed = false
			eachInstr(fn, func(in ssa.Instruction) {
				v, ok := in.(ssa.Value)
				if !ok {
					return
				}
				switch x := in.(type) {
				case *ssa.FieldAddr:
					if (x.X == ssa.Value(g) || derivedAddr[x.X]) && !derivedAddr[v] {
						derivedAddr[v], changed = true, true
					}
				case *ssa.IndexAddr:
					if (x.X == ssa.Value(g) || derivedAddr[x.X] || derivedVal[x.X]) && !derivedAddr[v] {
						derivedAddr[v], changed = true, true
					}
				case *ssa.UnOp:
					if x.Op == token.MUL && (x.X == ssa.Value(g) || derivedAddr[x.X]) && !derivedVal[v] {
						switch x.Type().Underlying().(type) {
						case *types.Map, *types.Slice:
							derivedVal[v], changed = true, true
						}
					}
				case *ssa.Slice:
					if (derivedVal[x.X] || derivedAddr[x.X]) && !derivedVal[v] {
						derivedVal[v], changed = true, true
					}
				}
			})
		}
		isAddr := func(v ssa.Value) bool { return v == ssa.Value(g) || derivedAddr[v] }
		eachInstr(fn, func(in ssa.Instruction) {
			switch x := in.(type) {
			case *ssa.Store:
				if isAddr(x.Addr) {
					out = append(out, gAccess{in: in, fn: fn, write: true, what: "store"})
				}
				if isAddr(x.Val) {
					out = append(out, gAccess{in: in, fn: fn, escape: true, what: "address stored"})
				}
			case *ssa.UnOp:
				if x.Op == token.MUL && isAddr(x.X) {
					out = append(out, gAccess{in: in, fn: fn, what: "load"})
				}
			case *ssa.MapUpdate:
				if derivedVal[x.Map] {
					out = append(out, gAccess{in: in, fn: fn, write: true, what: "map update"})
				}
			case *ssa.Lookup:
				if derivedVal[x.X] {
					out = append(out, gAccess{in: in, fn: fn, what: "map lookup"})
				}
			case *ssa.Range:
				if derivedVal[x.X] {
					out = append(out, gAccess{in: in, fn: fn, what: "range"})
				}
			case ssa.CallInstruction:
				cc := x.Common()
				for i, a := range cc.Args {
					if !isAddr(a) && !derivedVal[a] {
						continue
					}
					switch {
					case isAddr(a) && isAtomicCall(cc):
						w := !strings.HasPrefix(cc.StaticCallee().Name(), "Load")
						out = append(out, gAccess{in: in, fn: fn, atomic: true, write: w, what: "atomic." + cc.StaticCallee().Name()})
					case isAddr(a) && i == 0 && isSyncLockCall(cc) != "":
						op := isSyncLockCall(cc)
						if _, isDefer := in.(*ssa.Defer); isDefer {
							op = "defer-" + op // runs at function exit, not here
						}
						out = append(out, gAccess{in: in, fn: fn, lockOp: op, what: op})
					case derivedVal[a]:
						if b, ok := cc.Value.(*ssa.Builtin); ok {
							switch b.Name() {
							case "delete":
								out = append(out, gAccess{in: in, fn: fn, write: true, what: "map delete"})
							case "len", "cap":
								out = append(out, gAccess{in: in, fn: fn, what: b.Name()})
							case "append":
								// (after seed C14f) append writes into the backing array of its first argument whenever
								// that has spare capacity: for a package-level slice it is a write to shared memory
								if i == 0 {
									out = append(out, gAccess{in: in, fn: fn, write: true, what: "append to the shared slice (writes its backing array when it has spare capacity)"})
								} else {
									out = append(out, gAccess{in: in, fn: fn, what: "append (read)"})
								}
							default:
								out = append(out, gAccess{in: in, fn: fn, escape: true, what: "passed to " + b.Name()})
							}
						} else {
							out = append(out, gAccess{in: in, fn: fn, escape: true, what: "container passed to a call"})
						}
					default:
						out = append(out, gAccess{in: in, fn: fn, escape: true, what: "address passed to " + calleeName(cc)})
					}
				}
			case *ssa.Return:
				for _, res := range x.Results {
					if isAddr(res) || derivedVal[res] {
						out = append(out, gAccess{in: in, fn: fn, escape: true, what: "returned"})
					}
				}
			case *ssa.MakeInterface:
				if isAddr(x.X) {
					out = append(out, gAccess{in: in, fn: fn, escape: true, what: "address converted to interface"})
				}
			}
		})
	}
	return out
}

func calleeName(cc *ssa.CallCommon) string {
	if f := cc.StaticCallee(); f != nil {
		return f.Name()
	}
	if cc.IsInvoke() {
		return cc.Method.Name()
	}
	return "a function value"
}

// underLock: access a in fn is dominated by a Lock (or RLock when read) on a mutex rooted at g whose unlock is deferred.
func (c *Ctx) underLock(a gAccess, all []gAccess, needWrite bool) (bool, string) {
	var lock *gAccess
	for i := range all {
		l := &all[i]
		if l.fn != a.fn || l.lockOp == "" {
			continue
		}
		if l.lockOp == "Lock" || (l.lockOp == "RLock" && !needWrite) {
			lb, ab := l.in.Block(), a.in.Block()
			if (lb == ab && instrIndex(l.in) < instrIndex(a.in)) || (lb != ab && lb.Dominates(ab)) {
				lock = l
			}
		}
	}
	if lock == nil {
		// (after seed C14i) a lock-free helper that is only ever called with the lock held: an unexported function
		// that is not used as a value and all of whose call sites lie under a dominating Lock/RLock of the same
		// mutex in their own function
		if a.depth < 2 && a.fn.Parent() == nil && a.fn.Object() != nil && !a.fn.Object().Exported() && !c.usedAsValue(a.fn) {
			sites := c.callSitesOf(a.fn)
			held := len(sites) > 0
			for _, cs := range sites {
				site := gAccess{in: cs.(ssa.Instruction), fn: cs.Parent(), depth: a.depth + 1}
				if ok, _ := c.underLock(site, all, needWrite); !ok {
					held = false
				}
			}
			if held {
				return true, "a helper whose every caller holds the lock around the call"
			}
		}
		return false, "no dominating Lock on the variable's mutex"
	}
	want := "Unlock"
	if lock.lockOp == "RLock" {
		want = "RUnlock"
	}
	// release: deferred, or explicit after the access
	released := false
	for i := range all {
		if d := &all[i]; d.fn == a.fn && d.lockOp == "defer-"+want {
			released = true
		}
	}
	for i := range all {
		u := &all[i]
		if u.fn == a.fn && u.lockOp == want {
			ub, ab := u.in.Block(), a.in.Block()
			if (ub == ab && instrIndex(u.in) > instrIndex(a.in)) || (ub != ab && ab.Dominates(ub)) {
				released = true
			}
			if (ub == ab && instrIndex(u.in) < instrIndex(a.in) && instrIndex(u.in) > instrIndex(lock.in)) || (ub != ab && ub.Dominates(ab) && lock.in.Block().Dominates(ub) && ub != lock.in.Block()) {
				return false, "the mutex is released before the access"
			}
		}
	}
	if !released {
		return false, "lock is never released"
	}
	return true, "between " + lock.lockOp + " and its (deferred) " + want
}

func instrIndex(in ssa.Instruction) int {
	for i, x := range in.Block().Instrs {
		if x == in {
			return i
		}
	}
	return -1
}

func ruleGlobalState(c *Ctx, r *Report) {
	reach := c.Reachable()
	globals := c.libGlobals()
	type summary struct {
		g        *ssa.Global
		acc      []gAccess
		postInit bool
	}
	var sums []summary
	for _, g := range globals {
		acc := c.globalAccesses(g)
		s := summary{g: g, acc: acc}
		for _, a := range acc {
			if a.write && !isInitFn(a.fn) && reach[topFunc(a.fn)] {
				s.postInit = true
			}
		}
		sums = append(sums, s)
	}
	nTables := 0
	for _, s := range sums {
		g := s.g
		gname := strings.TrimPrefix(fname2(g), "")
		var unreachable []string
		for i, a := range s.acc {
			if isInitFn(a.fn) {
				continue
			}
			if !reach[topFunc(a.fn)] {
				unreachable = append(unreachable, fname(a.fn))
				continue
			}
			key := fmt.Sprintf("%s/%s@%s[%d]", gname, a.what, fname(a.fn), i)
			switch {
			case a.lockOp != "":
				continue
			case a.write:
				const rule = "R-GLOBAL-WRITES"
				desc := "a run-time write to package-level state happens under that variable's mutex or atomically"
				if a.atomic {
					r.ok(rule, key, c.at(a.in), desc, a.what, true)
				} else if ok, why := c.underLock(a, s.acc, true); ok {
					r.ok(rule, key, c.at(a.in), desc, why, true)
				} else {
					r.bad(rule, fmt.Sprintf("%s/%s@%s", gname, a.what, fname(a.fn)), c.at(a.in), desc, why+": two interpreters used from two goroutines race on "+gname)
				}
			case a.escape:
				// the struct types of the engine are handled by the escape rule below, object pools by R-POOL-RELEASE
			default:
				if !s.postInit {
					continue // init-only variable: reads need no protection
				}
				const rule = "R-GLOBAL-READS"
				desc := "a variable that is written after initialisation is read only under its mutex or atomically"
				if a.atomic {
					r.ok(rule, key, c.at(a.in), desc, a.what, true)
				} else if ok, why := c.underLock(a, s.acc, false); ok {
					r.ok(rule, key, c.at(a.in), desc, why, true)
				} else {
					r.bad(rule, fmt.Sprintf("%s/%s@%s", gname, a.what, fname(a.fn)), c.at(a.in), desc, why+": a plain read races with the guarded writers")
				}
			}
		}
		if len(unreachable) > 0 {
			r.info("R-GLOBAL-READS", gname+"/unreachable", c.Pos(g.Pos()), "accesses in code unreachable from the exported API are out of scope", "test-only accessors: "+strings.Join(uniq(unreachable), ", "))
		}
		// R-GLOBAL-TABLES: package-level maps are lookup tables after init
		if _, isMap := deref(g.Type()).Underlying().(*types.Map); isMap {
			nTables++
			const rule = "R-GLOBAL-TABLES"
			bad := ""
			for _, a := range s.acc {
				if isInitFn(a.fn) || !reach[topFunc(a.fn)] {
					continue
				}
				if a.write || a.escape {
					bad = a.what + " in " + fname(a.fn)
				}
			}
			if bad == "" {
				r.ok(rule, gname+"/table", c.Pos(g.Pos()), "a package-level map is only read after initialisation", "only lookups outside init", true)
			} else {
				r.bad(rule, gname+"/table", c.Pos(g.Pos()), "a package-level map is only read after initialisation", bad+": a shared map mutated or handed out at run time")
			}
		}
		if !s.postInit {
			r.ok("R-GLOBAL-WRITES", gname+"/init-only", c.Pos(g.Pos()), "package-level variable is assigned only during initialisation", "no reachable run-time write", true)
		}
	}
	r.analysed("R-GLOBAL-WRITES", fmt.Sprintf("%d package-level variables of the two library packages, %d of them maps", len(globals), nTables))
}

func fname2(g *ssa.Global) string {
	p := "engine"
	if g.Pkg.Pkg.Path() == rootPkgPath {
		p = "prolog"
	}
	return p + "." + g.Name()
}

func uniq(in []string) []string {
	sort.Strings(in)
	var out []string
	for i, s := range in {
		if i == 0 || s != in[i-1] {
			out = append(out, s)
		}
	}
	return out
}

// ---------------------------------------------------------------------------
// R-GLOBAL-ESCAPE: objects reachable from package-level variables by pointer are never written through.
// Type-based: for every struct type T of which a package-level instance is handed out by pointer, every
// store into a T anywhere targets memory that is fresh in the storing function, the result of a function
// that returns fresh memory, or a receiver/parameter all of whose call sites pass such memory; plus the
// two self-guarded trampoline stores.

// returnsFresh: every pointer returned by fn originates from an allocation in fn.
func (c *Ctx) returnsFresh(fn *ssa.Function) bool {
	if fn == nil || fn.Blocks == nil {
		return false
	}
	ok, n := true, 0
	eachInstr(fn, func(in ssa.Instruction) {
		ret, isRet := in.(*ssa.Return)
		if !isRet || len(ret.Results) == 0 {
			return
		}
		c.origins(ret.Results[0], func(l ssa.Value) {
			n++
			if _, isAlloc := l.(*ssa.Alloc); !isAlloc {
				ok = false
			}
		})
	})
	return ok && n > 0
}

func (c *Ctx) freshPointer(v ssa.Value) (bool, string) {
	all, why := true, ""
	n := 0
	c.origins(v, func(l ssa.Value) {
		n++
		switch x := l.(type) {
		case *ssa.Alloc:
		case *ssa.Call:
			if !c.returnsFresh(x.Call.StaticCallee()) {
				all, why = false, "result of "+calleeName(&x.Call)+", which is not known to return fresh memory"
			}
		default:
			all, why = false, fmt.Sprintf("%s (%T)", valName(l), l)
		}
	})
	if n == 0 {
		return false, "no origin"
	}
	return all, why
}

func ruleGlobalEscape(c *Ctx, r *Report) {
	const rule = "R-GLOBAL-ESCAPE"
	// which struct types have package-level instances handed out by pointer?
	shared := map[string]string{} // type name -> global that shares it
	for _, g := range c.libGlobals() {
		t := deref(g.Type())
		if n, ok := deref(t).(*types.Named); ok && n.Obj().Pkg() != nil && n.Obj().Pkg().Path() == enginePkgPath {
			if _, isStruct := n.Underlying().(*types.Struct); isStruct {
				shared[n.Obj().Name()] = g.Name()
			}
		}
	}
	var tnames []string
	for t := range shared {
		tnames = append(tnames, t)
	}
	sort.Strings(tnames)
	tr := c.trampoline()
	for _, tn := range tnames {
		if tn == "Env" {
			continue // R-ENV-IMMUT decides it (same argument, stricter)
		}
		stores := c.storesIntoStruct(enginePkgPath, tn)
		viaParam := map[*ssa.Parameter]bool{}
		for i, s := range stores {
			if isInitFn(s.fn) {
				continue
			}
			key := fmt.Sprintf("%s/store(%s.%s)[%d]", fname(s.fn), tn, strings.Join(s.path, "."), i)
			desc := fmt.Sprintf("no store reaches the package-level %s shared through %s", tn, shared[tn])
			if ok, _ := c.freshPointer(s.base); ok {
				r.ok(rule, key, c.at(s.store), desc, "target is fresh memory of the storing function (or of a callee that returns fresh memory)", true)
				continue
			}
			// parameter / receiver / captured receiver: move the obligation to the call sites
			var p *ssa.Parameter
			for _, l := range c.originSet(s.base) {
				if pp, ok := l.(*ssa.Parameter); ok {
					p = pp
				} else {
					p = nil
					break
				}
			}
			if p != nil {
				// self-guarded trampoline stores (Promise only)
				if tn == "Promise" && topFunc(s.fn) == topFunc(p.Parent()) && c.promiseStoreSelfGuarded(s, p, r, rule) {
					continue
				}
				viaParam[p] = true
				r.ok(rule, key, c.at(s.store), desc, "target is parameter "+p.Name()+" of "+fname(p.Parent())+"; discharged by its call-site obligations", true)
				continue
			}
			if tn == "Promise" && s.fn == tr && c.trampolineStoreGuarded(s) {
				r.ok(rule, key, c.at(s.store), desc, "self-guarded: the trampoline writes cutParent only where it found it non-nil, which is never the case for the shared singletons", true)
				continue
			}
			_, why := c.freshPointer(s.base)
			r.bad(rule, fmt.Sprintf("%s/store(%s.%s)", fname(s.fn), tn, strings.Join(s.path, ".")), c.at(s.store), desc, "target is "+why+": it may be the shared instance, so the write is visible to every interpreter (and races)")
		}
		for p := range viaParam {
			fn := p.Parent()
			idx := paramIndex(fn, p)
			if c.usedAsValue(fn) && fn.Signature.Recv() == nil {
				r.bad(rule, fname(fn)+"/value", c.Pos(fn.Pos()), "writer function is only called directly", "used as a function value")
				continue
			}
			for _, cs := range c.callSitesOf(fn) {
				arg := cs.Common().Args[idx]
				key := fmt.Sprintf("%s/call %s(%s)", fname(cs.Parent()), fn.Name(), valName(arg))
				desc := fmt.Sprintf("%s, which writes through its parameter, is handed fresh memory only", fn.Name())
				if ok, why := c.freshPointer(arg); ok {
					r.ok(rule, key, c.at(cs), desc, "argument is fresh in the caller", true)
				} else {
					r.bad(rule, key, c.at(cs), desc, "argument is "+why)
				}
			}
			// a method can also be reached through an interface: every invoke site of that method name counts
			if fn.Signature.Recv() != nil && idx > 0 {
				for _, f2 := range c.LibFuncs() {
					eachInstr(f2, func(in ssa.Instruction) {
						ci, ok := in.(ssa.CallInstruction)
						if !ok || !ci.Common().IsInvoke() || ci.Common().Method.Name() != fn.Name() {
							return
						}
						if !types.Implements(fn.Signature.Recv().Type(), ci.Common().Value.Type().Underlying().(*types.Interface)) {
							return
						}
						if idx-1 >= len(ci.Common().Args) {
							return
						}
						arg := ci.Common().Args[idx-1]
						key := fmt.Sprintf("%s/invoke %s(%s)", fname(f2), fn.Name(), valName(arg))
						desc := fmt.Sprintf("%s, which writes through its parameter, is handed fresh memory only (interface call)", fn.Name())
						if ok, why := c.freshPointer(arg); ok {
							r.ok(rule, key, c.at(ci), desc, "argument is fresh in the caller", true)
						} else {
							r.bad(rule, key, c.at(ci), desc, "argument is "+why)
						}
					})
				}
			}
		}
	}
	// the operator table inside the shared write options: mutators are only ever applied to a VM's table
	for fn := range c.opsMutators() {
		if isInitFn(fn) || fn.Signature.Recv() == nil {
			continue
		}
		for _, cs := range c.callSitesOf(fn) {
			recv := cs.Common().Args[0]
			key := fmt.Sprintf("%s/call %s", fname(cs.Parent()), fn.Name())
			desc := "operator-table mutators are applied to an interpreter's own table, never to the shared default write options"
			if _, ok := fieldAddrOf(recv, "VM", "operators"); ok {
				r.ok(rule, key, c.at(cs), desc, "receiver is &vm.operators", true)
			} else if p, isParam := recv.(*ssa.Parameter); isParam && p.Parent().Signature.Recv() != nil {
				r.ok(rule, key, c.at(cs), desc, "receiver forwarded from another method of the table", false)
			} else {
				r.bad(rule, key, c.at(cs), desc, "receiver is "+valName(recv))
			}
		}
	}
	// lazy initialiser of an operators table: stores only when nil; the shared instance is non-nil
	if init := c.method("operators", "init"); init != nil {
		eachInstr(init, func(in ssa.Instruction) {
			st, ok := in.(*ssa.Store)
			if !ok {
				return
			}
			p, isParam := st.Addr.(*ssa.Parameter)
			if !isParam {
				return
			}
			guarded := false
			for f := range c.factsAt(st.Block()) {
				x, op, ok := nilCmp(f.cond)
				if !ok {
					continue
				}
				ld, isLoad := x.(*ssa.UnOp)
				if isLoad && ld.X == ssa.Value(p) && ((op == token.NEQ && !f.pol) || (op == token.EQL && f.pol)) {
					guarded = true
				}
			}
			nonNil := c.globalFieldInitNonNil("defaultWriteOptions", "ops")
			key := fname(init) + "/store(*ops)"
			desc := "the lazy table initialiser never writes the shared default write options"
			if guarded && nonNil {
				r.ok(rule, key, c.at(st), desc, "store happens only for a nil table; the shared instance's table is initialised non-nil by its composite literal", true)
			} else {
				r.bad(rule, key, c.at(st), desc, fmt.Sprintf("nil-guarded=%v, shared table initialised non-nil=%v", guarded, nonNil))
			}
		})
	}
	r.analysed(rule, "struct types with package-level instances: "+strings.Join(tnames, " "))
}

// globalFieldInitNonNil: the package initialiser stores a freshly made map/slice into g.field.
func (c *Ctx) globalFieldInitNonNil(gname, field string) bool {
	g := c.global(gname)
	if g == nil {
		return false
	}
	ok := false
	for _, fn := range c.LibFuncs() {
		if !isInitFn(fn) {
			continue
		}
		eachInstr(fn, func(in ssa.Instruction) {
			st, isSt := in.(*ssa.Store)
			if !isSt {
				return
			}
			fa, isFA := st.Addr.(*ssa.FieldAddr)
			if !isFA || fa.X != ssa.Value(g) || fieldName(fa) != field {
				return
			}
			if _, isMM := st.Val.(*ssa.MakeMap); isMM {
				ok = true
			}
		})
	}
	return ok
}

// trampolineStoreGuarded: p.cutParent = nil under the fact p.cutParent != nil for the same p.
func (c *Ctx) trampolineStoreGuarded(s structStore) bool {
	if len(s.path) == 0 || s.path[0] != "cutParent" || !isNilConst(s.store.Val) {
		return false
	}
	for f := range c.factsAt(s.store.Block()) {
		x, op, ok := nilCmp(f.cond)
		if !ok {
			continue
		}
		base, ok := loadsField(x, "Promise", "cutParent")
		if !ok || base != s.base {
			continue
		}
		if (op == token.NEQ && f.pol) || (op == token.EQL && !f.pol) {
			return true
		}
	}
	return false
}

// promiseStoreSelfGuarded: a store through the receiver of a Promise method (possibly from its deferred
// closure) is acceptable when every call site of the method is dominated by "the receiver has delayed
// alternatives", which is false for the shared singletons (their initialisers set no alternatives).
func (c *Ctx) promiseStoreSelfGuarded(s structStore, p *ssa.Parameter, r *Report, rule string) bool {
	m := p.Parent()
	if m.Signature.Recv() == nil || paramIndex(m, p) != 0 {
		return false
	}
	sites := c.callSitesOf(m)
	if len(sites) == 0 || c.usedAsValue(m) {
		return false
	}
	for _, cs := range sites {
		recv := cs.Common().Args[0]
		ok := false
		for f := range c.factsAt(cs.Block()) {
			x, op, k, isCmp := cmpConst(f.cond)
			if !isCmp {
				continue
			}
			call, isCall := x.(*ssa.Call)
			if k != 0 || !isCall {
				continue
			}
			if b, isBuiltin := call.Call.Value.(*ssa.Builtin); !isBuiltin || b.Name() != "len" {
				continue
			}
			base, isF := loadsField(call.Call.Args[0], "Promise", "delayed")
			if !isF || base != recv {
				continue
			}
			if (op == token.EQL && !f.pol) || (op == token.NEQ && f.pol) || (op == token.GTR && f.pol) {
				ok = true
			}
		}
		if !ok {
			return false
		}
	}
	// singletons: initialisers never set `delayed`
	for _, st := range c.storesIntoStruct(enginePkgPath, "Promise") {
		if isInitFn(st.fn) && len(st.path) > 0 && st.path[0] == "delayed" {
			return false
		}
	}
	key := fmt.Sprintf("%s/store(Promise.%s)", fname(s.fn), strings.Join(s.path, "."))
	r.ok(rule, key, c.at(s.store), "no store reaches the package-level Promise singletons",
		fmt.Sprintf("self-guarded: %s is called only where len(receiver.delayed) != 0 (%d call site(s)), and no package initialiser gives a shared promise delayed alternatives", m.Name(), len(sites)), true)
	return true
}

// ---------------------------------------------------------------------------
// R-INSERT-RECHECK (added after seed C14): an insertion into a lock-protected package-level map decides
// "the key is absent" inside the same write-locked region (check-then-act must not straddle an unlock).

func ruleInsertRecheck(c *Ctx, r *Report) {
	const rule = "R-INSERT-RECHECK"
	n := 0
	for _, g := range c.libGlobals() {
		acc := c.globalAccesses(g)
		for _, a := range acc {
			mu, ok := a.in.(*ssa.MapUpdate)
			if !ok || isInitFn(a.fn) {
				continue
			}
			n++
			key := fmt.Sprintf("%s/insert@%s", fname2(g), fname(a.fn))
			desc := "an insertion into a shared map happens only if a lookup of the same key, made under the same write lock, missed"
			// the write lock that covers the insertion
			var lock *gAccess
			for i := range acc {
				l := &acc[i]
				if l.fn == a.fn && l.lockOp == "Lock" {
					lb, ab := l.in.Block(), a.in.Block()
					if (lb == ab && instrIndex(l.in) < instrIndex(a.in)) || (lb != ab && lb.Dominates(ab)) {
						lock = l
					}
				}
			}
			if lock == nil {
				r.bad(rule, key, c.at(mu), desc, "no write lock covers the insertion")
				continue
			}
			// a comma-ok lookup of the same map and key after the Lock whose ok==false holds at the insertion
			good := false
			for f := range c.factsAt(mu.Block()) {
				ex, ok := f.cond.(*ssa.Extract)
				if !ok || ex.Index != 1 || f.pol {
					continue
				}
				lk, ok := ex.Tuple.(*ssa.Lookup)
				if !ok || !lk.CommaOk {
					continue
				}
				sameMap := false
				if l1, ok := lk.X.(*ssa.UnOp); ok {
					if l2, ok := mu.Map.(*ssa.UnOp); ok {
						b1, p1 := baseOfAddr(l1.X)
						b2, p2 := baseOfAddr(l2.X)
						sameMap = b1 == b2 && strings.Join(p1, ".") == strings.Join(p2, ".")
					}
				}
				if !sameMap || !c.sameVar(lk.Index, mu.Key) {
					continue
				}
				lb, kb := lock.in.Block(), lk.Block()
				if (lb == kb && instrIndex(lock.in) < instrIndex(lk)) || (lb != kb && lb.Dominates(kb)) {
					good = true
				}
			}
			if good {
				r.ok(rule, key, c.at(mu), desc, "dominated by the ok==false edge of a lookup of the same key made after Lock()", true)
			} else {
				r.bad(rule, key, c.at(mu), desc, "the decision that the key is absent is not made under this write lock: two goroutines can both miss and both insert, ending up with two ids for one name")
			}
		}
	}
	r.analysed(rule, fmt.Sprintf("%d run-time insertions into package-level maps", n))
}

// ---------------------------------------------------------------------------
// R-ATOM-CANONICAL (C02, C08, C16; added with fix F33): an atom has one representation per name. A
// one-character name is represented by the character's rune - that is what char_code/2, atom_chars/2,
// get_char/2 and the string encodings of lists produce directly (Atom(r)) - so NewAtom must take its
// one-character fast path for EVERY valid character, U+FFFD included. utf8 reports a decoding error as
// (U+FFFD, size 1): a test `r != utf8.RuneError` alone also refuses the character U+FFFD (size 3), whose name
// then gets a second, interned representation that compares equal (==) and does not unify.
// Checked: the fast-path return of NewAtom stays reachable when the edges "r != RuneError is true" are cut.

func ruleAtomCanonical(c *Ctx, r *Report) {
	const rule = "R-ATOM-CANONICAL"
	fn := c.fn("NewAtom")
	if fn == nil {
		r.undecided(rule, "anchor:NewAtom", "-", "locate NewAtom", "not found")
		return
	}
	desc := "NewAtom represents every one-character name, U+FFFD included, by the character's rune"
	// the fast path: the conversion of the decoded rune into an Atom (with a deferred unlock the function has a
	// single shared return, so the conversion's own block is the target)
	var fast ssa.Instruction
	eachInstr(fn, func(in ssa.Instruction) {
		cv, ok := in.(*ssa.Convert)
		if !ok || !isEngNamed(cv.Type(), "Atom") {
			return
		}
		if b, ok := cv.X.Type().Underlying().(*types.Basic); ok && b.Kind() == types.Int32 {
			fast = in
		}
	})
	key := fname(fn) + "/one-character-path"
	if fast == nil {
		r.bad(rule, key, c.Pos(fn.Pos()), desc, "NewAtom has no path that returns the rune of a one-character name: every such name gets an interned representation next to the runes the built-ins produce")
		return
	}
	isRuneErrorTest := func(cond ssa.Value) (neqTrueIdx int, ok bool) {
		bo, isBo := cond.(*ssa.BinOp)
		if !isBo || (bo.Op != token.EQL && bo.Op != token.NEQ) {
			return 0, false
		}
		for _, side := range []ssa.Value{bo.X, bo.Y} {
			if k, isK := constInt(side); isK && k == 0xFFFD {
				if bo.Op == token.NEQ {
					return 0, true
				}
				return 1, true
			}
		}
		return 0, false
	}
	reach := reachableAvoiding(fn, fast.Block(), func(from *ssa.BasicBlock, i int, cond ssa.Value) bool {
		idx, ok := isRuneErrorTest(cond)
		return ok && i == idx // the edge on which the rune is known to differ from U+FFFD
	})
	if reach {
		r.ok(rule, key, c.at(fast), desc, "the one-character return is reachable for the rune U+FFFD (a size test tells the character from a decoding error)", true)
	} else {
		r.bad(rule, key, c.at(fast), desc, "the one-character return is reached only when the rune differs from U+FFFD: the character U+FFFD gets an interned second representation that is == to Atom(0xFFFD) but does not unify with it")
	}
	r.analysed(rule, fname(fn))
}

// ---------------------------------------------------------------------------
// R-ATOMIC-RMW (C14; added after seed C14d): a package-level counter shared by all interpreters is advanced
// with one atomic read-modify-write (atomic.Add*, CompareAndSwap). A value computed from atomic.Load of the
// variable and written back with atomic.Store is two atomic operations, not one: whatever another
// interpreter added in between is lost and the counter can go backwards - "fresh" variables that somebody
// already owns. (The race detector is silent: every access is atomic.)

func ruleAtomicRMW(c *Ctx, r *Report) {
	const rule = "R-ATOMIC-RMW"
	desc := "a shared counter is never written back from a value computed from an earlier load of it"
	globalOf := func(addr ssa.Value) *ssa.Global {
		for _, l := range c.originSet(addr) {
			if g, ok := l.(*ssa.Global); ok {
				return g
			}
		}
		if g, ok := addr.(*ssa.Global); ok {
			return g
		}
		return nil
	}
	isAtomic := func(call *ssa.Call, prefix string) bool {
		f := call.Call.StaticCallee()
		return f != nil && f.Pkg != nil && f.Pkg.Pkg.Path() == "sync/atomic" && strings.HasPrefix(f.Name(), prefix)
	}
	nadd, nstore := 0, 0
	for _, fn := range c.LibFuncs() {
		seen := 0
		eachInstr(fn, func(in ssa.Instruction) {
			call, ok := in.(*ssa.Call)
			if !ok || len(call.Call.Args) < 1 {
				return
			}
			if isAtomic(call, "Add") || isAtomic(call, "CompareAndSwap") {
				if g := globalOf(call.Call.Args[0]); g != nil && c.isLibPkg(g.Pkg) {
					nadd++
					r.ok(rule, fmt.Sprintf("%s/%s(%s)", fname(fn), call.Call.StaticCallee().Name(), g.Name()), c.at(in), desc, "one atomic read-modify-write", false)
				}
				return
			}
			if !isAtomic(call, "Store") || len(call.Call.Args) < 2 {
				return
			}
			g := globalOf(call.Call.Args[0])
			if g == nil || !c.isLibPkg(g.Pkg) {
				return
			}
			nstore++
			seen++
			fromLoad := false
			// data dependence, following local cells too
			seenV := map[ssa.Value]bool{}
			var walk func(v ssa.Value, d int)
			walk = func(v ssa.Value, d int) {
				if v == nil || seenV[v] || d > 20 {
					return
				}
				seenV[v] = true
				switch x := v.(type) {
				case *ssa.Call:
					if isAtomic(x, "Load") && len(x.Call.Args) > 0 && globalOf(x.Call.Args[0]) == g {
						fromLoad = true
						return
					}
					for _, a := range x.Call.Args {
						walk(a, d+1)
					}
				case *ssa.Phi:
					for _, e := range x.Edges {
						walk(e, d+1)
					}
				case *ssa.BinOp:
					walk(x.X, d+1)
					walk(x.Y, d+1)
				case *ssa.UnOp:
					walk(x.X, d+1)
					if cell := c.varCell(x.X); cell != nil {
						for _, st := range c.storesTo(cell) {
							walk(st.Val, d+1)
						}
					}
				case *ssa.Convert:
					walk(x.X, d+1)
				case *ssa.ChangeType:
					walk(x.X, d+1)
				case *ssa.Extract:
					walk(x.Tuple, d+1)
				}
			}
			walk(call.Call.Args[1], 0)
			key := fmt.Sprintf("%s/Store(%s)#%d", fname(fn), g.Name(), seen)
			if fromLoad {
				r.bad(rule, fmt.Sprintf("%s/Store(%s)", fname(fn), g.Name()), c.at(in), desc, "the stored value is computed from atomic.Load of "+g.Name()+": a load-then-store is not atomic - additions made by other interpreters in between are lost and the counter can go backwards")
			} else {
				r.ok(rule, key, c.at(in), desc, "the stored value does not depend on a load of the same variable", true)
			}
		})
	}
	if nadd+nstore == 0 {
		r.bad(rule, "scan/atomics", "-", desc, "no atomic update of a package-level variable found: the shared counters are not being seen")
	}
	r.analysed(rule, fmt.Sprintf("%d atomic read-modify-writes, %d atomic stores on package-level variables", nadd, nstore))
}

// ---------------------------------------------------------------------------
// R-LOCK-LEAF (C14; added after seed C14e): "any number of interpreters ... each producing exactly the answers
// it produces when run alone".  The only state interpreters share is behind package-level locks (the atom
// table).  While such a lock is held the holder does nothing that can block on, or call back into, another
// party: no interface method call (an io.Writer of the host may block for as long as it likes), no call of a
// function value, no channel operation, no call of a library function that may do one of these or takes
// another package-level lock, and no call of a non-library function that is handed an interface with methods
// (io.WriteString(w, ...)).  With an RWMutex one blocked reader and one waiting writer stop every other
// interpreter at its next atom.  The region is the code reachable from the Lock/RLock call up to the matching
// Unlock/RUnlock in the same function, or to the end of the function when the unlock is deferred.
func ruleLockLeaf(c *Ctx, r *Report) {
	const rule = "R-LOCK-LEAF"
	desc := "nothing that can block or call back runs while a package-level lock is held"
	// library functions that may block or re-enter (fixpoint over static calls)
	may := map[*ssa.Function]string{}
	direct := func(fn *ssa.Function) string {
		why := ""
		eachInstr(fn, func(in ssa.Instruction) {
			if why != "" {
				return
			}
			why = c.blockingInstr(in, nil)
		})
		return why
	}
	libs := c.LibFuncs()
	for _, fn := range libs {
		if w := direct(fn); w != "" {
			may[fn] = w
		}
	}
	for changed := true; changed; {
		changed = false
		for _, fn := range libs {
			if may[fn] != "" {
				continue
			}
			eachInstr(fn, func(in ssa.Instruction) {
				if ci, ok := in.(ssa.CallInstruction); ok && may[fn] == "" {
					if callee := ci.Common().StaticCallee(); callee != nil && may[callee] != "" {
						may[fn] = "calls " + callee.Name() + ", which " + may[callee]
						changed = true
					}
				}
			})
		}
	}
	n := 0
	for _, g := range c.libGlobals() {
		acc := c.globalAccesses(g)
		for i := range acc {
			l := &acc[i]
			if l.lockOp != "Lock" && l.lockOp != "RLock" {
				continue
			}
			n++
			fn := l.fn
			want := "Unlock"
			if l.lockOp == "RLock" {
				want = "RUnlock"
			}
			unlocks := map[ssa.Instruction]bool{}
			for j := range acc {
				if acc[j].fn == fn && acc[j].lockOp == want {
					unlocks[acc[j].in] = true
				}
			}
			key := fmt.Sprintf("%s/%s(%s)", fname(fn), l.lockOp, g.Name())
			// walk the region
			bad, where := "", ssa.Instruction(nil)
			seen := map[*ssa.BasicBlock]bool{}
			var walk func(b *ssa.BasicBlock, from int)
			walk = func(b *ssa.BasicBlock, from int) {
				for idx := from; idx < len(b.Instrs); idx++ {
					in := b.Instrs[idx]
					if unlocks[in] {
						return
					}
					if bad == "" {
						if w := c.blockingInstr(in, may); w != "" {
							bad, where = w, in
						}
					}
				}
				for _, s := range b.Succs {
					if !seen[s] {
						seen[s] = true
						walk(s, 0)
					}
				}
			}
			walk(l.in.Block(), instrIndex(l.in)+1)
			if bad == "" {
				r.ok(rule, key, c.at(l.in), desc, "the locked region contains only loads, stores, map/slice operations and calls of leaf functions", true)
			} else {
				r.bad(rule, key, c.at(where), desc, "while the lock is held the function "+bad+": every other interpreter stops at its next access to "+g.Name()+" for as long as that takes")
			}
		}
	}
	if n == 0 {
		r.undecided(rule, "scan/locks", "-", desc, "no Lock/RLock of a package-level mutex found")
	}
}

// blockingInstr: why instruction `in` can block or call back into foreign code ("" if it cannot).  may: library
// functions already known to (nil while that set is being computed: static library callees are then ignored).
func (c *Ctx) blockingInstr(in ssa.Instruction, may map[*ssa.Function]string) string {
	switch x := in.(type) {
	case *ssa.Send:
		return "sends on a channel"
	case *ssa.Select:
		if x.Blocking {
			return "waits in a select"
		}
	case *ssa.UnOp:
		if x.Op == token.ARROW {
			return "receives from a channel"
		}
	case *ssa.Defer:
		return "" // runs at function exit
	case *ssa.Go:
		return ""
	case ssa.CallInstruction:
		cc := x.Common()
		if cc.IsInvoke() {
			return "calls the interface method " + cc.Method.Name() + " (dynamic dispatch: the callee may be host code that blocks)"
		}
		if _, ok := cc.Value.(*ssa.Builtin); ok {
			return ""
		}
		callee := cc.StaticCallee()
		if callee == nil {
			return "calls a function value"
		}
		if op := isSyncLockCall(cc); op != "" {
			// (after seed C05h) taking a lock is itself something that can block: a function that does so must not
			// be called while a package-level lock is held - not even the same lock for reading (a writer that
			// arrives between the two RLocks of one goroutine stops both, and then everybody)
			if may == nil && (op == "Lock" || op == "RLock") {
				return "takes a lock (" + calleeName(cc) + ")"
			}
			return ""
		}
		if c.isLibPkg(funcPkg(callee)) {
			if may != nil && may[callee] != "" {
				return "calls " + callee.Name() + ", which " + may[callee]
			}
			return ""
		}
		// a non-library function that is handed an interface with methods may call them
		for _, a := range cc.Args {
			if it, ok := a.Type().Underlying().(*types.Interface); ok && it.NumMethods() > 0 && !isErrorType(a.Type()) {
				return "hands an interface value (" + a.Type().String() + ") to " + calleeName(cc) + ", which may call its methods"
			}
		}
		if callee.Pkg != nil {
			switch callee.Pkg.Pkg.Path() + "." + callee.Name() {
			case "time.Sleep", "runtime.Gosched":
				return "calls " + callee.Name()
			}
			if callee.Pkg.Pkg.Path() == "sync" && (callee.Name() == "Wait" || callee.Name() == "Lock" || callee.Name() == "RLock") {
				return "takes another lock (" + calleeName(cc) + ")"
			}
		}
	}
	return ""
}

// ---------------------------------------------------------------------------
// R-POOL-RELEASE (C14; added after seed C14g): "interpreters share no mutable state". A sync.Pool is the one
// construct through which an object used by one interpreter reaches another without a single unsynchronised
// access: what is Put by one stream is what the next Get - in any interpreter - returns. The hand-over is sound
// only if the releasing side forgets the object: when the released value was loaded from a field of a longer-
// lived object (directly, or by the caller of a release helper), that field is overwritten on every path from the
// release to the function's return. A stream that keeps its buffered reader after giving it to the pool reads
// the next owner's file.
func rulePoolRelease(c *Ctx, r *Report) {
	const rule = "R-POOL-RELEASE"
	desc := "an object handed to a shared pool is no longer referenced by the object it was taken from"
	n := 0
	isPoolPut := func(cc *ssa.CallCommon) bool {
		f := cc.StaticCallee()
		if f == nil || f.Name() != "Put" || f.Pkg == nil || f.Pkg.Pkg.Path() != "sync" {
			return false
		}
		return f.Signature.Recv() != nil && isNamedIn(f.Signature.Recv().Type(), "sync", "Pool")
	}
	// fieldLoad: v is (a field of) a value loaded from a field address; returns that address
	var fieldLoad func(v ssa.Value, depth int) (*ssa.FieldAddr, *ssa.Parameter)
	fieldLoad = func(v ssa.Value, depth int) (*ssa.FieldAddr, *ssa.Parameter) {
		if depth > 6 {
			return nil, nil
		}
		switch x := v.(type) {
		case *ssa.MakeInterface:
			return fieldLoad(x.X, depth+1)
		case *ssa.ChangeType:
			return fieldLoad(x.X, depth+1)
		case *ssa.Field:
			return fieldLoad(x.X, depth+1)
		case *ssa.Parameter:
			return nil, x
		case *ssa.UnOp:
			if x.Op != token.MUL {
				return nil, nil
			}
			switch a := x.X.(type) {
			case *ssa.FieldAddr:
				var base ssa.Value = a
				for {
					f, ok := base.(*ssa.FieldAddr)
					if !ok {
						break
					}
					base = f.X
				}
				if al, ok := base.(*ssa.Alloc); ok { // a field of a spilled value parameter (value receiver)
					for _, st := range c.storesTo(al) {
						if p, ok := st.Val.(*ssa.Parameter); ok {
							return nil, p
						}
					}
				}
				// the innermost enclosing field of a longer-lived object
				return a, nil
			case *ssa.Alloc:
				// spilled parameter (value receiver whose address is taken)
				for _, st := range c.storesTo(a) {
					if p, ok := st.Val.(*ssa.Parameter); ok {
						return nil, p
					}
				}
			}
		}
		return nil, nil
	}
	// covers: a store to addr (or to an enclosing / enclosed field of the same base) overwrites the field fa
	covers := func(addr ssa.Value, fa *ssa.FieldAddr) bool {
		chain := func(a ssa.Value) (ssa.Value, []int) {
			var path []int
			for {
				f, ok := a.(*ssa.FieldAddr)
				if !ok {
					return a, path
				}
				path = append([]int{f.Field}, path...)
				a = f.X
			}
		}
		b1, p1 := chain(addr)
		b2, p2 := chain(fa)
		if !(b1 == b2 || c.sameVar(b1, b2)) {
			return false
		}
		for i := 0; i < len(p1) && i < len(p2); i++ {
			if p1[i] != p2[i] {
				return false
			}
		}
		return len(p1) > 0
	}
	forgotten := func(call ssa.Instruction, fa *ssa.FieldAddr) bool {
		b := call.Block()
		storeIn := func(blk *ssa.BasicBlock, from int) bool {
			for i := from; i < len(blk.Instrs); i++ {
				if st, ok := blk.Instrs[i].(*ssa.Store); ok && covers(st.Addr, fa) {
					return true
				}
			}
			return false
		}
		if storeIn(b, instrIndex(call)+1) {
			return true
		}
		seen := map[*ssa.BasicBlock]bool{}
		var walk func(blk *ssa.BasicBlock) bool // true: a return is reachable without the store
		walk = func(blk *ssa.BasicBlock) bool {
			if seen[blk] {
				return false
			}
			seen[blk] = true
			if storeIn(blk, 0) {
				return false
			}
			if len(blk.Instrs) > 0 {
				if _, isRet := blk.Instrs[len(blk.Instrs)-1].(*ssa.Return); isRet {
					return true
				}
			}
			for _, s := range blk.Succs {
				if walk(s) {
					return true
				}
			}
			return false
		}
		if _, isRet := b.Instrs[len(b.Instrs)-1].(*ssa.Return); isRet {
			return false
		}
		for _, s := range b.Succs {
			if walk(s) {
				return false
			}
		}
		return true
	}
	keys := map[string]int{}
	var check func(site ssa.Instruction, v ssa.Value, depth int, via string)
	check = func(site ssa.Instruction, v ssa.Value, depth int, via string) {
		fn := site.Parent()
		fa, p := fieldLoad(v, 0)
		n++
		key := fmt.Sprintf("%s/release%s", fname(fn), via)
		if keys[key]++; keys[key] > 1 {
			key += fmt.Sprintf("#%d", keys[key])
		}
		switch {
		case fa != nil:
			if _, isDefer := site.(*ssa.Defer); isDefer {
				r.bad(rule, key, c.at(site), desc, "the release is deferred: the field that still holds the object cannot be cleared after it")
				return
			}
			if forgotten(site, fa) {
				r.ok(rule, key, c.at(site), desc, "the field the object was loaded from is overwritten on every path from the release to the return", true)
			} else {
				r.bad(rule, key, c.at(site), desc, "the field the object was loaded from still holds it when "+fn.Name()+" returns: the next Get - in any interpreter - hands out an object this one keeps using (a closed stream reads another interpreter's file)")
			}
		case p != nil && depth < 3:
			idx := paramIndex(p.Parent(), p)
			sites := c.callSitesOf(p.Parent())
			if len(sites) == 0 || c.usedAsValue(p.Parent()) {
				r.undecided(rule, key, c.at(site), desc, "the released object comes from parameter "+p.Name()+" of "+fname(p.Parent())+" whose callers cannot all be enumerated")
				return
			}
			for _, cs := range sites {
				if idx < len(cs.Common().Args) {
					check(cs.(ssa.Instruction), cs.Common().Args[idx], depth+1, via+"<-"+fname(cs.Parent()))
				}
			}
		default:
			r.ok(rule, key, c.at(site), desc, "the released object is not loaded from a field of a longer-lived object", false)
		}
	}
	for _, fn := range c.LibFuncs() {
		eachInstr(fn, func(in ssa.Instruction) {
			ci, ok := in.(ssa.CallInstruction)
			if !ok || !isPoolPut(ci.Common()) || len(ci.Common().Args) < 2 {
				return
			}
			check(in, ci.Common().Args[1], 0, "")
		})
	}
	if n == 0 {
		r.info(rule, "scan/pools", "-", desc, "no sync.Pool is used by the library: no object changes hands between interpreters")
	}
	r.analysed(rule, fmt.Sprintf("%d library functions scanned for (*sync.Pool).Put, %d release obligations", len(c.LibFuncs()), n))
}

// ---------------------------------------------------------------------------
// R-ALIASED-BUFFER (C14, C02; added after seed C14h): the lexer hands out token strings that ALIAS its byte buffer
// (a []byte reinterpreted as a string through unsafe.Pointer), and NewAtom keeps the string it is given - as a key
// and as the name - in the atom table that all interpreters share. Such a buffer may only grow (growth moves to a
// new array and leaves the old bytes alone): for every bytes.Buffer field whose Bytes() reach an unsafe.Pointer
// conversion somewhere in the library, no library function calls Reset or Truncate on that field. A reset lets the
// next tokens overwrite bytes that atom names in another interpreter still point to: foo is no longer foo there.
func ruleAliasedBuffer(c *Ctx, r *Report) {
	const rule = "R-ALIASED-BUFFER"
	desc := "a byte buffer whose contents are handed out as strings without copying is never reset or truncated"
	type fieldKey struct {
		typ   string
		field int
	}
	bufField := func(v ssa.Value) (fieldKey, bool) {
		fa, ok := v.(*ssa.FieldAddr)
		if !ok || !isNamedIn(fa.Type().(*types.Pointer).Elem(), "bytes", "Buffer") {
			return fieldKey{}, false
		}
		return fieldKey{typeName(deref(fa.X.Type())), fa.Field}, true
	}
	aliased := map[fieldKey]string{}
	for _, fn := range c.LibFuncs() {
		usesUnsafe := false
		eachInstr(fn, func(in ssa.Instruction) {
			if cv, ok := in.(*ssa.Convert); ok {
				if b, ok := cv.Type().Underlying().(*types.Basic); ok && b.Kind() == types.UnsafePointer {
					usesUnsafe = true
				}
			}
		})
		if !usesUnsafe {
			continue
		}
		eachInstr(fn, func(in ssa.Instruction) {
			call, ok := in.(*ssa.Call)
			if !ok {
				return
			}
			callee := call.Call.StaticCallee()
			if callee == nil || callee.Name() != "Bytes" || callee.Signature.Recv() == nil || !isNamedIn(callee.Signature.Recv().Type(), "bytes", "Buffer") {
				return
			}
			if k, ok := bufField(call.Call.Args[0]); ok {
				aliased[k] = fname(fn)
			}
		})
	}
	if len(aliased) == 0 {
		r.info(rule, "scan/aliased-buffers", "-", desc, "no bytes.Buffer of the library is read through unsafe.Pointer")
		return
	}
	n := 0
	for _, fn := range c.LibFuncs() {
		eachInstr(fn, func(in ssa.Instruction) {
			ci, ok := in.(ssa.CallInstruction)
			if !ok {
				return
			}
			callee := ci.Common().StaticCallee()
			if callee == nil || callee.Signature.Recv() == nil || !isNamedIn(callee.Signature.Recv().Type(), "bytes", "Buffer") || len(ci.Common().Args) == 0 {
				return
			}
			k, ok := bufField(ci.Common().Args[0])
			if !ok || aliased[k] == "" {
				return
			}
			n++
			key := fmt.Sprintf("%s/%s.%s()", fname(fn), k.typ, callee.Name())
			switch callee.Name() {
			case "Reset", "Truncate":
				r.bad(rule, key, c.at(in), desc, "the buffer's bytes are handed out as strings by "+aliased[k]+" (unsafe.Pointer, no copy) and interned as atom names in the table all interpreters share: after "+callee.Name()+" the next tokens overwrite the names of atoms that exist elsewhere")
			default:
				r.ok(rule, key, c.at(in), desc, callee.Name()+" only reads or grows the buffer", true)
			}
		})
	}
	r.analysed(rule, fmt.Sprintf("%d aliased buffer field(s), %d calls on them", len(aliased), n))
}

// ---------------------------------------------------------------------------
// R-GLOBAL-COPY-SHARES (C14; added after seed C14j): copying a package-level struct copies its map fields BY
// REFERENCE: the copy's map is the map every interpreter reads through the original. Outside the initialisers, a
// whole-struct copy of a package-level variable whose type has a map field is not handed (by address) to a
// function that inserts into that field's map, and no map loaded from such a copy is inserted into directly.
// (write_term's options started as a copy of defaultWriteOptions; variable_names(...) then named variables for
// every interpreter, and two interpreters writing at once crash in the runtime's concurrent-map check.)
func ruleGlobalCopyShares(c *Ctx, r *Report) {
	const rule = "R-GLOBAL-COPY-SHARES"
	desc := "a copy of a package-level struct is never used to insert into a map the original still holds"
	// W: (struct type, field) whose map a function inserts into through a pointer parameter
	type tf struct {
		t string
		f int
	}
	writers := map[tf]*ssa.Function{}
	for _, fn := range c.LibFuncs() {
		eachInstr(fn, func(in ssa.Instruction) {
			mu, ok := in.(*ssa.MapUpdate)
			if !ok {
				return
			}
			ld, ok := mu.Map.(*ssa.UnOp)
			if !ok || ld.Op != token.MUL {
				return
			}
			fa, ok := ld.X.(*ssa.FieldAddr)
			if !ok {
				return
			}
			if _, isParam := fa.X.(*ssa.Parameter); isParam {
				writers[tf{typeName(deref(fa.X.Type())), fa.Field}] = fn
			}
		})
	}
	n := 0
	for _, g := range c.libGlobals() {
		st, ok := deref(g.Type()).Underlying().(*types.Struct)
		if !ok {
			continue
		}
		var mapFields []int
		for i := 0; i < st.NumFields(); i++ {
			if _, isMap := st.Field(i).Type().Underlying().(*types.Map); isMap {
				mapFields = append(mapFields, i)
			}
		}
		if len(mapFields) == 0 {
			continue
		}
		tn := typeName(deref(g.Type()))
		for _, fn := range c.LibFuncs() {
			if isInitFn(fn) {
				continue
			}
			eachInstr(fn, func(in ssa.Instruction) {
				ld, ok := in.(*ssa.UnOp)
				if !ok || ld.Op != token.MUL || ld.X != ssa.Value(g) {
					return
				}
				if _, isStruct := ld.Type().Underlying().(*types.Struct); !isStruct {
					return
				}
				// where does the copy live?
				for _, ref := range *ld.Referrers() {
					sto, ok := ref.(*ssa.Store)
					if !ok {
						continue
					}
					al, ok := sto.Addr.(*ssa.Alloc)
					if !ok {
						continue
					}
					n++
					key := fmt.Sprintf("%s/copy(%s)", fname(fn), g.Name())
					bad := ""
					for _, r2 := range *al.Referrers() {
						switch x := r2.(type) {
						case ssa.CallInstruction:
							callee := x.Common().StaticCallee()
							for _, mf := range mapFields {
								if w := writers[tf{tn, mf}]; w != nil && callee == w {
									bad = "its address is handed to " + fname(w) + ", which inserts into the map of field " + st.Field(mf).Name()
								}
							}
						case *ssa.FieldAddr:
							for _, mf := range mapFields {
								if x.Field != mf {
									continue
								}
								for _, r3 := range *x.Referrers() {
									if l3, ok := r3.(*ssa.UnOp); ok && l3.Op == token.MUL {
										for _, r4 := range *l3.Referrers() {
											if _, ok := r4.(*ssa.MapUpdate); ok {
												bad = "the map of field " + st.Field(mf).Name() + " is inserted into through the copy"
											}
										}
									}
								}
							}
						}
					}
					if bad == "" {
						r.ok(rule, key, c.at(in), desc, "the copy's maps are not inserted into", true)
					} else {
						r.bad(rule, key, c.at(in), desc, bad+": that map is the one "+g.Name()+" holds, read by every interpreter (and written here without a lock)")
					}
				}
			})
		}
	}
	if n == 0 {
		r.info(rule, "scan/struct-copies", "-", desc, "no package-level struct with a map field is copied outside the initialisers")
	}
}
