package main

import (
	"fmt"
	"go/ast"
	"go/constant"
	"go/token"
	"go/types"
	"sort"
	"strings"

	"golang.org/x/tools/go/ssa"
)

func isIntegerType(t types.Type) bool {
	b, ok := t.Underlying().(*types.Basic)
	return ok && b.Info()&types.IsInteger != 0
}

func isSignedInt(t types.Type) bool {
	b, ok := t.Underlying().(*types.Basic)
	return ok && b.Info()&types.IsInteger != 0 && b.Info()&types.IsUnsigned == 0
}

func isFloatType(t types.Type) bool {
	b, ok := t.Underlying().(*types.Basic)
	return ok && b.Info()&types.IsFloat != 0
}

// ---------------------------------------------------------------------------
// R-DIV-GUARD: every integer / and % with a non-constant divisor is dominated by a
// branch that excludes divisor == 0.

func ruleDivGuard(c *Ctx, r *Report) {
	const rule = "R-DIV-GUARD"
	nfn := 0
	for _, fn := range c.LibFuncs() {
		nfn++
		eachInstr(fn, func(in ssa.Instruction) {
			bo, ok := in.(*ssa.BinOp)
			if !ok || (bo.Op != token.QUO && bo.Op != token.REM) || !isIntegerType(bo.X.Type()) {
				return
			}
			if _, isConst := bo.Y.(*ssa.Const); isConst {
				return // constant divisor: a zero constant is a compile error
			}
			// (met with seed C05j) a package-level variable that is assigned once, in the package initialiser, a
			// non-zero constant (var termSize = int64(unsafe.Sizeof(...)))
			if ld, ok := stripConv(bo.Y).(*ssa.UnOp); ok && ld.Op == token.MUL {
				if g, ok := ld.X.(*ssa.Global); ok && c.isLibPkg(g.Pkg) {
					nonZeroOnce, stores := true, 0
					for _, a := range c.globalAccesses(g) {
						if !a.write {
							continue
						}
						stores++
						st, isStore := a.in.(*ssa.Store)
						if !isStore || !isInitFn(a.fn) {
							nonZeroOnce = false
							continue
						}
						if k, ok := constInt(stripConv(st.Val)); !ok || k == 0 {
							nonZeroOnce = false
						}
					}
					if nonZeroOnce && stores == 1 {
						r.ok(rule, fmt.Sprintf("%s/%s(%s)", fname(fn), bo.Op, valName(bo.Y)), c.at(bo), "integer division/remainder divisor cannot be 0", "the divisor is a package-level variable assigned once, in the initialiser, a non-zero constant", false)
						return
					}
				}
			}
			key := fmt.Sprintf("%s/%s(%s)", fname(fn), bo.Op, valName(bo.Y))
			rg := c.rangeAt(bo.Block(), bo.Y)
			if rg.excludes(0) {
				r.ok(rule, key, c.at(bo), "integer division/remainder divisor cannot be 0", "branch facts on every path to the operation exclude divisor==0", true)
				return
			}
			// len(x) of a constant string / array
			if k := constLenOrigin(bo.Y); k > 0 {
				r.ok(rule, key, c.at(bo), "integer division/remainder divisor cannot be 0", fmt.Sprintf("divisor is len of a constant of length %d", k), false)
				return
			}
			r.bad(rule, key, c.at(bo), "integer division/remainder divisor cannot be 0", "no dominating branch excludes divisor==0: a zero divisor panics (runtime error: integer divide by zero)")
		})
	}
	r.analysed(rule, fmt.Sprintf("%d library functions scanned for integer QUO/REM", nfn))
}

func constLenOrigin(v ssa.Value) int64 {
	v = stripConv(v)
	if cv, ok := v.(*ssa.Convert); ok {
		v = cv.X
	}
	call, ok := v.(*ssa.Call)
	if !ok {
		return 0
	}
	b, ok := call.Call.Value.(*ssa.Builtin)
	if !ok || b.Name() != "len" || len(call.Call.Args) != 1 {
		return 0
	}
	if k, ok := call.Call.Args[0].(*ssa.Const); ok && k.Value != nil && k.Value.Kind() == constant.String {
		return int64(len(constant.StringVal(k.Value)))
	}
	if a, ok := deref(call.Call.Args[0].Type()).Underlying().(*types.Array); ok {
		return a.Len()
	}
	return 0
}

func valName(v ssa.Value) string {
	v = stripConv(v)
	switch x := v.(type) {
	case *ssa.Parameter:
		return x.Name()
	case *ssa.UnOp:
		if x.Op == token.MUL {
			switch a := x.X.(type) {
			case *ssa.FreeVar:
				return a.Name()
			case *ssa.Alloc:
				if a.Comment != "" {
					return a.Comment
				}
			case *ssa.Global:
				return a.Name()
			case *ssa.FieldAddr:
				return valName(a.X) + "." + fieldName(a)
			case *ssa.IndexAddr:
				return valName(a.X) + "[]"
			}
		}
	case *ssa.Const:
		if x.Value != nil {
			return x.Value.String()
		}
		return "nil"
	case *ssa.Global:
		return x.Name()
	case *ssa.Call:
		if f := x.Call.StaticCallee(); f != nil && baselineNameHook != nil && baselineNameHook(f) != "" {
			return baselineNameHook(f) + "()" // a renamed library function keeps the name construct keys know it by
		}
		if f := x.Call.StaticCallee(); f != nil {
			return f.Name() + "()"
		}
		if x.Call.IsInvoke() {
			return x.Call.Method.Name() + "()"
		}
	case *ssa.Extract:
		if ta, ok := x.Tuple.(*ssa.TypeAssert); ok {
			if x.Index == 0 {
				return valName(ta.X)
			}
			return valName(ta.X) + ".(ok)"
		}
		if _, ok := x.Tuple.(*ssa.Next); ok {
			return fmt.Sprintf("range#%d", x.Index)
		}
		return valName(x.Tuple) + fmt.Sprintf("#%d", x.Index)
	case *ssa.MakeInterface:
		return valName(x.X)
	case *ssa.ChangeInterface:
		return valName(x.X)
	case *ssa.Convert:
		return valName(x.X)
	case *ssa.Lookup:
		return valName(x.X) + "[]"
	case *ssa.Index:
		return valName(x.X) + "[]"
	case *ssa.Field:
		return valName(x.X) + "." + fmt.Sprint(x.Field)
	case *ssa.BinOp:
		return "(" + valName(x.X) + x.Op.String() + valName(x.Y) + ")"
	case *ssa.Alloc:
		if x.Comment != "" {
			return "&" + x.Comment
		}
	case *ssa.FreeVar:
		return x.Name()
	case *ssa.Function:
		return x.Name()
	case *ssa.MakeClosure:
		return x.Fn.Name()
	case *ssa.Phi:
		if x.Comment != "" {
			return x.Comment
		}
	case *ssa.TypeAssert:
		return valName(x.X)
	}
	return strings.TrimPrefix(v.Name(), "t") // SSA register; only as a last resort
}

func fieldName(fa *ssa.FieldAddr) string {
	st, ok := deref(fa.X.Type()).Underlying().(*types.Struct)
	if !ok {
		return fmt.Sprint(fa.Field)
	}
	return st.Field(fa.Field).Name()
}

// ---------------------------------------------------------------------------
// R-SHIFT-GUARD: every << and >> with a signed, non-constant count is dominated by a
// branch that excludes count < 0 (Go panics on a negative shift count).

func ruleShiftGuard(c *Ctx, r *Report) {
	const rule = "R-SHIFT-GUARD"
	for _, fn := range c.LibFuncs() {
		eachInstr(fn, func(in ssa.Instruction) {
			bo, ok := in.(*ssa.BinOp)
			if !ok || (bo.Op != token.SHL && bo.Op != token.SHR) {
				return
			}
			if _, isConst := bo.Y.(*ssa.Const); isConst {
				return
			}
			cnt := bo.Y
			if cv, ok := cnt.(*ssa.Convert); ok && !isSignedInt(cv.Type()) {
				// go/ssa converts the count to an unsigned type only after the sign check is
				// emitted by the compiler proper; in go/ssa a signed count stays signed.
				cnt = cv.X
			}
			if !isSignedInt(cnt.Type()) {
				return
			}
			key := fmt.Sprintf("%s/%s(%s)", fname(fn), bo.Op, valName(cnt))
			rg := c.rangeAt(bo.Block(), cnt)
			if rg.hasLo && rg.lo >= 0 {
				r.ok(rule, key, c.at(bo), "signed shift count cannot be negative", fmt.Sprintf("branch facts give count >= %d", rg.lo), true)
				return
			}
			r.bad(rule, key, c.at(bo), "signed shift count cannot be negative", "no dominating branch excludes count<0: a negative count panics (runtime error: negative shift amount)")
		})
	}
	r.analysed(rule, fmt.Sprintf("%d library functions scanned for SHL/SHR with signed non-constant count", len(c.LibFuncs())))
}

// ---------------------------------------------------------------------------
// R-IFACE-EQ: comparisons and map keys of interface-typed Term/termID values never see two
// values of the same uncomparable dynamic type.

// termImplementers returns the named (or pointer-to-named) types of the library that implement engine.Term.
func (c *Ctx) termImplementers() []types.Type {
	term := c.engType("Term")
	if term == nil {
		return nil
	}
	iface := term.Underlying().(*types.Interface)
	var out []types.Type
	for _, pk := range []*ssa.Package{c.Engine, c.Root} {
		var names []string
		for n := range pk.Members {
			names = append(names, n)
		}
		sort.Strings(names)
		for _, n := range names {
			t, ok := pk.Members[n].(*ssa.Type)
			if !ok {
				continue
			}
			if _, isIface := t.Type().Underlying().(*types.Interface); isIface {
				continue
			}
			if tp, ok := t.Type().(*types.Named); ok && tp.TypeParams().Len() > 0 {
				continue
			}
			if types.Implements(t.Type(), iface) {
				out = append(out, t.Type())
			} else if pt := types.NewPointer(t.Type()); types.Implements(pt, iface) {
				out = append(out, pt)
			}
		}
	}
	return out
}

func (c *Ctx) compoundIface() *types.Interface {
	n := c.engType("Compound")
	if n == nil {
		return nil
	}
	i, _ := n.Underlying().(*types.Interface)
	return i
}

func (c *Ctx) termIDerIface() *types.Interface {
	n := c.engType("termIDer")
	if n == nil {
		return nil
	}
	i, _ := n.Underlying().(*types.Interface)
	return i
}

// inIfaceEqScope: interface-typed operands that may hold Prolog terms or term ids.
func (c *Ctx) termLikeIface(t types.Type) bool {
	if !types.IsInterface(t) || isErrorType(t) {
		return false
	}
	if n, ok := t.(*types.Named); ok {
		if n.Obj().Pkg() == nil {
			return false
		}
		if n.Obj().Pkg().Path() != enginePkgPath {
			return false // reflect.Type, io.Reader, … : not Prolog data
		}
		switch n.Obj().Name() {
		case "Term", "Compound", "Number", "termID":
			return true
		}
		// any other engine interface that embeds Term
		if term := c.engType("Term"); term != nil {
			return types.Implements(t, term.Underlying().(*types.Interface))
		}
		return false
	}
	// unnamed: interface{} / any
	return t.Underlying().(*types.Interface).NumMethods() == 0
}

func ruleIfaceEq(c *Ctx, r *Report) {
	const rule = "R-IFACE-EQ"
	comp := c.compoundIface()
	if comp == nil {
		r.undecided(rule, "anchor:Compound", "-", "locate the Compound interface", "type engine.Compound not found")
		return
	}

	// supporting obligation 1: every Term implementer that is not a Compound is comparable;
	// every Compound implementer that is not comparable implements termIDer.
	ider := c.termIDerIface()
	for _, t := range c.termImplementers() {
		key := "type/" + typeName(t)
		isComp := types.Implements(t, comp)
		switch {
		case !isComp && types.Comparable(t):
			r.ok(rule, key, c.Pos(typePos(t)), "atomic Term representation is a comparable Go type", "types.Comparable", false)
		case !isComp:
			r.bad(rule, key, c.Pos(typePos(t)), "atomic Term representation is a comparable Go type", "an atomic term type that is not comparable makes `x == y` in unify/contains/variant panic")
		case types.Comparable(t):
			r.ok(rule, key, c.Pos(typePos(t)), "Compound representation usable as map key / id", "comparable as is", false)
		case ider != nil && types.Implements(t, ider):
			r.ok(rule, key, c.Pos(typePos(t)), "uncomparable Compound representation provides termID()", "implements termIDer", false)
		default:
			r.bad(rule, key, c.Pos(typePos(t)), "uncomparable Compound representation provides termID()", "id(t) would return the uncomparable value itself: map lookups keyed by id(t) panic")
		}
	}
	// supporting obligation 2: every termID() returns a comparable concrete value.
	if ider != nil {
		for _, t := range c.termImplementers() {
			if !types.Implements(t, ider) {
				continue
			}
			m := c.Prog.MethodSets.MethodSet(t).Lookup(c.Engine.Pkg, "termID")
			if m == nil {
				continue
			}
			fn := c.Prog.MethodValue(m)
			if fn == nil || fn.Blocks == nil {
				continue
			}
			key := "termID/" + typeName(t)
			okAll, n := true, 0
			eachInstr(fn, func(in ssa.Instruction) {
				ret, ok := in.(*ssa.Return)
				if !ok || len(ret.Results) != 1 {
					return
				}
				c.origins(ret.Results[0], func(l ssa.Value) {
					n++
					if !types.Comparable(l.Type()) || types.IsInterface(l.Type()) {
						okAll = false
					}
				})
			})
			if okAll && n > 0 {
				r.ok(rule, key, c.Pos(fn.Pos()), "termID() returns a value of a comparable concrete type", "all returned values are concrete and types.Comparable", true)
			} else {
				r.bad(rule, key, c.Pos(fn.Pos()), "termID() returns a value of a comparable concrete type", "a returned value is an interface or not comparable")
			}
		}
	}

	idFn := c.fn("id")
	fromID := func(v ssa.Value) bool {
		if idFn == nil {
			return false
		}
		ok, _ := c.comesOnlyFrom(v, func(l ssa.Value) bool {
			if call, _ := callOfValue(l); call != nil && call.Call.StaticCallee() == idFn {
				return true
			}
			// a pointer value converted to termID (partial.tail) is comparable
			if _, isPtr := l.Type().Underlying().(*types.Pointer); isPtr {
				return true
			}
			return false
		})
		return ok
	}

	// narrowed: operand cannot hold an uncomparable dynamic type at this point.
	narrowed := func(b *ssa.BasicBlock, v ssa.Value) (bool, string) {
		// (a) statically concrete & comparable
		if concreteComparable(v, map[ssa.Value]bool{}) {
			return true, "operand is a concrete comparable value converted to the interface"
		}
		// (a') key obtained by ranging over a map: it was hashed before
		if ex, ok := v.(*ssa.Extract); ok && ex.Index == 1 {
			if nx, ok := ex.Tuple.(*ssa.Next); ok && !nx.IsString {
				return true, "operand is a key read back from a map"
			}
		}
		// (b) result of id()
		if fromID(v) {
			return true, "operand is a termID produced by id()"
		}
		// (c) failed assertion to Compound dominates
		facts := c.factsAt(b)
		for f := range facts {
			if f.pol {
				continue
			}
			ex, ok := f.cond.(*ssa.Extract)
			if !ok || ex.Index != 1 {
				continue
			}
			ta, ok := ex.Tuple.(*ssa.TypeAssert)
			if !ok || !ta.CommaOk {
				continue
			}
			ai, ok := ta.AssertedType.Underlying().(*types.Interface)
			if !ok || !types.Identical(ai, comp) {
				continue
			}
			if c.sameIfaceValue(ta.X, v) {
				return true, "a failed comma-ok assertion to Compound dominates: the operand is atomic, and every atomic Term type is comparable"
			}
		}
		return false, ""
	}

	for _, fn := range c.LibFuncs() {
		eachInstr(fn, func(in ssa.Instruction) {
			switch x := in.(type) {
			case *ssa.BinOp:
				if x.Op != token.EQL && x.Op != token.NEQ {
					return
				}
				if !types.IsInterface(x.X.Type()) || !types.IsInterface(x.Y.Type()) {
					return
				}
				if !c.termLikeIface(x.X.Type()) && !c.termLikeIface(x.Y.Type()) {
					return
				}
				if isNilConst(x.X) || isNilConst(x.Y) {
					return
				}
				key := fmt.Sprintf("%s/%s %s %s", fname(fn), valName(x.X), x.Op, valName(x.Y))
				if ok, why := narrowed(x.Block(), x.X); ok {
					r.ok(rule, key, c.at(x), "interface comparison cannot meet two uncomparable dynamic values", "left: "+why, true)
					return
				}
				if ok, why := narrowed(x.Block(), x.Y); ok {
					r.ok(rule, key, c.at(x), "interface comparison cannot meet two uncomparable dynamic values", "right: "+why, true)
					return
				}
				r.bad(rule, key, c.at(x), "interface comparison cannot meet two uncomparable dynamic values",
					"neither operand is narrowed to an atomic/comparable term on this path: two `list` values panic with `comparing uncomparable type engine.list`")
			case *ssa.Lookup:
				if _, isMap := x.X.Type().Underlying().(*types.Map); !isMap || !c.termLikeIface(x.Index.Type()) {
					return
				}
				key := fmt.Sprintf("%s/map[%s]", fname(fn), valName(x.Index))
				if ok, why := narrowed(x.Block(), x.Index); ok {
					r.ok(rule, key, c.at(x), "interface-typed map key is hashable", why, true)
				} else {
					r.bad(rule, key, c.at(x), "interface-typed map key is hashable", "key may be an uncomparable term (runtime error: hash of unhashable type)")
				}
			case *ssa.MapUpdate:
				if !c.termLikeIface(x.Key.Type()) {
					return
				}
				key := fmt.Sprintf("%s/map[%s]=", fname(fn), valName(x.Key))
				if ok, why := narrowed(x.Block(), x.Key); ok {
					r.ok(rule, key, c.at(x), "interface-typed map key is hashable", why, true)
				} else {
					r.bad(rule, key, c.at(x), "interface-typed map key is hashable", "key may be an uncomparable term (runtime error: hash of unhashable type)")
				}
			}
		})
	}
	r.analysed(rule, fmt.Sprintf("%d library functions; %d Term implementers", len(c.LibFuncs()), len(c.termImplementers())))
}

// concreteComparable: v is (a phi of) MakeInterface of values whose static type is concrete and comparable.
func concreteComparable(v ssa.Value, seen map[ssa.Value]bool) bool {
	if seen[v] {
		return true
	}
	seen[v] = true
	switch x := v.(type) {
	case *ssa.MakeInterface:
		return !types.IsInterface(x.X.Type()) && types.Comparable(x.X.Type())
	case *ssa.ChangeInterface:
		return concreteComparable(x.X, seen)
	case *ssa.Phi:
		for _, e := range x.Edges {
			if !concreteComparable(e, seen) {
				return false
			}
		}
		return len(x.Edges) > 0
	}
	return false
}

func isNilConst(v ssa.Value) bool {
	k, ok := v.(*ssa.Const)
	return ok && k.Value == nil
}

func typePos(t types.Type) token.Pos {
	if n, ok := deref(t).(*types.Named); ok {
		return n.Obj().Pos()
	}
	return token.NoPos
}

// sameIfaceValue: a and b are the same interface value up to interface-to-interface conversion
// and reloading of one never-reassigned variable.
func (c *Ctx) sameIfaceValue(a, b ssa.Value) bool {
	strip := func(v ssa.Value) ssa.Value {
		for {
			switch x := v.(type) {
			case *ssa.ChangeInterface:
				v = x.X
			case *ssa.ChangeType:
				v = x.X
			default:
				return v
			}
		}
	}
	a, b = strip(a), strip(b)
	if a == b {
		return true
	}
	return c.sameVar(a, b)
}

// ---------------------------------------------------------------------------
// R-ENUM-TOTAL: keyed array tables and the opcode switch cover every declared constant.

type enumInfo struct {
	typ    *types.Named
	consts []*types.Const
}

func (c *Ctx) enumOf(t types.Type) *enumInfo {
	n, ok := t.(*types.Named)
	if !ok || n.Obj().Pkg() == nil {
		return nil
	}
	if !isIntegerType(n) {
		return nil
	}
	scope := n.Obj().Pkg().Scope()
	e := &enumInfo{typ: n}
	for _, name := range scope.Names() {
		k, ok := scope.Lookup(name).(*types.Const)
		if !ok || !types.Identical(k.Type(), n) {
			continue
		}
		if strings.HasPrefix(name, "_") {
			continue // length sentinels such as _operatorClassLen
		}
		e.consts = append(e.consts, k)
	}
	if len(e.consts) < 2 {
		return nil
	}
	return e
}

func ruleEnumTotal(c *Ctx, r *Report) {
	const rule = "R-ENUM-TOTAL"
	ntables := 0
	for _, pk := range c.libPackages() {
		info := pk.TypesInfo
		for _, file := range pk.Syntax {
			var stack []ast.Node
			ast.Inspect(file, func(n ast.Node) bool {
				if n == nil {
					stack = stack[:len(stack)-1]
					return true
				}
				stack = append(stack, n)
				switch x := n.(type) {
				case *ast.CompositeLit:
					at, ok := x.Type.(*ast.ArrayType)
					if !ok || at.Len == nil {
						return true
					}
					if _, ell := at.Len.(*ast.Ellipsis); !ell {
						if call, ok := at.Len.(*ast.CallExpr); !ok || !isBuiltinCall(info, call, "len") {
							return true // explicit length: sparse by design
						}
					}
					var en *enumInfo
					covered := map[string]bool{}
					for _, el := range x.Elts {
						kv, ok := el.(*ast.KeyValueExpr)
						if !ok {
							return true
						}
						tv, ok := info.Types[kv.Key]
						if !ok || tv.Value == nil {
							return true
						}
						e := c.enumOf(tv.Type)
						if e == nil {
							return true
						}
						if en == nil {
							en = e
						} else if en.typ != e.typ {
							return true
						}
						covered[tv.Value.ExactString()] = true
					}
					if en == nil {
						return true
					}
					ntables++
					name := enclosingName(stack)
					var missing []string
					for _, k := range en.consts {
						if !covered[k.Val().ExactString()] {
							missing = append(missing, k.Name())
						}
					}
					key := fmt.Sprintf("table/%s[%s]", name, en.typ.Obj().Name())
					desc := fmt.Sprintf("table keyed by %s has a row for each of its %d constants", en.typ.Obj().Name(), len(en.consts))
					if len(missing) == 0 {
						r.ok(rule, key, c.Pos(x.Pos()), desc, fmt.Sprintf("%d rows cover %d constants", len(x.Elts), len(en.consts)), false)
					} else {
						r.bad(rule, key, c.Pos(x.Pos()), desc, "no row for "+strings.Join(missing, ", ")+": indexing with it panics (index out of range) or yields the zero atom in an error term")
					}
				case *ast.SwitchStmt:
					if x.Tag == nil {
						return true
					}
					tv, ok := info.Types[x.Tag]
					if !ok {
						return true
					}
					en := c.enumOf(tv.Type)
					if en == nil || !c.isOpcodeType(en.typ) {
						return true
					}
					covered := map[string]bool{}
					hasDefault := false
					for _, s := range x.Body.List {
						cc := s.(*ast.CaseClause)
						if cc.List == nil {
							hasDefault = true
						}
						for _, e := range cc.List {
							if v := info.Types[e].Value; v != nil {
								covered[v.ExactString()] = true
							}
						}
					}
					name := enclosingName(stack)
					key := fmt.Sprintf("switch/%s[%s]", name, en.typ.Obj().Name())
					desc := fmt.Sprintf("interpreter switch over %s handles each of its %d constants", en.typ.Obj().Name(), len(en.consts))
					var missing []string
					for _, k := range en.consts {
						if !covered[k.Val().ExactString()] {
							missing = append(missing, k.Name())
						}
					}
					switch {
					case len(missing) == 0:
						r.ok(rule, key, c.Pos(x.Pos()), desc, fmt.Sprintf("%d constants covered", len(en.consts)), false)
					case hasDefault:
						r.ok(rule, key, c.Pos(x.Pos()), desc, "default arm present for "+strings.Join(missing, ", "), false)
					default:
						r.bad(rule, key, c.Pos(x.Pos()), desc, "no arm for "+strings.Join(missing, ", ")+": the instruction is silently skipped by the interpreter loop")
					}
				}
				return true
			})
		}
	}
	r.analysed(rule, fmt.Sprintf("%d keyed array tables", ntables))
}

func isBuiltinCall(info *types.Info, call *ast.CallExpr, name string) bool {
	id, ok := call.Fun.(*ast.Ident)
	if !ok {
		return false
	}
	b, ok := info.Uses[id].(*types.Builtin)
	return ok && b.Name() == name
}

// enclosingName names the declaration (var or func) an AST node sits in.
func enclosingName(stack []ast.Node) string {
	for i := len(stack) - 1; i >= 0; i-- {
		switch d := stack[i].(type) {
		case *ast.FuncDecl:
			if d.Recv != nil && len(d.Recv.List) > 0 {
				return recvTypeName(d.Recv.List[0].Type) + "." + d.Name.Name
			}
			return d.Name.Name
		case *ast.ValueSpec:
			if len(d.Names) > 0 {
				return d.Names[0].Name
			}
		}
	}
	return "?"
}

func recvTypeName(e ast.Expr) string {
	switch x := e.(type) {
	case *ast.StarExpr:
		return recvTypeName(x.X)
	case *ast.Ident:
		return x.Name
	case *ast.IndexExpr:
		return recvTypeName(x.X)
	}
	return "?"
}

// isOpcodeType: the named integer type of the first field of the element type of the
// bytecode slice executed by the interpreter (shape), falling back to the name "opcode".
func (c *Ctx) isOpcodeType(n *types.Named) bool {
	if t := c.opcodeType(); t != nil {
		return types.Identical(t, n)
	}
	return false
}

func (c *Ctx) opcodeType() *types.Named {
	// shape: a struct type with exactly two fields (T, Term) where T is a named integer type
	// with >= 8 constants.
	term := c.engType("Term")
	var found []*types.Named
	for _, m := range c.Engine.Members {
		t, ok := m.(*ssa.Type)
		if !ok {
			continue
		}
		st, ok := t.Type().Underlying().(*types.Struct)
		if !ok || st.NumFields() != 2 {
			continue
		}
		f0, ok := st.Field(0).Type().(*types.Named)
		if !ok || !isIntegerType(f0) || term == nil || !types.Identical(st.Field(1).Type(), term) {
			continue
		}
		if e := c.enumOf(f0); e != nil && len(e.consts) >= 8 {
			found = append(found, f0)
		}
	}
	if len(found) == 1 {
		return found[0]
	}
	return c.engType("opcode")
}

// ---------------------------------------------------------------------------
// R-ZERO-VM (C05; added with fixes F47/F48): "the zero value for VM is a valid VM" (engine/vm.go), and the
// sandboxing example builds its interpreter that way.  Its nilable fields - FS (an interface), input and
// output (*Stream), Unknown (a func) - are nil then.  Wherever the value loaded from such a field is USED in a
// way that needs it non-nil, the branch facts say it is non-nil:
//   - an interface field: as the receiver of a method call or as an argument of a non-library function;
//   - a pointer field: converted to an interface (a nil *Stream that becomes a term panics in whichever
//     built-in uses it next, and the recovered panic comes back as the error "panic: ..."), dereferenced, or
//     used as a receiver;
//   - a func field: called.
//
// Comparisons with nil and plain stores are not uses.
func ruleZeroVM(c *Ctx, r *Report) {
	const rule = "R-ZERO-VM"
	desc := "a nilable field of VM is used only where it is known non-nil (the zero VM is a valid VM)"
	c.nilableFieldUses(r, rule, desc, "VM", nil)
	// (with fix F55) prolog.New(in, nil) and New(nil, out) are accepted: a Stream's source and sink may be nil
	c.nilableFieldUses(r, rule, "the source/sink of a Stream is used only where it is known non-nil (New accepts nil for either)", "Stream", map[string]bool{"source": true, "sink": true})
}

func (c *Ctx) nilableFieldUses(r *Report, rule, desc, typ string, only map[string]bool) {
	vmT := c.engType(typ)
	if vmT == nil {
		r.undecided(rule, "anchor:"+typ, "-", "locate engine."+typ, "not found")
		return
	}
	st := vmT.Underlying().(*types.Struct)
	nilable := map[int]string{}
	for i := 0; i < st.NumFields(); i++ {
		if only != nil && !only[st.Field(i).Name()] {
			continue
		}
		switch st.Field(i).Type().Underlying().(type) {
		case *types.Interface, *types.Pointer, *types.Signature:
			nilable[i] = st.Field(i).Name()
		}
	}
	n := 0
	for _, fn := range c.LibFuncs() {
		seen := map[string]int{}
		eachInstr(fn, func(in ssa.Instruction) {
			ld, ok := in.(*ssa.UnOp)
			if !ok || ld.Op != token.MUL {
				return
			}
			fa, ok := ld.X.(*ssa.FieldAddr)
			if !ok || !isEngNamed(deref(fa.X.Type()), typ) || nilable[fa.Field] == "" || ld.Referrers() == nil {
				return
			}
			field := nilable[fa.Field]
			for _, ref := range *ld.Referrers() {
				use := ""
				switch u := ref.(type) {
				case *ssa.MakeInterface:
					use = "is converted to " + types.TypeString(u.Type(), func(p *types.Package) string { return p.Name() })
				case *ssa.FieldAddr, *ssa.Field:
					use = "is dereferenced"
				case *ssa.UnOp:
					if u.Op == token.MUL {
						use = "is dereferenced"
					}
				case ssa.CallInstruction:
					cc := u.Common()
					switch {
					case cc.IsInvoke() && cc.Value == ssa.Value(ld):
						use = "is the receiver of " + cc.Method.Name()
					case !cc.IsInvoke() && cc.Value == ssa.Value(ld):
						use = "is called"
					default:
						callee := cc.StaticCallee()
						for i, a := range cc.Args {
							if a != ssa.Value(ld) {
								continue
							}
							if callee == nil || !c.isLibPkg(funcPkg(callee)) {
								use = "is passed to " + calleeName(cc)
							} else if i == 0 && callee.Signature.Recv() != nil {
								use = "is the receiver of " + callee.Name()
							}
						}
					}
				}
				if use == "" {
					continue
				}
				n++
				base := fmt.Sprintf("%s/%s.%s", fname(fn), typ, field)
				seen[base]++
				key := fmt.Sprintf("%s#%d", base, seen[base])
				nonNil := false
				at := ref.Block()
				for f := range c.factsAt(at) {
					x, op, ok := nilCmp(f.cond)
					if !ok || (op == token.NEQ) != f.pol {
						continue
					}
					if l2, ok := x.(*ssa.UnOp); ok && l2.Op == token.MUL {
						if fa2, ok := l2.X.(*ssa.FieldAddr); ok && fa2.Field == fa.Field && isEngNamed(deref(fa2.X.Type()), typ) && c.sameVar(fa2.X, fa.X) {
							nonNil = true
						}
					}
				}
				// a store of a non-nil value to the same field earlier in the function (lazy default) also settles it
				if !nonNil {
					eachInstr(fn, func(x ssa.Instruction) {
						st, ok := x.(*ssa.Store)
						if !ok {
							return
						}
						fa2, ok := st.Addr.(*ssa.FieldAddr)
						if !ok || fa2.Field != fa.Field || !isEngNamed(deref(fa2.X.Type()), typ) {
							return
						}
						if _, isClosure := st.Val.(*ssa.MakeClosure); !isClosure {
							if _, isFn := st.Val.(*ssa.Function); !isFn {
								return
							}
						}
						// the store must lie on every path that reaches the use with the field still nil: it is the
						// then-branch of `if field == nil`, so the join after it dominates the use
						sb := st.Block()
						if len(sb.Succs) == 1 && (sb.Succs[0] == at || sb.Succs[0].Dominates(at)) {
							nonNil = true
						}
					})
				}
				if nonNil {
					r.ok(rule, key, c.at(ref), desc, typ+"."+field+" "+use+" where it is known non-nil", true)
				} else {
					r.bad(rule, key, c.at(ref), desc, typ+"."+field+" "+use+" although it may be nil: a nil dereference, recovered at best into an error that says \"panic: ...\"")
				}
			}
		})
	}
	if n == 0 {
		r.undecided(rule, "scan/uses:"+typ, "-", desc, "no use of a nilable field of "+typ+" found")
	}
}

// ---------------------------------------------------------------------------
// R-MAKE-RECOVERS (C05; added after seed C05j): `make([]T, n)` with a length that comes from a Prolog integer can
// panic in the Go runtime ("makeslice: len out of range") for lengths the memory check lets through; "no returned
// error is the residue of a recovered Go runtime panic" (the generic recovery of the trampoline turns the panic
// into a Go error, not a term). The function that allocates slices for user-chosen lengths (the one that reads the
// free-memory hook) defers a closure that calls recover().
func ruleMakeRecovers(c *Ctx, r *Report) {
	const rule = "R-MAKE-RECOVERS"
	desc := "the allocator of user-sized slices turns a runtime panic of make into its own error"
	mf := c.global("memFree")
	if mf == nil {
		r.undecided(rule, "anchor:memFree", "-", desc, "not found")
		return
	}
	n := 0
	for _, fn := range c.LibFuncs() {
		if fn.Parent() != nil || funcPkg(fn) != c.Engine {
			continue
		}
		reads, makes := false, false
		eachInstr(fn, func(in ssa.Instruction) {
			if ld, ok := in.(*ssa.UnOp); ok && ld.Op == token.MUL && ld.X == ssa.Value(mf) {
				reads = true
			}
			if _, ok := in.(*ssa.MakeSlice); ok {
				makes = true
			}
		})
		if !reads || !makes {
			continue
		}
		n++
		key := fname(fn) + "/deferred-recover"
		recovers := false
		eachInstr(fn, func(in ssa.Instruction) {
			d, ok := in.(*ssa.Defer)
			if !ok {
				return
			}
			var callee *ssa.Function
			switch v := d.Call.Value.(type) {
			case *ssa.Function:
				callee = v
			case *ssa.MakeClosure:
				callee, _ = v.Fn.(*ssa.Function)
			}
			if callee == nil {
				return
			}
			eachInstr(callee, func(in2 ssa.Instruction) {
				if ci, ok := in2.(ssa.CallInstruction); ok {
					if b, ok := ci.Common().Value.(*ssa.Builtin); ok && b.Name() == "recover" {
						recovers = true
					}
				}
			})
		})
		if recovers {
			r.ok(rule, key, c.Pos(fn.Pos()), desc, "a deferred closure calls recover()", true)
		} else {
			r.bad(rule, key, c.Pos(fn.Pos()), desc, "no deferred recover(): a length that passes the memory test but exceeds what make accepts (functor(_, f, 100000000000000000)) panics in the runtime, and the caller gets `panic: runtime error: makeslice: len out of range` instead of resource_error(memory)")
		}
	}
	if n == 0 {
		r.undecided(rule, "scan/allocator", "-", desc, "no function reads the free-memory hook and makes a slice")
	}
}
