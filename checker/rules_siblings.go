package main

import (
	"fmt"
	"go/constant"
	"go/token"
	"go/types"
	"sort"
	"strings"

	"golang.org/x/tools/go/ssa"
)

// ---------------------------------------------------------------------------
// R-SIBLING-ERRORS (C05, C16, C19): built-ins that ISO defines as siblings - the same argument checks, for
// another direction, another unit or another base index - raise the same errors. For each pair listed below
// (confirmed by reading to agree on today's tree) the SET of errors the two Go functions can raise - error
// constructor plus its constant arguments, collected over the function, its closures and the unexported helpers
// it calls statically (three levels) - is equal, after the renaming the pair declares (input <-> output).
// A guard dropped or weakened in one sibling (a copy of the wrong sibling, a "simplification") shows as a
// difference; a guard added to both, or moved into a shared helper, does not.
var errorCtors = map[string]bool{"InstantiationError": true, "typeError": true, "domainError": true, "existenceError": true,
	"permissionError": true, "representationError": true, "resourceError": true, "evaluationError": true}

type siblingPair struct {
	prop   string
	a, b   string
	arity  int
	rename [][2]string // applied to the rendered errors of b
	extraB []string    // errors only b may raise, each with its reason in why
	why    string
}

var siblingPairs = []siblingPair{
	{"C19", "get_char", "peek_char", 2, nil, nil, "8.12.1/8.12.2: the same errors; peeking differs only in not consuming"},
	{"C19", "get_byte", "peek_byte", 2, nil, nil, "8.13.1/8.13.2: the same errors"},
	{"C19", "put_char", "put_byte", 2, [][2]string{{"TextStream", "BinaryStream"}, {"validTypeByte", "validTypeCharacter"}}, nil, "8.12.3/8.13.3: the same checks for the other kind of stream and unit"},
	{"C19", "current_input", "current_output", 1, [][2]string{{"output", "input"}, {"Output", "Input"}}, nil, "8.11.1/8.11.2"},
	{"C19", "set_input", "set_output", 1, [][2]string{{"output", "input"}, {"Output", "Input"}}, nil, "8.11.3/8.11.4"},
	{"C16", "nth0", "nth1", 3, nil, nil, "the same relation with another base index"},
	{"C16", "atom_chars", "atom_codes", 2, [][2]string{{"validTypeInteger", "validTypeCharacter"}}, []string{"representationError(flagCharacterCode)"}, "8.16.4/8.16.5: the same checks per unit; only a code can be out of range"},
	{"C16", "number_chars", "number_codes", 2, [][2]string{{"validTypeInteger", "validTypeCharacter"}}, []string{"representationError(flagCharacterCode)"}, "8.16.7/8.16.8: the same checks per unit; only a code can be out of range"},
	{"C09", "asserta", "assertz", 1, nil, nil, "8.9.1/8.9.2: the same errors; only the end of the list differs"},
	{"C11", "bagof", "setof", 3, nil, nil, "8.10.2/8.10.3: the same errors; setof/3 sorts"},
}

func (c *Ctx) constName(v *ssa.Const) string {
	if v.Value == nil {
		return "nil"
	}
	if n, ok := v.Type().(*types.Named); ok && n.Obj().Pkg() != nil {
		var names []string
		for _, m := range c.Engine.Members {
			if nc, ok := m.(*ssa.NamedConst); ok && types.Identical(nc.Type(), v.Type()) && constant.Compare(nc.Value.Value, token.EQL, v.Value) {
				names = append(names, nc.Name())
			}
		}
		sort.Strings(names)
		if len(names) > 0 {
			return names[0]
		}
	}
	return v.Value.String()
}

// raisedErrors: the rendered error constructions reachable from fn.
func (c *Ctx) raisedErrors(fn *ssa.Function) map[string]bool {
	out := map[string]bool{}
	seen := map[*ssa.Function]bool{}
	var walk func(f *ssa.Function, depth int)
	walk = func(f *ssa.Function, depth int) {
		if f == nil || seen[f] || len(f.Blocks) == 0 {
			return
		}
		seen[f] = true
		for _, g := range withAnon(f) {
			eachInstr(g, func(in ssa.Instruction) {
				ci, ok := in.(ssa.CallInstruction)
				if !ok {
					return
				}
				callee := ci.Common().StaticCallee()
				if callee == nil || funcPkg(callee) != c.Engine {
					return
				}
				name := c.stableFuncName(callee)
				if errorCtors[name] && callee.Signature.Recv() == nil {
					var parts []string
					for _, a := range ci.Common().Args {
						if k, ok := a.(*ssa.Const); ok {
							parts = append(parts, c.constName(k))
						}
					}
					out[name+"("+strings.Join(parts, ",")+")"] = true
					return
				}
				// an unexported helper (function or method) of the engine: part of the implementation
				if depth < 3 && callee.Object() != nil && !callee.Object().Exported() {
					walk(callee, depth+1)
				}
			})
		}
	}
	walk(fn, 0)
	return out
}

func ruleSiblingErrors(prop string) func(c *Ctx, r *Report) {
	return func(c *Ctx, r *Report) { siblingErrors(c, r, prop) }
}

func siblingErrors(c *Ctx, r *Report, prop string) {
	const rule = "R-SIBLING-ERRORS"
	desc := "sibling built-ins raise the same set of errors"
	for _, sp := range siblingPairs {
		if sp.prop != prop {
			continue
		}
		key := fmt.Sprintf("%s~%s/%d", sp.a, sp.b, sp.arity)
		fa, fb := c.registeredFn(sp.a, sp.arity), c.registeredFn(sp.b, sp.arity)
		if fa == nil || fb == nil {
			r.undecided(rule, key, "-", desc, "one of the two is not registered")
			continue
		}
		ea, eb0 := c.raisedErrors(fa), c.raisedErrors(fb)
		eb := map[string]bool{}
		for e := range eb0 {
			for _, rn := range sp.rename {
				e = strings.ReplaceAll(e, rn[0], rn[1])
			}
			eb[e] = true
		}
		var onlyA, onlyB []string
		for e := range ea {
			if !eb[e] {
				onlyA = append(onlyA, e)
			}
		}
		for e := range eb {
			allowed := false
			for _, x := range sp.extraB {
				if x == e {
					allowed = true
				}
			}
			if !ea[e] && !allowed {
				onlyB = append(onlyB, e)
			}
		}
		sort.Strings(onlyA)
		sort.Strings(onlyB)
		if len(onlyA)+len(onlyB) == 0 {
			r.ok(rule, key, c.Pos(fa.Pos()), desc, fmt.Sprintf("%d kinds of error each (%s)", len(ea), sp.why), len(ea) > 0)
		} else {
			r.bad(rule, key, c.Pos(fb.Pos()), desc, fmt.Sprintf("only %s raises %v; only %s raises %v: a check present in one sibling is missing (or different) in the other", sp.a, onlyA, sp.b, onlyB))
		}
		r.analysed(rule, fmt.Sprintf("%s: %v", key, sortedKeys(ea)))
	}
}

func sortedKeys(m map[string]bool) []string {
	var out []string
	for k := range m {
		out = append(out, k)
	}
	sort.Strings(out)
	return out
}
