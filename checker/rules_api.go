package main

import (
	"fmt"
	"go/token"
	"go/types"
	"math"
	"sort"
	"strings"

	"golang.org/x/tools/go/ssa"
)

// ---------------------------------------------------------------------------
// R-NARROWING (C15)

// intRangeOf returns the value range of an integer basic type under the analysed build's sizes.
func (c *Ctx) intBits(t types.Type) (bits int64, signed bool) {
	b := t.Underlying().(*types.Basic)
	return c.Sizes.Sizeof(t) * 8, b.Info()&types.IsUnsigned == 0
}

// errReturnBlocks: blocks of fn that return a non-nil error (last result).
func errReturnBlocks(fn *ssa.Function) map[*ssa.BasicBlock]bool {
	out := map[*ssa.BasicBlock]bool{}
	for _, b := range blocksOf(fn) {
		ret, ok := b.Instrs[len(b.Instrs)-1].(*ssa.Return)
		if !ok || len(ret.Results) == 0 {
			continue
		}
		last := ret.Results[len(ret.Results)-1]
		if !isErrorType(last.Type()) {
			continue
		}
		if !isNilConst(last) {
			out[b] = true
		}
	}
	return out
}

func ruleNarrowing(c *Ctx, r *Report) {
	const rule = "R-NARROWING"
	n := 0
	for _, fn := range c.LibFuncs() {
		if funcPkg(fn) != c.Root {
			continue
		}
		errBlocks := errReturnBlocks(fn)
		eachInstr(fn, func(in ssa.Instruction) {
			cv, ok := in.(*ssa.Convert)
			if !ok {
				return
			}
			src := cv.X.Type()
			var narrowing bool
			var what string
			switch {
			case isEngNamed(src, "Integer") && isIntegerType(cv.Type()):
				bits, signed := c.intBits(cv.Type())
				narrowing = bits < 64 || !signed
				what = fmt.Sprintf("Integer (64-bit) -> %s (%d-bit)", typeName(cv.Type()), bits)
			case isEngNamed(src, "Float") && isFloatType(cv.Type()):
				narrowing = c.Sizes.Sizeof(cv.Type()) < 8
				what = fmt.Sprintf("Float (64-bit) -> %s", typeName(cv.Type()))
			default:
				return
			}
			if !narrowing {
				r.ok(rule, fmt.Sprintf("%s/%s(%s)", fname(fn), typeName(cv.Type()), valName(cv.X)), c.at(cv), "conversion of an answer value to the destination type loses nothing", what+": destination represents every source value in this build configuration", false)
				n++
				return
			}
			// is this conversion's result stored into the destination (or returned)? conversions used only inside the
			// guard itself (round-trip test) are not obligations.
			usedAsValue := false
			for _, ref := range *cv.Referrers() {
				switch x := ref.(type) {
				case *ssa.Store:
					usedAsValue = true
				case *ssa.MakeInterface:
					usedAsValue = true
				case *ssa.Return:
					usedAsValue = true
				case *ssa.Convert:
					_ = x // part of a round trip
				}
			}
			if !usedAsValue {
				return
			}
			n++
			key := fmt.Sprintf("%s/%s(%s)", fname(fn), typeName(cv.Type()), valName(cv.X))
			desc := "a narrowing conversion of an answer value is guarded by an exactness/range test whose failing edge returns an error"
			// (a) range facts
			if isIntegerType(cv.Type()) {
				bits, signed := c.intBits(cv.Type())
				rg := c.rangeAt(cv.Block(), cv.X)
				var lo, hi int64
				if signed {
					lo, hi = -(int64(1) << (bits - 1)), (int64(1)<<(bits-1))-1
				} else {
					lo, hi = 0, math.MaxInt64
					if bits < 63 {
						hi = (int64(1) << bits) - 1
					}
				}
				if rg.hasLo && rg.hasHi && rg.lo >= lo && rg.hi <= hi {
					r.ok(rule, key, c.at(cv), desc, fmt.Sprintf("branch facts bound the operand to [%d, %d]", rg.lo, rg.hi), true)
					return
				}
			}
			// (b) a dominating test on a conversion of the same operand to the same type with an error edge
			guarded := false
			for _, d := range blocksOf(fn) {
				cond := ifCond(d)
				if cond == nil || !d.Dominates(cv.Block()) || d == cv.Block() {
					continue
				}
				dep := false
				dataSlice(cond, func(v ssa.Value) bool {
					if c2, ok := v.(*ssa.Convert); ok && types.Identical(c2.Type(), cv.Type()) && c.sameVar(c2.X, cv.X) {
						dep = true
					}
					return true
				})
				if !dep {
					continue
				}
				for _, s := range d.Succs {
					if errBlocks[s] {
						guarded = true
					}
					for eb := range errBlocks {
						if s.Dominates(eb) && len(s.Preds) == 1 {
							guarded = true
						}
					}
				}
			}
			if guarded {
				r.ok(rule, key, c.at(cv), desc, "dominated by a test of the converted value whose other edge returns an error", true)
				return
			}
			r.bad(rule, key, c.at(cv), desc, what+" without any guard: out-of-range answers are stored wrapped/truncated and no error is returned")
		})
	}
	r.analysed(rule, fmt.Sprintf("%d conversions of Integer/Float answer values in the root package", n))
}

// ---------------------------------------------------------------------------
// R-PLACEHOLDER-TAINT (C15)

func rulePlaceholderTaint(c *Ctx, r *Report) {
	const rule = "R-PLACEHOLDER-TAINT"
	tainted := map[ssa.Value]bool{}
	from := map[ssa.Value]ssa.Value{}
	var work []ssa.Value
	var cur ssa.Value
	termIface := c.engType("Term").Underlying().(*types.Interface)
	isData := func(t types.Type) bool {
		// once the value is a Prolog term (or an error value) it is data of the interpreter, not host input any more
		if isErrorType(t) {
			return true
		}
		if tup, ok := t.(*types.Tuple); ok {
			for i := 0; i < tup.Len(); i++ {
				if !isErrorType(tup.At(i).Type()) && !types.Implements(tup.At(i).Type(), termIface) && !isTermSlice(tup.At(i).Type(), termIface) {
					return false
				}
			}
			return true
		}
		return types.Implements(t, termIface) || isTermSlice(t, termIface)
	}
	// loads of struct fields, by (struct type, field index): host values parked in a field (the parser's argument
	// queue since fix F46) are followed to every place that reads the field
	fieldLoads := map[string][]*ssa.UnOp{}
	fieldKey := func(fa *ssa.FieldAddr) string {
		return fmt.Sprintf("%s#%d", deref(fa.X.Type()).String(), fa.Field)
	}
	for _, fn := range c.LibFuncs() {
		eachInstr(fn, func(in ssa.Instruction) {
			if ld, ok := in.(*ssa.UnOp); ok && ld.Op == token.MUL {
				if fa, ok := ld.X.(*ssa.FieldAddr); ok {
					fieldLoads[fieldKey(fa)] = append(fieldLoads[fieldKey(fa)], ld)
				}
			}
		})
	}
	taintedField := map[string]bool{}
	var taint func(v ssa.Value)
	// only raw host values are followed through fields: reflect.Value, interface{} and slices of them (what a
	// string taken out of them flows into - atom names, say - is followed as before, along values only)
	var isRaw func(t types.Type) bool
	isRaw = func(t types.Type) bool {
		if isNamedIn(t, "reflect", "Value") {
			return true
		}
		switch u := t.Underlying().(type) {
		case *types.Interface:
			return u.NumMethods() == 0
		case *types.Slice:
			return isRaw(u.Elem())
		}
		return false
	}
	taintField := func(fa *ssa.FieldAddr) {
		k := fieldKey(fa)
		if taintedField[k] || !isRaw(deref(fa.Type())) {
			return
		}
		taintedField[k] = true
		for _, ld := range fieldLoads[k] {
			taint(ld)
		}
	}
	taint = func(v ssa.Value) {
		if v != nil && !tainted[v] && !isData(v.Type()) {
			tainted[v] = true
			from[v] = cur
			work = append(work, v)
			if ld, ok := v.(*ssa.UnOp); ok && ld.Op == token.MUL {
				if fa, ok := ld.X.(*ssa.FieldAddr); ok {
					taintField(fa) // an element was stored into the slice this field holds
				}
			}
		}
	}
	trail := func(v ssa.Value) string {
		var parts []string
		for i := 0; v != nil && i < 12; i++ {
			where := ""
			if in, ok := v.(ssa.Instruction); ok {
				where = "@" + c.at(in)
			} else if p, ok := v.(*ssa.Parameter); ok {
				where = "@" + fname(p.Parent())
			}
			parts = append(parts, fmt.Sprintf("%s%s", valName(v), where))
			v = from[v]
		}
		return strings.Join(parts, " <- ")
	}
	// sources: variadic ...interface{} parameters of exported entry points
	var sources []string
	for _, fn := range c.LibFuncs() {
		sig := fn.Signature
		if !sig.Variadic() || fn.Parent() != nil {
			continue
		}
		last := sig.Params().At(sig.Params().Len() - 1)
		sl, ok := last.Type().(*types.Slice)
		if !ok {
			continue
		}
		if it, ok := sl.Elem().Underlying().(*types.Interface); !ok || it.NumMethods() != 0 {
			continue
		}
		if isEngNamed(sl.Elem(), "Term") {
			continue
		}
		p := fn.Params[len(fn.Params)-1]
		taint(p)
		sources = append(sources, fname(fn))
	}
	sort.Strings(sources)
	paramOf := func(fn *ssa.Function, i int) ssa.Value {
		if i < len(fn.Params) {
			return fn.Params[i]
		}
		return nil
	}
	type sinkHit struct {
		in   ssa.Instruction
		what string
	}
	var hits []sinkHit
	isReaderCtor := func(f *ssa.Function) bool {
		if f == nil {
			return false
		}
		if f.Pkg != nil {
			switch f.Pkg.Pkg.Path() + "." + f.Name() {
			case "strings.NewReader", "bytes.NewReader", "bytes.NewBufferString", "bytes.NewBuffer", "bufio.NewReader":
				return true
			}
		}
		return f == c.fn("newRuneRingBuffer") || f == c.fn("NewParser")
	}
	for len(work) > 0 {
		v := work[len(work)-1]
		work = work[:len(work)-1]
		cur = v
		refs := v.Referrers()
		if refs == nil {
			continue
		}
		for _, ref := range *refs {
			switch x := ref.(type) {
			case *ssa.Call:
				callee := x.Call.StaticCallee()
				for i, a := range x.Call.Args {
					if a != v {
						continue
					}
					if isReaderCtor(callee) {
						hits = append(hits, sinkHit{x, "passed to " + callee.Name() + ": the text would be tokenised as Prolog syntax; flow: " + trail(v)})
						continue
					}
					// (after seed C15f) a regular expression applied to the host's text treats it as written syntax:
					// the escape patterns of quoted tokens turn `C:\new` into C:<newline>ew
					if callee != nil && callee.Signature.Recv() != nil && isNamedIn(deref(callee.Signature.Recv().Type()), "regexp", "Regexp") && i > 0 {
						hits = append(hits, sinkHit{x, "matched against a regular expression (" + callee.Name() + "): the host's text is examined as if it were the inside of a quoted token (escape sequences are applied to it); flow: " + trail(v)})
						continue
					}
					if callee != nil && c.isLibPkg(funcPkg(callee)) && callee.Blocks != nil {
						taint(paramOf(callee, i))
						continue
					}
					// external or dynamic call: result carries the data (reflect.ValueOf, Value.String, Index …)
					taint(x)
				}
				if x.Call.IsInvoke() && x.Call.Value == v {
					taint(x)
				}
			case *ssa.BinOp:
				if x.Op == token.ADD && isStringType(x.Type()) {
					taint(x)
				}
			case *ssa.Store:
				if x.Val == v {
					// storing tainted data: taint the cell's loads (local variables / slices elements)
					if cell := c.varCell(x.Addr); cell != nil {
						for _, r2 := range *cell.Referrers() {
							if ld, ok := r2.(*ssa.UnOp); ok && ld.Op == token.MUL {
								taint(ld)
							}
						}
					}
					if ia, ok := x.Addr.(*ssa.IndexAddr); ok {
						taint(ia.X)
					}
					if fa, ok := x.Addr.(*ssa.FieldAddr); ok {
						taintField(fa)
					}
				}
			case *ssa.Return:
				// results of library functions returning tainted data
				fn := x.Parent()
				for _, cs := range c.callSitesOf(fn) {
					if cv, ok := cs.(ssa.Value); ok {
						taint(cv)
					}
				}
			case ssa.Value:
				switch x.(type) {
				case *ssa.Slice, *ssa.IndexAddr, *ssa.Index, *ssa.UnOp, *ssa.Extract, *ssa.Phi, *ssa.MakeInterface,
					*ssa.ChangeInterface, *ssa.ChangeType, *ssa.Convert, *ssa.TypeAssert, *ssa.Range, *ssa.Next, *ssa.Lookup, *ssa.FieldAddr, *ssa.Field, *ssa.MakeClosure:
					taint(x)
				}
			}
		}
	}
	desc := "a Go value passed for a placeholder never reaches a reader that a lexer tokenises"
	if len(sources) == 0 {
		r.undecided(rule, "anchor:sources", "-", desc, "no variadic ...interface{} entry point found")
		return
	}
	fnset := map[string]bool{}
	for v := range tainted {
		if in, ok := v.(ssa.Instruction); ok {
			fnset[fname(in.Parent())] = true
		}
	}
	var fns []string
	for f := range fnset {
		fns = append(fns, f)
	}
	sort.Strings(fns)
	if len(hits) == 0 {
		r.ok(rule, "taint/placeholder-args", "-", desc, fmt.Sprintf("forward taint from %d entry points covers %d values in %d functions; none is an argument of a reader/lexer/parser constructor", len(sources), len(tainted), len(fns)), true)
	}
	for i, h := range hits {
		r.bad(rule, fmt.Sprintf("%s/sink[%d]", fname(h.in.Parent()), i+1), c.at(h.in), desc, h.what)
	}
	// the substitution point: tainted terms enter the grammar only as a finished Term replacing the placeholder atom
	// (the function that takes an argument from the queue: a constant-index load from Parser.args; since fix F60
	// a helper shared by term0Atom and arg)
	var t0 *ssa.Function
	for _, fn := range c.LibFuncs() {
		if recvNamed(fn) != "Parser" || fn.Parent() != nil {
			continue
		}
		eachInstr(fn, func(in ssa.Instruction) {
			if ia, ok := in.(*ssa.IndexAddr); ok {
				if _, ok := loadsField(ia.X, "Parser", "args"); ok {
					if _, isConst := ia.Index.(*ssa.Const); isConst && t0 == nil {
						t0 = fn
					}
				}
			}
		})
	}
	if t0 == nil {
		r.undecided(rule, "anchor:take-arg", "-", "locate the place where the parser takes an argument from its queue", "not found")
	}
	if t0 != nil {
		// the queue holds finished terms: its element type is the Term interface
		good := false
		if pt := c.engType("Parser"); pt != nil {
			st := pt.Underlying().(*types.Struct)
			for i := 0; i < st.NumFields(); i++ {
				if st.Field(i).Name() == "args" && isTermSlice(st.Field(i).Type(), termIface) {
					good = true
				}
			}
		}
		// or it holds the host values themselves (reflect.Value, since fix F46) and the taint above follows them
		// through the field into the substitution site, where R-SUBST-LAST lets them go to termOf only
		viaField := false
		if pt := c.engType("Parser"); pt != nil && !good {
			st := pt.Underlying().(*types.Struct)
			for i := 0; i < st.NumFields(); i++ {
				if sl, ok := st.Field(i).Type().Underlying().(*types.Slice); ok && st.Field(i).Name() == "args" && isNamedIn(sl.Elem(), "reflect", "Value") {
					for v := range tainted {
						if in, ok := v.(ssa.Instruction); ok && in.Parent() == t0 {
							viaField = true
						}
					}
				}
			}
		}
		if good {
			r.ok(rule, fname(t0)+"/substitution", c.Pos(t0.Pos()), "placeholder arguments are spliced in as finished terms at the atom level of the grammar", "the argument queue is a []Term: host values are converted before the parser sees them", false)
		} else if viaField {
			r.ok(rule, fname(t0)+"/substitution", c.Pos(t0.Pos()), "placeholder arguments are spliced in as finished terms at the atom level of the grammar", "the argument queue holds the host values ([]reflect.Value); the taint follows them through the field into "+fname(t0)+", and none reaches a reader", false)
		} else {
			r.bad(rule, fname(t0)+"/substitution", c.Pos(t0.Pos()), "placeholder arguments are spliced in as finished terms at the atom level of the grammar", "the argument queue is not a []Term")
		}
	}
	r.analysed(rule, append([]string{"sources:"}, sources...)...)
	r.analysed(rule, append([]string{"tainted functions:"}, fns...)...)
}

func isTermSlice(t types.Type, term *types.Interface) bool {
	switch u := t.Underlying().(type) {
	case *types.Slice:
		return types.Implements(u.Elem(), term)
	case *types.Pointer:
		return isTermSlice(u.Elem(), term)
	}
	return false
}

func isStringType(t types.Type) bool {
	b, ok := t.Underlying().(*types.Basic)
	return ok && b.Info()&types.IsString != 0
}

// ---------------------------------------------------------------------------
// R-ARGS-CONSUMED (C15)

// lenOfFieldFact: facts contain a comparison of len(<recv>.field) with 0 meaning "empty" == wantEmpty.
func (c *Ctx) lenFieldFact(facts map[fact]bool, typ, field string, wantEmpty bool) bool {
	for f := range facts {
		bo, ok := f.cond.(*ssa.BinOp)
		if !ok {
			continue
		}
		var lenv ssa.Value
		if k, ok := constInt(bo.Y); ok && k == 0 {
			lenv = bo.X
		} else if k, ok := constInt(bo.X); ok && k == 0 {
			lenv = bo.Y
		} else {
			continue
		}
		call, ok := lenv.(*ssa.Call)
		if !ok {
			continue
		}
		if b, ok := call.Call.Value.(*ssa.Builtin); !ok || b.Name() != "len" {
			continue
		}
		if _, ok := loadsField(call.Call.Args[0], typ, field); !ok {
			continue
		}
		empty := false
		switch bo.Op {
		case token.EQL:
			empty = f.pol
		case token.NEQ, token.GTR:
			empty = !f.pol
		default:
			continue
		}
		if empty == wantEmpty {
			return true
		}
	}
	return false
}

func ruleArgsConsumed(c *Ctx, r *Report) {
	const rule = "R-ARGS-CONSUMED"
	term := c.method("Parser", "Term")
	if term == nil {
		r.undecided(rule, "anchor:Parser.Term", "-", "locate Parser.Term", "not found")
		return
	}
	n := 0
	eachInstr(term, func(in ssa.Instruction) {
		ret, ok := in.(*ssa.Return)
		if !ok || len(ret.Results) != 2 || !isNilConst(ret.Results[1]) {
			return
		}
		n++
		key := fmt.Sprintf("%s/success-return[%d]", fname(term), n)
		// Corrected with fix F29. The first version demanded an empty queue at every successful return of Term -
		// what the code did, and the reason why a text of several clauses could not use placeholders at all.
		// The property asks that a count mismatch be an error: left-over arguments are reported by Term when it
		// reads a single term, and by whoever put the parser into text mode at the end of the text.
		desc := "a term is returned with arguments left over only in text mode (they belong to the following terms)"
		textMode := false
		for f := range c.factsAt(ret.Block()) {
			v := f.cond
			pol := f.pol
			if u, ok := v.(*ssa.UnOp); ok && u.Op == token.NOT {
				v, pol = u.X, !pol
			}
			if ld, ok := v.(*ssa.UnOp); ok && ld.Op == token.MUL && pol {
				if fa, ok := ld.X.(*ssa.FieldAddr); ok && fieldName(fa) == "text" && isEngNamed(deref(fa.X.Type()), "Parser") {
					textMode = true
				}
			}
		}
		switch {
		case c.lenFieldFact(c.factsAt(ret.Block()), "Parser", "args", true):
			r.ok(rule, key, c.at(ret), desc, "dominated by len(p.args)==0", true)
		case textMode:
			r.ok(rule, key, c.at(ret), desc, "dominated by p.text == true", true)
		default:
			// the two facts may hold alternatively (len == 0 || text): cut-set check
			reach := reachableAvoiding(term, ret.Block(), func(from *ssa.BasicBlock, i int, cond ssa.Value) bool {
				// cut the edges on which "arguments are left and not in text mode" is refuted
				if x, op, k, ok := cmpConst(cond); ok {
					if _, isLen := lenOfField(x, "Parser", "args"); isLen && k == 0 {
						return (op == token.EQL && i == 0) || (op == token.NEQ && i == 1)
					}
				}
				if ld, ok := cond.(*ssa.UnOp); ok && ld.Op == token.MUL {
					if fa, ok := ld.X.(*ssa.FieldAddr); ok && fieldName(fa) == "text" {
						return i == 0
					}
				}
				if u, ok := cond.(*ssa.UnOp); ok && u.Op == token.NOT {
					if ld, ok := u.X.(*ssa.UnOp); ok && ld.Op == token.MUL {
						if fa, ok := ld.X.(*ssa.FieldAddr); ok && fieldName(fa) == "text" {
							return i == 1
						}
					}
				}
				return false
			})
			if !reach {
				r.ok(rule, key, c.at(ret), desc, "reached only across an edge that says len(p.args)==0 or p.text", true)
			} else {
				r.bad(rule, key, c.at(ret), desc, "a successful return is reachable with arguments left over outside text mode: a count mismatch would go unreported")
			}
		}
	})
	// whoever switches the parser into text mode reports the left-overs itself
	for _, fn := range c.LibFuncs() {
		var sets ssa.Instruction
		eachInstr(fn, func(in ssa.Instruction) {
			st, ok := in.(*ssa.Store)
			if !ok {
				return
			}
			fa, ok := st.Addr.(*ssa.FieldAddr)
			if !ok || fieldName(fa) != "text" || !isEngNamed(deref(fa.X.Type()), "Parser") {
				return
			}
			if k, ok := st.Val.(*ssa.Const); ok && k.Value != nil && k.Value.ExactString() == "true" {
				sets = in
			}
		})
		if sets == nil {
			continue
		}
		key := fname(fn) + "/text-mode-end-check"
		desc := "the reader of a text reports placeholder arguments that no clause used"
		var miss ssa.Instruction
		eachInstr(fn, func(in ssa.Instruction) {
			ret, ok := in.(*ssa.Return)
			if !ok || len(ret.Results) == 0 || !isNilConst(ret.Results[len(ret.Results)-1]) {
				return
			}
			if !reachableFromAvoiding(sets.Block(), ret.Block(), nil) {
				return
			}
			if !c.lenFieldFact(c.factsAt(ret.Block()), "Parser", "args", true) {
				miss = in
			}
		})
		if miss == nil {
			r.ok(rule, key, c.at(sets), desc, "every successful return after the switch is dominated by len(p.args)==0", true)
		} else {
			r.bad(rule, key, c.at(miss), desc, "this successful return is reachable with arguments left over: too many arguments for the placeholders of the text go unreported")
		}
	}
	// the substitution site
	for _, fn := range c.LibFuncs() {
		if fn.Signature.Recv() == nil || !isEngNamed(fn.Signature.Recv().Type(), "Parser") {
			continue
		}
		eachInstr(fn, func(in ssa.Instruction) {
			var x ssa.Value
			switch v := in.(type) {
			case *ssa.IndexAddr:
				x = v.X
			case *ssa.Slice:
				x = v.X
			default:
				return
			}
			if _, ok := loadsField(x, "Parser", "args"); !ok {
				return
			}
			if sl, ok := in.(*ssa.Slice); ok && sl.Low == nil {
				return
			}
			if ia, ok := in.(*ssa.IndexAddr); ok {
				loaded := false
				for _, ref := range *ia.Referrers() {
					if u, ok := ref.(*ssa.UnOp); ok && u.Op == token.MUL {
						loaded = true
					}
				}
				if !loaded {
					return // filling the queue, not taking from it
				}
				if _, isConst := ia.Index.(*ssa.Const); !isConst {
					return // walking the queue in a loop over its own length (validation, error message), not taking its head
				}
			}
			key := fmt.Sprintf("%s/take-arg(%T)", fname(fn), in)
			desc := "an argument is taken from the queue only when one is left; otherwise an error is returned"
			if c.lenFieldFact(c.factsAt(in.Block()), "Parser", "args", false) {
				r.ok(rule, key, c.at(in), desc, "dominated by len(p.args)!=0", true)
			} else {
				r.bad(rule, key, c.at(in), desc, "the queue is indexed without a non-empty test: too few arguments panic instead of returning an error")
			}
		})
	}
	r.analysed(rule, fname(term))
}

// ---------------------------------------------------------------------------
// C12: typestate of Solutions

type solAnchors struct {
	typ     *types.Named
	moreIdx int // chan<- field the consumer sends on and Close closes
	nextIdx int // <-chan field the goroutine closes
	closeFn *ssa.Function
	closeIn *ssa.Call
	flag    int // bool field set right after close()
}

func (c *Ctx) solutionsAnchors() (*solAnchors, string) {
	t := c.named(c.Root, "Solutions")
	if t == nil {
		return nil, "type Solutions not found"
	}
	st := t.Underlying().(*types.Struct)
	a := &solAnchors{typ: t, moreIdx: -1, nextIdx: -1, flag: -1}
	// the method that closes a channel field
	for _, fn := range c.LibFuncs() {
		if fn.Signature.Recv() == nil || !isNamedIn(fn.Signature.Recv().Type(), rootPkgPath, "Solutions") {
			continue
		}
		eachInstr(fn, func(in ssa.Instruction) {
			call, ok := in.(*ssa.Call)
			if !ok {
				return
			}
			b, ok := call.Call.Value.(*ssa.Builtin)
			if !ok || b.Name() != "close" {
				return
			}
			ld, ok := call.Call.Args[0].(*ssa.UnOp)
			if !ok {
				return
			}
			fa, ok := ld.X.(*ssa.FieldAddr)
			if !ok {
				return
			}
			a.moreIdx, a.closeFn, a.closeIn = fa.Field, fn, call
		})
	}
	if a.closeFn == nil {
		return nil, "no method of Solutions closes a channel field"
	}
	for i := 0; i < st.NumFields(); i++ {
		if ch, ok := st.Field(i).Type().Underlying().(*types.Chan); ok && ch.Dir() == types.RecvOnly {
			a.nextIdx = i
		}
	}
	// flag: bool field stored true in the close method
	eachInstr(a.closeFn, func(in ssa.Instruction) {
		st, ok := in.(*ssa.Store)
		if !ok {
			return
		}
		fa, ok := st.Addr.(*ssa.FieldAddr)
		if !ok {
			return
		}
		if k, ok := st.Val.(*ssa.Const); ok && k.Value != nil && k.Value.String() == "true" {
			a.flag = fa.Field
		}
	})
	if a.flag < 0 {
		return nil, "the closing method records no boolean flag"
	}
	return a, ""
}

// boolFieldFact: facts contain load(recv.field#idx) == want.
func boolFieldFact(facts map[fact]bool, idx int, want bool) bool {
	for f := range facts {
		ld, ok := f.cond.(*ssa.UnOp)
		if !ok || ld.Op != token.MUL {
			continue
		}
		fa, ok := ld.X.(*ssa.FieldAddr)
		if !ok || fa.Field != idx {
			continue
		}
		if _, isParam := fa.X.(*ssa.Parameter); !isParam {
			continue
		}
		if f.pol == want {
			return true
		}
	}
	return false
}

func ruleSolutionsTypestate(c *Ctx, r *Report) {
	a, why := c.solutionsAnchors()
	if a == nil {
		r.undecided("R-CLOSE-ONCE", "anchor:Solutions", "-", "locate the Solutions protocol fields", why)
		return
	}
	st := a.typ.Underlying().(*types.Struct)
	fieldN := func(i int) string { return st.Field(i).Name() }

	// R-CLOSE-ONCE
	{
		const rule = "R-CLOSE-ONCE"
		key := fname(a.closeFn) + "/close(" + fieldN(a.moreIdx) + ")"
		if boolFieldFact(c.factsAt(a.closeIn.Block()), a.flag, false) {
			r.ok(rule, key, c.at(a.closeIn), "the request channel is closed at most once", "close() is dominated by "+fieldN(a.flag)+"==false and the flag is set afterwards", true)
		} else {
			r.bad(rule, key, c.at(a.closeIn), "the request channel is closed at most once", "close() is not guarded by the closed flag: a second Close panics (close of closed channel)")
		}
		// the guarded-away path returns a non-nil error
		errRet := false
		for b := range errReturnBlocks(a.closeFn) {
			if boolFieldFact(c.factsAt(b), a.flag, true) {
				errRet = true
			}
		}
		if errRet {
			r.ok(rule, fname(a.closeFn)+"/repeat-error", c.Pos(a.closeFn.Pos()), "a repeated Close reports an error", "the flag==true path returns a non-nil error", true)
		} else {
			r.bad(rule, fname(a.closeFn)+"/repeat-error", c.Pos(a.closeFn.Pos()), "a repeated Close reports an error", "no error return on the already-closed path")
		}
	}

	// sends on the request channel
	for _, fn := range c.LibFuncs() {
		if fn.Signature.Recv() == nil || !isNamedIn(fn.Signature.Recv().Type(), rootPkgPath, "Solutions") {
			continue
		}
		eachInstr(fn, func(in ssa.Instruction) {
			snd, ok := in.(*ssa.Send)
			if !ok {
				return
			}
			ld, ok := snd.Chan.(*ssa.UnOp)
			if !ok {
				return
			}
			fa, ok := ld.X.(*ssa.FieldAddr)
			if !ok || fa.Field != a.moreIdx {
				return
			}
			facts := c.factsAt(snd.Block())
			// R-NO-SEND-AFTER-CLOSE
			key := fmt.Sprintf("%s/send(%s)", fname(fn), fieldN(a.moreIdx))
			if boolFieldFact(facts, a.flag, false) {
				r.ok("R-NO-SEND-AFTER-CLOSE", key, c.at(snd), "no send on the request channel after Close", "dominated by "+fieldN(a.flag)+"==false", true)
			} else {
				r.bad("R-NO-SEND-AFTER-CLOSE", key, c.at(snd), "no send on the request channel after Close", "send is reachable with the channel closed: panic (send on closed channel)")
			}
			// R-NO-SEND-WHEN-EXHAUSTED
			const rule = "R-NO-SEND-WHEN-EXHAUSTED"
			desc := "no blocking send on the request channel once the search goroutine is known to have ended"
			// find the comma-ok receive on the answer channel in the same method
			var recvOK ssa.Value
			eachInstr(fn, func(in2 ssa.Instruction) {
				ex, ok := in2.(*ssa.Extract)
				if !ok || ex.Index != 1 {
					return
				}
				u, ok := ex.Tuple.(*ssa.UnOp)
				if !ok || u.Op != token.ARROW || !u.CommaOk {
					return
				}
				if ld2, ok := u.X.(*ssa.UnOp); ok {
					if fa2, ok := ld2.X.(*ssa.FieldAddr); ok && fa2.Field == a.nextIdx {
						recvOK = ex
					}
				}
			})
			if recvOK == nil {
				r.undecided(rule, key, c.at(snd), desc, "no comma-ok receive on the answer channel found in the sending method")
				return
			}
			// a bool field that (i) guards the send (==false) and (ii) is set true where ok==false, or assigned !ok
			accepted := ""
			escapeAt := ""
			for i := 0; i < st.NumFields(); i++ {
				if b, ok := st.Field(i).Type().Underlying().(*types.Basic); !ok || b.Kind() != types.Bool {
					continue
				}
				if !boolFieldFact(facts, i, false) {
					continue
				}
				setOnExhaust := false
				unconditional := false
				var setStores []*ssa.Store
				eachInstr(fn, func(in2 ssa.Instruction) {
					s2, ok := in2.(*ssa.Store)
					if !ok {
						return
					}
					fa2, ok := s2.Addr.(*ssa.FieldAddr)
					if !ok || fa2.Field != i {
						return
					}
					if k, ok := s2.Val.(*ssa.Const); ok && k.Value != nil && k.Value.String() == "true" {
						for f := range c.factsAt(s2.Block()) {
							if f.cond == recvOK && !f.pol {
								setOnExhaust = true
								setStores = append(setStores, s2)
							}
						}
					}
					if u, ok := s2.Val.(*ssa.UnOp); ok && u.Op == token.NOT && u.X == recvOK {
						setOnExhaust = true
						unconditional = true
					}
				})
				// (after seed C13f) ... on EVERY path on which the channel was found closed: from the receive no
				// return is reachable along edges compatible with ok == false without passing such a store
				if setOnExhaust && !unconditional {
					avoid := map[*ssa.BasicBlock]bool{}
					for _, s2 := range setStores {
						avoid[s2.Block()] = true
					}
					recvBlock := recvOK.(*ssa.Extract).Block()
					seen := map[*ssa.BasicBlock]bool{}
					var escape *ssa.BasicBlock
					var walk func(b *ssa.BasicBlock)
					walk = func(b *ssa.BasicBlock) {
						if seen[b] || escape != nil {
							return
						}
						seen[b] = true
						if avoid[b] && b != recvBlock {
							return
						}
						if _, isRet := b.Instrs[len(b.Instrs)-1].(*ssa.Return); isRet {
							escape = b
							return
						}
						cond := ifCond(b)
						neg := false
						for {
							u, ok := cond.(*ssa.UnOp)
							if !ok || u.Op != token.NOT {
								break
							}
							cond, neg = u.X, !neg
						}
						for si, sc := range b.Succs {
							if cond == recvOK && len(b.Succs) == 2 {
								// the edge on which ok is true is not of interest
								if (si == 0) != neg {
									continue
								}
							}
							walk(sc)
						}
					}
					walk(recvBlock)
					if escape != nil {
						setOnExhaust = false
						escapeAt = c.at(escape.Instrs[len(escape.Instrs)-1])
					}
				}
				if setOnExhaust {
					accepted = fieldN(i)
				}
			}
			// or: the send is a case of a select with another case
			inSelect := false
			_ = inSelect
			if accepted != "" {
				r.ok(rule, key, c.at(snd), desc, "the send is guarded by "+accepted+"==false and "+accepted+" is set where the answer channel reports closed", true)
			} else {
				why := "nothing records that the answer channel was found closed"
				if escapeAt != "" {
					why = "the return at " + escapeAt + " is reachable with the answer channel found closed and the flag not set"
				}
				r.bad(rule, key, c.at(snd), desc, why+": the request channel (capacity "+c.chanCapOf(a)+") fills up and the next call blocks forever")
			}
		})
	}

	// R-GOROUTINE-RELEASE: in the goroutine started by the query entry point, every blocking receive is on the
	// request channel (which Close closes) and the answer channel is closed by a deferred close.
	{
		const rule = "R-GOROUTINE-RELEASE"
		var gofn *ssa.Function
		var mkChanMore, mkChanNext *ssa.MakeChan
		for _, fn := range c.LibFuncs() {
			if funcPkg(fn) != c.Root {
				continue
			}
			eachInstr(fn, func(in ssa.Instruction) {
				if g, ok := in.(*ssa.Go); ok {
					if mc, ok := g.Call.Value.(*ssa.MakeClosure); ok {
						gofn = mc.Fn.(*ssa.Function)
					}
				}
			})
		}
		if gofn == nil {
			r.undecided(rule, "anchor:goroutine", "-", "locate the search goroutine", "no go statement in the root package")
		} else {
			parent := gofn.Parent()
			// channels stored into the Solutions fields
			eachInstr(parent, func(in ssa.Instruction) {
				st, ok := in.(*ssa.Store)
				if !ok {
					return
				}
				fa, ok := st.Addr.(*ssa.FieldAddr)
				if !ok || !isNamedIn(fa.X.Type(), rootPkgPath, "Solutions") {
					return
				}
				for _, l := range c.originSet(st.Val) {
					if mc, ok := l.(*ssa.MakeChan); ok {
						if fa.Field == a.moreIdx {
							mkChanMore = mc
						}
						if fa.Field == a.nextIdx {
							mkChanNext = mc
						}
					}
				}
			})
			isChan := func(v ssa.Value, mc *ssa.MakeChan) bool {
				if mc == nil {
					return false
				}
				ok, _ := c.comesOnlyFrom(v, func(l ssa.Value) bool { return l == ssa.Value(mc) })
				return ok
			}
			nrecv := 0
			for _, f := range withAnon(gofn) {
				eachInstr(f, func(in ssa.Instruction) {
					u, ok := in.(*ssa.UnOp)
					if !ok || u.Op != token.ARROW {
						return
					}
					nrecv++
					key := fmt.Sprintf("%s/recv[%d]", fname(f), nrecv)
					if isChan(u.X, mkChanMore) {
						r.ok(rule, key, c.at(u), "every blocking receive of the search goroutine is released by Close", "receives on the request channel, which Close closes", true)
					} else {
						r.bad(rule, key, c.at(u), "every blocking receive of the search goroutine is released by Close", "receives on a channel that Close does not close: the goroutine can leak")
					}
				})
			}
			// a select counts too: every receive state is on the request channel or on ctx.Done()
			for _, f := range withAnon(gofn) {
				eachInstr(f, func(in ssa.Instruction) {
					sel, ok := in.(*ssa.Select)
					if !ok || !sel.Blocking {
						return
					}
					for _, stt := range sel.States {
						if stt.Dir != types.RecvOnly {
							continue
						}
						nrecv++
						key := fmt.Sprintf("%s/recv[%d]", fname(f), nrecv)
						isDone := false
						for _, l := range c.originSet(stt.Chan) {
							if call, ok := l.(*ssa.Call); ok && call.Call.IsInvoke() && call.Call.Method.Name() == "Done" && isContextType(call.Call.Value.Type()) {
								isDone = true
							}
						}
						if isChan(stt.Chan, mkChanMore) || isDone {
							r.ok(rule, key, c.at(sel), "every blocking receive of the search goroutine is released by Close", "select case on the request channel (closed by Close) or on ctx.Done()", true)
						} else {
							r.bad(rule, key, c.at(sel), "every blocking receive of the search goroutine is released by Close", "select case on a channel that Close does not close: the goroutine can leak")
						}
					}
				})
			}
			deferred := false
			eachInstr(gofn, func(in ssa.Instruction) {
				d, ok := in.(*ssa.Defer)
				if !ok {
					return
				}
				if b, ok := d.Call.Value.(*ssa.Builtin); ok && b.Name() == "close" && isChan(d.Call.Args[0], mkChanNext) {
					deferred = true
				}
			})
			if deferred {
				r.ok(rule, fname(gofn)+"/defer close(next)", c.Pos(gofn.Pos()), "the answer channel is closed whenever the goroutine ends", "deferred close of the answer channel", true)
			} else {
				r.bad(rule, fname(gofn)+"/defer close(next)", c.Pos(gofn.Pos()), "the answer channel is closed whenever the goroutine ends", "no deferred close of the answer channel: Next would block forever after the search ends or panics")
			}
			if mkChanMore != nil {
				if k, ok := constInt(mkChanMore.Size); ok {
					r.note("request channel capacity = %d", k)
				}
			}
		}
	}
}

func (c *Ctx) chanCapOf(a *solAnchors) string {
	capv := "?"
	for _, fn := range c.LibFuncs() {
		if funcPkg(fn) != c.Root {
			continue
		}
		eachInstr(fn, func(in ssa.Instruction) {
			mc, ok := in.(*ssa.MakeChan)
			if !ok {
				return
			}
			if ch, ok := mc.Type().Underlying().(*types.Chan); ok {
				if b, ok := ch.Elem().Underlying().(*types.Basic); ok && b.Kind() == types.Bool {
					if k, ok := constInt(mc.Size); ok {
						capv = fmt.Sprint(k)
					}
				}
			}
		})
	}
	return capv
}

var _ = strings.Join

// ---------------------------------------------------------------------------
// R-SUBST-LAST (added after seed C15): the term spliced in for a placeholder is only handed on (returned);
// no syntactic check of the parser looks at it.

// takesTerm: fn has a parameter of type Term (it wraps an already parsed term).
func takesTerm(fn *ssa.Function, termT *types.Named) bool {
	for _, p := range fn.Params[1:] {
		if termT != nil && types.Identical(p.Type(), termT) {
			return true
		}
	}
	return false
}

func ruleSubstLast(c *Ctx, r *Report) {
	const rule = "R-SUBST-LAST"
	n := 0
	termOf := c.method("Parser", "termOf")
	termT := c.engType("Term")
	for _, fn := range c.LibFuncs() {
		if recvNamed(fn) != "Parser" {
			continue
		}
		// the substitution happens in a function that produces a term (SetPlaceholder only validates the
		// arguments, errTooManyArgs only prints them)
		producesTerm := false
		for i := 0; i < fn.Signature.Results().Len(); i++ {
			if termT != nil && types.Identical(fn.Signature.Results().At(i).Type(), termT) {
				producesTerm = true
			}
		}
		if !producesTerm {
			continue
		}
		eachInstr(fn, func(in ssa.Instruction) {
			ia, ok := in.(*ssa.IndexAddr)
			if !ok {
				return
			}
			if _, ok := loadsField(ia.X, "Parser", "args"); !ok {
				return
			}
			for _, ref := range *ia.Referrers() {
				ld, ok := ref.(*ssa.UnOp)
				if !ok || ld.Op != token.MUL {
					continue
				}
				n++
				key := fname(fn) + "/substituted-term"
				desc := "a placeholder's argument is data: once taken from the queue it only travels to the result"
				bad := ""
				seen := map[ssa.Value]bool{}
				var follow func(v ssa.Value)
				follow = func(v ssa.Value) {
					if seen[v] || v.Referrers() == nil {
						return
					}
					seen[v] = true
					for _, u := range *v.Referrers() {
						switch x := u.(type) {
						case *ssa.Phi:
							follow(x)
						case *ssa.DebugRef:
						case *ssa.Return:
							// (since fix F60) the substitution may sit in a helper that is GIVEN the parsed term and hands back
							// either it or the argument: the grammar's checks then live in the helper's callers, and the value
							// is followed into them - one level, to their returns
							home := x.Parent()
							if home != fn || !takesTerm(home, termT) {
								continue
							}
							for _, cs := range c.callSitesOf(home) {
								cv, ok := cs.(*ssa.Call)
								if !ok {
									bad = "returned to a deferred or spawned call at " + c.at(cs)
									continue
								}
								if home.Signature.Results().Len() == 1 {
									follow(cv)
									continue
								}
								for _, r2 := range *cv.Referrers() {
									if ex, ok := r2.(*ssa.Extract); ok && termT != nil && types.Identical(ex.Type(), termT) {
										follow(ex)
									}
								}
							}
						case *ssa.Store:
							// assignment to the local result variable
							if cell := c.varCell(x.Addr); cell != nil {
								for _, r2 := range *cell.Referrers() {
									if l2, ok := r2.(*ssa.UnOp); ok && l2.Op == token.MUL && reachesAfter(x, l2) {
										follow(l2)
									}
								}
							} else {
								bad = "stored at " + c.at(x)
							}
						case *ssa.TypeAssert:
							bad = "type-inspected at " + c.at(x)
						case *ssa.BinOp:
							bad = "compared at " + c.at(x)
						case ssa.CallInstruction:
							// the one conversion of the host value into a term (since fix F46 it happens here, under the
							// flag in force where the placeholder stands): its term is followed on, its error is an error
							if call, ok := x.(*ssa.Call); ok && termOf != nil && call.Call.StaticCallee() == termOf && isNamedIn(v.Type(), "reflect", "Value") {
								for _, r2 := range *call.Referrers() {
									if ex, ok := r2.(*ssa.Extract); ok && ex.Index == 0 {
										follow(ex)
									}
								}
								continue
							}
							bad = "passed to " + calleeName(x.Common()) + " at " + c.at(x)
						default:
							bad = fmt.Sprintf("used by %T at %s", u, c.at(u))
						}
					}
				}
				follow(ld)
				if bad == "" {
					r.ok(rule, key, c.at(ld), desc, "the loaded argument flows only to the return value", true)
				} else {
					r.bad(rule, key, c.at(ld), desc, "after substitution the value is "+bad+": the Go value is examined as if it were source text (e.g. a string spelling an operator is rejected as an operand)")
				}
			}
		})
	}
	r.analysed(rule, fmt.Sprintf("%d substitution loads", n))
}

// reachesAfter: instruction b can execute after a (same block later, or in a block reachable from a's block).
func reachesAfter(a, b ssa.Instruction) bool {
	if a.Block() == b.Block() {
		return instrIndex(a) < instrIndex(b)
	}
	return reachableFromAvoiding(a.Block(), b.Block(), nil)
}

// ---------------------------------------------------------------------------
// R-CLOSE-STOPS (added after seed C12): the continuation that hands answers to the consumer ends the
// search with a plain boolean promise; it never raises an error or delays into the running query.

func ruleCloseStops(c *Ctx, r *Report) {
	const rule = "R-CLOSE-STOPS"
	boolCtor := c.fn("Bool")
	var conts []*ssa.Function
	for _, fn := range c.LibFuncs() {
		if funcPkg(fn) != c.Root || fn.Parent() == nil {
			continue
		}
		// a continuation (func(*Env) *Promise) that sends on a channel: the answer hand-off
		if fn.Signature.Params().Len() != 1 || !c.isEnvPtr(fn.Signature.Params().At(0).Type()) {
			continue
		}
		sends := false
		eachInstr(fn, func(in ssa.Instruction) {
			if _, ok := in.(*ssa.Send); ok {
				sends = true
			}
		})
		if sends {
			conts = append(conts, fn)
		}
	}
	if len(conts) == 0 || boolCtor == nil {
		r.undecided(rule, "anchor:answer-continuation", "-", "locate the continuation that hands answers to the consumer", "not found")
		return
	}
	for _, fn := range conts {
		n := 0
		eachInstr(fn, func(in ssa.Instruction) {
			ret, ok := in.(*ssa.Return)
			if !ok || len(ret.Results) != 1 {
				return
			}
			n++
			key := fmt.Sprintf("%s/return[%d]", fname(fn), n)
			desc := "the answer continuation stops or resumes the search with a plain boolean promise"
			good := true
			var what string
			for _, l := range c.originSet(ret.Results[0]) {
				call, _ := callOfValue(l)
				if call == nil || call.Call.StaticCallee() != boolCtor {
					good = false
					what = valName(l)
				}
			}
			if good {
				r.ok(rule, key, c.at(ret), desc, "returns Bool(…)", true)
			} else {
				r.bad(rule, key, c.at(ret), desc, "returns "+what+": an error raised here travels through every catch/3 of the running query, so Close can start Recovery goals and leave the goroutine blocked")
			}
		})
	}
	r.analysed(rule, fname(conts[0]))
}

// ---------------------------------------------------------------------------
// R-SCAN-FRESH-DEST (C15; added after seed C15b): when Scan converts a list into a Go slice, the
// destination handed to the element conversion is computed inside the loop, per element (the address of the
// element just appended). A destination computed once before the loop is one piece of storage that every
// element is converted into; appending a shallow copy of it afterwards makes nested slices (and anything
// else with reference semantics) share their backing store: [][]int{{1,2},{3,4}} scans as {{3,4},{3,4}}.

func ruleScanFreshDest(c *Ctx, r *Report) {
	const rule = "R-SCAN-FRESH-DEST"
	desc := "inside a loop, the destination of an element conversion is computed per iteration"
	isConv := func(sig *types.Signature) bool {
		if sig == nil || sig.Recv() != nil || sig.Params().Len() != 4 || sig.Results().Len() != 1 {
			return false
		}
		if _, ok := sig.Params().At(0).Type().Underlying().(*types.Interface); !ok {
			return false
		}
		return isEngNamed(sig.Params().At(2).Type(), "Term") && c.isEnvPtr(sig.Params().At(3).Type()) && isErrorType(sig.Results().At(0).Type())
	}
	reach := func(a, b *ssa.BasicBlock) bool {
		seen := map[*ssa.BasicBlock]bool{}
		st := append([]*ssa.BasicBlock{}, a.Succs...)
		for len(st) > 0 {
			x := st[len(st)-1]
			st = st[:len(st)-1]
			if seen[x] {
				continue
			}
			seen[x] = true
			if x == b {
				return true
			}
			st = append(st, x.Succs...)
		}
		return false
	}
	n, nloop := 0, 0
	for _, fn := range c.LibFuncs() {
		if funcPkg(fn) != c.Root {
			continue
		}
		seen := 0
		eachInstr(fn, func(in ssa.Instruction) {
			call, ok := in.(*ssa.Call)
			if !ok {
				return
			}
			var sig *types.Signature
			if f := call.Call.StaticCallee(); f != nil {
				sig = f.Signature
			} else if !call.Call.IsInvoke() {
				sig, _ = call.Call.Value.Type().Underlying().(*types.Signature)
			}
			if !isConv(sig) {
				return
			}
			n++
			cb := call.Block()
			if !reach(cb, cb) {
				return // not in a loop
			}
			nloop++
			seen++
			key := fmt.Sprintf("%s/element-dest#%d", fname(fn), seen)
			good := true
			var bad ssa.Value
			for _, l := range c.originSet(call.Call.Args[0]) {
				def, ok := l.(ssa.Instruction)
				if !ok || def.Block() == nil || !(def.Block() == cb || (reach(def.Block(), cb) && reach(cb, def.Block()))) {
					good, bad = false, l
				}
			}
			if good {
				r.ok(rule, key, c.at(in), desc, "the destination is computed inside the loop", true)
			} else {
				r.bad(rule, fmt.Sprintf("%s/element-dest", fname(fn)), c.at(in), desc, "the destination ("+valName(bad)+") is computed before the loop: every element is converted into the same storage and a shallow copy is kept - nested slices end up sharing one backing array")
			}
		})
	}
	if nloop == 0 {
		r.bad(rule, "scan/element-conversions", "-", desc, fmt.Sprintf("no element conversion inside a loop found (%d conversion calls seen)", n))
	}
	r.analysed(rule, fmt.Sprintf("%d calls of the conversion family, %d inside loops", n, nloop))
}

// lenOfField: v is len(x) with x a load of typ.field.
func lenOfField(v ssa.Value, typ, field string) (ssa.Value, bool) {
	call, ok := v.(*ssa.Call)
	if !ok {
		return nil, false
	}
	if b, ok := call.Call.Value.(*ssa.Builtin); !ok || b.Name() != "len" {
		return nil, false
	}
	return loadsField(call.Call.Args[0], typ, field)
}

// ---------------------------------------------------------------------------
// R-REFLECT-EXPORTED (C15, C05; added with fix F34): Scan runs in the caller's goroutine, outside every
// recover of the engine: a reflect panic there is the host's crash, not an error. reflect.Value.Interface
// panics for a value obtained from an unexported struct field. Every Interface() call whose receiver was
// reached through Value.Field is made only under a fact that the field is usable: IsExported(),
// CanInterface(), CanSet() true, or PkgPath == "".

func ruleReflectExported(c *Ctx, r *Report) {
	const rule = "R-REFLECT-EXPORTED"
	desc := "reflect.Value.Interface is called on a struct field only when the field is exported"
	isReflectMethod := func(call *ssa.Call, name string) bool {
		f := call.Call.StaticCallee()
		return f != nil && f.Name() == name && f.Pkg != nil && f.Pkg.Pkg.Path() == "reflect"
	}
	n, nfield := 0, 0
	for _, fn := range c.LibFuncs() {
		if funcPkg(fn) != c.Root {
			continue
		}
		seen := 0
		eachInstr(fn, func(in ssa.Instruction) {
			call, ok := in.(*ssa.Call)
			if !ok || !isReflectMethod(call, "Interface") {
				return
			}
			n++
			// receiver chain: ... Field(i) ... Addr() ... Interface()
			viaField := false
			var walk func(v ssa.Value, d int)
			walk = func(v ssa.Value, d int) {
				if v == nil || d > 8 {
					return
				}
				for _, l := range c.originSet(v) {
					cl, ok := l.(*ssa.Call)
					if !ok {
						continue
					}
					if isReflectMethod(cl, "Field") {
						if sig := cl.Call.StaticCallee().Signature; sig.Recv() != nil && isNamedIn(sig.Recv().Type(), "reflect", "Value") {
							viaField = true
						}
						return
					}
					if f := cl.Call.StaticCallee(); f != nil && f.Pkg != nil && f.Pkg.Pkg.Path() == "reflect" && len(cl.Call.Args) > 0 {
						walk(cl.Call.Args[0], d+1)
					}
				}
			}
			if len(call.Call.Args) > 0 {
				walk(call.Call.Args[0], 0)
			}
			if !viaField {
				return
			}
			nfield++
			seen++
			key := fmt.Sprintf("%s/Field.Interface#%d", fname(fn), seen)
			guarded := false
			for f := range c.factsAt(in.Block()) {
				switch x := f.cond.(type) {
				case *ssa.Call:
					if callee := x.Call.StaticCallee(); callee != nil && callee.Pkg != nil && callee.Pkg.Pkg.Path() == "reflect" && f.pol {
						switch callee.Name() {
						case "IsExported", "CanInterface", "CanSet":
							guarded = true
						}
					}
				case *ssa.BinOp:
					// f.PkgPath == ""
					for _, pair := range [][2]ssa.Value{{x.X, x.Y}, {x.Y, x.X}} {
						if k, ok := pair[1].(*ssa.Const); ok && k.Value != nil && k.Value.ExactString() == `""` && (x.Op == token.EQL) == f.pol {
							if strings.Contains(valName(pair[0]), "PkgPath") {
								guarded = true
							}
						}
					}
				}
			}
			if guarded {
				r.ok(rule, key, c.at(in), desc, "under a fact that the field is exported", true)
			} else {
				r.bad(rule, fmt.Sprintf("%s/Field.Interface", fname(fn)), c.at(in), desc, "Interface() is reached for any field: an unexported field of the destination struct makes reflect panic in the caller's goroutine")
			}
		})
	}
	// (added with fix F39) two more reflect operations that panic on a destination the host may well pass:
	// Value.Addr on a field of a struct that was passed by value (needs CanAddr), Value.SetMapIndex on a nil map
	// (needs !IsNil).
	for _, fn := range c.LibFuncs() {
		if funcPkg(fn) != c.Root {
			continue
		}
		eachInstr(fn, func(in ssa.Instruction) {
			call, ok := in.(*ssa.Call)
			if !ok {
				return
			}
			hasFact := func(names map[string]bool, want bool) bool {
				for f := range c.factsAt(in.Block()) {
					if x, ok := f.cond.(*ssa.Call); ok {
						if callee := x.Call.StaticCallee(); callee != nil && callee.Pkg != nil && callee.Pkg.Pkg.Path() == "reflect" && names[callee.Name()] && f.pol == want {
							return true
						}
					}
				}
				return false
			}
			switch {
			case isReflectMethod(call, "SetMapIndex"):
				key := fname(fn) + "/SetMapIndex"
				if hasFact(map[string]bool{"IsNil": true}, false) {
					r.ok(rule, key, c.at(in), "a map index is set only in a non-nil map", "under IsNil() == false", true)
				} else {
					r.bad(rule, key, c.at(in), "a map index is set only in a non-nil map", "SetMapIndex is reached for a nil map: reflect panics (assignment to entry in nil map) in the caller's goroutine")
				}
			case isReflectMethod(call, "Addr") && len(call.Call.Args) > 0:
				viaField := false
				for _, l := range c.originSet(call.Call.Args[0]) {
					if cl, ok := l.(*ssa.Call); ok && isReflectMethod(cl, "Field") {
						viaField = true
					}
				}
				if !viaField {
					return
				}
				key := fname(fn) + "/Field.Addr"
				if hasFact(map[string]bool{"CanAddr": true, "CanSet": true}, true) {
					r.ok(rule, key, c.at(in), "the address of a struct field is taken only when the struct is addressable", "under CanAddr() == true", true)
				} else {
					r.bad(rule, key, c.at(in), "the address of a struct field is taken only when the struct is addressable", "Addr() is reached for a struct passed by value: reflect panics (Addr of unaddressable value) in the caller's goroutine")
				}
			}
		})
	}
	r.ok(rule, "scan/Interface-calls", "-", desc, fmt.Sprintf("%d reflect.Value.Interface calls in the root package examined, %d of them on struct fields", n, nfield), false)
	r.analysed(rule, fmt.Sprintf("%d Interface() calls, %d on struct fields", n, nfield))
}

// ---------------------------------------------------------------------------
// R-SCAN-OVERWRITES (C12, C15; added after seed C12d): "Scan reports the most recent answer". A destination
// may be reused from answer to answer, so every conversion that reports success has WRITTEN the destination:
// in each typed conversion helper (first parameter a pointer) every return of a nil error is reached only
// after a store through that pointer. A success path without a store (an unbound variable scanned into an
// interface{} field that "is nil anyway") leaves the value of an earlier answer in place.

func ruleScanOverwrites(c *Ctx, r *Report) {
	const rule = "R-SCAN-OVERWRITES"
	desc := "a conversion that reports success has stored into the destination"
	n := 0
	for _, fn := range c.LibFuncs() {
		if funcPkg(fn) != c.Root || fn.Parent() != nil || !strings.HasPrefix(fn.Name(), "convertAssign") || len(fn.Params) == 0 {
			continue
		}
		d := fn.Params[0]
		if _, isPtr := d.Type().Underlying().(*types.Pointer); !isPtr {
			continue
		}
		isStore := func(in ssa.Instruction) bool {
			st, ok := in.(*ssa.Store)
			return ok && st.Addr == ssa.Value(d)
		}
		nret := 0
		var miss ssa.Instruction
		eachInstr(fn, func(in ssa.Instruction) {
			ret, ok := in.(*ssa.Return)
			if !ok || len(ret.Results) != 1 || !isNilConst(ret.Results[0]) {
				return
			}
			nret++
			first := fn.Blocks[0].Instrs[0]
			if isStore(first) {
				return
			}
			if hit := instrReachAvoid(first, func(x ssa.Instruction) bool { return x == in }, isStore); hit != nil {
				miss = in
			}
		})
		if nret == 0 {
			continue
		}
		n++
		key := fname(fn) + "/success-after-store"
		if miss == nil {
			r.ok(rule, key, c.Pos(fn.Pos()), desc, fmt.Sprintf("%d successful returns, each reached only after a store through the destination pointer", nret), true)
		} else {
			r.bad(rule, key, c.at(miss), desc, "this successful return is reachable without a store through the destination pointer: a reused destination keeps the value of an earlier answer")
		}
	}
	if n == 0 {
		r.bad(rule, "scan/helpers", "-", desc, "no typed conversion helper found")
	}
	r.analysed(rule, fmt.Sprintf("%d typed conversion helpers", n))
}

// ---------------------------------------------------------------------------
// R-PLACEHOLDER-FLAG (C15; added after seed C15d): "a Go value passed for a '?' placeholder behaves exactly
// like the Prolog literal denoting that value (double-quoted text under the current double_quotes flag)".
// Literal and placeholder are converted at two sites that both read Parser.doubleQuotes: the literal when it
// is parsed, the placeholder when SetPlaceholder converts all arguments, once, before anything is parsed. As
// long as the arguments are converted eagerly, the flag of an existing parser must not change: every store
// to Parser.doubleQuotes is the initialisation of a parser being constructed. (If the flag is refreshed per
// term - so that a set_prolog_flag directive takes effect in the rest of the text - the literal "hi" follows
// the new flag while the placeholder "hi" keeps the old one.)  Since fixes F45/F46 the loader does refresh the
// flag per term and the arguments are converted lazily, where the placeholder stands: the rule accepts exactly
// the two consistent combinations (eager + never refreshed, lazy + refreshed or not) and rejects eager + refreshed.

func rulePlaceholderFlag(c *Ctx, r *Report) {
	const rule = "R-PLACEHOLDER-FLAG"
	setPH := c.method("Parser", "SetPlaceholder")
	termOf := c.method("Parser", "termOf")
	if setPH == nil || termOf == nil {
		r.undecided(rule, "anchor", "-", "locate Parser.SetPlaceholder and Parser.termOf", "not found")
		return
	}
	desc := "placeholders and literals are converted under the same double_quotes value"
	// is the conversion eager? SetPlaceholder calls termOf, which reads the flag, and keeps the term (a call whose
	// term is dropped only validates the argument); it is lazy when the function that compares a term with
	// Parser.placeholder calls termOf itself.
	eager := false
	eachInstr(setPH, func(in ssa.Instruction) {
		call, ok := in.(*ssa.Call)
		if !ok || call.Call.StaticCallee() != termOf {
			return
		}
		for _, ref := range *call.Referrers() {
			if ex, ok := ref.(*ssa.Extract); ok && ex.Index == 0 && len(*ex.Referrers()) > 0 {
				eager = true
			}
		}
	})
	lazy := false
	for _, fn := range c.LibFuncs() {
		if funcPkg(fn) != c.Engine || fn == setPH {
			continue
		}
		readsPH, callsTermOf := false, false
		eachInstr(fn, func(in ssa.Instruction) {
			switch x := in.(type) {
			case *ssa.FieldAddr:
				if fieldName(x) == "placeholder" && isEngNamed(deref(x.X.Type()), "Parser") {
					if refs := x.Referrers(); refs != nil {
						for _, ref := range *refs {
							if u, ok := ref.(*ssa.UnOp); ok && u.Op == token.MUL {
								readsPH = true
							}
						}
					}
				}
			case *ssa.Call:
				if x.Call.StaticCallee() == termOf {
					callsTermOf = true
				}
			}
		})
		if readsPH && callsTermOf {
			lazy = true
		}
	}
	readsFlag := false
	eachInstr(termOf, func(in ssa.Instruction) {
		if fa, ok := in.(*ssa.FieldAddr); ok && fieldName(fa) == "doubleQuotes" {
			readsFlag = true
		}
	})
	n := 0
	var late ssa.Instruction
	var lateFn *ssa.Function
	for _, fn := range c.LibFuncs() {
		eachInstr(fn, func(in ssa.Instruction) {
			st, ok := in.(*ssa.Store)
			if !ok {
				return
			}
			fa, ok := st.Addr.(*ssa.FieldAddr)
			if !ok || fieldName(fa) != "doubleQuotes" || !isEngNamed(deref(fa.X.Type()), "Parser") {
				return
			}
			n++
			if _, fresh := fa.X.(*ssa.Alloc); !fresh {
				late, lateFn = in, fn
			}
		})
	}
	key := "Parser.doubleQuotes/writers"
	switch {
	case late == nil:
		r.ok(rule, key, "-", desc, fmt.Sprintf("%d stores to Parser.doubleQuotes, all initialising a parser under construction", n), true)
	case eager && readsFlag:
		r.bad(rule, key, c.at(late), desc, fname(lateFn)+" changes the flag of an existing parser while SetPlaceholder has already converted the arguments under the old value: after a double_quotes directive in the same text a literal and a placeholder with the same string denote different terms")
	case lazy && !eager:
		r.ok(rule, key, c.at(late), desc, "the flag of an existing parser is changed at "+c.at(late)+", and placeholder arguments are converted where the placeholder is substituted (SetPlaceholder keeps no converted term)", true)
	default:
		r.undecided(rule, key, c.at(late), desc, "the flag of an existing parser is changed, and where placeholder arguments are converted could not be established")
	}
	r.analysed(rule, fmt.Sprintf("%d stores to Parser.doubleQuotes; eager conversion: %v", n, eager && readsFlag))
}

// ---------------------------------------------------------------------------
// C12: R-ANSWER-KEPT — added with fix F43.  "Scan reports the most recent answer": the environment Scan reads
// (Solutions.env) is written only with a value that was really received - every store to it in the root
// package is either under the comma-ok of the channel receive the value comes from, or stores a value that is
// not a receive result (construction).  Next stored the zero value received from the closed channel, so Scan
// after exhaustion forgot the last answer and silently reported unbound variables.
func ruleAnswerKept(c *Ctx, r *Report) {
	const rule = "R-ANSWER-KEPT"
	desc := "Solutions.env is overwritten only by an environment that was received from the search (comma-ok true)"
	n := 0
	for _, fn := range c.LibFuncs() {
		if funcPkg(fn) != c.Root {
			continue
		}
		k := 0
		eachInstr(fn, func(in ssa.Instruction) {
			st, ok := in.(*ssa.Store)
			if !ok {
				return
			}
			fa, ok := st.Addr.(*ssa.FieldAddr)
			if !ok || !isNamedIn(fa.X.Type(), c.Root.Pkg.Path(), "Solutions") || fieldName(fa) != "env" {
				return
			}
			n++
			k++
			key := fmt.Sprintf("%s/env-store#%d", fname(fn), k)
			var recvs []*ssa.UnOp
			for _, l := range c.originSet(st.Val) {
				if ex, ok := l.(*ssa.Extract); ok {
					l = ex.Tuple
				}
				if u, ok := l.(*ssa.UnOp); ok && u.Op == token.ARROW {
					recvs = append(recvs, u)
				}
			}
			if len(recvs) == 0 {
				r.ok(rule, key, c.at(in), desc, "the stored value is not the result of a channel receive", true)
				return
			}
			for _, u := range recvs {
				okFact := false
				if u.CommaOk {
					for f := range c.factsAt(in.Block()) {
						if ex, ok := f.cond.(*ssa.Extract); ok && ex.Tuple == ssa.Value(u) && ex.Index == 1 && f.pol {
							okFact = true
						}
					}
				}
				// a value known non-nil is not the zero value of a closed channel either
				for f := range c.factsAt(in.Block()) {
					if x, op, ok := nilCmp(f.cond); ok && (op == token.NEQ) == f.pol {
						for _, l := range c.originSet(x) {
							if ex, ok := l.(*ssa.Extract); ok {
								l = ex.Tuple
							}
							if l == ssa.Value(u) {
								okFact = true
							}
						}
					}
				}
				if !okFact {
					r.bad(rule, key, c.at(in), desc, "the value received at "+c.at(u)+" is stored whether or not the channel delivered one: after the last answer the zero value replaces the answer Scan should still report")
					return
				}
			}
			r.ok(rule, key, c.at(in), desc, "stored under the comma-ok of the receive", true)
		})
	}
	if n == 0 {
		r.undecided(rule, "anchor:Solutions.env", "-", desc, "no store to Solutions.env found in the root package")
	}
}

// ---------------------------------------------------------------------------
// C15: R-STRING-SOURCES — added after seed C15e.  "Scan stores exactly the value of the answer or returns an
// error."  A Scan helper that selects its source terms through a Go *interface* (convertAssignString takes
// every fmt.Stringer) accepts whatever term type happens to implement it: the day Float or Integer gets a
// String method (an extract-method refactoring of the writer), X = 1.5 and X = '1.5' store the same string and
// nothing says so.  For every assertion of a term to a non-Prolog interface in the conversion helpers of the
// root package the set of concrete Term types that satisfy it - computed from the type-checked program - is
// the set confirmed by reading: the text-like terms.  (engine.Term and engine.Compound are the Prolog notions
// themselves and are not restricted.)
var stringSourcesAllowed = map[string]bool{
	"engine.Atom":     true, // an atom is its name
	"engine.charList": true, // the list of characters of a text
	"engine.codeList": true, // the list of codes of a text
	// the key type of the procedure table: a Compound for the writer's sake, never bound to a variable - every
	// place that raises or unifies a predicate indicator uses its Term() (confirmed by reading and by probing
	// current_predicate/1, existence and permission errors)
	"engine.procedureIndicator": true,
}

func ruleStringSources(c *Ctx, r *Report) {
	const rule = "R-STRING-SOURCES"
	desc := "a Scan helper that accepts terms through a Go interface accepts text-like terms only"
	scan := c.rootMethod("Solutions", "Scan")
	if scan == nil {
		r.undecided(rule, "anchor:Solutions.Scan", "-", "locate Solutions.Scan", "not found")
		return
	}
	termT := c.engType("Term")
	impls := c.termImplementers()
	n := 0
	for _, fn := range c.LibFuncs() {
		if funcPkg(fn) != c.Root || fn.Parent() != nil || !(fn == scan || c.staticallyReaches(scan, fn)) {
			continue
		}
		seen := map[string]bool{}
		eachInstr(fn, func(in ssa.Instruction) {
			ta, ok := in.(*ssa.TypeAssert)
			if !ok || termT == nil || !types.Identical(ta.X.Type(), termT) {
				return
			}
			it, ok := ta.AssertedType.Underlying().(*types.Interface)
			if !ok || isEngNamed(ta.AssertedType, "Term") || isEngNamed(ta.AssertedType, "Compound") {
				return
			}
			key := fmt.Sprintf("%s/assert(%s)", fname(fn), types.TypeString(ta.AssertedType, func(p *types.Package) string { return p.Name() }))
			if seen[key] {
				return
			}
			seen[key] = true
			n++
			var got, extra []string
			for _, t := range impls {
				if types.Implements(t, it) {
					name := types.TypeString(t, func(p *types.Package) string { return p.Name() })
					got = append(got, name)
					if !stringSourcesAllowed[strings.TrimPrefix(name, "*")] {
						extra = append(extra, name)
					}
				}
			}
			if len(extra) == 0 {
				r.ok(rule, key, c.at(in), desc, fmt.Sprintf("the term types that satisfy it: %v", got), true)
			} else {
				r.bad(rule, key, c.at(in), desc, fmt.Sprintf("%v satisfy the interface too: their text is stored into a string destination as if it were an atom (X = 1.5 and X = '1.5' become indistinguishable) instead of a conversion error", extra))
			}
		})
	}
	if n == 0 {
		r.info(rule, "scan/interface-assertions", "-", desc, "no Scan helper selects terms through a Go interface")
	}
}

// ---------------------------------------------------------------------------
// C15: R-PLACEHOLDER-UNQUOTED — added with fix F52.  "A count mismatch between placeholders and arguments is
// an error" presupposes that the placeholders of a text can be counted: they are the UNQUOTED tokens `?`.  A
// quoted '?' (or "?" under double_quotes=atom) is the atom; if the parser substitutes wherever the ATOM equals
// the placeholder, no query can mention that atom, and a text that does silently consumes an argument meant
// for a later placeholder.  Checked: where the parser takes an argument from the queue (constant index on
// Parser.args in a function that produces a term), the branch facts include a condition computed from a
// comparison of a token kind with tokenQuoted.
func rulePlaceholderUnquoted(c *Ctx, r *Report) {
	const rule = "R-PLACEHOLDER-UNQUOTED"
	desc := "an argument is substituted only for an unquoted placeholder token"
	k, ok := c.Engine.Members["tokenQuoted"].(*ssa.NamedConst)
	if !ok {
		r.undecided(rule, "anchor:tokenQuoted", "-", "locate tokenQuoted", "not found")
		return
	}
	quotedV, _ := constInt(k.Value)
	n := 0
	for _, fn := range c.LibFuncs() {
		if recvNamed(fn) != "Parser" || fn.Parent() != nil {
			continue
		}
		eachInstr(fn, func(in ssa.Instruction) {
			ia, ok := in.(*ssa.IndexAddr)
			if !ok {
				return
			}
			if _, ok := loadsField(ia.X, "Parser", "args"); !ok {
				return
			}
			if _, isConst := ia.Index.(*ssa.Const); !isConst {
				return
			}
			loaded := false
			for _, ref := range *ia.Referrers() {
				if u, ok := ref.(*ssa.UnOp); ok && u.Op == token.MUL {
					loaded = true
				}
			}
			if !loaded {
				return
			}
			n++
			key := fname(fn) + "/take-arg"
			good := false
			disagree := ""
			var look func(v ssa.Value, depth int)
			look = func(v ssa.Value, depth int) {
				dataSlice(v, func(x ssa.Value) bool {
					if y, _, kk, ok := cmpConst(x); ok && kk == quotedV && isEngNamed(y.Type(), "tokenKind") {
						good = true
					}
					// the substitution sits in a helper that is told whether the token was quoted: every caller computes
					// that argument from the token kind
					if pr, ok := x.(*ssa.Parameter); ok && depth < 3 && pr.Parent() == fn {
						if idx := paramIndex(fn, pr); idx >= 0 {
							sites := c.callSitesOf(fn)
							all := len(sites) > 0 && !c.usedAsValue(fn)
							var first map[int64]bool
							for _, cs := range sites {
								if idx >= len(cs.Common().Args) {
									all = false
									continue
								}
								saved := good
								good = false
								look(cs.Common().Args[idx], depth+1)
								if !good {
									all = false
								}
								good = saved
								// (with fix F62) the callers agree on WHICH kinds of token count as quoted
								kinds := map[int64]bool{}
								var collect func(v ssa.Value, d int)
								collect = func(v ssa.Value, d int) {
									dataSlice(v, func(v ssa.Value) bool {
										if y, _, kk, ok := cmpConst(v); ok && isEngNamed(y.Type(), "tokenKind") {
											kinds[kk] = true
										}
										if phi, ok := v.(*ssa.Phi); ok && d < 3 { // a flag set in the arms of a switch
											for _, cond := range controlConds(phi) {
												collect(cond, d+1)
											}
										}
										return true
									})
								}
								collect(cs.Common().Args[idx], 0)
								if first == nil {
									first = kinds
								} else if len(kinds) != len(first) {
									disagree = c.at(cs.(ssa.Instruction))
								} else {
									for k := range kinds {
										if !first[k] {
											disagree = c.at(cs.(ssa.Instruction))
										}
									}
								}
							}
							if all {
								good = true
							}
						}
					}
					// a flag set in the arms of a switch depends on the switch's conditions through control, not data
					if phi, ok := x.(*ssa.Phi); ok && depth < 3 {
						for _, cond := range controlConds(phi) {
							look(cond, depth+1)
						}
					}
					return !good
				})
			}
			for f := range c.factsAt(in.Block()) {
				look(f.cond, 0)
			}
			if good && disagree != "" {
				r.bad(rule, key+"/callers-agree", disagree, desc, "the callers of the substituting helper do not compare the token kind with the same set of kinds: a kind of quoting that one caller knows (a double-quoted \"?\" under double_quotes=atom) is a placeholder for the other")
			} else if good {
				r.ok(rule, key+"/callers-agree", c.at(in), desc, "every caller of the substituting helper decides `quoted` from the same kinds of token", false)
			}
			if good {
				r.ok(rule, key, c.at(in), desc, "under a condition computed from <token kind> == tokenQuoted", true)
			} else {
				r.bad(rule, key, c.at(in), desc, "the substitution does not depend on whether the token was quoted: '?' is taken for a placeholder, so the atom cannot be written in a query and consumes an argument where it occurs")
			}
		})
	}
	if n == 0 {
		r.undecided(rule, "anchor:take-arg", "-", desc, "no place where the parser takes an argument from its queue was found")
	}
}

// controlConds: the branch conditions that decide which edge of a phi is taken: the conditions of the blocks
// between each predecessor and the phi block's immediate dominator (inclusive), along the dominator tree.
func controlConds(phi *ssa.Phi) []ssa.Value {
	var out []ssa.Value
	stop := phi.Block().Idom()
	seen := map[*ssa.BasicBlock]bool{}
	for _, p := range phi.Block().Preds {
		for b := p; b != nil; b = b.Idom() {
			if !seen[b] {
				seen[b] = true
				if cond := ifCond(b); cond != nil {
					out = append(out, cond)
				}
			}
			if b == stop {
				break
			}
		}
	}
	return out
}

// ---------------------------------------------------------------------------
// R-ERR-REPORTS (C12; added after seed C12g): "Err reports the terminating error if any" - after every sequence
// of Next/Scan/Close calls. Solutions.Err hands out what the search recorded: every value it returns is a load of
// the receiver's error field, or nil where that field is known to be nil. A return of nil guarded by anything else
// (closed, exhausted) hides the error of a query that has ended in one.
func ruleErrReports(c *Ctx, r *Report) {
	const rule = "R-ERR-REPORTS"
	desc := "Solutions.Err returns the recorded error on every path"
	fn := c.rootMethod("Solutions", "Err")
	if fn == nil || len(fn.Params) == 0 {
		r.undecided(rule, "anchor:Solutions.Err", "-", desc, "not found")
		return
	}
	recv := ssa.Value(fn.Params[0])
	isErrLoad := func(v ssa.Value) bool {
		u, ok := v.(*ssa.UnOp)
		if !ok || u.Op != token.MUL {
			return false
		}
		fa, ok := u.X.(*ssa.FieldAddr)
		return ok && fa.X == recv && isErrorType(fa.Type().(*types.Pointer).Elem())
	}
	n := 0
	eachInstr(fn, func(in ssa.Instruction) {
		ret, ok := in.(*ssa.Return)
		if !ok || len(ret.Results) != 1 {
			return
		}
		n++
		key := fmt.Sprintf("%s/return#%d", fname(fn), n)
		bad := ""
		for _, l := range c.originSet(ret.Results[0]) {
			switch {
			case isErrLoad(l):
			case isNilConst(l):
				known := false
				for f := range c.factsAt(in.Block()) {
					if x, op, ok := nilCmp(f.cond); ok && isErrLoad(x) && (op == token.EQL) == f.pol {
						known = true
					}
				}
				if !known {
					bad = "nil is returned where the recorded error is not known to be nil"
				}
			default:
				bad = "the value returned (" + valName(l) + ") is not the recorded error"
			}
		}
		if bad == "" {
			r.ok(rule, key, c.at(in), desc, "returns the receiver's error field", true)
		} else {
			r.bad(rule, key, c.at(in), desc, bad+": a query that ended in an error reports none (after Close, or after exhaustion)")
		}
	})
	if n == 0 {
		r.undecided(rule, fname(fn)+"/returns", c.Pos(fn.Pos()), desc, "no return found")
	}
	r.analysed(rule, fname(fn))
}

// ---------------------------------------------------------------------------
// R-CLOSE-JOINS (C12, C14; added with fix F59): "Err reports the terminating error" - one error, not nil now and
// the error a moment later. The search goroutine records its error on its way out, after Close has woken it; the
// only synchronisation between that write and a later Err() is the goroutine's close of the answer channel. After
// closing the request channel, Solutions.Close therefore receives from the answer channel until it is closed, on
// every path to its successful return (except where that channel is known to be nil: a Solutions built by hand).
func ruleCloseJoins(c *Ctx, r *Report) {
	const rule = "R-CLOSE-JOINS"
	desc := "Close returns only after the search goroutine has closed the answer channel"
	fn := c.rootMethod("Solutions", "Close")
	if fn == nil || len(fn.Params) == 0 {
		r.undecided(rule, "anchor:Solutions.Close", "-", desc, "not found")
		return
	}
	recv := ssa.Value(fn.Params[0])
	// the two channel fields, told apart by direction of use in this function: close(x) vs <-x
	loadOfField := func(v ssa.Value) *ssa.FieldAddr {
		u, ok := v.(*ssa.UnOp)
		if !ok || u.Op != token.MUL {
			return nil
		}
		fa, ok := u.X.(*ssa.FieldAddr)
		if !ok || fa.X != recv {
			return nil
		}
		if _, isChan := fa.Type().(*types.Pointer).Elem().Underlying().(*types.Chan); !isChan {
			return nil
		}
		return fa
	}
	var closeCall ssa.Instruction
	recvBlocks := map[*ssa.BasicBlock]bool{}
	recvField := -1
	eachInstr(fn, func(in ssa.Instruction) {
		switch x := in.(type) {
		case *ssa.Call:
			if b, ok := x.Call.Value.(*ssa.Builtin); ok && b.Name() == "close" && len(x.Call.Args) == 1 && loadOfField(x.Call.Args[0]) != nil {
				closeCall = in
			}
		case *ssa.UnOp:
			if x.Op == token.ARROW {
				if fa := loadOfField(x.X); fa != nil {
					recvBlocks[in.Block()] = true
					recvField = fa.Field
				}
			}
		}
	})
	key := fname(fn) + "/join"
	if closeCall == nil {
		r.undecided(rule, key, c.Pos(fn.Pos()), desc, "no close of a channel field found in Close")
		return
	}
	if len(recvBlocks) == 0 {
		r.bad(rule, key, c.at(closeCall), desc, "Close never receives from a channel of the Solutions: it returns while the goroutine it woke is still on its way out, and the error that goroutine records races with (and arrives after) a following Err()")
		return
	}
	// every return reachable from the close without passing a receive is under "that channel is nil"
	var bad ssa.Instruction
	seen := map[*ssa.BasicBlock]bool{}
	var walk, next func(b *ssa.BasicBlock)
	walk = func(b *ssa.BasicBlock) {
		if seen[b] || recvBlocks[b] {
			return
		}
		seen[b] = true
		if ret, ok := b.Instrs[len(b.Instrs)-1].(*ssa.Return); ok {
			isNilKnown := false
			for f := range c.factsAt(b) {
				if x, op, ok := nilCmp(f.cond); ok && (op == token.EQL) == f.pol {
					if fa := loadOfField(x); fa != nil && fa.Field == recvField {
						isNilKnown = true
					}
				}
			}
			if !isNilKnown {
				bad = ret
			}
			return
		}
		next(b)
	}
	// successors of b, except the edge on which the answer channel is known to be nil
	next = func(b *ssa.BasicBlock) {
		skip := -1
		if cond := ifCond(b); cond != nil && len(b.Succs) == 2 {
			if x, op, ok := nilCmp(cond); ok {
				if fa := loadOfField(x); fa != nil && fa.Field == recvField {
					if op == token.EQL {
						skip = 0
					} else {
						skip = 1
					}
				}
			}
		}
		for i, s := range b.Succs {
			if i != skip {
				walk(s)
			}
		}
	}
	if !recvBlocks[closeCall.Block()] {
		next(closeCall.Block())
		if _, isRet := closeCall.Block().Instrs[len(closeCall.Block().Instrs)-1].(*ssa.Return); isRet {
			bad = closeCall
		}
	}
	if bad == nil {
		r.ok(rule, key, c.at(closeCall), desc, "every path from the close of the request channel to a return receives from the answer channel (or knows it to be nil)", true)
	} else {
		r.bad(rule, key, c.at(bad), desc, "a return is reachable from the close of the request channel without a receive from the answer channel: the goroutine's last write (its error) is not ordered before a following Err()")
	}
	r.analysed(rule, fname(fn))
}

// ---------------------------------------------------------------------------
// R-PLACEHOLDER-ALL-EXITS (C15; added with fix F60): "a count mismatch between placeholders and arguments is an
// error" - wherever the placeholder stands. An atom token read from the text (a result of Parser.atom) becomes a
// term in more than one place of the grammar: as a primary (term0Atom) and, when the atom is declared as an
// operator, directly as an argument (arg). No method of the parser returns such an atom as its Term result
// except the function that performs the substitution (or through it): with `?` declared as an operator, f(?)
// kept the atom and the argument meant for it was reported as one too many - or, with no argument, went unnoticed.
func rulePlaceholderAllExits(c *Ctx, r *Report) {
	const rule = "R-PLACEHOLDER-ALL-EXITS"
	desc := "an atom read from the text becomes a term only through the placeholder substitution"
	atomFn := c.method("Parser", "atom")
	if atomFn == nil {
		r.undecided(rule, "anchor:Parser.atom", "-", desc, "not found")
		return
	}
	// the substitution function: compares a term with the placeholder field
	isSubst := func(fn *ssa.Function) bool {
		found := false
		eachInstr(fn, func(in ssa.Instruction) {
			if ia, ok := in.(*ssa.IndexAddr); ok {
				if _, ok := loadsField(ia.X, "Parser", "args"); ok {
					if _, isConst := ia.Index.(*ssa.Const); isConst {
						found = true
					}
				}
			}
		})
		return found
	}
	n := 0
	for _, fn := range c.LibFuncs() {
		if recvNamed(fn) != "Parser" || fn.Parent() != nil || fn == atomFn {
			continue
		}
		res := fn.Signature.Results()
		if res.Len() == 0 || !isEngNamed(res.At(0).Type(), "Term") {
			continue
		}
		// does fn read an atom token at all?
		reads := false
		eachInstr(fn, func(in ssa.Instruction) {
			if call, ok := in.(*ssa.Call); ok && call.Call.StaticCallee() == atomFn {
				reads = true
			}
		})
		if !reads {
			continue
		}
		n++
		key := fname(fn) + "/atom-exit"
		if isSubst(fn) {
			r.ok(rule, key, c.Pos(fn.Pos()), desc, "this is the function that substitutes", true)
			continue
		}
		var bad ssa.Instruction
		eachInstr(fn, func(in ssa.Instruction) {
			ret, ok := in.(*ssa.Return)
			if !ok || len(ret.Results) == 0 {
				return
			}
			for _, l := range c.originSet(ret.Results[0]) {
				// originSet looks through MakeInterface: a leaf that is the Atom result of Parser.atom
				if e, ok := l.(*ssa.Extract); ok && e.Index == 0 {
					if call, ok := e.Tuple.(*ssa.Call); ok && call.Call.StaticCallee() == atomFn {
						bad = in
					}
				}
			}
		})
		if bad == nil {
			r.ok(rule, key, c.Pos(fn.Pos()), desc, "no return hands out the result of Parser.atom itself", true)
		} else {
			r.bad(rule, key, c.at(bad), desc, "this return hands out the atom token as a term without the substitution: a placeholder in that position keeps the atom and its argument is counted as one too many (or, with none given, the mismatch goes unnoticed)")
		}
	}
	if n == 0 {
		r.undecided(rule, "scan/atom-readers", "-", desc, "no parser method that reads an atom and returns a term")
	}
	r.analysed(rule, fmt.Sprintf("%d parser methods read an atom token and return a term", n))
}

// ---------------------------------------------------------------------------
// R-SOLUTIONS-HAS-SEARCH (C12; added after seed C12i, which leans on fix F59): Close waits until the search goroutine
// has closed the answer channel, Next hands it a request and waits for an answer: every *Solutions the library
// hands out with channels in it has a goroutine on the other end. In the function that starts the search, the `go`
// statement lies on every path to a return of the Solutions it built (it dominates the return). A "nothing to do"
// fast path that returns before the goroutine exists makes the first Close wait forever.
func ruleSolutionsHasSearch(c *Ctx, r *Report) {
	const rule = "R-SOLUTIONS-HAS-SEARCH"
	desc := "a Solutions with channels is never handed out without the goroutine that serves them"
	n := 0
	for _, fn := range c.LibFuncs() {
		if fn.Parent() != nil || funcPkg(fn) != c.Root {
			continue
		}
		var gos []*ssa.Go
		eachInstr(fn, func(in ssa.Instruction) {
			if g, ok := in.(*ssa.Go); ok {
				gos = append(gos, g)
			}
		})
		if len(gos) == 0 {
			continue
		}
		eachInstr(fn, func(in ssa.Instruction) {
			ret, ok := in.(*ssa.Return)
			if !ok || len(ret.Results) == 0 {
				return
			}
			// a return of a Solutions allocated in this function
			built := false
			for _, l := range c.originSet(ret.Results[0]) {
				if a, ok := l.(*ssa.Alloc); ok && isNamedIn(deref(a.Type()), rootPkgPath, "Solutions") {
					built = true
				}
			}
			if !built {
				return
			}
			n++
			key := fmt.Sprintf("%s/return-of-Solutions#%d", fname(fn), n)
			started := false
			for _, g := range gos {
				gb, rb := g.Block(), in.Block()
				if (gb == rb && instrIndex(g) < instrIndex(in)) || (gb != rb && gb.Dominates(rb)) {
					started = true
				}
			}
			if started {
				r.ok(rule, key, c.at(in), desc, "the go statement dominates this return", true)
			} else {
				r.bad(rule, key, c.at(in), desc, "this return hands out the Solutions on a path that has not started the search goroutine: nobody closes the answer channel Close waits for, nobody receives the request Next sends")
			}
		})
	}
	if n == 0 {
		r.undecided(rule, "scan/returns-of-Solutions", "-", desc, "no function of the root package starts a goroutine and returns a Solutions it built")
	}
}

// ---------------------------------------------------------------------------
// R-PLACEHOLDER-REGISTERED (C15; added after seed C15i): "a count mismatch between placeholders and arguments is an
// error" - also the mismatch "some placeholders, no arguments". The parser counts placeholders only once the
// placeholder atom is registered: in SetPlaceholder the store to the parser's placeholder field lies on every path
// to a successful return. An early `return nil` for an empty argument list reads every `?` of the text as the atom.
func rulePlaceholderRegistered(c *Ctx, r *Report) {
	const rule = "R-PLACEHOLDER-REGISTERED"
	desc := "SetPlaceholder registers the placeholder on every path on which it succeeds"
	fn := c.method("Parser", "SetPlaceholder")
	if fn == nil {
		r.undecided(rule, "anchor:Parser.SetPlaceholder", "-", desc, "not found")
		return
	}
	var stores []*ssa.Store
	eachInstr(fn, func(in ssa.Instruction) {
		if st, ok := in.(*ssa.Store); ok {
			if fa, ok := st.Addr.(*ssa.FieldAddr); ok && fa.X == ssa.Value(fn.Params[0]) && fieldName(fa) == "placeholder" {
				stores = append(stores, st)
			}
		}
	})
	n := 0
	eachInstr(fn, func(in ssa.Instruction) {
		ret, ok := in.(*ssa.Return)
		if !ok || len(ret.Results) != 1 {
			return
		}
		success := false
		for _, l := range c.originSet(ret.Results[0]) {
			if isNilConst(l) {
				success = true
			}
		}
		if !success {
			return
		}
		n++
		key := fmt.Sprintf("%s/success-return#%d", fname(fn), n)
		reg := false
		for _, st := range stores {
			sb, rb := st.Block(), in.Block()
			if (sb == rb && instrIndex(st) < instrIndex(in)) || (sb != rb && sb.Dominates(rb)) {
				reg = true
			}
		}
		if reg {
			r.ok(rule, key, c.at(in), desc, "the store to Parser.placeholder dominates this return", true)
		} else {
			r.bad(rule, key, c.at(in), desc, "SetPlaceholder succeeds here without having registered the placeholder: the text's `?` are read as atoms and the missing arguments go unnoticed")
		}
	})
	if n == 0 {
		r.undecided(rule, fname(fn)+"/success-returns", c.Pos(fn.Pos()), desc, "no successful return found")
	}
}

// ---------------------------------------------------------------------------
// R-SCAN-INT-FLOAT-EXACT (C15; added after seed C15j): Scan "never stores a silently ... altered value". An
// Integer converted to float64 is exact only up to 2^53 in magnitude. In the root package every conversion of an
// engine.Integer to a float lies under branch facts that bound it within [-2^53, 2^53] (today there is none: an
// integer answer is refused for a float destination).
func ruleScanIntFloatExact(c *Ctx, r *Report) {
	const rule = "R-SCAN-INT-FLOAT-EXACT"
	desc := "an integer answer reaches a float destination only where the float holds it exactly"
	const lim = int64(1) << 53
	n := 0
	for _, fn := range c.LibFuncs() {
		if funcPkg(fn) != c.Root {
			continue
		}
		k := 0
		eachInstr(fn, func(in ssa.Instruction) {
			cv, ok := in.(*ssa.Convert)
			if !ok || !isFloatType(cv.Type()) || !isNamedIn(cv.X.Type(), enginePkgPath, "Integer") {
				return
			}
			n++
			k++
			key := fmt.Sprintf("%s/float(Integer)#%d", fname(fn), k)
			rg := c.rangeAt(in.Block(), cv.X)
			if rg.hasLo && rg.lo >= -lim && rg.hasHi && rg.hi <= lim {
				r.ok(rule, key, c.at(in), desc, fmt.Sprintf("under the facts %d <= n <= %d", rg.lo, rg.hi), true)
			} else {
				r.bad(rule, key, c.at(in), desc, "the integer is not known to lie within [-2^53, 2^53] here: an odd integer beyond 2^53 is stored as its rounded neighbour, and Scan reports no error")
			}
		})
	}
	if n == 0 {
		r.info(rule, "scan/float(Integer)", "-", desc, "the root package converts no Integer to a float: an integer answer is refused for a float destination")
	}
}
