package main

import (
	"fmt"
	"go/constant"
	"go/token"
	"go/types"
	"sort"
	"strings"

	"golang.org/x/tools/go/ssa"
)

// ---------------------------------------------------------------------------
// R-TEXT-RUNE (C16)

var textBuiltins = []struct {
	name  string
	arity int
}{
	{"atom_length", 2}, {"atom_concat", 3}, {"sub_atom", 5}, {"atom_chars", 2}, {"atom_codes", 2}, {"char_code", 2},
}

func ruleTextRune(c *Ctx, r *Report) {
	const rule = "R-TEXT-RUNE"
	atomString := c.method("Atom", "String")
	if atomString == nil {
		r.undecided(rule, "anchor:Atom.String", "-", "locate Atom.String", "not found")
		return
	}
	type scanTarget struct {
		name  string
		arity int
		fn    *ssa.Function
	}
	var targets []scanTarget
	done := map[*ssa.Function]bool{}
	for _, tb := range textBuiltins {
		fn := c.registeredFn(tb.name, tb.arity)
		if fn == nil {
			r.undecided(rule, fmt.Sprintf("registered/%s/%d", tb.name, tb.arity), "-", "locate the builtin", "not registered")
			continue
		}
		targets = append(targets, scanTarget{tb.name, tb.arity, fn})
		for _, f := range withAnon(fn) {
			done[f] = true
		}
	}
	// every other library function (added after seed C06: the writer's spacing helpers classify an atom by its
	// first character too)
	for _, fn := range c.LibFuncs() {
		if fn.Parent() == nil && !done[fn] {
			targets = append(targets, scanTarget{"lib", -1, fn})
		}
	}
	for _, tb := range targets {
		fn := tb.fn
		nuse := 0
		for _, f := range withAnon(fn) {
			// string values originating from Atom.String() (through local/captured variables and slicing by range offsets)
			isAtomText := func(v ssa.Value) bool {
				// (added after seed C02e) the compact list representations are texts too: a list of n characters
				// held as a Go string of >= n bytes
				if isEngNamed(v.Type(), "charList") || isEngNamed(v.Type(), "codeList") {
					return true
				}
				if cv, ok := v.(*ssa.Convert); ok && (isEngNamed(cv.X.Type(), "charList") || isEngNamed(cv.X.Type(), "codeList")) {
					return true
				}
				ok, _ := c.comesOnlyFrom(v, func(l ssa.Value) bool {
					call, _ := callOfValue(l)
					return call != nil && call.Call.StaticCallee() == atomString
				})
				return ok
			}
			// a byte offset that lies on a character boundary of `text`: the size utf8.DecodeRuneInString reports
			// for the first character of the same text
			isByteOffset := func(v, text ssa.Value) bool {
				ex, ok := v.(*ssa.Extract)
				if !ok || ex.Index != 1 {
					return false
				}
				call, ok := ex.Tuple.(*ssa.Call)
				if !ok {
					return false
				}
				callee := call.Call.StaticCallee()
				if callee == nil || callee.Pkg == nil || callee.Pkg.Pkg.Path() != "unicode/utf8" || callee.Name() != "DecodeRuneInString" {
					return false
				}
				a := call.Call.Args[0]
				strip := func(v ssa.Value) ssa.Value {
					for {
						switch y := v.(type) {
						case *ssa.Convert:
							v = y.X
						case *ssa.ChangeType:
							v = y.X
						default:
							return v
						}
					}
				}
				return strip(a) == strip(text) || c.sameStringValue(strip(a), strip(text))
			}
			eachInstr(f, func(in ssa.Instruction) {
				switch x := in.(type) {
				case *ssa.Call:
					if f := x.Call.StaticCallee(); f != nil && f.Pkg != nil && f.Pkg.Pkg.Path() == "unicode/utf8" && len(x.Call.Args) > 0 && isStringType(x.Call.Args[0].Type()) && isAtomText(x.Call.Args[0]) {
						nuse++
						r.ok(rule, fmt.Sprintf("%s[%s/%d]/utf8.%s(text)[%d]", fname(f), tb.name, tb.arity, f.Name(), nuse), c.at(x), "characters are counted/decoded through unicode/utf8", "utf8."+f.Name(), false)
						return
					}
					b, ok := x.Call.Value.(*ssa.Builtin)
					if !ok || b.Name() != "len" || !isStringType(x.Call.Args[0].Type()) || !isAtomText(x.Call.Args[0]) {
						return
					}
					nuse++
					key := fmt.Sprintf("%s[%s/%d]/len(text)[%d]", fname(f), tb.name, tb.arity, nuse)
					desc := "the byte length of an atom's text is used only as a capacity or compared with 0, never as a character count"
					bad := ""
					var visit func(v ssa.Value, depth int)
					visit = func(v ssa.Value, depth int) {
						if depth > 4 || v.Referrers() == nil {
							return
						}
						for _, ref := range *v.Referrers() {
							switch u := ref.(type) {
							case *ssa.MakeSlice:
								// capacity / length of a buffer
							case *ssa.BinOp:
								switch u.Op {
								case token.ADD, token.SUB, token.MUL:
									visit(u, depth+1)
								case token.EQL, token.NEQ, token.GTR, token.LSS, token.GEQ, token.LEQ:
									other := u.Y
									if other == v {
										other = u.X
									}
									if k, ok := constInt(other); (!ok || k != 0) && !isByteOffset(other, x.Call.Args[0]) {
										bad = "compared with a non-zero value at " + c.at(u)
									}
								default:
									bad = "used in arithmetic at " + c.at(u)
								}
							case *ssa.Convert, *ssa.ChangeType:
								visit(u.(ssa.Value), depth+1)
							case *ssa.DebugRef:
							default:
								bad = fmt.Sprintf("flows into %T at %s", ref, c.at(ref))
							}
						}
					}
					visit(x, 0)
					if bad == "" {
						r.ok(rule, key, c.at(x), desc, "feeds only a capacity/zero test", true)
					} else {
						r.bad(rule, key, c.at(x), desc, bad+": for non-ASCII text the byte count differs from the character count")
					}
				case *ssa.Slice:
					if !isStringType(x.X.Type()) || !isAtomText(x.X) {
						return
					}
					nuse++
					key := fmt.Sprintf("%s[%s/%d]/text[i:j][%d]", fname(f), tb.name, tb.arity, nuse)
					desc := "an atom's text is sliced only at offsets produced by ranging over the same text (rune boundaries)"
					good := true
					for _, idx := range []ssa.Value{x.Low, x.High} {
						if idx == nil {
							continue
						}
						for _, l := range c.originSet(idx) {
							if k, ok := constInt(l); ok && k == 0 {
								continue
							}
							if isByteOffset(l, x.X) {
								continue
							}
							ex, ok := l.(*ssa.Extract)
							if !ok {
								good = false
								continue
							}
							nx, ok := ex.Tuple.(*ssa.Next)
							if !ok || !nx.IsString || ex.Index != 1 {
								good = false
								continue
							}
							rg, ok := nx.Iter.(*ssa.Range)
							if !ok || !c.sameStringValue(rg.X, x.X) {
								good = false
							}
						}
					}
					if good {
						r.ok(rule, key, c.at(x), desc, "offsets come from `range` over the same string", true)
					} else {
						r.bad(rule, key, c.at(x), desc, "an offset is not a range index of the same string: it may split a multi-byte character")
					}
				case *ssa.Index:
					if isStringType(x.X.Type()) && isAtomText(x.X) {
						nuse++
						r.bad(rule, fmt.Sprintf("%s[%s/%d]/text[i]", fname(f), tb.name, tb.arity), c.at(x), "an atom's text is not indexed by byte", "s[i] yields a byte, not a character: a non-ASCII first character is classified by its UTF-8 lead byte")
					}
				case *ssa.Lookup:
					if isStringType(x.X.Type()) && isAtomText(x.X) {
						nuse++
						r.bad(rule, fmt.Sprintf("%s[%s/%d]/text[i]", fname(f), tb.name, tb.arity), c.at(x), "an atom's text is not indexed by byte", "s[i] yields a byte, not a character")
					}
				case *ssa.Convert:
					// []rune(text): the character view
					if sl, ok := x.Type().Underlying().(*types.Slice); ok && isStringType(x.X.Type()) && isAtomText(x.X) {
						if b, ok := sl.Elem().Underlying().(*types.Basic); ok && b.Kind() == types.Int32 {
							nuse++
							r.ok(rule, fmt.Sprintf("%s[%s/%d]/[]rune(text)[%d]", fname(f), tb.name, tb.arity, nuse), c.at(x), "characters are counted/indexed through []rune", "conversion to []rune", false)
						}
					}
				}
			})
		}
		if nuse == 0 && tb.arity >= 0 {
			r.info(rule, fmt.Sprintf("%s/%d", tb.name, tb.arity), c.Pos(fn.Pos()), "text measurement sites", "no measurement of an atom's text in this builtin")
		}
	}
	r.analysed(rule, "atom_length/2 atom_concat/3 sub_atom/5 atom_chars/2 atom_codes/2 char_code/2 (resolved through the Register calls in New)")
}

func (c *Ctx) sameStringValue(a, b ssa.Value) bool {
	if a == b || c.sameVar(a, b) {
		return true
	}
	la, lb := c.originSet(a), c.originSet(b)
	return sameLeafSet(la, lb)
}

// ---------------------------------------------------------------------------
// C19: R-STREAM-OWNER, R-POSITION-PAIRING, R-PEEK-UNREAD

var cursorFields = map[string]bool{"buf": true, "position": true, "endOfStream": true, "lastRuneSize": true}

func ruleStreamOwner(c *Ctx, r *Report) {
	const rule = "R-STREAM-OWNER"
	owners := map[string]bool{"Stream": true, "textWriter": true, "binaryWriter": true}
	n := 0
	per := map[string]int{}
	for _, fn := range c.LibFuncs() {
		eachInstr(fn, func(in ssa.Instruction) {
			fa, ok := in.(*ssa.FieldAddr)
			if !ok || !isEngNamed(fa.X.Type(), "Stream") || !cursorFields[fieldName(fa)] {
				return
			}
			n++
			top := topFunc(fn)
			recvOK := false
			if top.Signature.Recv() != nil {
				if nt, ok := deref(top.Signature.Recv().Type()).(*types.Named); ok && owners[nt.Obj().Name()] {
					recvOK = true
				}
			}
			// constructors: stores into a fresh Stream
			if _, isAlloc := fa.X.(*ssa.Alloc); isAlloc {
				recvOK = true
			}
			key := fmt.Sprintf("%s/Stream.%s", fname(fn), fieldName(fa))
			per[key]++
			if per[key] > 1 {
				return
			}
			if recvOK {
				r.ok(rule, key, c.at(fa), "the cursor state of a stream is touched only by the stream's own methods", "access from a method of Stream / its writer wrappers", false)
			} else {
				r.bad(rule, key, c.at(fa), "the cursor state of a stream is touched only by the stream's own methods", "a builtin reaches into the stream's buffer/position/end-of-stream bookkeeping directly: the cursor can get out of step with what was consumed")
			}
		})
	}
	r.analysed(rule, fmt.Sprintf("%d accesses to Stream.buf/position/endOfStream/lastRuneSize", n))
}

type cursorOp struct {
	call ssa.CallInstruction
	kind string // read | unread | write
	name string
}

// cursorOpsIn finds calls that move the underlying reader/writer inside fn.
func (c *Ctx) cursorOpsIn(fn *ssa.Function) []cursorOp {
	var out []cursorOp
	eachInstr(fn, func(in ssa.Instruction) {
		ci, ok := in.(ssa.CallInstruction)
		if !ok {
			return
		}
		cc := ci.Common()
		name := calleeName(cc)
		var recvT types.Type
		if cc.IsInvoke() {
			recvT = cc.Value.Type()
		} else if f := cc.StaticCallee(); f != nil && f.Signature.Recv() != nil {
			recvT = f.Signature.Recv().Type()
		} else {
			return
		}
		// underlying reader: bufio.Reader methods reached through the stream's buf; underlying writer: io.Writer.Write on the sink
		isBufio := isNamedIn(recvT, "bufio", "Reader")
		isWriter := cc.IsInvoke() && isNamedIn(recvT, "io", "Writer")
		switch {
		case isBufio && (name == "ReadByte" || name == "ReadRune"):
			out = append(out, cursorOp{ci, "read", name})
		case isBufio && (name == "UnreadByte" || name == "UnreadRune"):
			out = append(out, cursorOp{ci, "unread", name})
		case isWriter && name == "Write":
			out = append(out, cursorOp{ci, "write", name})
		}
	})
	return out
}

func rulePositionPairing(c *Ctx, r *Report) {
	const rule = "R-POSITION-PAIRING"
	n := 0
	for _, fn := range c.LibFuncs() {
		if funcPkg(fn) != c.Engine || fn.Signature.Recv() == nil {
			continue
		}
		nt, ok := deref(fn.Signature.Recv().Type()).(*types.Named)
		if !ok || (nt.Obj().Name() != "Stream" && nt.Obj().Name() != "textWriter" && nt.Obj().Name() != "binaryWriter") {
			continue
		}
		for _, op := range c.cursorOpsIn(fn) {
			n++
			key := fmt.Sprintf("%s/%s", fname(fn), op.name)
			desc := "a method that moves the underlying reader/writer moves `position` in the same direction by the amount transferred"
			// find stores to Stream.position in fn
			var found, dirOK, amountOK bool
			why := ""
			eachInstr(fn, func(in ssa.Instruction) {
				st, ok := in.(*ssa.Store)
				if !ok {
					return
				}
				fa, ok := st.Addr.(*ssa.FieldAddr)
				if !ok || !isEngNamed(fa.X.Type(), "Stream") || fieldName(fa) != "position" {
					return
				}
				bo, ok := st.Val.(*ssa.BinOp)
				if !ok {
					return
				}
				// one side must be the old position
				var delta ssa.Value
				if _, ok := loadsField(bo.X, "Stream", "position"); ok {
					delta = bo.Y
				} else {
					return
				}
				found = true
				wantOp := token.ADD
				if op.kind == "unread" {
					wantOp = token.SUB
				}
				if bo.Op == wantOp {
					dirOK = true
				}
				// amount: depends on the op's result (n), or constant 1 for byte ops, or the recorded last rune size for UnreadRune
				dep := false
				dataSlice(delta, func(v ssa.Value) bool {
					if ex, ok := v.(*ssa.Extract); ok && ex.Tuple == ssa.Value(op.call.(ssa.Value)) {
						dep = true
					}
					if _, ok := loadsField(v, "Stream", "lastRuneSize"); ok && op.name == "UnreadRune" {
						dep = true
					}
					return true
				})
				if k, ok := constInt(delta); ok && k == 1 && (op.name == "ReadByte" || op.name == "UnreadByte") {
					dep = true
				}
				if dep {
					amountOK = true
				}
				// unconditional or on the success edge of this op
				if op.kind != "write" && op.name != "ReadRune" {
					onSuccess := false
					for f := range c.factsAt(st.Block()) {
						errv, op2, ok := nilCmp(f.cond)
						if !ok {
							continue
						}
						fromOp := false
						for _, l := range c.originSet(errv) {
							if cl, _ := callOfValue(l); cl != nil && ssa.Value(cl) == op.call.(ssa.Value) {
								fromOp = true
							}
							if l == op.call.(ssa.Value) {
								fromOp = true
							}
						}
						if fromOp && ((op2 == token.EQL && f.pol) || (op2 == token.NEQ && !f.pol)) {
							onSuccess = true
						}
					}
					if !onSuccess {
						why = "position is changed even when the operation failed"
						amountOK = false
					}
				}
			})
			switch {
			case !found:
				r.bad(rule, key, c.at(op.call), desc, "no update of position in this method: the position property no longer equals the number of bytes consumed")
			case !dirOK:
				r.bad(rule, key, c.at(op.call), desc, "position moves in the wrong direction for a "+op.kind)
			case !amountOK:
				if why == "" {
					why = "the amount is not derived from what the operation transferred"
				}
				r.bad(rule, key, c.at(op.call), desc, why)
			default:
				r.ok(rule, key, c.at(op.call), desc, "position "+map[string]string{"read": "+=", "write": "+=", "unread": "-="}[op.kind]+" amount transferred", true)
			}
		}
	}
	// the recorded last rune size is what ReadRune transferred
	if rr := c.method("Stream", "ReadRune"); rr != nil {
		ok := false
		ops := c.cursorOpsIn(rr)
		eachInstr(rr, func(in ssa.Instruction) {
			st, isSt := in.(*ssa.Store)
			if !isSt {
				return
			}
			fa, isFA := st.Addr.(*ssa.FieldAddr)
			if !isFA || fieldName(fa) != "lastRuneSize" {
				return
			}
			for _, l := range c.originSet(st.Val) {
				if ex, isEx := l.(*ssa.Extract); isEx && len(ops) > 0 && ex.Tuple == ssa.Value(ops[0].call.(ssa.Value)) && ex.Index == 1 {
					ok = true
				}
			}
		})
		if ok {
			r.ok(rule, fname(rr)+"/lastRuneSize", c.Pos(rr.Pos()), "the size used to un-read a rune is the size that was read", "lastRuneSize is result #1 of the underlying ReadRune", true)
		} else {
			r.bad(rule, fname(rr)+"/lastRuneSize", c.Pos(rr.Pos()), "the size used to un-read a rune is the size that was read", "lastRuneSize is not set from the underlying ReadRune's size")
		}
	}
	r.analysed(rule, fmt.Sprintf("%d cursor-moving calls in methods of Stream and its writers", n))
}

func rulePeekUnread(c *Ctx, r *Report) {
	// Rewritten with fix F19. The first version demanded a *deferred* un-read because that is what the code
	// did; but a built-in calls its continuation before it returns, so a deferred un-read runs after the
	// rest of the clause body has already read from the stream. The necessary condition is the order:
	//   (a) a peek has exactly one un-read of the matching unit on the stream it read from, not deferred;
	//   (b) every path from the read to a call that invokes or hands on the continuation either passes
	//       through the un-read or lies under a fact that the read failed (nothing was read);
	//   (c) the un-read is reached only under the fact that the read succeeded (bufio un-reads the
	//       previous byte after a failed ReadByte);
	//   (d) read_term/3 un-reads the parser's look-ahead rune, not deferred, on every path from the parse
	//       to a call that invokes or hands on the continuation.
	const rule = "R-PEEK-UNREAD"
	readM := map[string]*ssa.Function{}
	for _, m := range []string{"ReadRune", "UnreadRune", "ReadByte", "UnreadByte"} {
		readM[m] = c.method("Stream", m)
		if readM[m] == nil {
			r.undecided(rule, "anchor:Stream."+m, "-", "locate Stream."+m, "not found")
			return
		}
	}
	pairs := map[string]string{"ReadRune": "UnreadRune", "ReadByte": "UnreadByte"}
	type spec struct {
		name   string
		arity  int
		unread bool
	}
	// does instruction `in` invoke the continuation or hand it on?
	usesK := func(fn *ssa.Function) func(ssa.Instruction) bool {
		ks := paramsWhere(fn, c.isContType)
		return func(in ssa.Instruction) bool {
			ci, ok := in.(ssa.CallInstruction)
			if !ok || len(ks) == 0 {
				return false
			}
			cc := ci.Common()
			vals := append([]ssa.Value{}, cc.Args...)
			if !cc.IsInvoke() && cc.StaticCallee() == nil {
				vals = append(vals, cc.Value)
			}
			for _, v := range vals {
				if !c.isContType(v.Type()) {
					continue
				}
				for _, l := range c.originSet(v) {
					for _, k := range ks {
						if l == ssa.Value(k) {
							return true
						}
					}
				}
				// a closure that captures k counts as handing it on
				if mc, ok := v.(*ssa.MakeClosure); ok {
					for _, b := range mc.Bindings {
						for _, k := range ks {
							if cell := c.varCell(b); cell != nil {
								for _, st := range c.storesTo(cell) {
									if st.Val == ssa.Value(k) {
										return true
									}
								}
							}
						}
					}
				}
			}
			return false
		}
	}
	readSucceeded := func(at ssa.Instruction, errVal ssa.Value) bool {
		for f := range c.factsAt(at.Block()) {
			bo, ok := f.cond.(*ssa.BinOp)
			if !ok || (bo.Op != token.EQL && bo.Op != token.NEQ) {
				continue
			}
			var other ssa.Value
			switch {
			case bo.X == errVal:
				other = bo.Y
			case bo.Y == errVal:
				other = bo.X
			default:
				continue
			}
			if k, isConst := other.(*ssa.Const); isConst && k.Value == nil && (bo.Op == token.EQL) == f.pol {
				return true
			}
		}
		return false
	}
	errOf := func(call *ssa.Call) ssa.Value {
		var out ssa.Value
		if refs := call.Referrers(); refs != nil {
			for _, ref := range *refs {
				if ex, ok := ref.(*ssa.Extract); ok && isErrorType(ex.Type()) {
					out = ex
				}
			}
		}
		if isErrorType(call.Type()) {
			out = call
		}
		return out
	}
	for _, sp := range []spec{{"peek_char", 2, true}, {"peek_byte", 2, true}, {"get_char", 2, false}, {"get_byte", 2, false}} {
		fn := c.registeredFn(sp.name, sp.arity)
		key := fmt.Sprintf("%s/%d", sp.name, sp.arity)
		if fn == nil {
			r.undecided(rule, key, "-", "locate the builtin", "not registered")
			continue
		}
		var read *ssa.Call
		var readName string
		eachInstr(fn, func(in ssa.Instruction) {
			if call, ok := in.(*ssa.Call); ok {
				for rn := range pairs {
					if call.Call.StaticCallee() == readM[rn] {
						read, readName = call, rn
					}
				}
			}
		})
		if read == nil {
			r.bad(rule, key+"/read", c.Pos(fn.Pos()), "the builtin reads from the stream through Stream's methods", "no ReadRune/ReadByte call found")
			continue
		}
		isUn0 := func(f *ssa.Function) bool { return f == readM["UnreadRune"] || f == readM["UnreadByte"] }
		unreads, unCallee, deferredDirect := c.directUnreadSites(fn, isUn0)
		if !sp.unread {
			if len(unreads) == 0 && deferredDirect == nil {
				r.ok(rule, key+"/consumes", c.at(read), "a get_* builtin consumes what it reads", "no un-read call in the builtin", false)
			} else {
				r.bad(rule, key+"/consumes", c.at(read), "a get_* builtin consumes what it reads", "the builtin un-reads: the same character would be delivered twice")
			}
			continue
		}
		descU := "a peek un-reads what it read, once, in the same unit, before the continuation can run"
		// the un-read call itself (for the stream identity), wherever it sits
		var unCall *ssa.Call
		for _, f := range withAnon(fn) {
			eachInstr(f, func(in ssa.Instruction) {
				if x, ok := in.(*ssa.Call); ok && x.Call.StaticCallee() != nil && isUn0(x.Call.StaticCallee()) {
					unCall = x
				}
			})
		}
		switch {
		case deferredDirect != nil:
			r.bad(rule, key+"/unread", c.at(deferredDirect), descU, "the un-read is deferred (or sits in a closure that runs later): a built-in calls its continuation before it returns, so the rest of the clause body reads from the stream first - peek_char(S,C), get_char(S,D) gives D the second character")
			continue
		case len(unreads) != 1 || unCall == nil:
			r.bad(rule, key+"/unread", c.at(read), descU, fmt.Sprintf("%d un-read sites", len(unreads)))
			continue
		case unCallee[unreads[0]] != readM[pairs[readName]]:
			r.bad(rule, key+"/unread", c.at(unreads[0]), descU, "the un-read is of the other unit than the read")
			continue
		case !c.sameStreamValue(unCall.Call.Args[0], read.Call.Args[0]):
			r.bad(rule, key+"/unread", c.at(unreads[0]), descU, "the un-read is applied to another stream than the read")
			continue
		}
		un := unreads[0]
		errVal := errOf(read)
		isUn := func(in ssa.Instruction) bool { return in == un }
		uk := usesK(fn)
		// path-sensitive in the outcome of the read: 0 unknown, 1 succeeded (err == nil), 2 failed
		// (after seed C19d) every exit counts, not only the uses of the continuation: an error exit that skips
		// the un-read (representation_error for an invalid character) leaves the character consumed
		offending := errStateReach(read, errVal, func(in ssa.Instruction) bool {
			_, isRet := in.(*ssa.Return)
			return isRet || uk(in)
		}, isUn)
		if offending != nil {
			r.bad(rule, key+"/unread", c.at(offending), descU, "a return or a use of the continuation is reachable from a successful read without passing through the un-read")
		} else {
			r.ok(rule, key+"/unread", c.at(un), descU, "every path from the read to a return or a use of the continuation passes through the un-read or lies under a fact that the read failed", true)
		}
		descS := "the un-read runs only when the read succeeded"
		if errVal != nil && readSucceeded(un, errVal) {
			r.ok(rule, key+"/unread-on-success", c.at(un), descS, "reached under err == nil of the read", true)
		} else if readName == "ReadRune" {
			r.ok(rule, key+"/unread-on-success", c.at(un), descS, "unconditional, harmless for runes: the buffered reader refuses UnreadRune unless the last operation was a successful ReadRune", false)
		} else {
			r.bad(rule, key+"/unread-on-success", c.at(un), descS, "the un-read is also reached when the read failed: the buffered reader then un-reads the byte read before (the last byte of a binary stream comes back after a peek at its end)")
		}
	}
	// read_term/3
	if rt := c.registeredFn("read_term", 3); rt != nil {
		np := c.fn("NewParser")
		termM := c.method("Parser", "Term")
		var npCall, parse *ssa.Call
		eachInstr(rt, func(in ssa.Instruction) {
			if call, ok := in.(*ssa.Call); ok {
				if np != nil && call.Call.StaticCallee() == np {
					npCall = call
				}
				if termM != nil && call.Call.StaticCallee() == termM {
					parse = call
				}
			}
		})
		uns, _, notDirect := c.directUnreadSites(rt, func(f *ssa.Function) bool { return f == readM["UnreadRune"] })
		key := "read_term/3/unread"
		desc := "read_term/3 returns the parser's one look-ahead rune to the stream before the continuation can run"
		switch {
		case npCall == nil || parse == nil:
			r.undecided(rule, key, c.Pos(rt.Pos()), desc, "NewParser / Parser.Term call not found")
		case notDirect != nil:
			r.bad(rule, key, c.at(notDirect), desc, "the un-read is deferred: the continuation reads from the stream first, skipping the character after the end token and then delivering the next one twice")
		case len(uns) != 1:
			r.bad(rule, key, c.at(parse), desc, fmt.Sprintf("%d UnreadRune calls", len(uns)))
		default:
			okStream := false
			var unCall *ssa.Call
			for _, f := range withAnon(rt) {
				eachInstr(f, func(in ssa.Instruction) {
					if x, ok := in.(*ssa.Call); ok && x.Call.StaticCallee() == readM["UnreadRune"] {
						unCall = x
					}
				})
			}
			if unCall != nil && len(npCall.Call.Args) >= 2 {
				for _, l := range c.originSet(npCall.Call.Args[1]) {
					for _, l2 := range c.originSet(unCall.Call.Args[0]) {
						if l == l2 {
							okStream = true
						}
					}
				}
			}
			uk := usesK(rt)
			// paths on which nothing was looked ahead at need no un-read: err == io.EOF (the end is delivered) and
			// err == one of the error values that the stream's read returns without reading
			isEOF := func(v ssa.Value) bool {
				for _, l := range c.originSet(v) {
					if u, ok := l.(*ssa.UnOp); ok && u.Op == token.MUL {
						if g, ok := u.X.(*ssa.Global); ok && g.Pkg != nil && g.Pkg.Pkg.Path() == "io" && g.Name() == "EOF" {
							return true
						}
					}
				}
				return false
			}
			sentinels := map[string]bool{}
			if rr := c.method("Stream", "ReadRune"); rr != nil {
				// the read itself and every Stream method it statically reaches (the checks may live in helpers)
				scope := withAnon(rr)
				for _, f := range c.LibFuncs() {
					if f != rr && f.Parent() == nil && recvNamed(f) == "Stream" && c.staticallyReaches(rr, f) {
						scope = append(scope, f)
					}
				}
				for _, f := range scope {
					if f == nil {
						continue
					}
					eachInstr(f, func(in ssa.Instruction) {
						ret, ok := in.(*ssa.Return)
						if !ok {
							return
						}
						for _, res := range ret.Results {
							if !isErrorType(res.Type()) {
								continue
							}
							for _, l := range c.originSet(res) {
								if u, ok := l.(*ssa.UnOp); ok && u.Op == token.MUL {
									if g, ok := u.X.(*ssa.Global); ok && c.isLibPkg(g.Pkg) {
										sentinels[g.Name()] = true
									}
								}
							}
						}
					})
				}
			}
			nothingRead := func(v ssa.Value) bool {
				if isEOF(v) {
					return true
				}
				if u, ok := v.(*ssa.UnOp); ok && u.Op == token.MUL {
					if g, ok := u.X.(*ssa.Global); ok && sentinels[g.Name()] {
						return true
					}
				}
				return false
			}
			hit := errStateReachX(parse, errOf(parse), func(in ssa.Instruction) bool {
				_, isRet := in.(*ssa.Return)
				return isRet || uk(in)
			}, func(in ssa.Instruction) bool { return in == uns[0] }, false, nothingRead, false)
			switch {
			case !okStream:
				r.bad(rule, key, c.at(uns[0]), desc, "the stream un-read is not the stream handed to the parser")
			case hit != nil:
				r.bad(rule, key, c.at(hit), desc, "a return or a use of the continuation is reachable from the parse without passing through the un-read (on a path that is not under err == io.EOF, where the end is delivered)")
			default:
				r.ok(rule, key, c.at(uns[0]), desc, "one UnreadRune on the parsed stream, on every path from the parse to a return or a use of the continuation", true)
			}
			// (e) nothing is given back when nothing was looked ahead at: not the delivered end of file (un-reading it
			// would leave the stream at its end for ever) and not after a stream-state error, where the parser did
			// not read at all (un-reading a stream that is past its end takes it back to its end: the permission
			// error would be raised once and end_of_file be delivered again afterwards). At the un-read the facts say
			// err == nil, or err differs from io.EOF and from every error value that the stream's read returns
			// without reading.
			ev := errOf(parse)
			excluded := map[string]bool{}
			isNilKnown := false
			if ev != nil {
				for f := range c.factsAt(uns[0].Block()) {
					bo, ok := f.cond.(*ssa.BinOp)
					if !ok || (bo.Op != token.EQL && bo.Op != token.NEQ) {
						continue
					}
					var other ssa.Value
					switch {
					case bo.X == ev:
						other = bo.Y
					case bo.Y == ev:
						other = bo.X
					default:
						continue
					}
					eq := (bo.Op == token.EQL) == f.pol
					if k, isConst := other.(*ssa.Const); isConst && k.Value == nil && eq {
						isNilKnown = true
					}
					if !eq {
						if isEOF(other) {
							excluded["io.EOF"] = true
						}
						if u, ok := other.(*ssa.UnOp); ok && u.Op == token.MUL {
							if g, ok := u.X.(*ssa.Global); ok {
								excluded[g.Name()] = true
							}
						}
					}
				}
			}
			var missing []string
			if !isNilKnown {
				if !excluded["io.EOF"] {
					missing = append(missing, "io.EOF")
				}
				for sname := range sentinels {
					if !excluded[sname] {
						missing = append(missing, sname)
					}
				}
				sort.Strings(missing)
			}
			descE := "read_term/3 gives nothing back when nothing was looked ahead at (delivered end of file, stream-state errors)"
			if len(missing) == 0 {
				r.ok(rule, "read_term/3/eof-delivered", c.at(uns[0]), descE, fmt.Sprintf("the un-read is reached only under err == nil, or under err != io.EOF and err != each of the %d error values the stream returns without reading", len(sentinels)), true)
			} else {
				r.bad(rule, "read_term/3/eof-delivered", c.at(uns[0]), descE, "the un-read also runs when the parse reported "+strings.Join(missing, ", ")+": nothing was looked ahead at then, and un-reading the end of a stream brings it back from past-the-end")
			}
		}
	} else {
		r.undecided(rule, "read_term/3", "-", "locate read_term/3", "not registered")
	}
	r.analysed(rule, "peek_char/2 peek_byte/2 get_char/2 get_byte/2 read_term/3")
}

func (c *Ctx) sameStreamValue(a, b ssa.Value) bool {
	la, lb := c.originSet(a), c.originSet(b)
	for _, x := range la {
		for _, y := range lb {
			if x == y {
				return true
			}
		}
	}
	return false
}

// ---------------------------------------------------------------------------
// R-EOF-ACTION-PAST (added after seed C19): the stream's eof_action is consulted only once the end has been
// passed (end_of_file was delivered), not when the cursor merely stands at the end.

func ruleEOFActionPast(c *Ctx, r *Report) {
	const rule = "R-EOF-ACTION-PAST"
	past, _ := c.Engine.Pkg.Scope().Lookup("endOfStreamPast").(*types.Const)
	if past == nil {
		// fall back: the largest constant of the end-of-stream enum
		if t := c.engType("endOfStream"); t != nil {
			if e := c.enumOf(t); e != nil {
				for _, k := range e.consts {
					if past == nil || constant.Compare(k.Val(), token.GTR, past.Val()) {
						past = k
					}
				}
			}
		}
	}
	if past == nil {
		r.undecided(rule, "anchor:endOfStreamPast", "-", "locate the 'past end of stream' constant", "not found")
		return
	}
	pastV, _ := constant.Int64Val(past.Val())
	n := 0
	for _, fn := range c.LibFuncs() {
		if recvNamed(fn) != "Stream" {
			continue
		}
		eachInstr(fn, func(in ssa.Instruction) {
			// a use of the eofAction field in a comparison = consulting the action
			bo, ok := in.(*ssa.BinOp)
			if !ok {
				return
			}
			if _, ok := loadsField(bo.X, "Stream", "eofAction"); !ok {
				return
			}
			n++
			key := fmt.Sprintf("%s/eofAction[%d]", fname(fn), n)
			desc := "eof_action is applied only in state past"
			good := false
			for f := range c.factsAt(bo.Block()) {
				x, op, k, ok := cmpConst(f.cond)
				if !ok {
					continue
				}
				if _, ok := loadsField(x, "Stream", "endOfStream"); !ok {
					continue
				}
				if k == pastV && ((op == token.EQL && f.pol) || (op == token.NEQ && !f.pol)) {
					good = true
				}
			}
			if good {
				r.ok(rule, key, c.at(bo), desc, "dominated by endOfStream == past", true)
			} else {
				r.bad(rule, key, c.at(bo), desc, "the action is consulted without knowing the stream is past its end: at the last unit (state at) a reset/error fires one step early, and the un-read of a peek or of read_term is lost")
			}
		})
	}
	if n == 0 {
		r.bad(rule, "Stream/eofAction", "-", "eof_action is applied only in state past", "no method of Stream consults eofAction")
	}
	// (added with fix F54) ... and only for an operation that is going to be carried out: inside the Stream type the
	// function that consults eofAction is called where the stream's type has already been compared with the
	// type the operation needs.  A refused get_byte/2 on a text stream otherwise resets the stream (past -> not)
	// or reports past_end_of_stream instead of the type mismatch.
	consults := map[*ssa.Function]bool{}
	for _, fn := range c.LibFuncs() {
		if recvNamed(fn) != "Stream" {
			continue
		}
		eachInstr(fn, func(in ssa.Instruction) {
			if fa, ok := in.(*ssa.FieldAddr); ok && fieldName(fa) == "eofAction" && fa.Referrers() != nil {
				for _, ref := range *fa.Referrers() {
					if u, ok := ref.(*ssa.UnOp); ok && u.Op == token.MUL {
						consults[fn] = true
					}
				}
			}
		})
	}
	m := 0
	for _, fn := range c.LibFuncs() {
		if recvNamed(fn) != "Stream" || fn.Parent() != nil {
			continue
		}
		k := 0
		eachInstr(fn, func(in ssa.Instruction) {
			call, ok := in.(*ssa.Call)
			if !ok || !consults[call.Call.StaticCallee()] {
				return
			}
			m++
			k++
			key := fmt.Sprintf("%s/eof-action-after-type-check#%d", fname(fn), k)
			desc := "the eof_action is applied only after the operation's unit has been checked against the stream's type"
			typed := false
			for f := range c.factsAt(in.Block()) {
				dataSlice(f.cond, func(x ssa.Value) bool {
					if ld, ok := x.(*ssa.UnOp); ok && ld.Op == token.MUL {
						if fa, ok := ld.X.(*ssa.FieldAddr); ok && fieldName(fa) == "streamType" {
							typed = true
						}
					}
					return !typed
				})
			}
			if typed {
				r.ok(rule, key, c.at(in), desc, "called under a comparison of Stream.streamType", true)
			} else {
				r.bad(rule, key, c.at(in), desc, "the eof_action is applied before the type of the stream is looked at: an operation that is then refused has already reset the stream or raised past_end_of_stream")
			}
		})
	}
	if m == 0 {
		r.undecided(rule, "Stream/eof-action-callers", "-", "locate the callers of the function that applies the eof_action", "none inside the Stream type")
	}
	r.analysed(rule, fmt.Sprintf("%d consultations of Stream.eofAction, %d calls of the consulting function inside Stream", n, m))
}

// ---------------------------------------------------------------------------
// R-STREAM-TYPE-GUARD (C19; added after seed C19b): a Stream has one cursor but two units (bytes for a
// binary stream, characters for a text stream). Inside the Stream type every byte-unit operation on the
// underlying reader (ReadByte, UnreadByte) is reached only under the fact streamType == binary and every
// rune-unit operation (ReadRune, UnreadRune) only under streamType == text. Without the guard an un-read in
// the wrong unit moves the cursor back by a byte inside a multi-byte character (or is refused by the buffer
// after the position was already adjusted): the next read repeats or splits input.

func ruleStreamTypeGuard(c *Ctx, r *Report) {
	const rule = "R-STREAM-TYPE-GUARD"
	desc := "byte-unit cursor operations run only on binary streams and rune-unit operations only on text streams"
	stNamed := c.engType("streamType")
	if stNamed == nil {
		r.undecided(rule, "anchor:streamType", "-", "locate the streamType enumeration", "not found")
		return
	}
	e := c.enumOf(stNamed)
	want := map[string]int64{}
	if e != nil {
		for _, k := range e.consts {
			v, _ := constant.Int64Val(k.Val())
			switch {
			case strings.Contains(k.Name(), "Binary"):
				want["byte"] = v
			case strings.Contains(k.Name(), "Text"):
				want["rune"] = v
			}
		}
	}
	if len(want) != 2 {
		r.undecided(rule, "anchor:streamType-constants", "-", "locate streamTypeText/streamTypeBinary", "not found")
		return
	}
	unit := map[string]string{"ReadByte": "byte", "UnreadByte": "byte", "ReadRune": "rune", "UnreadRune": "rune"}
	n := 0
	for _, fn := range c.LibFuncs() {
		top := topFunc(fn)
		if top.Signature.Recv() == nil || !isEngNamed(deref(top.Signature.Recv().Type()), "Stream") {
			continue
		}
		seen := map[string]int{}
		eachInstr(fn, func(in ssa.Instruction) {
			ci, ok := in.(ssa.CallInstruction)
			if !ok {
				return
			}
			callee := ci.Common().StaticCallee()
			if callee == nil || callee.Signature.Recv() == nil || !isNamedIn(deref(callee.Signature.Recv().Type()), "bufio", "Reader") {
				return
			}
			u, ok := unit[callee.Name()]
			if !ok {
				return
			}
			n++
			base := fmt.Sprintf("%s/buf.%s", fname(fn), callee.Name())
			seen[base]++
			key := fmt.Sprintf("%s#%d", base, seen[base])
			guarded := false
			// (a) the guard lives in a helper: a Stream method called with the wanted type as a constant, whose
			// error is known nil here, and which returns nil only where streamType equals that parameter
			for f := range c.factsAt(in.Block()) {
				x, op, ok := nilCmp(f.cond)
				if !ok || (op == token.EQL) != f.pol {
					continue
				}
				for _, l := range c.originSet(x) {
					if ex, ok := l.(*ssa.Extract); ok {
						l = ex.Tuple
					}
					hc, ok := l.(*ssa.Call)
					if !ok {
						continue
					}
					h := hc.Call.StaticCallee()
					if h == nil || recvNamed(h) != "Stream" {
						continue
					}
					for i, a := range hc.Call.Args {
						if k, ok := constInt(a); ok && k == want[u] && i < len(h.Params) && c.nilOnlyForType(h, h.Params[i]) {
							guarded = true
						}
					}
				}
			}
			for f := range c.factsAt(in.Block()) {
				bo, ok := f.cond.(*ssa.BinOp)
				if !ok {
					continue
				}
				eq := (bo.Op == token.EQL && f.pol) || (bo.Op == token.NEQ && !f.pol)
				if !eq {
					continue
				}
				for _, pair := range [][2]ssa.Value{{bo.X, bo.Y}, {bo.Y, bo.X}} {
					ld, ok := pair[0].(*ssa.UnOp)
					if !ok || ld.Op != token.MUL {
						continue
					}
					fa, ok := ld.X.(*ssa.FieldAddr)
					if !ok || fieldName(fa) != "streamType" {
						continue
					}
					if k, ok := constInt(pair[1]); ok && k == want[u] {
						guarded = true
					}
				}
			}
			switch {
			case guarded:
				r.ok(rule, key, c.at(in), desc, fmt.Sprintf("reached only under streamType == %d (%s unit)", want[u], u), true)
			case callee.Name() == "UnreadRune" && c.allGuarded(c.factsAt, "ReadRune", want["rune"]):
				// bufio refuses UnreadRune unless its last operation was ReadRune, and every ReadRune on the
				// underlying reader is itself reached only on text streams
				r.ok(rule, key, c.at(in), desc, "no guard of its own, but the buffered reader refuses UnreadRune unless its last operation was a ReadRune, and every ReadRune is guarded", true)
			case callee.Name() == "UnreadByte" && c.unreadOnlyAfterSuccessfulRead(top, u):
				// an un-read needs no guard of its own if the library calls it only after the matching read has
				// succeeded on the same stream: that read has fixed the stream type
				r.ok(rule, key, c.at(in), desc, "no guard of its own, but every call of "+top.Name()+" in the library follows a successful read of the same unit on the same stream (which is guarded)", true)
			default:
				r.bad(rule, base, c.at(in), desc, "no branch fact fixes the stream type before this "+u+"-unit operation: on a stream of the other type the cursor moves in the wrong unit")
			}
		})
	}
	r.analysed(rule, fmt.Sprintf("%d unit-specific operations on the underlying reader inside Stream", n))
}

// errStateReach searches the paths from `start` that avoid `avoid`, tracking what the branches taken say
// about errVal (nil / non-nil), and returns the first `target` instruction reached on a path on which
// errVal is not known to be non-nil. Branches contradicting what the path already assumed are infeasible.
func errStateReach(start ssa.Instruction, errVal ssa.Value, target, avoid func(ssa.Instruction) bool) ssa.Instruction {
	return errStateReachX(start, errVal, target, avoid, true, nil, false)
}

// errStateReachX: exemptNonNil - a path on which errVal is known to be non-nil is exempt; exemptEq - a path
// on which errVal is known to equal a value accepted by exemptEq is exempt.
func errStateReachX(start ssa.Instruction, errVal ssa.Value, target, avoid func(ssa.Instruction) bool, exemptNonNil bool, exemptEq func(ssa.Value) bool, exemptNil bool) ssa.Instruction {
	type st struct {
		b     *ssa.BasicBlock
		state int
	}
	seen := map[st]bool{}
	var found ssa.Instruction
	var scan func(b *ssa.BasicBlock, from int, state int)
	scan = func(b *ssa.BasicBlock, from int, state int) {
		for i := from; i < len(b.Instrs) && found == nil; i++ {
			in := b.Instrs[i]
			if avoid(in) {
				return
			}
			if target(in) && state != 2 && !(exemptNil && state == 1) {
				found = in
				return
			}
		}
		if found != nil {
			return
		}
		var bo *ssa.BinOp
		if iff, ok := b.Instrs[len(b.Instrs)-1].(*ssa.If); ok {
			bo, _ = iff.Cond.(*ssa.BinOp)
		}
		for si, s := range b.Succs {
			ns := state
			if bo != nil && errVal != nil && (bo.Op == token.EQL || bo.Op == token.NEQ) {
				var other ssa.Value
				switch {
				case bo.X == errVal:
					other = bo.Y
				case bo.Y == errVal:
					other = bo.X
				}
				if other != nil {
					k, isConst := other.(*ssa.Const)
					isNil := isConst && k.Value == nil
					eq := (bo.Op == token.EQL) == (si == 0)
					switch {
					case isNil && eq:
						if state == 2 {
							continue
						}
						ns = 1
					case isNil && !eq:
						if state == 1 {
							continue
						}
						if exemptNonNil {
							ns = 2
						}
					case !isNil && eq:
						if state == 1 {
							continue
						}
						if exemptNonNil || (exemptEq != nil && exemptEq(other)) {
							ns = 2
						}
					}
				}
			}
			key := st{s, ns}
			if seen[key] {
				continue
			}
			seen[key] = true
			scan(s, 0, ns)
		}
	}
	scan(start.Block(), instrIndex(start)+1, 0)
	return found
}

// directUnreadSites returns the instructions of fn at which one of the un-read methods runs: direct calls,
// and calls of a local closure (called in place, never deferred, stored elsewhere or passed on) whose body
// makes the un-read. `bad` is an un-read that runs at some other time: deferred, or inside a closure that
// is deferred, passed on or called from a nested function.
func (c *Ctx) directUnreadSites(fn *ssa.Function, isUnread func(*ssa.Function) bool) (sites []ssa.Instruction, callee map[ssa.Instruction]*ssa.Function, bad ssa.Instruction) {
	callee = map[ssa.Instruction]*ssa.Function{}
	eachInstr(fn, func(in ssa.Instruction) {
		switch x := in.(type) {
		case *ssa.Call:
			if f := x.Call.StaticCallee(); f != nil && isUnread(f) {
				sites = append(sites, in)
				callee[in] = f
			}
		case *ssa.Defer:
			if f := x.Call.StaticCallee(); f != nil && isUnread(f) {
				bad = in
			}
		case *ssa.Go:
			if f := x.Call.StaticCallee(); f != nil && isUnread(f) {
				bad = in
			}
		}
	})
	for _, g := range withAnon(fn) {
		if g == fn {
			continue
		}
		var inner *ssa.Call
		eachInstr(g, func(in ssa.Instruction) {
			if x, ok := in.(*ssa.Call); ok {
				if f := x.Call.StaticCallee(); f != nil && isUnread(f) {
					inner = x
				}
			}
		})
		if inner == nil {
			continue
		}
		// how is g used in fn?
		okUse := g.Parent() == fn
		var callSites []ssa.Instruction
		if okUse {
			eachInstr(fn, func(in ssa.Instruction) {
				ci, isCall := in.(ssa.CallInstruction)
				refersG := func(v ssa.Value) bool {
					for _, l := range c.originSet(v) {
						if mc, ok := l.(*ssa.MakeClosure); ok && mc.Fn == ssa.Value(g) {
							return true
						}
						if l == ssa.Value(g) {
							return true
						}
					}
					return false
				}
				if !isCall {
					return
				}
				cc := ci.Common()
				for _, a := range cc.Args {
					if refersG(a) {
						okUse = false
					}
				}
				if !cc.IsInvoke() && cc.StaticCallee() == nil && refersG(cc.Value) || cc.StaticCallee() == g {
					if _, plain := in.(*ssa.Call); plain {
						callSites = append(callSites, in)
					} else {
						okUse = false // defer / go
					}
				}
			})
		}
		if okUse && len(callSites) > 0 {
			for _, cs := range callSites {
				sites = append(sites, cs)
				callee[cs] = inner.Call.StaticCallee()
			}
		} else {
			bad = inner
		}
	}
	return
}

// unreadOnlyAfterSuccessfulRead: every library call of the Stream method `unread` lies under the fact
// err == nil of a call, in the same function and on the same stream, of the Stream read method of that unit.
func (c *Ctx) unreadOnlyAfterSuccessfulRead(unread *ssa.Function, unit string) bool {
	readName := map[string]string{"byte": "ReadByte", "rune": "ReadRune"}[unit]
	read := c.method("Stream", readName)
	if read == nil {
		return false
	}
	sites := c.callSitesOf(unread)
	if len(sites) == 0 {
		return false
	}
	for _, site := range sites {
		fn := site.Parent()
		ok := false
		eachInstr(fn, func(in ssa.Instruction) {
			rc, isCall := in.(*ssa.Call)
			if !isCall || rc.Call.StaticCallee() != read || !c.sameStreamValue(rc.Call.Args[0], site.Common().Args[0]) {
				return
			}
			var errVal ssa.Value
			if refs := rc.Referrers(); refs != nil {
				for _, ref := range *refs {
					if ex, isEx := ref.(*ssa.Extract); isEx && isErrorType(ex.Type()) {
						errVal = ex
					}
				}
			}
			if errVal == nil {
				return
			}
			for f := range c.factsAt(site.Block()) {
				bo, isBo := f.cond.(*ssa.BinOp)
				if !isBo || (bo.Op != token.EQL && bo.Op != token.NEQ) {
					continue
				}
				var other ssa.Value
				switch {
				case bo.X == errVal:
					other = bo.Y
				case bo.Y == errVal:
					other = bo.X
				default:
					continue
				}
				if k, isConst := other.(*ssa.Const); isConst && k.Value == nil && (bo.Op == token.EQL) == f.pol {
					ok = true
				}
			}
		})
		if !ok {
			return false
		}
	}
	return true
}

// allGuarded: every call of bufio.Reader.<op> inside methods of Stream is reached only under
// streamType == want.
func (c *Ctx) allGuarded(factsAt func(*ssa.BasicBlock) map[fact]bool, op string, want int64) bool {
	n, good := 0, true
	for _, fn := range c.LibFuncs() {
		top := topFunc(fn)
		if top.Signature.Recv() == nil || !isEngNamed(deref(top.Signature.Recv().Type()), "Stream") {
			continue
		}
		eachInstr(fn, func(in ssa.Instruction) {
			ci, ok := in.(ssa.CallInstruction)
			if !ok {
				return
			}
			callee := ci.Common().StaticCallee()
			if callee == nil || callee.Name() != op || callee.Signature.Recv() == nil || !isNamedIn(deref(callee.Signature.Recv().Type()), "bufio", "Reader") {
				return
			}
			n++
			if !c.typeGuardedAt(in, want) {
				good = false
			}
		})
	}
	return n > 0 && good
}

// ---------------------------------------------------------------------------
// R-NUMBER-WRITE-SIBLINGS (C06; added with fix F30): Integer and Float implement the same WriteTerm contract
// next to operators and must agree on it (cross-check of sibling implementations):
//   (1) both ask whether the operator on the left is alphanumeric (letterDigit(left.name)): `a is 1.0` needs
//       the blank as much as `a is 1`;
//   (2) both ask whether it is symbolic (graphic(left.name)) for a negative number: `1- -1`;
//   (3) after a prefix minus every non-negative number is parenthesised: the decision does not compare the
//       receiver with `> 0` (zero would be written -0, which reads as a number), and the Float version
//       decides "negative" with math.Signbit (negative zero is not `< 0`: 1 - (-0.0) would be written 1--0.0).

func ruleNumberWriteSiblings(c *Ctx, r *Report) {
	const rule = "R-NUMBER-WRITE-SIBLINGS"
	ld, gr := c.fn("letterDigit"), c.fn("graphic")
	if ld == nil || gr == nil {
		r.undecided(rule, "anchor", "-", "locate letterDigit and graphic", "not found")
		return
	}
	fromSide := func(v ssa.Value, side string) bool {
		hit := false
		seen := map[ssa.Value]bool{}
		var walk func(x ssa.Value, d int)
		walk = func(x ssa.Value, d int) {
			if x == nil || seen[x] || d > 10 {
				return
			}
			seen[x] = true
			switch y := x.(type) {
			case *ssa.FieldAddr:
				if fieldName(y) == side {
					hit = true
				}
				walk(y.X, d+1)
			case *ssa.Field:
				walk(y.X, d+1)
			case *ssa.UnOp:
				walk(y.X, d+1)
			case *ssa.Alloc:
				for _, st := range c.storesTo(y) {
					walk(st.Val, d+1)
				}
			case *ssa.Phi:
				for _, e := range y.Edges {
					walk(e, d+1)
				}
			}
		}
		walk(v, 0)
		return hit
	}
	fromLeft := func(v ssa.Value) bool { return fromSide(v, "left") }
	for _, typ := range []string{"Integer", "Float"} {
		fn := c.method(typ, "WriteTerm")
		if fn == nil {
			r.undecided(rule, "anchor:"+typ+".WriteTerm", "-", "locate "+typ+".WriteTerm", "not found")
			continue
		}
		recv := ssa.Value(fn.Params[0])
		hasLD, hasGR, hasSignbit := false, false, false
		hasRightLD := false
		fromRight := func(v ssa.Value) bool { return fromSide(v, "right") }
		var strict ssa.Instruction
		eachInstr(fn, func(in ssa.Instruction) {
			switch x := in.(type) {
			case *ssa.Call:
				callee := x.Call.StaticCallee()
				if callee == ld && len(x.Call.Args) == 1 && fromLeft(x.Call.Args[0]) {
					hasLD = true
				}
				if callee == gr && len(x.Call.Args) == 1 && fromLeft(x.Call.Args[0]) {
					hasGR = true
				}
				if callee == ld && len(x.Call.Args) == 1 && !fromLeft(x.Call.Args[0]) && fromRight(x.Call.Args[0]) {
					hasRightLD = true
				}
				if callee != nil && callee.Pkg != nil && callee.Pkg.Pkg.Path() == "math" && callee.Name() == "Signbit" {
					hasSignbit = true
				}
			case *ssa.BinOp:
				isZero := func(v ssa.Value) bool {
					k, ok := v.(*ssa.Const)
					return ok && k.Value != nil && constant.Sign(k.Value) == 0 && (k.Value.Kind() == constant.Int || k.Value.Kind() == constant.Float)
				}
				onRecv := func(v ssa.Value) bool { return v == recv || c.sameVar(v, recv) }
				switch {
				case x.Op == token.GTR && onRecv(x.X) && isZero(x.Y), x.Op == token.LSS && isZero(x.X) && onRecv(x.Y):
					strict = in
				case typ == "Float" && (x.Op == token.LSS && onRecv(x.X) && isZero(x.Y) || x.Op == token.GTR && isZero(x.X) && onRecv(x.Y)):
					strict = in // f < 0 misses negative zero
				}
			}
		})
		key := fname(fn)
		if hasLD {
			r.ok(rule, key+"/left-alphanumeric", c.Pos(fn.Pos()), "a blank separates the number from an alphanumeric operator on its left", "letterDigit(left.name) is consulted", false)
		} else {
			r.bad(rule, key+"/left-alphanumeric", c.Pos(fn.Pos()), "a blank separates the number from an alphanumeric operator on its left", "letterDigit(left.name) is not consulted here although the sibling does: `a is 1.0` is written `a is1.0`")
		}
		if hasGR {
			r.ok(rule, key+"/left-symbolic", c.Pos(fn.Pos()), "a blank separates a negative number from a symbolic operator on its left", "graphic(left.name) is consulted", false)
		} else {
			r.bad(rule, key+"/left-symbolic", c.Pos(fn.Pos()), "a blank separates a negative number from a symbolic operator on its left", "graphic(left.name) is not consulted here although the sibling does")
		}
		// (added with fix F50) ... and from an alphanumeric operator on its right: 1 e1 x, 1.0 e1 x - the operator
		// must not read as a radix prefix or as the exponent
		if hasRightLD {
			r.ok(rule, key+"/right-alphanumeric", c.Pos(fn.Pos()), "a blank separates the number from an alphanumeric operator on its right", "letterDigit(right.name) is consulted", false)
		} else {
			r.bad(rule, key+"/right-alphanumeric", c.Pos(fn.Pos()), "a blank separates the number from an alphanumeric operator on its right", "letterDigit(right.name) is not consulted here although the sibling does: with op(700, xfx, e1), e1(1.0, x) is written 1.0e1 x and reads as 10.0 followed by x")
		}
		switch {
		case strict != nil:
			r.bad(rule, key+"/zero", c.at(strict), "zero and negative zero are treated like their neighbours", "the receiver is compared strictly with zero: -(0) is written -0 (reads as a number) / negative zero is not seen as negative (1--0.0)")
		case typ == "Float" && !hasSignbit:
			r.bad(rule, key+"/zero", c.Pos(fn.Pos()), "zero and negative zero are treated like their neighbours", "the sign of a float is not taken with math.Signbit")
		default:
			r.ok(rule, key+"/zero", c.Pos(fn.Pos()), "zero and negative zero are treated like their neighbours", "no strict comparison of the receiver with zero", false)
		}
	}
	r.analysed(rule, "Integer.WriteTerm Float.WriteTerm")
}

// ---------------------------------------------------------------------------
// R-QUOTE-AGREES (C06; added with fix F31): what the writer puts verbatim between quotes is what the reader
// accepts between quotes. In the quoting function every rune written as itself lies under the fact that
// the LEXER'S OWN predicate for a character of a quoted token (isSingleQuotedCharacter) accepted it, or that
// it is one of the constant characters of an escape sequence; everything else goes out as an escape. Two
// independent descriptions of "printable inside quotes" (a regular expression in the writer, a predicate in
// the lexer) had drifted apart: '€' was written verbatim and rejected on reading.

func ruleQuoteAgrees(c *Ctx, r *Report) {
	const rule = "R-QUOTE-AGREES"
	q := c.fn("quote")
	pred := c.fn("isSingleQuotedCharacter")
	if q == nil || pred == nil {
		r.undecided(rule, "anchor", "-", "locate quote and isSingleQuotedCharacter", "not found")
		return
	}
	desc := "a character is written verbatim inside quotes only if the lexer accepts it there"
	n := 0
	usesPred := false
	eachInstr(q, func(in ssa.Instruction) {
		call, ok := in.(*ssa.Call)
		if !ok {
			return
		}
		if call.Call.StaticCallee() == pred {
			usesPred = true
		}
		callee := call.Call.StaticCallee()
		if callee == nil || callee.Name() != "WriteRune" || len(call.Call.Args) < 2 {
			return
		}
		n++
		key := fmt.Sprintf("%s/verbatim#%d", fname(q), n)
		rn := call.Call.Args[1]
		// cut-set: the write must be unreachable once the edges "predicate said yes" and "is a constant
		// escape character" are removed
		reach := reachableAvoiding(q, in.Block(), func(from *ssa.BasicBlock, i int, cond ssa.Value) bool {
			if pc, ok := cond.(*ssa.Call); ok && pc.Call.StaticCallee() == pred && len(pc.Call.Args) == 1 && (pc.Call.Args[0] == rn || c.sameVar(pc.Call.Args[0], rn)) {
				return i == 0
			}
			if bo, ok := cond.(*ssa.BinOp); ok && (bo.Op == token.EQL || bo.Op == token.NEQ) {
				for _, pair := range [][2]ssa.Value{{bo.X, bo.Y}, {bo.Y, bo.X}} {
					if (pair[0] == rn || c.sameVar(pair[0], rn)) && isConstVal(pair[1]) {
						return (bo.Op == token.EQL) == (i == 0)
					}
				}
			}
			return false
		})
		if reach {
			r.bad(rule, fmt.Sprintf("%s/verbatim", fname(q)), c.at(in), desc, "a rune is written as itself on a path on which the lexer's predicate was not asked (or said no)")
		} else {
			r.ok(rule, key, c.at(in), desc, "reached only across isSingleQuotedCharacter(r) == true or r == <escape character>", true)
		}
	})
	if !usesPred {
		r.bad(rule, fname(q)+"/uses-lexer-predicate", c.Pos(q.Pos()), "the quoting function decides with the lexer's predicate", "isSingleQuotedCharacter is not consulted: writer and reader describe 'printable inside quotes' independently and can disagree ('€' is written verbatim and rejected on reading)")
	} else {
		r.ok(rule, fname(q)+"/uses-lexer-predicate", c.Pos(q.Pos()), "the quoting function decides with the lexer's predicate", "isSingleQuotedCharacter is consulted", false)
	}
	r.analysed(rule, fname(q))
}

// ---------------------------------------------------------------------------
// R-FUNCTOR-NOT-OPERAND (C06; added with fix F32): in functional notation f(a1,...,an) the functor is not an
// operand, whatever operators surround the compound. The functor is written under options in which it
// cannot be taken for an operator: the options handed to the functor's WriteTerm are a local copy whose
// operator table (field ops) has been cleared. With the compound's own options an operator functor next to
// an operator gets the parentheses of a bare operator atom: 1-(-)(a,b,c), which does not read.

func ruleFunctorNotOperand(c *Ctx, r *Report) {
	const rule = "R-FUNCTOR-NOT-OPERAND"
	fn := c.fn("writeCompoundFunctionalNotation")
	if fn == nil {
		r.undecided(rule, "anchor:writeCompoundFunctionalNotation", "-", "locate writeCompoundFunctionalNotation", "not found")
		return
	}
	desc := "the functor of functional notation is written under options without an operator table"
	var site *ssa.Call
	eachInstr(fn, func(in ssa.Instruction) {
		call, ok := in.(*ssa.Call)
		if !ok || !call.Call.IsInvoke() && (call.Call.StaticCallee() == nil || call.Call.StaticCallee().Name() != "WriteTerm") {
			return
		}
		if call.Call.IsInvoke() && call.Call.Method.Name() != "WriteTerm" {
			return
		}
		// the receiver is the result of Functor()
		recv := call.Call.Value
		if !call.Call.IsInvoke() && len(call.Call.Args) > 0 {
			recv = call.Call.Args[0]
		}
		for _, l := range c.originSet(recv) {
			if fc, _ := callOfValue(l); fc != nil && fc.Call.IsInvoke() && fc.Call.Method.Name() == "Functor" {
				site = call
			}
		}
	})
	key := fname(fn) + "/functor-options"
	if site == nil {
		r.bad(rule, key, c.Pos(fn.Pos()), desc, "no WriteTerm call on the functor found")
		return
	}
	// the *WriteOptions argument
	var optArg ssa.Value
	for _, a := range site.Call.Args {
		if isNamedIn(deref(a.Type()), enginePkgPath, "WriteOptions") && isPtr(a.Type()) {
			optArg = a
		}
	}
	cleared := false
	if al, ok := optArg.(*ssa.Alloc); ok {
		eachInstr(fn, func(in ssa.Instruction) {
			st, ok := in.(*ssa.Store)
			if !ok {
				return
			}
			fa, ok := st.Addr.(*ssa.FieldAddr)
			if !ok || fa.X != ssa.Value(al) || fieldName(fa) != "ops" {
				return
			}
			if k, ok := st.Val.(*ssa.Const); ok && k.Value == nil {
				sb, cb := st.Block(), site.Block()
				if (sb == cb && instrIndex(st) < instrIndex(site)) || (sb != cb && sb.Dominates(cb)) {
					cleared = true
				}
			}
		})
	}
	if cleared {
		r.ok(rule, key, c.at(site), desc, "a local copy of the options with ops = nil", true)
	} else {
		r.bad(rule, key, c.at(site), desc, "the functor is written under the compound's own options: as the operand of an operator an operator functor is parenthesised like a bare atom, (-)(a,b,c), which is not a term")
	}
	r.analysed(rule, fname(fn))
}

// nilOnlyForType: every return of h whose error result is not a package-level error value lies where the
// receiver's streamType is known to equal the parameter p (h refuses every other type).
func (c *Ctx) nilOnlyForType(h *ssa.Function, p *ssa.Parameter) bool {
	if h.Blocks == nil {
		return false
	}
	ok := true
	found := false
	eachInstr(h, func(in ssa.Instruction) {
		ret, isRet := in.(*ssa.Return)
		if !isRet || len(ret.Results) == 0 {
			return
		}
		found = true
		res := ret.Results[len(ret.Results)-1]
		sentinel := true
		for _, l := range c.originSet(res) {
			u, isLoad := l.(*ssa.UnOp)
			if !isLoad || u.Op != token.MUL {
				sentinel = false
				continue
			}
			if _, isGlobal := u.X.(*ssa.Global); !isGlobal {
				sentinel = false
			}
		}
		if sentinel {
			return
		}
		typed := false
		for f := range c.factsAt(ret.Block()) {
			bo, isBo := f.cond.(*ssa.BinOp)
			if !isBo || !((bo.Op == token.EQL && f.pol) || (bo.Op == token.NEQ && !f.pol)) {
				continue
			}
			for _, pair := range [][2]ssa.Value{{bo.X, bo.Y}, {bo.Y, bo.X}} {
				ld, isLoad := pair[0].(*ssa.UnOp)
				if !isLoad || ld.Op != token.MUL {
					continue
				}
				if fa, isFA := ld.X.(*ssa.FieldAddr); isFA && fieldName(fa) == "streamType" && pair[1] == ssa.Value(p) {
					typed = true
				}
			}
		}
		if !typed {
			ok = false
		}
	})
	return ok && found
}

// typeGuardedAt: the branch facts at `in` fix the stream type to `want` - by a comparison of Stream.streamType
// with that constant, or by the nil error of a Stream method that was handed that constant and returns nil only
// for streams of the type it was handed (nilOnlyForType).
func (c *Ctx) typeGuardedAt(in ssa.Instruction, want int64) bool {
	for f := range c.factsAt(in.Block()) {
		if bo, ok := f.cond.(*ssa.BinOp); ok && (bo.Op == token.EQL || bo.Op == token.NEQ) && (bo.Op == token.EQL) == f.pol {
			for _, pair := range [][2]ssa.Value{{bo.X, bo.Y}, {bo.Y, bo.X}} {
				ld, ok := pair[0].(*ssa.UnOp)
				if !ok || ld.Op != token.MUL {
					continue
				}
				fa, ok := ld.X.(*ssa.FieldAddr)
				if !ok || fieldName(fa) != "streamType" {
					continue
				}
				if k, ok := constInt(pair[1]); ok && k == want {
					return true
				}
			}
		}
		x, op, ok := nilCmp(f.cond)
		if !ok || (op == token.EQL) != f.pol {
			continue
		}
		for _, l := range c.originSet(x) {
			if ex, ok := l.(*ssa.Extract); ok {
				l = ex.Tuple
			}
			hc, ok := l.(*ssa.Call)
			if !ok {
				continue
			}
			h := hc.Call.StaticCallee()
			if h == nil || recvNamed(h) != "Stream" {
				continue
			}
			for i, a := range hc.Call.Args {
				if k, ok := constInt(a); ok && k == want && i < len(h.Params) && c.nilOnlyForType(h, h.Params[i]) {
					return true
				}
			}
		}
	}
	return false
}

// ---------------------------------------------------------------------------
// R-BUF-WRAPPED (C19; added after seed C19g): "end_of_stream is never at/past while input remains."  The
// stream decides "at the end" from what its source last reported; it learns that through a wrapper that
// records the error of every Read (and stands in for a source that is nil).  The buffered reader of a Stream
// therefore never reads the source directly: every bufio.NewReader/NewReaderSize and every (*bufio.Reader).Reset
// in the library is given the recording wrapper (a value of the library's own reader type), never a bare
// io.Reader.  bufio.Reader.Reset(s.source) "to save an allocation" leaves the recorded end-of-file stale: after a
// reset the stream says `at` whenever the buffer runs empty.
func ruleBufWrapped(c *Ctx, r *Report) {
	const rule = "R-BUF-WRAPPED"
	desc := "the buffered reader of a stream reads its source only through the wrapper that records the source's errors"
	n := 0
	for _, fn := range c.LibFuncs() {
		if funcPkg(fn) != c.Engine {
			continue
		}
		k := 0
		eachInstr(fn, func(in ssa.Instruction) {
			call, ok := in.(*ssa.Call)
			if !ok {
				return
			}
			callee := call.Call.StaticCallee()
			if callee == nil || callee.Pkg == nil || callee.Pkg.Pkg.Path() != "bufio" {
				return
			}
			var src ssa.Value
			switch {
			case callee.Name() == "NewReader" || callee.Name() == "NewReaderSize":
				src = call.Call.Args[0]
			case callee.Name() == "Reset" && callee.Signature.Recv() != nil && isNamedIn(deref(callee.Signature.Recv().Type()), "bufio", "Reader"):
				src = call.Call.Args[1]
			default:
				return
			}
			n++
			k++
			key := fmt.Sprintf("%s/bufio.%s#%d", fname(fn), callee.Name(), k)
			if k0, isConst := src.(*ssa.Const); isConst && k0.IsNil() {
				r.ok(rule, key, c.at(in), desc, "constructed over no source at all (a spare buffer): the Reset that points it at a source is what this rule decides", false)
				return
			}
			wrapped := false
			for _, l := range c.originSet(src) {
				if mi, ok := l.(*ssa.MakeInterface); ok {
					l = mi.X
				}
				if c.isLibNamedPtr(l.Type()) {
					wrapped = true
				}
			}
			if wrapped {
				r.ok(rule, key, c.at(in), desc, "given a value of the library's own reader type", true)
			} else {
				r.bad(rule, key, c.at(in), desc, "the buffered reader is pointed at a bare io.Reader: the stream no longer sees what its source reports (a stale end-of-file makes it say `at` while input remains; a nil source is dereferenced)")
			}
		})
	}
	if n == 0 {
		r.undecided(rule, "scan/bufio", "-", desc, "no construction or reset of a bufio.Reader found in the engine")
	}
}

// isLibNamedPtr: a pointer to (or a value of) a named type declared in the library.
func (c *Ctx) isLibNamedPtr(t types.Type) bool {
	n, ok := deref(t).(*types.Named)
	return ok && n.Obj().Pkg() != nil && (n.Obj().Pkg().Path() == enginePkgPath || n.Obj().Pkg().Path() == rootPkgPath)
}

// ---------------------------------------------------------------------------
// R-RUNE-BYTE-ASCII (C19, C06; added after seed C19h): "output ... reaches the sink completely": a character
// reaches a text sink as its UTF-8 encoding. A rune converted to ONE byte is its own encoding only below
// utf8.RuneSelf (0x80); every conversion of a rune (int32) to a byte in the library lies under branch facts
// that bound the rune below 0x80 (or it is a constant below 0x80). A bound of 0xFF - "it fits into a byte" -
// writes Latin-1, which no reader of the library accepts back.
func ruleRuneByteASCII(c *Ctx, r *Report) {
	const rule = "R-RUNE-BYTE-ASCII"
	desc := "a rune becomes a single byte only where it is known to be ASCII"
	n := 0
	for _, fn := range c.LibFuncs() {
		k := 0
		eachInstr(fn, func(in ssa.Instruction) {
			cv, ok := in.(*ssa.Convert)
			if !ok {
				return
			}
			from, okf := cv.X.Type().Underlying().(*types.Basic)
			to, okt := cv.Type().Underlying().(*types.Basic)
			if !okf || !okt || from.Kind() != types.Int32 || to.Kind() != types.Uint8 {
				return
			}
			n++
			k++
			key := fmt.Sprintf("%s/byte(rune)#%d", fname(fn), k)
			if kv, isConst := constInt(cv.X); isConst {
				if kv >= 0 && kv < 0x80 {
					r.ok(rule, key, c.at(in), desc, "constant below 0x80", true)
				} else {
					r.bad(rule, key, c.at(in), desc, fmt.Sprintf("the constant %d is not an ASCII character", kv))
				}
				return
			}
			rg := c.rangeAt(in.Block(), cv.X)
			if rg.hasHi && rg.hi < 0x80 {
				r.ok(rule, key, c.at(in), desc, fmt.Sprintf("under the fact rune <= %d", rg.hi), true)
			} else {
				hi := "none"
				if rg.hasHi {
					hi = fmt.Sprint(rg.hi)
				}
				r.bad(rule, key, c.at(in), desc, "upper bound known here: "+hi+" (needed: below 0x80): a character from U+0080 up is written as one raw byte instead of its UTF-8 encoding - the sink holds text no reader accepts, and the position counts one byte too few")
			}
		})
	}
	if n == 0 {
		r.info(rule, "scan/byte(rune)", "-", desc, "no conversion of a rune to a byte in the library")
	}
	r.analysed(rule, fmt.Sprintf("%d conversions int32 -> uint8", n))
}

// ---------------------------------------------------------------------------
// R-WRITE-TRUNCATES (C19; added with fix F61): "output ... reaches the sink completely" - and the sink holds that
// output, not that output followed by the tail of what the file held before. open/3,4 hands the operating system
// a flag word; the one it computes for mode `write` contains os.O_TRUNC: a constant with that bit occurs in the
// data slice of the flag argument of the file-opening call (or in the mode constant itself).
func ruleWriteTruncates(c *Ctx, r *Report) {
	const rule = "R-WRITE-TRUNCATES"
	desc := "a file opened for writing is emptied"
	open := c.registeredFn("open", 4)
	if open == nil {
		r.undecided(rule, "anchor:open/4", "-", desc, "not registered")
		return
	}
	trunc := int64(-1)
	for _, p := range c.Prog.AllPackages() {
		if p.Pkg.Path() == "os" {
			if k, ok := p.Pkg.Scope().Lookup("O_TRUNC").(*types.Const); ok {
				if v, exact := constant.Int64Val(k.Val()); exact {
					trunc = v
				}
			}
		}
	}
	if trunc <= 0 {
		r.undecided(rule, "anchor:os.O_TRUNC", "-", desc, "constant not found")
		return
	}
	n := 0
	eachInstr(open, func(in ssa.Instruction) {
		call, ok := in.(*ssa.Call)
		if !ok || call.Call.IsInvoke() || len(call.Call.Args) != 3 {
			return
		}
		// the call through the package-level function variable (os.OpenFile by default), or os.OpenFile itself
		isOpen := false
		if callee := call.Call.StaticCallee(); callee != nil && callee.Pkg != nil && callee.Pkg.Pkg.Path() == "os" && callee.Name() == "OpenFile" {
			isOpen = true
		}
		if ld, ok := call.Call.Value.(*ssa.UnOp); ok && ld.Op == token.MUL {
			if g, ok := ld.X.(*ssa.Global); ok && c.isLibPkg(g.Pkg) {
				isOpen = true
			}
		}
		if !isOpen {
			return
		}
		n++
		key := fmt.Sprintf("%s/open-flag#%d", fname(open), n)
		has := false
		dataSlice(call.Call.Args[1], func(v ssa.Value) bool {
			if k, ok := constInt(v); ok && k&trunc != 0 {
				has = true
			}
			return !has
		})
		if !has {
			if m, ok := c.Engine.Members["ioModeWrite"].(*ssa.NamedConst); ok {
				if k, ok := constInt(m.Value); ok && k&trunc != 0 {
					has = true
				}
			}
		}
		if has {
			r.ok(rule, key, c.at(in), desc, "the flag word can contain os.O_TRUNC", true)
		} else {
			r.bad(rule, key, c.at(in), desc, "no constant with the os.O_TRUNC bit reaches the flag argument: a shorter text written over a longer file leaves the old tail behind the new output")
		}
	})
	if n == 0 {
		r.undecided(rule, fname(open)+"/open-flag", c.Pos(open.Pos()), desc, "no file-opening call found in open/4")
	}
}

// ---------------------------------------------------------------------------
// R-UNREAD-RESETS-EOS (C19; added after seed C19i): "end_of_stream is never at/past while input remains". A
// successful un-read puts input back: whatever the end-of-stream state was - `at` (the read that is being undone
// had found the end behind the last byte) or `past` - it is `not` afterwards. In Stream.UnreadByte and
// Stream.UnreadRune the store that resets the state does not depend on the state: its block carries no fact that
// compares the endOfStream field.
func ruleUnreadResetsEOS(c *Ctx, r *Report) {
	const rule = "R-UNREAD-RESETS-EOS"
	desc := "a successful un-read resets end_of_stream whatever it was"
	for _, mn := range []string{"UnreadByte", "UnreadRune"} {
		fn := c.method("Stream", mn)
		key := "(*engine.Stream)." + mn + "/reset"
		if fn == nil {
			r.undecided(rule, key, "-", desc, "not found")
			continue
		}
		unconditional, any := false, false
		var where ssa.Instruction
		eachInstr(fn, func(in ssa.Instruction) {
			st, ok := in.(*ssa.Store)
			if !ok {
				return
			}
			fa, ok := st.Addr.(*ssa.FieldAddr)
			if !ok || fieldName(fa) != "endOfStream" || !isEngNamed(deref(fa.X.Type()), "Stream") {
				return
			}
			any = true
			where = in
			dep := false
			for f := range c.factsAt(in.Block()) {
				dataSlice(f.cond, func(v ssa.Value) bool {
					if ld, ok := v.(*ssa.UnOp); ok && ld.Op == token.MUL {
						if fa2, ok := ld.X.(*ssa.FieldAddr); ok && fieldName(fa2) == "endOfStream" {
							dep = true
						}
					}
					return !dep
				})
			}
			if !dep {
				unconditional = true
			}
		})
		switch {
		case !any:
			r.bad(rule, key, c.Pos(fn.Pos()), desc, "the un-read never touches endOfStream: after a peek at the last byte the stream stays `at` although that byte is still to be read")
		case unconditional:
			r.ok(rule, key, c.at(where), desc, "the reset does not depend on the previous state", true)
		default:
			r.bad(rule, key, c.at(where), desc, "the reset happens only for some previous states: after a peek at the last byte of a source that reports its end with that byte the stream stays `at` while a byte remains")
		}
	}
}

// ---------------------------------------------------------------------------
// R-READ-BOOKKEEPING (C19; added after seed C19j): Stream.UnreadRune tells "the read being undone found the end"
// from lastRuneSize == 0: every ReadRune has to record the size it read, also the 0 of a read that met the end.
// In Stream.ReadRune the store to lastRuneSize that follows the buffered read does not depend on the read's error:
// its block carries no fact about an error value.
func ruleReadBookkeeping(c *Ctx, r *Report) {
	const rule = "R-READ-BOOKKEEPING"
	desc := "ReadRune records the size of every read, the 0 of a read at the end included"
	fn := c.method("Stream", "ReadRune")
	if fn == nil {
		r.undecided(rule, "anchor:Stream.ReadRune", "-", desc, "not found")
		return
	}
	unconditional, any := false, false
	var where ssa.Instruction
	eachInstr(fn, func(in ssa.Instruction) {
		st, ok := in.(*ssa.Store)
		if !ok {
			return
		}
		fa, ok := st.Addr.(*ssa.FieldAddr)
		if !ok || fieldName(fa) != "lastRuneSize" {
			return
		}
		// the store of the size that was read (not a constant reset on an early-return path)
		if _, isConst := st.Val.(*ssa.Const); isConst {
			return
		}
		any = true
		where = in
		dep := false
		for f := range c.factsAt(in.Block()) {
			if x, _, ok := nilCmp(f.cond); ok && isErrorType(x.Type()) {
				if e, ok := x.(*ssa.Extract); ok {
					if call, ok := e.Tuple.(*ssa.Call); ok {
						if callee := call.Call.StaticCallee(); callee != nil && callee.Name() == "ReadRune" {
							dep = true
						}
					}
				}
			}
		}
		if !dep {
			unconditional = true
		}
	})
	key := fname(fn) + "/lastRuneSize"
	switch {
	case !any:
		r.bad(rule, key, c.Pos(fn.Pos()), desc, "ReadRune never records the size it read")
	case unconditional:
		r.ok(rule, key, c.at(where), desc, "the size is recorded whatever the buffered read reported", true)
	default:
		r.bad(rule, key, c.at(where), desc, "the size is recorded only when the buffered read succeeded: after a read that met the end lastRuneSize keeps the previous character's size, and the un-read of read_term/3's look-ahead no longer recognises `the end was read` - the stream is past before end_of_file was delivered")
	}
}
