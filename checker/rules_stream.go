package main

import (
	"fmt"
	"go/constant"
	"go/token"
	"go/types"
	"strings"

	"golang.org/x/tools/go/ssa"
)

// ---------------------------------------------------------------------------
// R-TEXT-RUNE (C16)

var textBuiltins = []struct {
	name  string
	arity int
}{
	{"atom_length", 2}, {"atom_concat", 3}, {"sub_atom", 5}, {"atom_chars", 2}, {"atom_codes", 2}, {"char_code", 2},
}

func ruleTextRune(c *Ctx, r *Report) {
	const rule = "R-TEXT-RUNE"
	atomString := c.method("Atom", "String")
	if atomString == nil {
		r.undecided(rule, "anchor:Atom.String", "-", "locate Atom.String", "not found")
		return
	}
	type scanTarget struct {
		name  string
		arity int
		fn    *ssa.Function
	}
	var targets []scanTarget
	done := map[*ssa.Function]bool{}
	for _, tb := range textBuiltins {
		fn := c.registeredFn(tb.name, tb.arity)
		if fn == nil {
			r.undecided(rule, fmt.Sprintf("registered/%s/%d", tb.name, tb.arity), "-", "locate the builtin", "not registered")
			continue
		}
		targets = append(targets, scanTarget{tb.name, tb.arity, fn})
		for _, f := range withAnon(fn) {
			done[f] = true
		}
	}
	// every other library function (added after seed C06: the writer's spacing helpers classify an atom by its
	// first character too)
	for _, fn := range c.LibFuncs() {
		if fn.Parent() == nil && !done[fn] {
			targets = append(targets, scanTarget{"lib", -1, fn})
		}
	}
	for _, tb := range targets {
		fn := tb.fn
		nuse := 0
		for _, f := range withAnon(fn) {
			// string values originating from Atom.String() (through local/captured variables and slicing by range offsets)
			isAtomText := func(v ssa.Value) bool {
				ok, _ := c.comesOnlyFrom(v, func(l ssa.Value) bool {
					call, _ := callOfValue(l)
					return call != nil && call.Call.StaticCallee() == atomString
				})
				return ok
			}
			eachInstr(f, func(in ssa.Instruction) {
				switch x := in.(type) {
				case *ssa.Call:
					if f := x.Call.StaticCallee(); f != nil && f.Pkg != nil && f.Pkg.Pkg.Path() == "unicode/utf8" && len(x.Call.Args) > 0 && isStringType(x.Call.Args[0].Type()) && isAtomText(x.Call.Args[0]) {
						nuse++
						r.ok(rule, fmt.Sprintf("%s[%s/%d]/utf8.%s(text)[%d]", fname(f), tb.name, tb.arity, f.Name(), nuse), c.at(x), "characters are counted/decoded through unicode/utf8", "utf8."+f.Name(), false)
						return
					}
					b, ok := x.Call.Value.(*ssa.Builtin)
					if !ok || b.Name() != "len" || !isStringType(x.Call.Args[0].Type()) || !isAtomText(x.Call.Args[0]) {
						return
					}
					nuse++
					key := fmt.Sprintf("%s[%s/%d]/len(text)[%d]", fname(f), tb.name, tb.arity, nuse)
					desc := "the byte length of an atom's text is used only as a capacity or compared with 0, never as a character count"
					bad := ""
					var visit func(v ssa.Value, depth int)
					visit = func(v ssa.Value, depth int) {
						if depth > 4 || v.Referrers() == nil {
							return
						}
						for _, ref := range *v.Referrers() {
							switch u := ref.(type) {
							case *ssa.MakeSlice:
								// capacity / length of a buffer
							case *ssa.BinOp:
								switch u.Op {
								case token.ADD, token.SUB, token.MUL:
									visit(u, depth+1)
								case token.EQL, token.NEQ, token.GTR, token.LSS, token.GEQ, token.LEQ:
									other := u.Y
									if other == v {
										other = u.X
									}
									if k, ok := constInt(other); !ok || k != 0 {
										bad = "compared with a non-zero value at " + c.at(u)
									}
								default:
									bad = "used in arithmetic at " + c.at(u)
								}
							case *ssa.Convert, *ssa.ChangeType:
								visit(u.(ssa.Value), depth+1)
							case *ssa.DebugRef:
							default:
								bad = fmt.Sprintf("flows into %T at %s", ref, c.at(ref))
							}
						}
					}
					visit(x, 0)
					if bad == "" {
						r.ok(rule, key, c.at(x), desc, "feeds only a capacity/zero test", true)
					} else {
						r.bad(rule, key, c.at(x), desc, bad+": for non-ASCII text the byte count differs from the character count")
					}
				case *ssa.Slice:
					if !isStringType(x.X.Type()) || !isAtomText(x.X) {
						return
					}
					nuse++
					key := fmt.Sprintf("%s[%s/%d]/text[i:j][%d]", fname(f), tb.name, tb.arity, nuse)
					desc := "an atom's text is sliced only at offsets produced by ranging over the same text (rune boundaries)"
					good := true
					for _, idx := range []ssa.Value{x.Low, x.High} {
						if idx == nil {
							continue
						}
						for _, l := range c.originSet(idx) {
							if k, ok := constInt(l); ok && k == 0 {
								continue
							}
							ex, ok := l.(*ssa.Extract)
							if !ok {
								good = false
								continue
							}
							nx, ok := ex.Tuple.(*ssa.Next)
							if !ok || !nx.IsString || ex.Index != 1 {
								good = false
								continue
							}
							rg, ok := nx.Iter.(*ssa.Range)
							if !ok || !c.sameStringValue(rg.X, x.X) {
								good = false
							}
						}
					}
					if good {
						r.ok(rule, key, c.at(x), desc, "offsets come from `range` over the same string", true)
					} else {
						r.bad(rule, key, c.at(x), desc, "an offset is not a range index of the same string: it may split a multi-byte character")
					}
				case *ssa.Index:
					if isStringType(x.X.Type()) && isAtomText(x.X) {
						nuse++
						r.bad(rule, fmt.Sprintf("%s[%s/%d]/text[i]", fname(f), tb.name, tb.arity), c.at(x), "an atom's text is not indexed by byte", "s[i] yields a byte, not a character: a non-ASCII first character is classified by its UTF-8 lead byte")
					}
				case *ssa.Lookup:
					if isStringType(x.X.Type()) && isAtomText(x.X) {
						nuse++
						r.bad(rule, fmt.Sprintf("%s[%s/%d]/text[i]", fname(f), tb.name, tb.arity), c.at(x), "an atom's text is not indexed by byte", "s[i] yields a byte, not a character")
					}
				case *ssa.Convert:
					// []rune(text): the character view
					if sl, ok := x.Type().Underlying().(*types.Slice); ok && isStringType(x.X.Type()) && isAtomText(x.X) {
						if b, ok := sl.Elem().Underlying().(*types.Basic); ok && b.Kind() == types.Int32 {
							nuse++
							r.ok(rule, fmt.Sprintf("%s[%s/%d]/[]rune(text)[%d]", fname(f), tb.name, tb.arity, nuse), c.at(x), "characters are counted/indexed through []rune", "conversion to []rune", false)
						}
					}
				}
			})
		}
		if nuse == 0 && tb.arity >= 0 {
			r.info(rule, fmt.Sprintf("%s/%d", tb.name, tb.arity), c.Pos(fn.Pos()), "text measurement sites", "no measurement of an atom's text in this builtin")
		}
	}
	r.analysed(rule, "atom_length/2 atom_concat/3 sub_atom/5 atom_chars/2 atom_codes/2 char_code/2 (resolved through the Register calls in New)")
}

func (c *Ctx) sameStringValue(a, b ssa.Value) bool {
	if a == b || c.sameVar(a, b) {
		return true
	}
	la, lb := c.originSet(a), c.originSet(b)
	return sameLeafSet(la, lb)
}

// ---------------------------------------------------------------------------
// C19: R-STREAM-OWNER, R-POSITION-PAIRING, R-PEEK-UNREAD

var cursorFields = map[string]bool{"buf": true, "position": true, "endOfStream": true, "lastRuneSize": true}

func ruleStreamOwner(c *Ctx, r *Report) {
	const rule = "R-STREAM-OWNER"
	owners := map[string]bool{"Stream": true, "textWriter": true, "binaryWriter": true}
	n := 0
	per := map[string]int{}
	for _, fn := range c.LibFuncs() {
		eachInstr(fn, func(in ssa.Instruction) {
			fa, ok := in.(*ssa.FieldAddr)
			if !ok || !isEngNamed(fa.X.Type(), "Stream") || !cursorFields[fieldName(fa)] {
				return
			}
			n++
			top := topFunc(fn)
			recvOK := false
			if top.Signature.Recv() != nil {
				if nt, ok := deref(top.Signature.Recv().Type()).(*types.Named); ok && owners[nt.Obj().Name()] {
					recvOK = true
				}
			}
			// constructors: stores into a fresh Stream
			if _, isAlloc := fa.X.(*ssa.Alloc); isAlloc {
				recvOK = true
			}
			key := fmt.Sprintf("%s/Stream.%s", fname(fn), fieldName(fa))
			per[key]++
			if per[key] > 1 {
				return
			}
			if recvOK {
				r.ok(rule, key, c.at(fa), "the cursor state of a stream is touched only by the stream's own methods", "access from a method of Stream / its writer wrappers", false)
			} else {
				r.bad(rule, key, c.at(fa), "the cursor state of a stream is touched only by the stream's own methods", "a builtin reaches into the stream's buffer/position/end-of-stream bookkeeping directly: the cursor can get out of step with what was consumed")
			}
		})
	}
	r.analysed(rule, fmt.Sprintf("%d accesses to Stream.buf/position/endOfStream/lastRuneSize", n))
}

type cursorOp struct {
	call ssa.CallInstruction
	kind string // read | unread | write
	name string
}

// cursorOpsIn finds calls that move the underlying reader/writer inside fn.
func (c *Ctx) cursorOpsIn(fn *ssa.Function) []cursorOp {
	var out []cursorOp
	eachInstr(fn, func(in ssa.Instruction) {
		ci, ok := in.(ssa.CallInstruction)
		if !ok {
			return
		}
		cc := ci.Common()
		name := calleeName(cc)
		var recvT types.Type
		if cc.IsInvoke() {
			recvT = cc.Value.Type()
		} else if f := cc.StaticCallee(); f != nil && f.Signature.Recv() != nil {
			recvT = f.Signature.Recv().Type()
		} else {
			return
		}
		// underlying reader: bufio.Reader methods reached through the stream's buf; underlying writer: io.Writer.Write on the sink
		isBufio := isNamedIn(recvT, "bufio", "Reader")
		isWriter := cc.IsInvoke() && isNamedIn(recvT, "io", "Writer")
		switch {
		case isBufio && (name == "ReadByte" || name == "ReadRune"):
			out = append(out, cursorOp{ci, "read", name})
		case isBufio && (name == "UnreadByte" || name == "UnreadRune"):
			out = append(out, cursorOp{ci, "unread", name})
		case isWriter && name == "Write":
			out = append(out, cursorOp{ci, "write", name})
		}
	})
	return out
}

func rulePositionPairing(c *Ctx, r *Report) {
	const rule = "R-POSITION-PAIRING"
	n := 0
	for _, fn := range c.LibFuncs() {
		if funcPkg(fn) != c.Engine || fn.Signature.Recv() == nil {
			continue
		}
		nt, ok := deref(fn.Signature.Recv().Type()).(*types.Named)
		if !ok || (nt.Obj().Name() != "Stream" && nt.Obj().Name() != "textWriter" && nt.Obj().Name() != "binaryWriter") {
			continue
		}
		for _, op := range c.cursorOpsIn(fn) {
			n++
			key := fmt.Sprintf("%s/%s", fname(fn), op.name)
			desc := "a method that moves the underlying reader/writer moves `position` in the same direction by the amount transferred"
			// find stores to Stream.position in fn
			var found, dirOK, amountOK bool
			why := ""
			eachInstr(fn, func(in ssa.Instruction) {
				st, ok := in.(*ssa.Store)
				if !ok {
					return
				}
				fa, ok := st.Addr.(*ssa.FieldAddr)
				if !ok || !isEngNamed(fa.X.Type(), "Stream") || fieldName(fa) != "position" {
					return
				}
				bo, ok := st.Val.(*ssa.BinOp)
				if !ok {
					return
				}
				// one side must be the old position
				var delta ssa.Value
				if _, ok := loadsField(bo.X, "Stream", "position"); ok {
					delta = bo.Y
				} else {
					return
				}
				found = true
				wantOp := token.ADD
				if op.kind == "unread" {
					wantOp = token.SUB
				}
				if bo.Op == wantOp {
					dirOK = true
				}
				// amount: depends on the op's result (n), or constant 1 for byte ops, or the recorded last rune size for UnreadRune
				dep := false
				dataSlice(delta, func(v ssa.Value) bool {
					if ex, ok := v.(*ssa.Extract); ok && ex.Tuple == ssa.Value(op.call.(ssa.Value)) {
						dep = true
					}
					if _, ok := loadsField(v, "Stream", "lastRuneSize"); ok && op.name == "UnreadRune" {
						dep = true
					}
					return true
				})
				if k, ok := constInt(delta); ok && k == 1 && (op.name == "ReadByte" || op.name == "UnreadByte") {
					dep = true
				}
				if dep {
					amountOK = true
				}
				// unconditional or on the success edge of this op
				if op.kind != "write" && op.name != "ReadRune" {
					onSuccess := false
					for f := range c.factsAt(st.Block()) {
						bo2, ok := f.cond.(*ssa.BinOp)
						if !ok {
							continue
						}
						var errv ssa.Value
						if isNilConst(bo2.Y) {
							errv = bo2.X
						}
						if errv == nil {
							continue
						}
						fromOp := false
						for _, l := range c.originSet(errv) {
							if cl, _ := callOfValue(l); cl != nil && ssa.Value(cl) == op.call.(ssa.Value) {
								fromOp = true
							}
							if l == op.call.(ssa.Value) {
								fromOp = true
							}
						}
						if fromOp && ((bo2.Op == token.EQL && f.pol) || (bo2.Op == token.NEQ && !f.pol)) {
							onSuccess = true
						}
					}
					if !onSuccess {
						why = "position is changed even when the operation failed"
						amountOK = false
					}
				}
			})
			switch {
			case !found:
				r.bad(rule, key, c.at(op.call), desc, "no update of position in this method: the position property no longer equals the number of bytes consumed")
			case !dirOK:
				r.bad(rule, key, c.at(op.call), desc, "position moves in the wrong direction for a "+op.kind)
			case !amountOK:
				if why == "" {
					why = "the amount is not derived from what the operation transferred"
				}
				r.bad(rule, key, c.at(op.call), desc, why)
			default:
				r.ok(rule, key, c.at(op.call), desc, "position "+map[string]string{"read": "+=", "write": "+=", "unread": "-="}[op.kind]+" amount transferred", true)
			}
		}
	}
	// the recorded last rune size is what ReadRune transferred
	if rr := c.method("Stream", "ReadRune"); rr != nil {
		ok := false
		ops := c.cursorOpsIn(rr)
		eachInstr(rr, func(in ssa.Instruction) {
			st, isSt := in.(*ssa.Store)
			if !isSt {
				return
			}
			fa, isFA := st.Addr.(*ssa.FieldAddr)
			if !isFA || fieldName(fa) != "lastRuneSize" {
				return
			}
			for _, l := range c.originSet(st.Val) {
				if ex, isEx := l.(*ssa.Extract); isEx && len(ops) > 0 && ex.Tuple == ssa.Value(ops[0].call.(ssa.Value)) && ex.Index == 1 {
					ok = true
				}
			}
		})
		if ok {
			r.ok(rule, fname(rr)+"/lastRuneSize", c.Pos(rr.Pos()), "the size used to un-read a rune is the size that was read", "lastRuneSize is result #1 of the underlying ReadRune", true)
		} else {
			r.bad(rule, fname(rr)+"/lastRuneSize", c.Pos(rr.Pos()), "the size used to un-read a rune is the size that was read", "lastRuneSize is not set from the underlying ReadRune's size")
		}
	}
	r.analysed(rule, fmt.Sprintf("%d cursor-moving calls in methods of Stream and its writers", n))
}

func rulePeekUnread(c *Ctx, r *Report) {
	const rule = "R-PEEK-UNREAD"
	readM := map[string]*ssa.Function{}
	for _, m := range []string{"ReadRune", "UnreadRune", "ReadByte", "UnreadByte"} {
		readM[m] = c.method("Stream", m)
		if readM[m] == nil {
			r.undecided(rule, "anchor:Stream."+m, "-", "locate Stream."+m, "not found")
			return
		}
	}
	pairs := map[string]string{"ReadRune": "UnreadRune", "ReadByte": "UnreadByte"}
	type spec struct {
		name   string
		arity  int
		unread bool
	}
	for _, sp := range []spec{{"peek_char", 2, true}, {"peek_byte", 2, true}, {"get_char", 2, false}, {"get_byte", 2, false}} {
		fn := c.registeredFn(sp.name, sp.arity)
		key := fmt.Sprintf("%s/%d", sp.name, sp.arity)
		if fn == nil {
			r.undecided(rule, key, "-", "locate the builtin", "not registered")
			continue
		}
		// the read call in the builtin
		var read *ssa.Call
		var readName string
		eachInstr(fn, func(in ssa.Instruction) {
			if call, ok := in.(*ssa.Call); ok {
				for rn := range pairs {
					if call.Call.StaticCallee() == readM[rn] {
						read, readName = call, rn
					}
				}
			}
		})
		if read == nil {
			r.bad(rule, key+"/read", c.Pos(fn.Pos()), "the builtin reads from the stream through Stream's methods", "no ReadRune/ReadByte call found")
			continue
		}
		// un-read calls reachable in fn and its closures
		var unreads []*ssa.Call
		var deferred bool
		for _, f := range withAnon(fn) {
			eachInstr(f, func(in ssa.Instruction) {
				call, ok := in.(*ssa.Call)
				if !ok {
					return
				}
				for _, un := range pairs {
					if call.Call.StaticCallee() == readM[un] {
						unreads = append(unreads, call)
					}
				}
			})
		}
		if !sp.unread {
			if len(unreads) == 0 {
				r.ok(rule, key+"/consumes", c.at(read), "a get_* builtin consumes what it reads", "no un-read call in the builtin", false)
			} else {
				r.bad(rule, key+"/consumes", c.at(unreads[0]), "a get_* builtin consumes what it reads", "the builtin un-reads: the same character would be delivered twice")
			}
			continue
		}
		// peek: a deferred closure that calls the matching un-read on the same stream, installed right after the read
		var deferIn *ssa.Defer
		eachInstr(fn, func(in ssa.Instruction) {
			d, ok := in.(*ssa.Defer)
			if !ok {
				return
			}
			mc, ok := d.Call.Value.(*ssa.MakeClosure)
			if !ok {
				return
			}
			eachInstr(mc.Fn.(*ssa.Function), func(in2 ssa.Instruction) {
				call, ok := in2.(*ssa.Call)
				if !ok || call.Call.StaticCallee() != readM[pairs[readName]] {
					return
				}
				// same stream value
				if c.sameStreamValue(call.Call.Args[0], read.Call.Args[0]) {
					deferred, deferIn = true, d
				}
			})
		})
		switch {
		case !deferred:
			r.bad(rule, key+"/unread", c.at(read), "a peek un-reads what it read, on every path", "no deferred "+pairs[readName]+" on the same stream: the peeked character is consumed")
		case deferIn.Block() != read.Block() && !read.Block().Dominates(deferIn.Block()):
			r.bad(rule, key+"/unread", c.at(deferIn), "a peek un-reads what it read, on every path", "the deferred un-read is not installed on every path after the read")
		case len(unreads) != 1:
			r.bad(rule, key+"/unread", c.at(read), "a peek un-reads what it read exactly once", fmt.Sprintf("%d un-read calls", len(unreads)))
		default:
			// every return reachable from the read passes the defer: the defer sits in the read's own block or in a block
			// that every path from the read must cross
			ok := deferIn.Block() == read.Block()
			if !ok {
				ok = true
				for _, b := range fn.Blocks {
					if _, isRet := b.Instrs[len(b.Instrs)-1].(*ssa.Return); isRet && read.Block().Dominates(b) && !deferIn.Block().Dominates(b) {
						ok = false
					}
				}
			}
			if ok {
				r.ok(rule, key+"/unread", c.at(deferIn), "a peek un-reads what it read, on every path", "deferred "+pairs[readName]+" on the same stream installed directly after the "+readName, true)
			} else {
				r.bad(rule, key+"/unread", c.at(deferIn), "a peek un-reads what it read, on every path", "a return after the read is not covered by the deferred un-read")
			}
		}
	}
	// read_term/3: exactly one deferred UnreadRune on the parsed stream, installed after the parser is built
	if rt := c.registeredFn("read_term", 3); rt != nil {
		np := c.fn("NewParser")
		var npCall *ssa.Call
		eachInstr(rt, func(in ssa.Instruction) {
			if call, ok := in.(*ssa.Call); ok && call.Call.StaticCallee() == np && np != nil {
				npCall = call
			}
		})
		nun := 0
		okStream := false
		for _, f := range withAnon(rt) {
			eachInstr(f, func(in ssa.Instruction) {
				call, ok := in.(*ssa.Call)
				if !ok || call.Call.StaticCallee() != readM["UnreadRune"] {
					return
				}
				nun++
				if npCall != nil && len(npCall.Call.Args) >= 2 {
					// the stream handed to the parser (converted to io.RuneReader) is the one un-read
					for _, l := range c.originSet(npCall.Call.Args[1]) {
						for _, l2 := range c.originSet(call.Call.Args[0]) {
							if l == l2 {
								okStream = true
							}
						}
					}
				}
			})
		}
		key := "read_term/3/unread"
		switch {
		case npCall == nil:
			r.undecided(rule, key, c.Pos(rt.Pos()), "read_term/3 returns its one look-ahead rune to the stream", "NewParser call not found")
		case nun == 1 && okStream:
			r.ok(rule, key, c.at(npCall), "read_term/3 returns its one look-ahead rune to the stream", "exactly one UnreadRune on the stream the parser was built on", true)
		default:
			r.bad(rule, key, c.at(npCall), "read_term/3 returns its one look-ahead rune to the stream", fmt.Sprintf("%d UnreadRune calls (same stream: %v): the character after the term's end token is lost or repeated", nun, okStream))
		}
	}
	r.analysed(rule, "peek_char/2 peek_byte/2 get_char/2 get_byte/2 read_term/3")
}

func (c *Ctx) sameStreamValue(a, b ssa.Value) bool {
	la, lb := c.originSet(a), c.originSet(b)
	for _, x := range la {
		for _, y := range lb {
			if x == y {
				return true
			}
		}
	}
	return false
}

// ---------------------------------------------------------------------------
// R-EOF-ACTION-PAST (added after seed C19): the stream's eof_action is consulted only once the end has been
// passed (end_of_file was delivered), not when the cursor merely stands at the end.

func ruleEOFActionPast(c *Ctx, r *Report) {
	const rule = "R-EOF-ACTION-PAST"
	past, _ := c.Engine.Pkg.Scope().Lookup("endOfStreamPast").(*types.Const)
	if past == nil {
		// fall back: the largest constant of the end-of-stream enum
		if t := c.engType("endOfStream"); t != nil {
			if e := c.enumOf(t); e != nil {
				for _, k := range e.consts {
					if past == nil || constant.Compare(k.Val(), token.GTR, past.Val()) {
						past = k
					}
				}
			}
		}
	}
	if past == nil {
		r.undecided(rule, "anchor:endOfStreamPast", "-", "locate the 'past end of stream' constant", "not found")
		return
	}
	pastV, _ := constant.Int64Val(past.Val())
	n := 0
	for _, fn := range c.LibFuncs() {
		if recvNamed(fn) != "Stream" {
			continue
		}
		eachInstr(fn, func(in ssa.Instruction) {
			// a use of the eofAction field in a comparison = consulting the action
			bo, ok := in.(*ssa.BinOp)
			if !ok {
				return
			}
			if _, ok := loadsField(bo.X, "Stream", "eofAction"); !ok {
				return
			}
			n++
			key := fmt.Sprintf("%s/eofAction[%d]", fname(fn), n)
			desc := "eof_action is applied only in state past"
			good := false
			for f := range c.factsAt(bo.Block()) {
				cmp, ok := f.cond.(*ssa.BinOp)
				if !ok {
					continue
				}
				if _, ok := loadsField(cmp.X, "Stream", "endOfStream"); !ok {
					continue
				}
				k, isK := constInt(cmp.Y)
				if !isK {
					continue
				}
				if k == pastV && ((cmp.Op == token.EQL && f.pol) || (cmp.Op == token.NEQ && !f.pol)) {
					good = true
				}
			}
			if good {
				r.ok(rule, key, c.at(bo), desc, "dominated by endOfStream == past", true)
			} else {
				r.bad(rule, key, c.at(bo), desc, "the action is consulted without knowing the stream is past its end: at the last unit (state at) a reset/error fires one step early, and the un-read of a peek or of read_term is lost")
			}
		})
	}
	if n == 0 {
		r.bad(rule, "Stream/eofAction", "-", "eof_action is applied only in state past", "no method of Stream consults eofAction")
	}
	r.analysed(rule, fmt.Sprintf("%d consultations of Stream.eofAction", n))
}

// ---------------------------------------------------------------------------
// R-STREAM-TYPE-GUARD (C19; added after seed C19b): a Stream has one cursor but two units (bytes for a
// binary stream, characters for a text stream). Inside the Stream type every byte-unit operation on the
// underlying reader (ReadByte, UnreadByte) is reached only under the fact streamType == binary and every
// rune-unit operation (ReadRune, UnreadRune) only under streamType == text. Without the guard an un-read in
// the wrong unit moves the cursor back by a byte inside a multi-byte character (or is refused by the buffer
// after the position was already adjusted): the next read repeats or splits input.

func ruleStreamTypeGuard(c *Ctx, r *Report) {
	const rule = "R-STREAM-TYPE-GUARD"
	desc := "byte-unit cursor operations run only on binary streams and rune-unit operations only on text streams"
	stNamed := c.engType("streamType")
	if stNamed == nil {
		r.undecided(rule, "anchor:streamType", "-", "locate the streamType enumeration", "not found")
		return
	}
	e := c.enumOf(stNamed)
	want := map[string]int64{}
	if e != nil {
		for _, k := range e.consts {
			v, _ := constant.Int64Val(k.Val())
			switch {
			case strings.Contains(k.Name(), "Binary"):
				want["byte"] = v
			case strings.Contains(k.Name(), "Text"):
				want["rune"] = v
			}
		}
	}
	if len(want) != 2 {
		r.undecided(rule, "anchor:streamType-constants", "-", "locate streamTypeText/streamTypeBinary", "not found")
		return
	}
	unit := map[string]string{"ReadByte": "byte", "UnreadByte": "byte", "ReadRune": "rune", "UnreadRune": "rune"}
	n := 0
	for _, fn := range c.LibFuncs() {
		top := topFunc(fn)
		if top.Signature.Recv() == nil || !isEngNamed(deref(top.Signature.Recv().Type()), "Stream") {
			continue
		}
		seen := map[string]int{}
		eachInstr(fn, func(in ssa.Instruction) {
			ci, ok := in.(ssa.CallInstruction)
			if !ok {
				return
			}
			callee := ci.Common().StaticCallee()
			if callee == nil || callee.Signature.Recv() == nil || !isNamedIn(deref(callee.Signature.Recv().Type()), "bufio", "Reader") {
				return
			}
			u, ok := unit[callee.Name()]
			if !ok {
				return
			}
			n++
			base := fmt.Sprintf("%s/buf.%s", fname(fn), callee.Name())
			seen[base]++
			key := fmt.Sprintf("%s#%d", base, seen[base])
			guarded := false
			for f := range c.factsAt(in.Block()) {
				bo, ok := f.cond.(*ssa.BinOp)
				if !ok {
					continue
				}
				eq := (bo.Op == token.EQL && f.pol) || (bo.Op == token.NEQ && !f.pol)
				if !eq {
					continue
				}
				for _, pair := range [][2]ssa.Value{{bo.X, bo.Y}, {bo.Y, bo.X}} {
					ld, ok := pair[0].(*ssa.UnOp)
					if !ok || ld.Op != token.MUL {
						continue
					}
					fa, ok := ld.X.(*ssa.FieldAddr)
					if !ok || fieldName(fa) != "streamType" {
						continue
					}
					if k, ok := constInt(pair[1]); ok && k == want[u] {
						guarded = true
					}
				}
			}
			if guarded {
				r.ok(rule, key, c.at(in), desc, fmt.Sprintf("reached only under streamType == %d (%s unit)", want[u], u), true)
			} else {
				r.bad(rule, base, c.at(in), desc, "no branch fact fixes the stream type before this "+u+"-unit operation: on a stream of the other type the cursor moves in the wrong unit")
			}
		})
	}
	r.analysed(rule, fmt.Sprintf("%d unit-specific operations on the underlying reader inside Stream", n))
}
