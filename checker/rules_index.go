package main

import (
	"fmt"
	"go/constant"
	"go/token"
	"go/types"
	"math"

	"golang.org/x/tools/go/ssa"
)

// ---------------------------------------------------------------------------
// R-ARRAY-INDEX (C05; added after seed C05b): an index into a fixed-size array that is not a constant is
// proven to lie in [0, len):
//   (a) index of an enumeration type: every declared constant of the type is below the array length;
//   (b) the index variable of a range loop over an array of at most that length;
//   (c) branch facts bound it from above by a constant <= len-1, and it is non-negative by type
//       (unsigned, byte, rune) or by a branch fact;
//   (d) a ring-buffer cursor (a field of the receiver): an interval interpretation of every method writing
//       the field shows that [0, len) is an invariant at every call, return and index use.
// An out-of-range index is a Go run-time panic in the lexer/parser/writer, outside every Prolog catch/3.
//
// Assumptions stated: values of type rune are non-negative (they come from UTF-8 decoding, rune literals
// and atom text); a value of an enumeration type is one of its declared constants.

type ival struct {
	lo, hi int64
	top    bool
}

func (a ival) within(n int64) bool { return !a.top && a.lo >= 0 && a.hi <= n-1 }
func (a ival) join(b ival) ival {
	if a.top || b.top {
		return ival{top: true}
	}
	if b.lo < a.lo {
		a.lo = b.lo
	}
	if b.hi > a.hi {
		a.hi = b.hi
	}
	return a
}
func (a ival) String() string {
	if a.top {
		return "unbounded"
	}
	return fmt.Sprintf("[%d,%d]", a.lo, a.hi)
}

func arrayLenOf(x ssa.Value) (int64, bool) {
	t := x.Type().Underlying()
	if p, ok := t.(*types.Pointer); ok {
		t = p.Elem().Underlying()
	}
	arr, ok := t.(*types.Array)
	if !ok {
		return 0, false
	}
	return arr.Len(), true
}

func nonNegativeType(t types.Type) bool {
	b, ok := t.Underlying().(*types.Basic)
	if !ok {
		return false
	}
	if b.Info()&types.IsUnsigned != 0 {
		return true
	}
	// rune: universe alias of int32 printed as "rune"
	return t.String() == "rune"
}

func widening(cv *ssa.Convert) bool {
	from, ok1 := cv.X.Type().Underlying().(*types.Basic)
	to, ok2 := cv.Type().Underlying().(*types.Basic)
	if !ok1 || !ok2 || from.Info()&types.IsInteger == 0 || to.Info()&types.IsInteger == 0 {
		return false
	}
	size := func(b *types.Basic) int {
		switch b.Kind() {
		case types.Int8, types.Uint8:
			return 8
		case types.Int16, types.Uint16:
			return 16
		case types.Int32, types.Uint32:
			return 32
		case types.Int, types.Uint, types.Uintptr:
			return 32 // the smallest the build may use
		case types.Int64, types.Uint64:
			return 64
		}
		return 0
	}
	sf, st := size(from), size(to)
	if from.Kind() == types.Int || from.Kind() == types.Uint {
		sf = 64
	}
	if sf == 0 || st == 0 {
		return false
	}
	fu, tu := from.Info()&types.IsUnsigned != 0, to.Info()&types.IsUnsigned != 0
	switch {
	case fu == tu:
		return st >= sf
	case fu && !tu:
		return st > sf
	}
	return false
}

// rangeOfIndex: what the branch facts holding at `at` say about idx, looking through value-preserving
// (widening) conversions of idx on either side.
func (c *Ctx) rangeOfIndex(idx ssa.Value, at ssa.Instruction) intRange {
	facts := c.factsAt(at.Block())
	r := c.rangeFromFacts(facts, idx)
	merge := func(o intRange) {
		if o.hasLo {
			r.setLo(o.lo)
		}
		if o.hasHi {
			r.setHi(o.hi)
		}
	}
	base := idx
	for {
		cv, ok := base.(*ssa.Convert)
		if !ok || !widening(cv) {
			break
		}
		base = cv.X
		merge(c.rangeFromFacts(facts, base))
	}
	if refs := base.Referrers(); refs != nil {
		for _, ref := range *refs {
			if cv, ok := ref.(*ssa.Convert); ok && widening(cv) {
				merge(c.rangeFromFacts(facts, cv))
			}
		}
	}
	// a predicate helper known true here: what its true answers imply for the parameter the value was passed for
	for f := range facts {
		call, ok := f.cond.(*ssa.Call)
		if !ok || !f.pol {
			continue
		}
		callee := call.Call.StaticCallee()
		if callee == nil || callee.Blocks == nil || !c.isLibPkg(funcPkg(callee)) || callee.Signature.Results().Len() != 1 {
			continue
		}
		for i, a := range call.Call.Args {
			if i < len(callee.Params) && (c.sameVar(a, idx) || c.sameVar(a, base)) {
				if o, ok := c.trueImpliesRange(callee, callee.Params[i]); ok {
					merge(o)
				}
			}
		}
	}
	return r
}

// trueImpliesRange: the hull of what the branch facts say about param at every place where fn (one bool
// result) returns something other than the constant false.
func (c *Ctx) trueImpliesRange(fn *ssa.Function, param *ssa.Parameter) (intRange, bool) {
	var out intRange
	first := true
	join := func(o intRange) {
		if first {
			out, first = o, false
			return
		}
		if !o.hasLo || !out.hasLo {
			out.hasLo = false
		} else if o.lo < out.lo {
			out.lo = o.lo
		}
		if !o.hasHi || !out.hasHi {
			out.hasHi = false
		} else if o.hi > out.hi {
			out.hi = o.hi
		}
	}
	var visit func(v ssa.Value, at *ssa.BasicBlock, depth int)
	visit = func(v ssa.Value, at *ssa.BasicBlock, depth int) {
		if k, ok := v.(*ssa.Const); ok && k.Value != nil && k.Value.String() == "false" {
			return
		}
		if phi, ok := v.(*ssa.Phi); ok && depth < 8 {
			for i, e := range phi.Edges {
				visit(e, phi.Block().Preds[i], depth+1)
			}
			return
		}
		join(c.rangeFromFacts(c.factsAt(at), param))
	}
	for _, b := range blocksOf(fn) {
		if ret, ok := b.Instrs[len(b.Instrs)-1].(*ssa.Return); ok && len(ret.Results) == 1 {
			if bt, ok := ret.Results[0].Type().Underlying().(*types.Basic); !ok || bt.Kind() != types.Bool {
				return intRange{}, false
			}
			visit(ret.Results[0], b, 0)
		}
	}
	out.ne = map[int64]bool{}
	return out, !first
}

func ruleArrayIndex(c *Ctx, r *Report) {
	const rule = "R-ARRAY-INDEX"
	desc := "a computed index into a fixed-size array lies in [0, len)"
	n := 0
	ringDone := map[string]bool{}
	for _, fn := range c.LibFuncs() {
		seen := map[string]int{}
		eachInstr(fn, func(in ssa.Instruction) {
			var x, idx ssa.Value
			switch i := in.(type) {
			case *ssa.IndexAddr:
				x, idx = i.X, i.Index
			case *ssa.Index:
				x, idx = i.X, i.Index
			default:
				return
			}
			alen, ok := arrayLenOf(x)
			if !ok {
				return
			}
			if _, isConst := idx.(*ssa.Const); isConst {
				return // checked by the compiler
			}
			n++
			base := fmt.Sprintf("%s/%s[%s]", fname(fn), stableName(x), stableName(idx))
			seen[base]++
			key := fmt.Sprintf("%s#%d", base, seen[base])
			pos := c.at(in)
			// (a) enumeration
			if e := c.enumOf(idx.Type()); e != nil {
				var max int64 = -1
				neg := false
				for _, k := range e.consts {
					v, ok := constant.Int64Val(k.Val())
					if !ok || v < 0 {
						neg = true
					}
					if v > max {
						max = v
					}
				}
				if !neg && max < alen {
					r.ok(rule, key, pos, desc, fmt.Sprintf("index of enumeration type %s: its %d constants are all in [0,%d], array length %d", e.typ.Obj().Name(), len(e.consts), max, alen), false)
				} else {
					r.bad(rule, base, pos, desc, fmt.Sprintf("enumeration %s has a constant outside [0,%d)", e.typ.Obj().Name(), alen))
				}
				return
			}
			// (b) range loop index
			if bo, ok := idx.(*ssa.BinOp); ok && bo.Op == token.ADD {
				if phi, ok := bo.X.(*ssa.Phi); ok && phi.Comment == "rangeindex" {
					if one, ok := constInt(bo.Y); ok && one == 1 {
						lowOK := true
						for _, e := range phi.Edges {
							if k, ok := constInt(e); ok && k >= -1 {
								continue
							}
							if e == ssa.Value(bo) {
								continue
							}
							lowOK = false
						}
						rg := c.rangeOfIndex(idx, in)
						if lowOK && rg.hasHi && rg.hi <= alen-1 {
							r.ok(rule, key, pos, desc, fmt.Sprintf("index variable of a range loop bounded by %d", rg.hi+1), true)
							return
						}
					}
				}
			}
			// (d) ring cursor
			if u, ok := idx.(*ssa.UnOp); ok && u.Op == token.MUL {
				if fa, ok := u.X.(*ssa.FieldAddr); ok && len(fn.Params) > 0 && fa.X == ssa.Value(fn.Params[0]) && fn.Signature.Recv() != nil {
					fk := fieldKey(fa)
					why, good := c.ringCursorInvariant(fa, alen)
					if good {
						r.ok(rule, key, pos, desc, "ring cursor "+fk+": "+why, true)
					} else {
						r.bad(rule, base, pos, desc, "ring cursor "+fk+": "+why)
					}
					ringDone[fk] = true
					return
				}
			}
			// (c) branch facts
			rg := c.rangeOfIndex(idx, in)
			lowOK := nonNegativeType(idx.Type()) || (rg.hasLo && rg.lo >= 0)
			if cv, ok := idx.(*ssa.Convert); ok && widening(cv) && nonNegativeType(cv.X.Type()) {
				lowOK = true
			}
			switch {
			case lowOK && rg.hasHi && rg.hi <= alen-1:
				r.ok(rule, key, pos, desc, fmt.Sprintf("guarded: index <= %d on every path to the access, non-negative", rg.hi), true)
			case !rg.hasHi:
				r.bad(rule, base, pos, desc, fmt.Sprintf("no branch fact bounds the index below the array length %d", alen))
			case rg.hi > alen-1:
				r.bad(rule, base, pos, desc, fmt.Sprintf("the guard admits index %d but the array has %d elements (valid: 0..%d)", rg.hi, alen, alen-1))
			default:
				r.bad(rule, base, pos, desc, "the index may be negative")
			}
		})
	}
	r.analysed(rule, fmt.Sprintf("%d computed indexes into fixed-size arrays", n))
}

// ringCursorInvariant: interval interpretation of every function storing to the cursor field.
func (c *Ctx) ringCursorInvariant(cursor *ssa.FieldAddr, n int64) (string, bool) {
	fk := fieldKey(cursor)
	var writers []*ssa.Function
	wset := map[*ssa.Function]bool{}
	for _, fn := range c.LibFuncs() {
		bad := ""
		eachInstr(fn, func(in ssa.Instruction) {
			st, ok := in.(*ssa.Store)
			if !ok {
				return
			}
			fa, ok := st.Addr.(*ssa.FieldAddr)
			if !ok || fieldKey(fa) != fk {
				return
			}
			if fn.Signature.Recv() == nil || len(fn.Params) == 0 || fa.X != ssa.Value(fn.Params[0]) {
				if k, ok := constInt(st.Val); ok && k >= 0 && k < n {
					return // initialisation with an in-range constant
				}
				bad = c.at(in)
				return
			}
			if !wset[fn] {
				wset[fn] = true
				writers = append(writers, fn)
			}
		})
		if bad != "" {
			return "written outside the methods of its type at " + bad, false
		}
	}
	// Whole-struct copies need no rule of their own: every struct value is the zero value, built field by
	// field (checked above: in-range constants only), or a copy of a value that satisfies the invariant
	// (the interpretation below rejects a copy of the receiver taken while the cursor is out of range).
	// the cursor is also read for indexing in functions that do not write it: there the invariant holds on
	// entry and nothing changes it.
	for _, fn := range writers {
		if why, ok := c.ringInterpret(fn, fk, n); !ok {
			return fmt.Sprintf("%s: %s", fname(fn), why), false
		}
	}
	return fmt.Sprintf("[0,%d) is preserved by its %d writers (interval interpretation), all methods on the receiver", n, len(writers)), true
}

func (c *Ctx) ringInterpret(fn *ssa.Function, fk string, n int64) (string, bool) {
	recv := ssa.Value(fn.Params[0])
	isCursorAddr := func(v ssa.Value) bool {
		fa, ok := v.(*ssa.FieldAddr)
		return ok && fa.X == recv && fieldKey(fa) == fk
	}
	type state struct {
		f   ival
		cur ssa.Value // SSA value known to equal the field now
		set bool
	}
	vals := map[ssa.Value]ival{}
	var eval func(v ssa.Value) ival
	eval = func(v ssa.Value) ival {
		if k, ok := constInt(v); ok {
			return ival{lo: k, hi: k}
		}
		if iv, ok := vals[v]; ok {
			return iv
		}
		return ival{top: true}
	}
	in := map[*ssa.BasicBlock]state{}
	in[fn.Blocks[0]] = state{f: ival{lo: 0, hi: n - 1}, set: true}
	work := []*ssa.BasicBlock{fn.Blocks[0]}
	visits := map[*ssa.BasicBlock]int{}
	var failure string
	for len(work) > 0 && failure == "" {
		b := work[0]
		work = work[1:]
		visits[b]++
		if visits[b] > 16 {
			return "no fixed point (loop over the cursor)", false
		}
		st := in[b]
		for _, instr := range b.Instrs {
			switch x := instr.(type) {
			case *ssa.UnOp:
				if x.Op == token.MUL && isCursorAddr(x.X) {
					vals[x] = st.f
					st.cur = x
				}
				if x.Op == token.MUL && x.X == recv && !st.f.within(n) {
					failure = fmt.Sprintf("the receiver is copied at %s while the cursor is in %s", c.at(instr), st.f)
				}
			case *ssa.BinOp:
				a, bb := eval(x.X), eval(x.Y)
				out := ival{top: true}
				if !a.top && !bb.top {
					switch x.Op {
					case token.ADD:
						out = ival{lo: a.lo + bb.lo, hi: a.hi + bb.hi}
					case token.SUB:
						out = ival{lo: a.lo - bb.hi, hi: a.hi - bb.lo}
					case token.REM:
						if bb.lo == bb.hi && bb.lo > 0 {
							m := bb.lo
							switch {
							case a.lo >= 0 && a.hi < m:
								out = a
							case a.lo >= 0:
								out = ival{lo: 0, hi: m - 1}
							case a.hi <= 0:
								out = ival{lo: -(m - 1), hi: 0}
								if a.lo > -m {
									out.lo = a.lo
								}
							default:
								out = ival{lo: -(m - 1), hi: m - 1}
							}
						}
					}
				}
				if !out.top && (out.lo < math.MinInt32 || out.hi > math.MaxInt32) {
					out = ival{top: true}
				}
				vals[x] = out
			case *ssa.Store:
				if isCursorAddr(x.Addr) {
					st.f = eval(x.Val)
					st.cur = x.Val
				}
			case *ssa.IndexAddr:
				if _, isArr := arrayLenOf(x.X); isArr {
					if iv, tracked := vals[x.Index]; tracked && !iv.within(n) {
						failure = fmt.Sprintf("index use at %s with cursor in %s", c.at(instr), iv)
					}
				}
			case ssa.CallInstruction:
				if !st.f.within(n) {
					failure = fmt.Sprintf("call at %s while the cursor is in %s", c.at(instr), st.f)
				}
				st.f = ival{lo: 0, hi: n - 1}
				st.cur = nil
			case *ssa.Return:
				if !st.f.within(n) {
					failure = fmt.Sprintf("returns at %s with the cursor in %s", c.at(instr), st.f)
				}
			}
		}
		// successors, with refinement on `cur <op> const`
		var cond *ssa.BinOp
		if iff, ok := b.Instrs[len(b.Instrs)-1].(*ssa.If); ok {
			cond, _ = iff.Cond.(*ssa.BinOp)
		}
		for si, s := range b.Succs {
			out := st
			if cond != nil && st.cur != nil && !st.f.top {
				op := cond.Op
				var k int64
				okk := false
				if cond.X == st.cur {
					k, okk = constInt(cond.Y)
				} else if cond.Y == st.cur {
					k, okk = constInt(cond.X)
					op = flipOp(op)
				}
				if okk {
					if si == 1 {
						op = negateOp(op)
					}
					switch op {
					case token.LSS:
						if out.f.hi > k-1 {
							out.f.hi = k - 1
						}
					case token.LEQ:
						if out.f.hi > k {
							out.f.hi = k
						}
					case token.GTR:
						if out.f.lo < k+1 {
							out.f.lo = k + 1
						}
					case token.GEQ:
						if out.f.lo < k {
							out.f.lo = k
						}
					case token.EQL:
						out.f.lo, out.f.hi = k, k
					}
					if out.f.lo > out.f.hi {
						continue // infeasible edge
					}
				}
			}
			old, had := in[s]
			nw := out
			if had {
				nw.f = old.f.join(out.f)
				if old.cur != out.cur {
					nw.cur = nil
				}
			}
			nw.set = true
			if !had || nw.f != old.f || nw.cur != old.cur {
				in[s] = nw
				work = append(work, s)
			}
		}
	}
	if failure != "" {
		return failure, false
	}
	return "", true
}

func isConstVal(v ssa.Value) bool {
	_, ok := v.(*ssa.Const)
	return ok
}

// ---------------------------------------------------------------------------
// R-RUNE0-VALIDATED (C05; added after seed C05i): `[]rune(a.String())[0]` panics for the empty atom. Where a
// built-in takes the first character of an atom argument without a length test on that very slice, the length of
// the same ARGUMENT's name was tested earlier in the function: somewhere in it the number of characters of an atom
// resolved from the same parameter (len([]rune(x.String())) or utf8.RuneCountInString(x.String())) is compared
// with a constant in a way that sends the count 0 to a branch from which the indexing cannot be reached. A test
// `> 1` lets the empty atom through to the indexing; the recovered panic comes back as a Go error, not a term.
func ruleRune0Validated(c *Ctx, r *Report) {
	const rule = "R-RUNE0-VALIDATED"
	desc := "the first character of an atom argument is taken only after its length was tested"
	resolve := c.method("Env", "Resolve")
	// the parameter an atom's name comes from: String() on an assertion to Atom of Resolve(param)
	paramOfName := func(v ssa.Value) *ssa.Parameter {
		call, ok := v.(*ssa.Call)
		if !ok || call.Call.StaticCallee() == nil || c.stableFuncName(call.Call.StaticCallee()) != "String" || recvNamed(call.Call.StaticCallee()) != "Atom" {
			return nil
		}
		var out *ssa.Parameter
		for _, l := range c.originSet(call.Call.Args[0]) {
			if e, ok := l.(*ssa.Extract); ok {
				l = e.Tuple
			}
			rc, ok := l.(*ssa.Call)
			if !ok || rc.Call.StaticCallee() != resolve || len(rc.Call.Args) < 2 {
				return nil
			}
			p, ok := rc.Call.Args[1].(*ssa.Parameter)
			if !ok {
				return nil
			}
			out = p
		}
		return out
	}
	// the count of characters of a name: len([]rune(name)) or utf8.RuneCountInString(name)
	countOf := func(v ssa.Value) ssa.Value {
		call, ok := v.(*ssa.Call)
		if !ok {
			return nil
		}
		if b, ok := call.Call.Value.(*ssa.Builtin); ok && b.Name() == "len" {
			if cv, ok := call.Call.Args[0].(*ssa.Convert); ok {
				return cv.X
			}
		}
		if callee := call.Call.StaticCallee(); callee != nil && callee.Pkg != nil && callee.Pkg.Pkg.Path() == "unicode/utf8" && callee.Name() == "RuneCountInString" {
			return call.Call.Args[0]
		}
		return nil
	}
	n := 0
	for _, fn := range c.LibFuncs() {
		if funcPkg(fn) != c.Engine {
			continue
		}
		k := 0
		eachInstr(fn, func(in ssa.Instruction) {
			ia, ok := in.(*ssa.IndexAddr)
			if !ok {
				return
			}
			if kk, isConst := constInt(ia.Index); !isConst || kk != 0 {
				return
			}
			cv, ok := ia.X.(*ssa.Convert)
			if !ok {
				return
			}
			p := paramOfName(cv.X)
			if p == nil {
				return
			}
			n++
			k++
			key := fmt.Sprintf("%s/[]rune(%s)[0]#%d", fname(fn), p.Name(), k)
			// a local test on this very slice?
			rg := c.rangeAt(in.Block(), nil)
			_ = rg
			local := false
			for f := range c.factsAt(in.Block()) {
				if x, op, kk, ok := cmpConst(f.cond); ok {
					if call, ok := x.(*ssa.Call); ok {
						if b, ok := call.Call.Value.(*ssa.Builtin); ok && b.Name() == "len" && call.Call.Args[0] == ssa.Value(cv) {
							if (op == token.NEQ && kk == 1 && !f.pol) || (op == token.EQL && kk == 1 && f.pol) || (op == token.GTR && kk == 0 && f.pol) || (op == token.EQL && kk == 0 && !f.pol) || (op == token.NEQ && kk == 0 && f.pol) {
								local = true
							}
						}
					}
				}
			}
			if local {
				r.ok(rule, key, c.at(in), desc, "under a length fact about the slice itself", true)
				return
			}
			// an earlier test on the same parameter's name that sends the count 0 away from here
			validated := false
			top := topFunc(fn)
			for _, g := range withAnon(top) {
				eachInstr(g, func(in2 ssa.Instruction) {
					bo, ok := in2.(*ssa.BinOp)
					if !ok {
						return
					}
					x, op, kk, ok := cmpConst(bo)
					if !ok {
						return
					}
					name := countOf(x)
					if name == nil || paramOfName(name) != p {
						return
					}
					// on which outcome is the count 0?  zeroTrue: the comparison is true for 0
					var zeroTrue bool
					switch op {
					case token.NEQ:
						zeroTrue = kk != 0
					case token.EQL:
						zeroTrue = kk == 0
					case token.LSS:
						zeroTrue = 0 < kk
					case token.LEQ:
						zeroTrue = 0 <= kk
					case token.GTR:
						zeroTrue = 0 > kk
					case token.GEQ:
						zeroTrue = 0 >= kk
					default:
						return
					}
					for _, ref := range *bo.Referrers() {
						iff, ok := ref.(*ssa.If)
						if !ok {
							continue
						}
						succ := iff.Block().Succs[1]
						if zeroTrue {
							succ = iff.Block().Succs[0]
						}
						if g != fn || !reachableFromAvoiding2(succ, in.Block()) {
							validated = true
						}
					}
				})
			}
			if validated {
				r.ok(rule, key, c.at(in), desc, "the count of characters of the same argument is tested earlier, and the count 0 does not reach this place", true)
			} else {
				r.bad(rule, key, c.at(in), desc, "no test in the function sends an empty name of this argument elsewhere: for the atom '' the indexing panics, and the recovered panic is returned as a Go error instead of an error term")
			}
		})
	}
	if n == 0 {
		r.info(rule, "scan/first-character", "-", desc, "no built-in takes the first character of an atom argument this way")
	}
}
