package main

import (
	"fmt"
	"go/token"
	"go/types"
	"sort"
	"strings"

	"golang.org/x/tools/go/ssa"
)

// ---------------------------------------------------------------------------
// R-COMPARE-MATRIX (C08): partial evaluation of X.Compare under "the resolved argument has dynamic type Y".

type cmpOutcome map[string]bool // "-1","0","1","value"

func (o cmpOutcome) String() string {
	var ks []string
	for k := range o {
		ks = append(ks, k)
	}
	sort.Strings(ks)
	return "{" + strings.Join(ks, ",") + "}"
}

// standard-order class of a concrete Term type: the documented order
// Variable < Float < Integer < Atom < custom atomic < Compound.
func (c *Ctx) orderClass(t types.Type) int {
	switch {
	case isEngNamed(t, "Variable") && !isPtr(t):
		return 0
	case isEngNamed(t, "Float") && !isPtr(t):
		return 1
	case isEngNamed(t, "Integer") && !isPtr(t):
		return 2
	case isEngNamed(t, "Atom") && !isPtr(t):
		return 3
	}
	if comp := c.compoundIface(); comp != nil && types.Implements(t, comp) {
		return 5
	}
	return 4
}

type cmpEval struct {
	c     *Ctx
	depth int
}

// eval explores fn with the assumed dynamic types `bind` of tracked interface values and returns the
// set of possible results.
func (e *cmpEval) eval(fn *ssa.Function, bind map[ssa.Value]types.Type, out cmpOutcome, depth int) {
	if fn == nil || fn.Blocks == nil || depth > 6 {
		out["value"] = true
		return
	}
	resolve := e.c.method("Env", "Resolve")
	// propagate tracked types through the function to a fixpoint (straight data flow)
	changed := true
	for changed {
		changed = false
		set := func(v ssa.Value, t types.Type) {
			if _, ok := bind[v]; !ok && t != nil {
				bind[v], changed = t, true
			}
		}
		eachInstr(fn, func(in ssa.Instruction) {
			switch x := in.(type) {
			case *ssa.Call:
				if x.Call.StaticCallee() == resolve && resolve != nil {
					set(x, bind[x.Call.Args[1]])
				}
			case *ssa.MakeInterface:
				set(x, bind[x.X])
			case *ssa.ChangeInterface:
				set(x, bind[x.X])
			case *ssa.ChangeType:
				set(x, bind[x.X])
			case *ssa.Extract:
				if ta, ok := x.Tuple.(*ssa.TypeAssert); ok && x.Index == 0 {
					set(x, bind[ta.X])
				}
			case *ssa.TypeAssert:
				if !x.CommaOk {
					set(x, bind[x.X])
				}
			case *ssa.Phi:
				var t types.Type
				same := true
				for _, ed := range x.Edges {
					bt, ok := bind[ed]
					if !ok || (t != nil && !types.Identical(t, bt)) {
						same = false
					}
					t = bt
				}
				if same {
					set(x, t)
				}
			}
		})
	}
	assertOK := func(ta *ssa.TypeAssert) (bool, bool) {
		dyn, ok := bind[ta.X]
		if !ok {
			return false, false
		}
		if it, isI := ta.AssertedType.Underlying().(*types.Interface); isI {
			return types.Implements(dyn, it), true
		}
		return types.Identical(dyn, ta.AssertedType), true
	}
	seen := map[*ssa.BasicBlock]bool{}
	var walk func(b *ssa.BasicBlock)
	walk = func(b *ssa.BasicBlock) {
		if seen[b] {
			return
		}
		seen[b] = true
		last := b.Instrs[len(b.Instrs)-1]
		switch t := last.(type) {
		case *ssa.Return:
			if len(t.Results) == 0 {
				return
			}
			e.result(t.Results[0], bind, out, depth)
		case *ssa.If:
			cond, neg := t.Cond, false
			for {
				u, ok := cond.(*ssa.UnOp)
				if !ok || u.Op != token.NOT {
					break
				}
				cond, neg = u.X, !neg // `switch { case !ok: }` branches on the negation as a value
			}
			if ex, ok := cond.(*ssa.Extract); ok && ex.Index == 1 {
				if ta, ok := ex.Tuple.(*ssa.TypeAssert); ok {
					if v, decided := assertOK(ta); decided {
						if v != neg {
							walk(b.Succs[0])
						} else {
							walk(b.Succs[1])
						}
						return
					}
				}
			}
			walk(b.Succs[0])
			walk(b.Succs[1])
		default:
			for _, s := range b.Succs {
				walk(s)
			}
		}
	}
	walk(fn.Blocks[0])
}

func (e *cmpEval) result(v ssa.Value, bind map[ssa.Value]types.Type, out cmpOutcome, depth int) {
	switch x := v.(type) {
	case *ssa.Const:
		if k, ok := constInt(x); ok {
			out[fmt.Sprint(k)] = true
			return
		}
	case *ssa.Phi:
		for _, ed := range x.Edges {
			e.result(ed, bind, out, depth)
		}
		return
	case *ssa.Call:
		callee := x.Call.StaticCallee()
		if callee != nil && e.c.isLibPkg(funcPkg(callee)) && callee.Blocks != nil {
			nb := map[ssa.Value]types.Type{}
			forwards := false
			for i, a := range x.Call.Args {
				if t, ok := bind[a]; ok && i < len(callee.Params) {
					nb[callee.Params[i]] = t
					forwards = true
				} else if i < len(callee.Params) && !types.IsInterface(a.Type()) && types.IsInterface(callee.Params[i].Type()) {
					nb[callee.Params[i]] = a.Type()
				}
			}
			if forwards {
				e.eval(callee, nb, out, depth+1)
				return
			}
		}
	}
	out["value"] = true
}

func ruleCompareMatrix(c *Ctx, r *Report) {
	const rule = "R-COMPARE-MATRIX"
	impls := c.termImplementers()
	if len(impls) < 8 {
		r.undecided(rule, "anchor:types", "-", "enumerate the concrete Term types", fmt.Sprintf("only %d found", len(impls)))
		return
	}
	ev := &cmpEval{c: c}
	M := map[[2]int]cmpOutcome{}
	for i, X := range impls {
		sel := c.Prog.MethodSets.MethodSet(X).Lookup(c.Engine.Pkg, "Compare")
		if sel == nil {
			// root package types
			sel = c.Prog.MethodSets.MethodSet(X).Lookup(c.Root.Pkg, "Compare")
		}
		if sel == nil {
			continue
		}
		fn := c.Prog.MethodValue(sel)
		for fn != nil && fn.Synthetic != "" && fn.Blocks != nil && len(fn.Blocks) == 1 {
			// wrapper: unwrap to the declared method
			if obj, ok := sel.Obj().(*types.Func); ok {
				if d := c.Prog.FuncValue(obj); d != nil && d != fn {
					fn = d
					continue
				}
			}
			break
		}
		if fn == nil || fn.Blocks == nil || len(fn.Params) < 2 {
			continue
		}
		for j, Y := range impls {
			bind := map[ssa.Value]types.Type{}
			bind[fn.Params[0]] = X
			bind[fn.Params[1]] = Y
			out := cmpOutcome{}
			ev.eval(fn, bind, out, 0)
			M[[2]int{i, j}] = out
		}
	}
	n := 0
	for i, X := range impls {
		for j, Y := range impls {
			out, ok := M[[2]int{i, j}]
			if !ok {
				continue
			}
			n++
			cx, cy := c.orderClass(X), c.orderClass(Y)
			key := fmt.Sprintf("Compare[%s][%s]", typeName(X), typeName(Y))
			pos := c.Pos(typePos(X))
			if cx != cy {
				want := "-1"
				if cx > cy {
					want = "1"
				}
				desc := fmt.Sprintf("%s compared with %s yields the constant the documented order Var<Float<Integer<Atom<custom<Compound dictates (%s)", typeName(X), typeName(Y), want)
				if len(out) == 1 && out[want] {
					// antisymmetry with the mirrored entry
					if mo, ok := M[[2]int{j, i}]; ok {
						mw := "1"
						if want == "1" {
							mw = "-1"
						}
						if !(len(mo) == 1 && mo[mw]) {
							r.bad(rule, key, pos, desc, fmt.Sprintf("antisymmetry broken: this entry is %s but the mirrored entry is %s", out, mo))
							continue
						}
					}
					r.ok(rule, key, pos, desc, "partial evaluation of the Compare method under the assumed dynamic type returns "+out.String(), true)
				} else {
					r.bad(rule, key, pos, desc, "partial evaluation returns "+out.String()+": the order depends on which side the term is on, so sort/2 and compare/3 are not a total order")
				}
			} else {
				desc := fmt.Sprintf("%s compared with %s (same class) reaches a value comparison, never a fixed constant", typeName(X), typeName(Y))
				if len(out) > 1 || out["value"] {
					r.ok(rule, key, pos, desc, "outcomes "+out.String(), true)
				} else {
					r.bad(rule, key, pos, desc, "always returns "+out.String())
				}
			}
		}
	}
	var names []string
	for _, t := range impls {
		names = append(names, typeName(t))
	}
	r.analysed(rule, fmt.Sprintf("%d x %d type pairs: %s", len(impls), len(impls), strings.Join(names, " ")))
	_ = n
}

// ---------------------------------------------------------------------------
// R-STABLE-KEYSORT / R-SET-ORDER

func sortCallName(call *ssa.CallCommon) string {
	f := call.StaticCallee()
	if f == nil || f.Pkg == nil || f.Pkg.Pkg.Path() != "sort" {
		return ""
	}
	return f.Name()
}

func ruleStableKeysort(c *Ctx, r *Report) {
	const rule = "R-STABLE-KEYSORT"
	ks := c.registeredFn("keysort", 2)
	if ks == nil {
		r.undecided(rule, "anchor:keysort/2", "-", "locate keysort/2", "not registered")
		return
	}
	n := 0
	for _, f := range withAnon(ks) {
		eachInstr(f, func(in ssa.Instruction) {
			call, ok := in.(*ssa.Call)
			if !ok {
				return
			}
			name := sortCallName(&call.Call)
			if name == "" {
				return
			}
			n++
			key := fmt.Sprintf("%s/sort.%s", fname(f), name)
			desc := "keysort/2 sorts with a stable algorithm (pairs with equal keys keep their order)"
			switch name {
			case "SliceStable", "Stable":
				r.ok(rule, key, c.at(call), desc, "uses sort."+name, false)
			default:
				r.bad(rule, key, c.at(call), desc, "uses sort."+name+", which is not stable (it only happens to be for fewer than 12 elements, which is all the suite tries)")
			}
		})
	}
	if n == 0 {
		r.bad(rule, fname(ks)+"/no-sort", c.Pos(ks.Pos()), "keysort/2 sorts with a stable algorithm", "no call into package sort found")
	}
	// the less function compares keys (first arguments) with Term.Compare
	for _, f := range withAnon(ks)[1:] {
		usesCompare := false
		eachInstr(f, func(in ssa.Instruction) {
			if call, ok := in.(*ssa.Call); ok && call.Call.IsInvoke() && call.Call.Method.Name() == "Compare" {
				usesCompare = true
			}
		})
		if usesCompare {
			r.ok(rule, fname(f)+"/less", c.Pos(f.Pos()), "keys are ordered by the standard order", "the less function calls Term.Compare", false)
		}
	}
	r.analysed(rule, fname(ks))
}

func ruleSetOrder(c *Ctx, r *Report) {
	const rule = "R-SET-ORDER"
	set := c.method("Env", "set")
	if set == nil {
		r.undecided(rule, "anchor:Env.set", "-", "locate the set constructor", "not found")
		return
	}
	// (1) sort/2 and setof/3 both obtain their list from the one set constructor
	for _, nm := range []struct {
		name  string
		arity int
	}{{"sort", 2}, {"setof", 3}} {
		fn := c.registeredFn(nm.name, nm.arity)
		key := fmt.Sprintf("%s/%d->Env.set", nm.name, nm.arity)
		if fn == nil {
			r.undecided(rule, key, "-", "locate "+nm.name, "not registered")
			continue
		}
		found := false
		for _, f := range withAnon(fn) {
			eachInstr(f, func(in ssa.Instruction) {
				if call, ok := in.(*ssa.Call); ok && call.Call.StaticCallee() == set {
					found = true
				}
			})
		}
		if found {
			r.ok(rule, key, c.Pos(fn.Pos()), "sort/2 and setof/3 build their result with the same set constructor", "calls Env.set", false)
		} else {
			r.bad(rule, key, c.Pos(fn.Pos()), "sort/2 and setof/3 build their result with the same set constructor", "does not call Env.set: the two could order or deduplicate differently")
		}
	}
	// (2) inside the constructor: ordering and duplicate test are both Term.Compare on the elements
	var lessOK, dedupOK bool
	for _, f := range withAnon(set) {
		eachInstr(f, func(in ssa.Instruction) {
			bv, ok := in.(*ssa.BinOp)
			if !ok {
				return
			}
			x, op, k, isCmp := cmpConst(bv)
			if !isCmp {
				return
			}
			call, ok := x.(*ssa.Call)
			if !ok || !call.Call.IsInvoke() || call.Call.Method.Name() != "Compare" {
				return
			}
			switch {
			case f != set && ((op == token.EQL && k == -1) || (op == token.LSS && k == 0)):
				lessOK = true
			case f == set && op == token.EQL && k == 0:
				dedupOK = true
			case f == set && op == token.NEQ && k == 0:
				dedupOK = true
			}
		})
	}
	if lessOK {
		r.ok(rule, fname(set)+"/less", c.Pos(set.Pos()), "the set is ordered by Term.Compare (x before y iff Compare(x,y) < 0)", "less function tests Compare(...) == -1 / < 0", true)
	} else {
		r.bad(rule, fname(set)+"/less", c.Pos(set.Pos()), "the set is ordered by Term.Compare (x before y iff Compare(x,y) < 0)", "the less function does not test Term.Compare for 'before'")
	}
	if dedupOK {
		r.ok(rule, fname(set)+"/dedupe", c.Pos(set.Pos()), "duplicates are the elements with Compare == 0 under the same order", "adjacent elements are dropped when Compare(...) == 0", true)
	} else {
		r.bad(rule, fname(set)+"/dedupe", c.Pos(set.Pos()), "duplicates are the elements with Compare == 0 under the same order", "no Compare(...) == 0 test in the constructor")
	}
	r.analysed(rule, fname(set))
}

// ---------------------------------------------------------------------------
// R-COMPOUND-ORDER (C08): compounds are ordered by arity, then by name, then by arguments left to right.

func ruleCompoundOrder(c *Ctx, r *Report) {
	const rule = "R-COMPOUND-ORDER"
	cc := c.fn("CompareCompound")
	if cc == nil {
		r.undecided(rule, "anchor:CompareCompound", "-", "locate the compound comparison", "not found")
		return
	}
	isInvoke := func(v ssa.Value, name string) *ssa.Call {
		call, ok := v.(*ssa.Call)
		if ok && call.Call.IsInvoke() && call.Call.Method.Name() == name {
			return call
		}
		return nil
	}
	var functorCmp, argCmp *ssa.Call
	eachInstr(cc, func(in ssa.Instruction) {
		call, ok := in.(*ssa.Call)
		if !ok {
			return
		}
		var recv ssa.Value
		switch {
		case call.Call.IsInvoke() && call.Call.Method.Name() == "Compare":
			recv = call.Call.Value
		case call.Call.StaticCallee() != nil && call.Call.StaticCallee().Name() == "Compare" && call.Call.StaticCallee().Signature.Recv() != nil:
			recv = call.Call.Args[0]
		default:
			return
		}
		// receiver: Functor() or Arg(i), possibly converted to the interface
		if mi, ok := recv.(*ssa.MakeInterface); ok {
			recv = mi.X
		}
		switch {
		case isInvoke(recv, "Functor") != nil:
			functorCmp = call
		case isInvoke(recv, "Arg") != nil:
			argCmp = call
		}
	})
	if functorCmp == nil || argCmp == nil {
		r.bad(rule, fname(cc)+"/steps", c.Pos(cc.Pos()), "compounds are compared by arity, name and arguments", "functor comparison or argument comparison not found")
		return
	}
	// (1) the name is compared only when the arities are equal
	arityFacts := 0
	for f := range c.factsAt(functorCmp.Block()) {
		bo, ok := f.cond.(*ssa.BinOp)
		if !ok || f.pol {
			continue
		}
		if (bo.Op == token.GTR || bo.Op == token.LSS || bo.Op == token.NEQ) && isInvoke(bo.X, "Arity") != nil && isInvoke(bo.Y, "Arity") != nil {
			if bo.Op == token.NEQ {
				arityFacts += 2
			} else {
				arityFacts++
			}
		}
	}
	if arityFacts >= 2 {
		r.ok(rule, fname(cc)+"/arity-before-name", c.at(functorCmp), "the functor names are compared only when the arities are equal", "dominated by arity(x) > arity(y) == false and arity(x) < arity(y) == false", true)
	} else {
		r.bad(rule, fname(cc)+"/arity-before-name", c.at(functorCmp), "the functor names are compared only when the arities are equal", "the name comparison is reachable with unequal arities: f(a,b) @< g(a) would depend on the names first")
	}
	// the arity branch returns the sign of the arity difference: x > y -> 1, x < y -> -1
	eachInstr(cc, func(in ssa.Instruction) {
		ifi, ok := in.(*ssa.If)
		if !ok {
			return
		}
		bo, ok := ifi.Cond.(*ssa.BinOp)
		if !ok || isInvoke(bo.X, "Arity") == nil || isInvoke(bo.Y, "Arity") == nil || (bo.Op != token.GTR && bo.Op != token.LSS) {
			return
		}
		// X must be the receiver's arity (c), Y the argument's
		xOfC := false
		if p, ok := isInvoke(bo.X, "Arity").Call.Value.(*ssa.Parameter); ok && paramIndex(cc, p) == 0 {
			xOfC = true
		}
		ret, ok := ifi.Block().Succs[0].Instrs[len(ifi.Block().Succs[0].Instrs)-1].(*ssa.Return)
		if !ok {
			return
		}
		k, isK := constInt(ret.Results[0])
		want := int64(1)
		if (bo.Op == token.LSS) == xOfC {
			want = -1
		}
		key := fmt.Sprintf("%s/arity %s", fname(cc), bo.Op)
		if isK && k == want {
			r.ok(rule, key, c.at(ifi), "a compound with smaller arity comes first", fmt.Sprintf("returns %d", k), true)
		} else {
			r.bad(rule, key, c.at(ifi), "a compound with smaller arity comes first", fmt.Sprintf("returns %d, want %d", k, want))
		}
	})
	// (2) arguments are compared only when the names are equal, left to right
	nameEq := false
	for f := range c.factsAt(argCmp.Block()) {
		x, op, k, ok := cmpConst(f.cond)
		if !ok {
			continue
		}
		if x == ssa.Value(functorCmp) {
			if k == 0 && ((op == token.NEQ && !f.pol) || (op == token.EQL && f.pol)) {
				nameEq = true
			}
		}
	}
	if nameEq {
		r.ok(rule, fname(cc)+"/name-before-args", c.at(argCmp), "arguments are compared only when the names compare equal", "dominated by Compare(functors) == 0", true)
	} else {
		r.bad(rule, fname(cc)+"/name-before-args", c.at(argCmp), "arguments are compared only when the names compare equal", "the argument comparison is reachable with different names")
	}
	// left to right: the argument index is a loop counter starting at 0 and increasing by 1; both sides use the same index
	argL := isInvoke(func() ssa.Value {
		if mi, ok := argCmp.Call.Value.(*ssa.MakeInterface); ok {
			return mi.X
		}
		return argCmp.Call.Value
	}(), "Arg")
	argR := isInvoke(argCmp.Call.Args[0], "Arg")
	sameIdx := argL != nil && argR != nil && argL.Call.Args[0] == argR.Call.Args[0]
	upward := false
	if argL != nil {
		if phi, ok := argL.Call.Args[0].(*ssa.Phi); ok {
			for _, e := range phi.Edges {
				if bo, ok := e.(*ssa.BinOp); ok && bo.Op == token.ADD && bo.X == ssa.Value(phi) {
					if k, isK := constInt(bo.Y); isK && k == 1 {
						upward = true
					}
				}
			}
		}
	}
	if sameIdx && upward {
		r.ok(rule, fname(cc)+"/args-left-to-right", c.at(argCmp), "arguments are compared pairwise from the first to the last", "Arg(i) vs Arg(i) with i increasing from the loop start", true)
	} else {
		r.bad(rule, fname(cc)+"/args-left-to-right", c.at(argCmp), "arguments are compared pairwise from the first to the last", fmt.Sprintf("same index on both sides=%v, index increases by one=%v", sameIdx, upward))
	}
	// the first non-equal argument decides
	r.analysed(rule, fname(cc))
}

// ---------------------------------------------------------------------------
// R-COMPARE-RANGE (C08; added after seed C08b): the consumers of the standard order (sorts, compare/3,
// the recursive comparison of arguments) test the result of Compare against the exact values -1 and 1.
// As long as such an exact consumer exists, every function of the Compare family returns only -1, 0, 1
// or the result of another member of the family. A difference (len(a)-len(b), a-b) has the right sign but
// not the right value: the consumer then takes "greater by two" for "not greater".

func (c *Ctx) compareFamily() map[*ssa.Function]bool {
	fam := map[*ssa.Function]bool{}
	isCmpSig := func(sig *types.Signature) bool {
		if sig.Params().Len() != 2 || sig.Results().Len() != 1 {
			return false
		}
		b, ok := sig.Results().At(0).Type().Underlying().(*types.Basic)
		return ok && b.Kind() == types.Int && isEngNamed(sig.Params().At(0).Type(), "Term") && c.isEnvPtr(sig.Params().At(1).Type())
	}
	for _, fn := range c.LibFuncs() {
		if fn.Parent() != nil {
			continue
		}
		switch {
		case fn.Name() == "Compare" && fn.Signature.Recv() != nil && isCmpSig(fn.Signature):
			fam[fn] = true
		case fn.Name() == "CompareCompound", fn.Name() == "CompareAtomic":
			fam[fn] = true
		case fn.Origin() != nil && fn.Origin().Name() == "CompareAtomic":
			fam[fn] = true
		}
	}
	// comparison callbacks handed to a family member (CompareAtomic's cmp)
	for _, fn := range c.LibFuncs() {
		eachInstr(fn, func(in ssa.Instruction) {
			ci, ok := in.(ssa.CallInstruction)
			if !ok {
				return
			}
			callee := ci.Common().StaticCallee()
			if callee == nil || !fam[callee] {
				return
			}
			for _, a := range ci.Common().Args {
				switch f := a.(type) {
				case *ssa.MakeClosure:
					fam[f.Fn.(*ssa.Function)] = true
				case *ssa.Function:
					if c.isLibPkg(funcPkg(f)) {
						fam[f] = true
					}
				}
			}
		})
	}
	return fam
}

func ruleCompareRange(c *Ctx, r *Report) {
	const rule = "R-COMPARE-RANGE"
	fam := c.compareFamily()
	famResult := func(v ssa.Value) bool {
		call, _ := callOfValue(v)
		if call == nil {
			return false
		}
		if call.Call.IsInvoke() {
			return call.Call.Method.Name() == "Compare"
		}
		if callee := call.Call.StaticCallee(); callee != nil {
			if fam[callee] {
				return true
			}
			if callee.Pkg != nil && (callee.Pkg.Pkg.Path() == "strings" || callee.Pkg.Pkg.Path() == "bytes") && callee.Name() == "Compare" {
				return true
			}
			return false
		}
		// a call of a func-typed parameter of a family member (cmp)
		if p, ok := call.Call.Value.(*ssa.Parameter); ok && fam[p.Parent()] {
			return true
		}
		return false
	}
	// exact consumers
	exact := 0
	var exactAt []string
	for _, fn := range c.LibFuncs() {
		eachInstr(fn, func(in ssa.Instruction) {
			bo, ok := in.(*ssa.BinOp)
			if !ok {
				return
			}
			switch bo.Op {
			case token.EQL, token.NEQ, token.LSS, token.LEQ, token.GTR, token.GEQ:
			default:
				return
			}
			for _, pair := range [][2]ssa.Value{{bo.X, bo.Y}, {bo.Y, bo.X}} {
				k, ok := constInt(pair[1])
				if !ok || k == 0 {
					continue
				}
				// `o < 1`, `o > -1`, `o <= -1`, `o >= 1` are sign tests in disguise only for values in range:
				// count every comparison with a non-zero constant as exact.
				isFam := false
				for _, l := range c.originSet(pair[0]) {
					if famResult(l) {
						isFam = true
					}
				}
				if isFam {
					exact++
					if len(exactAt) < 4 {
						exactAt = append(exactAt, c.at(in))
					}
				}
			}
		})
	}
	// switch o { case -1: … } is lowered to the same BinOp EQL chain, so it is counted above.
	if exact == 0 {
		r.info(rule, "consumers", "-", "consumers of Compare test exact values", "no consumer compares a Compare result with a non-zero constant: any value of the right sign would do; producers not constrained")
		r.analysed(rule, fmt.Sprintf("%d family members, no exact consumer", len(fam)))
		return
	}
	r.ok(rule, "consumers/exact", exactAt[0], "consumers of the standard order test exact values", fmt.Sprintf("%d comparisons of a Compare result with -1 or 1 (e.g. %s)", exact, strings.Join(exactAt, ", ")), false)
	var fns []*ssa.Function
	for fn := range fam {
		fns = append(fns, fn)
	}
	sort.Slice(fns, func(i, j int) bool { return fname(fns[i]) < fname(fns[j]) })
	for _, fn := range fns {
		nret := 0
		eachInstr(fn, func(in ssa.Instruction) {
			ret, ok := in.(*ssa.Return)
			if !ok || len(ret.Results) != 1 {
				return
			}
			nret++
			key := fmt.Sprintf("%s/return#%d", fname(fn), nret)
			desc := "a member of the Compare family returns -1, 0, 1 or another member's result"
			var bad ssa.Value
			var check func(v ssa.Value, depth int)
			check = func(v ssa.Value, depth int) {
				for _, l := range c.originSet(v) {
					if k, ok := constInt(l); ok {
						if k < -1 || k > 1 {
							bad = l
						}
						continue
					}
					if famResult(l) {
						continue
					}
					if u, ok := l.(*ssa.UnOp); ok && u.Op == token.SUB && depth < 3 {
						check(u.X, depth+1) // -o
						continue
					}
					bad = l
				}
			}
			check(ret.Results[0], 0)
			if bad == nil {
				r.ok(rule, key, c.at(in), desc, "all origins are in {-1,0,1} or family results", true)
			} else {
				r.bad(rule, fmt.Sprintf("%s/return", fname(fn)), c.at(in), desc, "may return "+valName(bad)+": a value outside {-1,0,1} is misread by the consumers that test == -1 / == 1")
			}
		})
	}
	r.analysed(rule, fmt.Sprintf("%d family members, %d exact consumers", len(fam), exact))
}

// ---------------------------------------------------------------------------
// R-COMPARE-ABSTRACT (C08; added after seed C08e): the standard order "does not depend on how a list or string
// was built".  The Compare method of a compound representation looks at the OTHER operand through the Compound
// interface (or hands both to CompareCompound).  A fast path may recognise the receiver's own representation
// on the other side (two texts of the same kind compare like their strings); an assertion of the other operand
// to a DIFFERENT concrete representation compares two encodings element by element without knowing that their
// elements are of different kinds (a code list against a character list is Integer against Atom at the first
// element, whatever the texts).  Conservative: a correct cross-representation fast path would be reported too;
// this checker cannot tell one from the other.
func ruleCompareAbstract(c *Ctx, r *Report) {
	const rule = "R-COMPARE-ABSTRACT"
	desc := "Compare of a compound representation asserts the other operand to no other concrete representation than its own"
	compoundT := c.engType("Compound")
	if compoundT == nil {
		r.undecided(rule, "anchor:Compound", "-", "locate the Compound interface", "not found")
		return
	}
	ci := compoundT.Underlying().(*types.Interface)
	n := 0
	for _, X := range c.termImplementers() {
		if !types.Implements(X, ci) {
			continue
		}
		sel := c.Prog.MethodSets.MethodSet(X).Lookup(c.Engine.Pkg, "Compare")
		if sel == nil {
			continue
		}
		obj, ok := sel.Obj().(*types.Func)
		if !ok {
			continue
		}
		fn := c.Prog.FuncValue(obj)
		if fn == nil || fn.Blocks == nil || funcPkg(fn) != c.Engine {
			continue
		}
		recvT := fn.Signature.Recv().Type()
		n++
		key := fname(fn) + "/other-operand"
		var bad *ssa.TypeAssert
		eachInstr(fn, func(in ssa.Instruction) {
			ta, ok := in.(*ssa.TypeAssert)
			if !ok || bad != nil {
				return
			}
			if _, isIface := ta.AssertedType.Underlying().(*types.Interface); isIface {
				return
			}
			if !types.Implements(ta.AssertedType, ci) || types.Identical(ta.AssertedType, recvT) || types.Identical(deref(ta.AssertedType), deref(recvT)) {
				return
			}
			// the receiver re-resolved (w := env.Resolve(v); w.(T)) is not the other operand
			fromRecv := true
			for _, l := range c.originSet(ta.X) {
				if call, _ := callOfValue(l); call != nil && len(call.Call.Args) == 2 {
					l = call.Call.Args[1] // Env.Resolve(t)
					if mi, ok := l.(*ssa.MakeInterface); ok {
						l = mi.X
					}
				}
				if len(fn.Params) == 0 || l != ssa.Value(fn.Params[0]) {
					fromRecv = false
				}
			}
			if fromRecv {
				return
			}
			bad = ta
		})
		if bad == nil {
			r.ok(rule, key, c.Pos(fn.Pos()), desc, "the other operand is used through interfaces (or as the receiver's own representation) only", true)
		} else {
			r.bad(rule, key, c.at(bad), desc, "the other operand is asserted to "+types.TypeString(bad.AssertedType, func(p *types.Package) string { return p.Name() })+": two different encodings of a list are compared without going through their elements' own order (Integer before Atom), so the outcome depends on how each list was built")
		}
	}
	if n == 0 {
		r.undecided(rule, "scan/Compare", "-", desc, "no Compare method of a compound representation found")
	}
}

// ---------------------------------------------------------------------------
// R-ATOM-ORDER-BY-NAME (C08; added after seed C08f): atoms are ordered by their names, as texts.  In
// Atom.Compare every return of a non-zero constant on the atom-against-atom arm (the other operand asserted to
// Atom) is decided by a comparison of the two WHOLE names: the branch facts there contain a condition computed
// from strings.Compare, or from a comparison of two strings, over the results of String() of both atoms.  A
// decision taken from a part of a name (its first character, its length) has a blind spot at the other end of
// the order: the empty atom has no first character, and utf8.DecodeRuneInString("") is U+FFFD.  Conservative: a
// correct partial comparison would be reported too.
func ruleAtomOrderByName(c *Ctx, r *Report) {
	const rule = "R-ATOM-ORDER-BY-NAME"
	desc := "two atoms are ordered by a comparison of their whole names"
	cmp := c.method("Atom", "Compare")
	str := c.method("Atom", "String")
	if cmp == nil || str == nil {
		r.undecided(rule, "anchor:Atom.Compare/String", "-", "locate Atom.Compare and Atom.String", "not found")
		return
	}
	// String itself, or a method of Atom without parameters that returns a string and that String delegates to
	// (String = lock + name(): met with seed C14i, where the rule raised a false alarm on the split)
	nameFns := map[*ssa.Function]bool{str: true}
	eachInstr(str, func(in ssa.Instruction) {
		if ci, ok := in.(ssa.CallInstruction); ok {
			if callee := ci.Common().StaticCallee(); callee != nil && recvNamed(callee) == "Atom" && callee.Signature.Params().Len() == 0 && callee.Signature.Results().Len() == 1 && isStringType(callee.Signature.Results().At(0).Type()) {
				nameFns[callee] = true
			}
		}
	})
	isName := func(v ssa.Value) bool {
		ok := false
		for _, l := range c.originSet(v) {
			if call, _ := callOfValue(l); call != nil && nameFns[call.Call.StaticCallee()] {
				ok = true
			} else {
				return false
			}
		}
		return ok
	}
	wholeNames := func(v ssa.Value) bool {
		found := false
		dataSlice(v, func(x ssa.Value) bool {
			switch y := x.(type) {
			case *ssa.Call:
				if callee := y.Call.StaticCallee(); callee != nil && callee.Pkg != nil && callee.Pkg.Pkg.Path() == "strings" && callee.Name() == "Compare" && len(y.Call.Args) == 2 && isName(y.Call.Args[0]) && isName(y.Call.Args[1]) {
					found = true
				}
			case *ssa.BinOp:
				if isStringType(y.X.Type()) && isName(y.X) && isName(y.Y) {
					found = true
				}
			}
			return !found
		})
		return found
	}
	n := 0
	eachInstr(cmp, func(in ssa.Instruction) {
		ret, ok := in.(*ssa.Return)
		if !ok || len(ret.Results) != 1 {
			return
		}
		k, ok := constInt(ret.Results[0])
		if !ok || k == 0 {
			return
		}
		// on the atom-against-atom arm?
		onArm := false
		for f := range c.factsAt(ret.Block()) {
			if ex, ok := f.cond.(*ssa.Extract); ok && ex.Index == 1 && f.pol {
				if ta, ok := ex.Tuple.(*ssa.TypeAssert); ok && isEngNamed(ta.AssertedType, "Atom") {
					onArm = true
				}
			}
		}
		if !onArm {
			return
		}
		n++
		key := fmt.Sprintf("%s/atom-arm-return(%d)#%d", fname(cmp), k, n)
		decided := false
		for f := range c.factsAt(ret.Block()) {
			if wholeNames(f.cond) {
				decided = true
			}
		}
		if decided {
			r.ok(rule, key, c.at(ret), desc, "under a condition computed from a comparison of both names", true)
		} else {
			r.bad(rule, key, c.at(ret), desc, "the answer is not decided by a comparison of the two whole names: a comparison of parts (first character, length) misorders the names it cannot tell apart, the empty atom first of all")
		}
	})
	if n == 0 {
		r.undecided(rule, "anchor:atom-arm", c.Pos(cmp.Pos()), desc, "no non-zero constant return under an assertion of the other operand to Atom")
	}
}

// ---------------------------------------------------------------------------
// R-COMPARE-EQUAL-IS-ZERO (C08; added after seed C08h): the order "yields '=' exactly for structurally identical
// terms". In the same-type arm of a numeric Compare method, once the receiver is known to be neither greater nor
// less than the other number - both comparisons of the same two operands are known false - every return
// delivers the constant 0. A tie-break inserted below the two comparisons (sign bit, bit pattern) runs for EVERY
// pair of equal numbers, not only for the pair its author had in mind (-0.0 and 0.0): compare(O, -1.5, -1.5)
// answers <, X == X fails, sort/2 keeps duplicates.
func ruleCompareEqualIsZero(c *Ctx, r *Report) {
	const rule = "R-COMPARE-EQUAL-IS-ZERO"
	desc := "a numeric Compare returns 0 where neither operand is known greater"
	n := 0
	for _, tn := range []string{"Float", "Integer"} {
		fn := c.method(tn, "Compare")
		if fn == nil {
			r.undecided(rule, "anchor:"+tn+".Compare", "-", desc, "not found")
			continue
		}
		// ordered pairs (a, b) for which "a > b" is known false and "a < b" is known false
		type pair struct{ a, b ssa.Value }
		eachInstr(fn, func(in ssa.Instruction) {
			ret, ok := in.(*ssa.Return)
			if !ok || len(ret.Results) != 1 {
				return
			}
			notGreater := map[pair]bool{} // a > b is false
			for f := range c.factsAt(in.Block()) {
				bo, ok := f.cond.(*ssa.BinOp)
				if !ok {
					continue
				}
				a, b := stripConv(bo.X), stripConv(bo.Y)
				switch {
				case bo.Op == token.GTR && !f.pol, bo.Op == token.LEQ && f.pol:
					notGreater[pair{a, b}] = true
				case bo.Op == token.LSS && !f.pol, bo.Op == token.GEQ && f.pol:
					notGreater[pair{b, a}] = true
				}
			}
			tie := false
			for p := range notGreater {
				if notGreater[pair{p.b, p.a}] && isNumericBasic(p.a.Type()) {
					tie = true
				}
			}
			if !tie {
				return
			}
			n++
			key := fmt.Sprintf("%s/tie-return#%d", fname(fn), n)
			zero := true
			for _, l := range c.originSet(ret.Results[0]) {
				if k, ok := constInt(l); !ok || k != 0 {
					zero = false
				}
			}
			if zero {
				r.ok(rule, key, c.at(in), desc, "returns the constant 0", true)
			} else {
				r.bad(rule, key, c.at(in), desc, "both `greater` and `less` are known false here and the result is not 0: two equal numbers are ordered (compare(O, X, X) is not =, sort/2 keeps duplicates)")
			}
		})
	}
	if n == 0 {
		r.undecided(rule, "scan/tie-returns", "-", desc, "no return under `neither greater nor less` found in Float.Compare / Integer.Compare")
	}
}

func isNumericBasic(t types.Type) bool {
	b, ok := t.Underlying().(*types.Basic)
	return ok && b.Info()&(types.IsInteger|types.IsFloat) != 0
}

// ---------------------------------------------------------------------------
// R-COMPARE-WHOLE-TERM (C08; added after seed C08j): the order "does not depend on how a list or string was built".
// The list representations order themselves by handing the WHOLE term to the generic comparison of compounds
// (arity, name, arguments left to right): every return of their Compare methods is the result of CompareCompound
// called with the receiver itself as its first operand. A shortcut that compares parts of the representation (the
// prefixes of two partial lists that share a tail) answers differently from the same lists written out.
func ruleCompareWholeTerm(c *Ctx, r *Report) {
	const rule = "R-COMPARE-WHOLE-TERM"
	desc := "a list representation is ordered as the compound it denotes, whole"
	cc := c.fn("CompareCompound")
	if cc == nil {
		r.undecided(rule, "anchor:CompareCompound", "-", desc, "not found")
		return
	}
	n := 0
	for _, tn := range []string{"partial", "list", "charList", "codeList"} {
		fn := c.method(tn, "Compare")
		if fn == nil {
			continue
		}
		recv := ssa.Value(fn.Params[0])
		k := 0
		eachInstr(fn, func(in ssa.Instruction) {
			ret, ok := in.(*ssa.Return)
			if !ok || len(ret.Results) != 1 {
				return
			}
			n++
			k++
			key := fmt.Sprintf("%s/return#%d", fname(fn), k)
			good := true
			for _, l := range c.originSet(ret.Results[0]) {
				call, ok := l.(*ssa.Call)
				if !ok || call.Call.StaticCallee() != cc || len(call.Call.Args) == 0 {
					good = false
					continue
				}
				whole := false
				for _, a := range c.originSet(call.Call.Args[0]) {
					if a == recv {
						whole = true
					}
				}
				if !whole {
					good = false
				}
			}
			// two values of one CLOSED representation (two character lists, two code lists, two element slices) may
			// be compared directly - the representation determines the term; a partial list has an open end, so
			// its parts do not
			if !good && !isPtr(recv.Type()) {
				for f := range c.factsAt(in.Block()) {
					if e, ok := f.cond.(*ssa.Extract); ok && e.Index == 1 && f.pol {
						if ta, ok := e.Tuple.(*ssa.TypeAssert); ok && types.Identical(ta.AssertedType, recv.Type()) {
							good = true
						}
					}
				}
				if good {
					r.ok(rule, key, c.at(in), desc, "both operands are known to have the same closed representation", false)
					return
				}
			}
			if good {
				r.ok(rule, key, c.at(in), desc, "the result of CompareCompound(receiver, ...)", true)
			} else {
				r.bad(rule, key, c.at(in), desc, "this return is not the generic comparison of the whole receiver: two lists that are equal when written out can be ordered by how they were built (prefix [a,a,a] against [a,a] over one shared tail)")
			}
		})
	}
	if n == 0 {
		r.undecided(rule, "scan/list-compare", "-", desc, "no Compare method of a list representation found")
	}
}
