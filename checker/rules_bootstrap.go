package main

import (
	"fmt"
	"os"
	"path/filepath"
	"strings"
	"unicode"
)

// ---------------------------------------------------------------------------
// bootstrap.pl is part of the library: a handful of built-ins are written in Prolog. A small tokenizer (no
// evaluation, no use of the repository's own reader) lets rules look at its clauses structurally.

type plTok struct {
	kind string // atom | var | punct | num | str | end
	text string
	line int
}

func plTokenize(src string) []plTok {
	var out []plTok
	line := 1
	rs := []rune(src)
	i := 0
	emit := func(k, t string) { out = append(out, plTok{k, t, line}) }
	isSym := func(r rune) bool { return strings.ContainsRune(`+-*/\^<>=~:.?@#&$`, r) }
	for i < len(rs) {
		r := rs[i]
		switch {
		case r == '\n':
			line++
			i++
		case unicode.IsSpace(r):
			i++
		case r == '%':
			for i < len(rs) && rs[i] != '\n' {
				i++
			}
		case r == '/' && i+1 < len(rs) && rs[i+1] == '*':
			i += 2
			for i+1 < len(rs) && !(rs[i] == '*' && rs[i+1] == '/') {
				if rs[i] == '\n' {
					line++
				}
				i++
			}
			i += 2
		case r == '\'' || r == '"' || r == '`':
			q := r
			j := i + 1
			for j < len(rs) {
				if rs[j] == '\\' {
					j += 2
					continue
				}
				if rs[j] == q {
					if j+1 < len(rs) && rs[j+1] == q {
						j += 2
						continue
					}
					break
				}
				if rs[j] == '\n' {
					line++
				}
				j++
			}
			k := "atom"
			if q != '\'' {
				k = "str"
			}
			emit(k, string(rs[i:min(j+1, len(rs))]))
			i = j + 1
		case r == '_' || unicode.IsUpper(r):
			j := i
			for j < len(rs) && (rs[j] == '_' || unicode.IsLetter(rs[j]) || unicode.IsDigit(rs[j])) {
				j++
			}
			emit("var", string(rs[i:j]))
			i = j
		case unicode.IsLetter(r):
			j := i
			for j < len(rs) && (rs[j] == '_' || unicode.IsLetter(rs[j]) || unicode.IsDigit(rs[j])) {
				j++
			}
			emit("atom", string(rs[i:j]))
			i = j
		case unicode.IsDigit(r):
			j := i
			for j < len(rs) && (unicode.IsDigit(rs[j]) || unicode.IsLetter(rs[j]) || rs[j] == '\'' || (rs[j] == '.' && j+1 < len(rs) && unicode.IsDigit(rs[j+1]))) {
				j++
			}
			emit("num", string(rs[i:j]))
			i = j
		case isSym(r):
			j := i
			for j < len(rs) && isSym(rs[j]) {
				j++
			}
			t := string(rs[i:j])
			if t == "." && (j >= len(rs) || unicode.IsSpace(rs[j]) || rs[j] == '%') {
				emit("end", ".")
			} else if strings.HasSuffix(t, ".") && len(t) > 1 && (j >= len(rs) || unicode.IsSpace(rs[j])) {
				emit("atom", t[:len(t)-1])
				emit("end", ".")
			} else {
				emit("atom", t)
			}
			i = j
		default:
			emit("punct", string(r))
			i++
		}
	}
	return out
}

func min(a, b int) int {
	if a < b {
		return a
	}
	return b
}

// plClauses splits the token stream at end tokens.
func plClauses(toks []plTok) [][]plTok {
	var out [][]plTok
	var cur []plTok
	for _, t := range toks {
		if t.kind == "end" {
			if len(cur) > 0 {
				out = append(out, cur)
			}
			cur = nil
			continue
		}
		cur = append(cur, t)
	}
	return out
}

// R-BOOTSTRAP-RETRACTALL (C09; added after seed C09d): retractall(Head) removes every clause whose head
// unifies with Head - facts and rules. Its definition in bootstrap.pl retracts clauses of the form
// (Head :- Body) with Body a variable: somewhere in a clause for retractall/1 the head's argument appears as
// the left operand of a :-/2 whose right operand is a variable, and retract/1 is called. `retract(Head)`
// alone means retract((Head :- true)) and leaves every rule in the database.
func ruleBootstrapRetractall(c *Ctx, r *Report) {
	const rule = "R-BOOTSTRAP-RETRACTALL"
	desc := "retractall/1 retracts clauses (Head :- Body) with Body unconstrained, not only facts"
	dir := c.Cfg.Dir
	if dir == "" {
		dir = repoDir()
	}
	path := filepath.Join(dir, "bootstrap.pl")
	if b, ok := c.overlayOrFile(path); ok {
		toks := plTokenize(string(b))
		n := 0
		good := false
		where := "-"
		for _, cl := range plClauses(toks) {
			if len(cl) < 4 || cl[0].text != "retractall" || cl[1].text != "(" {
				continue
			}
			n++
			if cl[2].kind != "var" {
				continue
			}
			head := cl[2].text
			hasRetract, hasRuleShape := false, false
			for i := 0; i+1 < len(cl); i++ {
				if cl[i].kind == "atom" && cl[i].text == "retract" && cl[i+1].text == "(" {
					hasRetract = true
					where = fmt.Sprintf("bootstrap.pl:%d", cl[i].line)
				}
				if i+3 < len(cl) && cl[i].kind == "var" && cl[i].text == head && cl[i+1].text == ":-" && cl[i+2].kind == "var" && i > 0 && cl[i-1].text == "(" {
					hasRuleShape = true
				}
			}
			if hasRetract && hasRuleShape {
				good = true
			}
		}
		switch {
		case n == 0:
			r.undecided(rule, "bootstrap.pl/retractall", "bootstrap.pl", desc, "no clause for retractall/1 found in bootstrap.pl")
		case good:
			r.ok(rule, "bootstrap.pl/retractall", where, desc, "a clause of retractall/1 calls retract/1 and builds (Head :- Var)", false)
		default:
			r.bad(rule, "bootstrap.pl/retractall", where, desc, "no clause of retractall/1 retracts (Head :- Var): retract(Head) means retract((Head :- true)), so rules whose head unifies stay in the database")
		}
		r.analysed(rule, fmt.Sprintf("bootstrap.pl: %d tokens, %d clauses for retractall/1", len(toks), n))
		return
	}
	r.undecided(rule, "bootstrap.pl", "bootstrap.pl", desc, "bootstrap.pl not found")
}

// overlayOrFile reads a repository file, preferring the in-memory overlay of a self-test variant.
func (c *Ctx) overlayOrFile(path string) ([]byte, bool) {
	if c.Cfg.Overlay != nil {
		if b, ok := c.Cfg.Overlay[path]; ok {
			return b, true
		}
	}
	b, err := os.ReadFile(path)
	return b, err == nil
}

// ---------------------------------------------------------------------------
// R-BOOTSTRAP-PURE (C16; added after seed C16e): the relational list predicates that are written in Prolog
// (member/2, select/3 in bootstrap.pl) "yield each tuple of the relation that matches the instantiated
// arguments" in EVERY mode, partial lists included.  A clause of such a predicate that commits - a cut, an
// if-then-else, a negation - is correct for the modes its author had in mind and cuts the enumeration short in
// the others (member(X, [X]) :- !. closes an open tail).  Token-level rule over bootstrap.pl: no clause whose
// head is one of these predicates contains `!`, `->`, `*->` or `\+`.
var bootstrapRelations = map[string]bool{"member": true, "select": true}

func ruleBootstrapPure(c *Ctx, r *Report) {
	const rule = "R-BOOTSTRAP-PURE"
	desc := "the relational list predicates written in Prolog have pure clauses (no cut, if-then-else or negation)"
	dir := c.Cfg.Dir
	if dir == "" {
		dir = repoDir()
	}
	b, ok := c.overlayOrFile(filepath.Join(dir, "bootstrap.pl"))
	if !ok {
		r.undecided(rule, "bootstrap.pl", "bootstrap.pl", desc, "bootstrap.pl not found")
		return
	}
	toks := plTokenize(string(b))
	count := map[string]int{}
	for _, cl := range plClauses(toks) {
		if len(cl) < 2 || cl[0].kind != "atom" || !bootstrapRelations[cl[0].text] || cl[1].text != "(" {
			continue
		}
		name := cl[0].text
		count[name]++
		key := fmt.Sprintf("bootstrap.pl/%s#%d", name, count[name])
		where := fmt.Sprintf("bootstrap.pl:%d", cl[0].line)
		bad := ""
		for _, t := range cl {
			switch t.text {
			case "!", "->", "*->", `\+`:
				if t.kind != "quoted" && t.kind != "string" {
					bad = t.text
				}
			}
		}
		if bad == "" {
			r.ok(rule, key, where, desc, "no committing construct in the clause", false)
		} else {
			r.bad(rule, key, where, desc, "the clause contains `"+bad+"`: it commits in modes where the relation has further tuples (an open list tail is closed, later elements are never tried)")
		}
	}
	for name := range bootstrapRelations {
		if count[name] == 0 {
			r.undecided(rule, "bootstrap.pl/"+name, "bootstrap.pl", desc, "no clause for "+name+" found in bootstrap.pl")
		}
	}
	r.analysed(rule, fmt.Sprintf("bootstrap.pl: %d tokens; clauses: member %d, select %d", len(toks), count["member"], count["select"]))
}
