package main

import (
	"encoding/json"
	"fmt"
	"os"
	"path/filepath"
	"sort"
	"strings"
)

type Status int

const (
	Discharged Status = iota
	Violated
	Undecided
	Info // listed in the evidence as "not decided by this family"; never part of the verdict
)

func (s Status) String() string {
	return [...]string{"discharged", "VIOLATED", "UNDECIDED", "not-decided"}[s]
}

// Ob is one obligation: a rule instance enumerated from the current source.
type Ob struct {
	Rule   string `json:"rule"`
	Key    string `json:"key"` // construct key: function + sub-key, never a line number
	Pos    string `json:"pos"`
	Desc   string `json:"desc"`
	Why    string `json:"why"`
	Status Status `json:"-"`
	St     string `json:"status"`
	Flow   bool   `json:"flow"` // discharge needed a path / dataflow / type-set argument, not a syntactic match
	Known  bool   `json:"known,omitempty"`
}

// Report accumulates the obligations of one property run.
type Report struct {
	Prop     string
	Obs      []Ob
	Analysed map[string][]string // rule -> what was analysed (functions, tables …)
	Notes    []string
}

func newReport(prop string) *Report {
	return &Report{Prop: prop, Analysed: map[string][]string{}}
}

func (r *Report) add(o Ob) {
	o.St = o.Status.String()
	r.Obs = append(r.Obs, o)
}

func (r *Report) ok(rule, key, pos, desc, why string, flow bool) {
	r.add(Ob{Rule: rule, Key: key, Pos: pos, Desc: desc, Why: why, Status: Discharged, Flow: flow})
}

func (r *Report) bad(rule, key, pos, desc, why string) {
	r.add(Ob{Rule: rule, Key: key, Pos: pos, Desc: desc, Why: why, Status: Violated, Flow: true})
}

func (r *Report) undecided(rule, key, pos, desc, why string) {
	r.add(Ob{Rule: rule, Key: key, Pos: pos, Desc: desc, Why: why, Status: Undecided})
}

func (r *Report) info(rule, key, pos, desc, why string) {
	r.add(Ob{Rule: rule, Key: key, Pos: pos, Desc: desc, Why: why, Status: Info})
}

func (r *Report) analysed(rule string, what ...string) {
	r.Analysed[rule] = append(r.Analysed[rule], what...)
}

func (r *Report) note(format string, a ...interface{}) {
	r.Notes = append(r.Notes, fmt.Sprintf(format, a...))
}

// count returns the number of verdict-relevant instances of a rule.
func (r *Report) count(rule string) int {
	n := 0
	for _, o := range r.Obs {
		if o.Rule == rule && o.Status != Info {
			n++
		}
	}
	return n
}

// ---------------------------------------------------------------------------
// known findings

type KnownFinding struct {
	Property string `json:"property"`
	Rule     string `json:"rule"`
	Key      string `json:"key"`
	What     string `json:"what"`
}

type KnownFile struct {
	Comment  string         `json:"comment,omitempty"`
	Findings []KnownFinding `json:"findings"`
	Fixed    []string       `json:"fixed"`
}

func verifDir() string {
	if d := os.Getenv("PVCHECK_VERIF"); d != "" {
		return d
	}
	return "/verif"
}

func loadKnown() (*KnownFile, error) {
	b, err := os.ReadFile(filepath.Join(verifDir(), "known_findings.json"))
	if err != nil {
		if os.IsNotExist(err) {
			return &KnownFile{}, nil
		}
		return nil, err
	}
	var k KnownFile
	if err := json.Unmarshal(b, &k); err != nil {
		return nil, fmt.Errorf("known_findings.json: %w", err)
	}
	return &k, nil
}

func (k *KnownFile) match(prop string, o Ob) *KnownFinding {
	for i := range k.Findings {
		f := &k.Findings[i]
		if f.Property == prop && f.Rule == o.Rule && f.Key == o.Key {
			return f
		}
	}
	return nil
}

// ---------------------------------------------------------------------------
// output

type ReplayFile struct {
	Property string `json:"property"`
	Rule     string `json:"rule"`
	Key      string `json:"key"`
	Pos      string `json:"pos"`
	Desc     string `json:"desc"`
	Why      string `json:"why"`
	Status   string `json:"status"`
	Config   string `json:"config,omitempty"`
}

func sortObs(obs []Ob) {
	sort.SliceStable(obs, func(i, j int) bool {
		fi, li := splitPos(obs[i].Pos)
		fj, lj := splitPos(obs[j].Pos)
		if fi != fj {
			return fi < fj
		}
		if li != lj {
			return li < lj
		}
		if obs[i].Rule != obs[j].Rule {
			return obs[i].Rule < obs[j].Rule
		}
		return obs[i].Key < obs[j].Key
	})
}

func splitPos(p string) (string, int) {
	i := strings.LastIndex(p, ":")
	if i < 0 {
		return p, 0
	}
	n := 0
	fmt.Sscanf(p[i+1:], "%d", &n)
	return p[:i], n
}

func writeReplay(prop string, n int, o Ob, cfg string) string {
	dir := filepath.Join(verifDir(), "replay")
	_ = os.MkdirAll(dir, 0o755)
	name := fmt.Sprintf("%s-%s-%d.json", prop, strings.TrimPrefix(o.Rule, "R-"), n)
	path := filepath.Join(dir, name)
	b, _ := json.MarshalIndent(ReplayFile{Property: prop, Rule: o.Rule, Key: o.Key, Pos: o.Pos, Desc: o.Desc, Why: o.Why, Status: o.Status.String(), Config: cfg}, "", " ")
	_ = os.WriteFile(path, append(b, '\n'), 0o644)
	return path
}
