package main

import (
	"fmt"
	"go/ast"
	"go/token"
	"go/types"
	"sort"
	"strings"

	"golang.org/x/tools/go/callgraph"
	"golang.org/x/tools/go/callgraph/cha"
	"golang.org/x/tools/go/callgraph/vta"
	"golang.org/x/tools/go/packages"
	"golang.org/x/tools/go/ssa"
	"golang.org/x/tools/go/ssa/ssautil"
)

// Ctx is what a rule sees.
type Ctx struct {
	*Program
	Tier  string // quick | thorough
	CGAlg string // cha | vta

	cg       *callgraph.Graph
	guards   map[*ssa.Function]*guardInfo
	expanded map[*ssa.BasicBlock]map[fact]bool // facts plus what known-true helper calls imply (helperfacts.go)
	helperS  map[string][]fact                 // summaries of helpers
	noExpand int                               // >0 while a summary is being computed
	anchors  *anchorFile                       // the committed baseline of function fingerprints (anchors.go)
	refound  map[string]*ssa.Function
	reach    map[*ssa.Function]bool // reachable from exported API
	declOf   map[*types.Func]*ast.FuncDecl
	astFiles map[*ast.File]*packages.Package
}

func newCtx(p *Program, tier string) *Ctx {
	c := &Ctx{Program: p, Tier: tier, CGAlg: "cha", guards: map[*ssa.Function]*guardInfo{}}
	if tier == "thorough" {
		c.CGAlg = "vta"
	}
	memo := map[*ssa.Function]string{}
	baselineNameHook = func(fn *ssa.Function) string {
		if fn == nil || fn.Synthetic != "" || !c.isLibPkg(funcPkg(fn)) {
			return ""
		}
		if v, ok := memo[fn]; ok {
			return v
		}
		memo[fn] = ""
		memo[fn] = c.baselineName(fn)
		return memo[fn]
	}
	return c
}

// ---------------------------------------------------------------------------
// lookups

func (c *Ctx) pkgOf(which string) *ssa.Package {
	if which == "root" {
		return c.Root
	}
	return c.Engine
}

// fn returns a package-level function of the engine package ("" if missing -> nil).
func (c *Ctx) fn(name string) *ssa.Function {
	if f := c.Engine.Func(name); f != nil {
		return f
	}
	return c.refind("engine." + name) // renamed? (anchors.go)
}

func (c *Ctx) rootFn(name string) *ssa.Function {
	if f := c.Root.Func(name); f != nil {
		return f
	}
	return c.refind("root." + name)
}

// method returns the method of a named type T (tries T and *T).
func (c *Ctx) methodIn(pkg *ssa.Package, typ, name string) *ssa.Function {
	m := pkg.Members[typ]
	t, ok := m.(*ssa.Type)
	if !ok {
		return nil
	}
	for _, recv := range []types.Type{t.Type(), types.NewPointer(t.Type())} {
		sel := c.Prog.MethodSets.MethodSet(recv).Lookup(pkg.Pkg, name)
		if sel == nil {
			continue
		}
		fn := c.Prog.MethodValue(sel)
		if fn == nil {
			continue
		}
		// unwrap synthetic pointer-receiver wrappers to the declared method
		if fn.Synthetic != "" {
			if obj, ok := sel.Obj().(*types.Func); ok {
				if d := c.Prog.FuncValue(obj); d != nil {
					return d
				}
			}
		}
		return fn
	}
	return nil
}

func (c *Ctx) method(typ, name string) *ssa.Function {
	if f := c.methodIn(c.Engine, typ, name); f != nil {
		return f
	}
	return c.refind("engine.(" + typ + ")." + name)
}

func (c *Ctx) rootMethod(typ, name string) *ssa.Function {
	if f := c.methodIn(c.Root, typ, name); f != nil {
		return f
	}
	return c.refind("root.(" + typ + ")." + name)
}

func (c *Ctx) named(pkg *ssa.Package, name string) *types.Named {
	m, ok := pkg.Members[name].(*ssa.Type)
	if !ok {
		return nil
	}
	n, _ := m.Type().(*types.Named)
	return n
}

func (c *Ctx) engType(name string) *types.Named { return c.named(c.Engine, name) }

func (c *Ctx) global(name string) *ssa.Global {
	if g, ok := c.Engine.Members[name].(*ssa.Global); ok {
		return g
	}
	return c.refindAtom(name)
}

// isEng reports whether t (after stripping pointers) is the engine type with that name.
func isEngNamed(t types.Type, name string) bool {
	return isNamedIn(t, enginePkgPath, name)
}

func isNamedIn(t types.Type, pkgPath, name string) bool {
	t = deref(t)
	n, ok := t.(*types.Named)
	if !ok {
		return false
	}
	o := n.Obj()
	return o != nil && o.Name() == name && o.Pkg() != nil && o.Pkg().Path() == pkgPath
}

func deref(t types.Type) types.Type {
	for {
		p, ok := t.Underlying().(*types.Pointer)
		if !ok {
			return t
		}
		// keep named pointer types as they are (none in this repo)
		if _, named := t.(*types.Named); named {
			return t
		}
		t = p.Elem()
	}
}

func typeName(t types.Type) string {
	return types.TypeString(t, func(p *types.Package) string {
		if p.Path() == enginePkgPath {
			return "engine"
		}
		if p.Path() == rootPkgPath {
			return "prolog"
		}
		return p.Name()
	})
}

// fname renders a function in the short form used in construct keys:
// engine.Retract$1$1, engine.(*Env).bind, prolog.(*Solutions).Next
func fname(fn *ssa.Function) string {
	if fn == nil {
		return "<nil>"
	}
	s := fn.String()
	s = strings.ReplaceAll(s, enginePkgPath, "engine")
	s = strings.ReplaceAll(s, rootPkgPath, "prolog")
	// a renamed function keeps the name the rules (allow-lists, construct keys) know it by (anchors.go)
	if baselineNameHook != nil {
		top := topFunc(fn)
		if old := baselineNameHook(top); old != "" {
			s = strings.Replace(s, "."+top.Name(), "."+old, 1)
			s = strings.Replace(s, ")."+top.Name(), ")."+old, 1)
		}
	}
	return s
}

var baselineNameHook func(*ssa.Function) string

// stableFuncName: the name of a library function as the rules know it (its baseline name if it was renamed).
func (c *Ctx) stableFuncName(fn *ssa.Function) string {
	if fn == nil {
		return ""
	}
	if old := c.baselineName(fn); old != "" {
		return old
	}
	return fn.Name()
}

// ---------------------------------------------------------------------------
// AST access

func (c *Ctx) libPackages() []*packages.Package {
	return []*packages.Package{c.RootPk, c.EngPkg}
}

// funcDecl returns the AST declaration of a source function.
func (c *Ctx) funcDecl(fn *ssa.Function) *ast.FuncDecl {
	if c.declOf == nil {
		c.declOf = map[*types.Func]*ast.FuncDecl{}
		for _, pk := range c.libPackages() {
			for _, f := range pk.Syntax {
				for _, d := range f.Decls {
					if fd, ok := d.(*ast.FuncDecl); ok {
						if obj, ok := pk.TypesInfo.Defs[fd.Name].(*types.Func); ok {
							c.declOf[obj] = fd
						}
					}
				}
			}
		}
	}
	obj, _ := fn.Object().(*types.Func)
	if obj == nil {
		return nil
	}
	return c.declOf[obj]
}

func (c *Ctx) infoFor(fn *ssa.Function) *types.Info {
	if funcPkg(fn) == c.Root {
		return c.RootPk.TypesInfo
	}
	return c.EngPkg.TypesInfo
}

// ---------------------------------------------------------------------------
// call graph

func (c *Ctx) CG() *callgraph.Graph {
	if c.cg != nil {
		return c.cg
	}
	g := cha.CallGraph(c.Prog)
	if c.CGAlg == "vta" {
		g = vta.CallGraph(ssautil.AllFunctions(c.Prog), g)
	}
	g.DeleteSyntheticNodes()
	c.cg = g
	return g
}

// callees returns the possible callees of a call instruction (static or via call graph).
func (c *Ctx) callees(site ssa.CallInstruction) []*ssa.Function {
	if f := site.Common().StaticCallee(); f != nil {
		return []*ssa.Function{f}
	}
	n := c.CG().Nodes[site.Parent()]
	if n == nil {
		return nil
	}
	var out []*ssa.Function
	seen := map[*ssa.Function]bool{}
	for _, e := range n.Out {
		if e.Site == site && !seen[e.Callee.Func] {
			seen[e.Callee.Func] = true
			out = append(out, e.Callee.Func)
		}
	}
	sort.Slice(out, func(i, j int) bool { return out[i].String() < out[j].String() })
	return out
}

// apiRoots: exported functions and methods of the two library packages + init.
func (c *Ctx) apiRoots() []*ssa.Function {
	var roots []*ssa.Function
	for _, fn := range c.LibFuncs() {
		if fn.Parent() != nil {
			continue
		}
		if fn.Name() == "init" || strings.HasPrefix(fn.Name(), "init#") {
			roots = append(roots, fn)
			continue
		}
		obj := fn.Object()
		if obj == nil || !obj.Exported() {
			continue
		}
		if sig := fn.Signature; sig.Recv() != nil {
			// method of an exported or unexported type: a value of an unexported type can still
			// reach the user through an interface (Term implementations), so keep all exported methods.
		}
		roots = append(roots, fn)
	}
	return roots
}

// Reachable returns the set of library functions reachable from the exported API.
func (c *Ctx) Reachable() map[*ssa.Function]bool {
	if c.reach != nil {
		return c.reach
	}
	g := c.CG()
	seen := map[*ssa.Function]bool{}
	var stack []*ssa.Function
	push := func(f *ssa.Function) {
		if f != nil && !seen[f] {
			seen[f] = true
			stack = append(stack, f)
		}
	}
	for _, r := range c.apiRoots() {
		push(r)
	}
	for len(stack) > 0 {
		f := stack[len(stack)-1]
		stack = stack[:len(stack)-1]
		for _, a := range f.AnonFuncs {
			push(a) // a closure created by a reachable function is assumed callable
		}
		// function values referenced (method values, funcs stored in tables)
		for _, b := range blocksOf(f) {
			for _, in := range b.Instrs {
				for _, op := range in.Operands(nil) {
					if op == nil || *op == nil {
						continue
					}
					if fv, ok := (*op).(*ssa.Function); ok {
						push(fv)
					}
				}
			}
		}
		if n := g.Nodes[f]; n != nil {
			for _, e := range n.Out {
				push(e.Callee.Func)
			}
		}
	}
	c.reach = seen
	return seen
}

// ---------------------------------------------------------------------------
// misc helpers

func (c *Ctx) instrPos(in ssa.Instruction) token.Pos {
	if p := in.Pos(); p.IsValid() {
		return p
	}
	// fall back to any operand / neighbour with a position
	if v, ok := in.(ssa.Value); ok {
		for _, r := range *v.Referrers() {
			if p := r.Pos(); p.IsValid() {
				return p
			}
		}
	}
	b := in.Block()
	for _, i2 := range b.Instrs {
		if p := i2.Pos(); p.IsValid() {
			return p
		}
	}
	return in.Parent().Pos()
}

func (c *Ctx) at(in ssa.Instruction) string { return c.Pos(c.instrPos(in)) }

func must(cond bool, format string, a ...interface{}) {
	if !cond {
		panic(fmt.Sprintf(format, a...))
	}
}

// eachInstr visits every instruction of fn.
func eachInstr(fn *ssa.Function, f func(ssa.Instruction)) {
	for _, b := range blocksOf(fn) {
		for _, in := range b.Instrs {
			f(in)
		}
	}
}

// withAnon returns fn and all functions nested in it.
func withAnon(fn *ssa.Function) []*ssa.Function {
	out := []*ssa.Function{fn}
	for _, a := range fn.AnonFuncs {
		out = append(out, withAnon(a)...)
	}
	return out
}

// topFunc returns the outermost enclosing function.
func topFunc(fn *ssa.Function) *ssa.Function {
	for fn.Parent() != nil {
		fn = fn.Parent()
	}
	return fn
}
