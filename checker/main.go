// pvcheck: repository-specific static analysis of ichiban/prolog for the properties
// in /verif/properties.jsonl. See /verif/DESIGN.md.
package main

import (
	"encoding/json"
	"flag"
	"fmt"
	"os"
	"path/filepath"
	"runtime/debug"
	"sort"
	"strconv"
	"strings"
	"time"
)

func main() {
	var (
		prop    = flag.String("p", "", "property id (C01..C20)")
		tier    = flag.String("tier", "quick", "quick | thorough")
		replay  = flag.String("replay", "", "replay file: re-run the named rule instance on the current tree")
		list    = flag.Bool("list", false, "list properties and rules")
		dump    = flag.Bool("v", false, "print every obligation")
		noEvid  = flag.Bool("no-evidence", false, "do not write the evidence file (used by self-test subprocesses)")
		mutant  = flag.String("mutant", "", "internal: run with the named self-test variant applied as overlay; prints MUTANT-RESULT json")
		goarch  = flag.String("goarch", "", "override GOARCH for the analysed build")
		selfAll = flag.Bool("selftest", false, "run the whole self-test corpus and print a table")
		manif   = flag.String("manifest", "", "write MANIFEST.json generated from the property table to this path")
		anchors = flag.String("anchors", "", "write the anchor baseline (fingerprints of the library's functions on the current tree) to this path")
	)
	flag.Parse()
	if t := os.Getenv("VERIF_TIER"); t == "quick" || t == "thorough" {
		*tier = t
	}
	seed := int64(0)
	if s := os.Getenv("VERIF_SEED"); s != "" {
		if n, err := strconv.ParseInt(s, 10, 64); err == nil {
			seed = n
		}
	}

	switch {
	case *anchors != "":
		p, err := Load(LoadConfig{})
		if err == nil {
			err = writeAnchors(newCtx(p, "quick"), *anchors)
		}
		if err != nil {
			fmt.Fprintln(os.Stderr, err)
			os.Exit(2)
		}
		return
	case *manif != "":
		if err := writeManifest(*manif); err != nil {
			fmt.Fprintln(os.Stderr, err)
			os.Exit(2)
		}
		return
	case *list:
		for _, p := range properties {
			fmt.Printf("%s  %s\n", p.ID, p.Title)
			for _, r := range p.Rules {
				fmt.Printf("    %-24s floor=%d\n", r.ID, r.Floor)
			}
		}
		return
	case *replay != "":
		os.Exit(runReplay(*replay))
	case *mutant != "":
		os.Exit(runMutantChild(*mutant))
	case *selfAll:
		os.Exit(runSelfTestAll(seed))
	case *prop == "":
		fmt.Fprintln(os.Stderr, "usage: pvcheck -p Cxx [-tier quick|thorough] | -replay file | -list")
		os.Exit(2)
	}

	pd := findProperty(*prop)
	if pd == nil {
		fmt.Fprintf(os.Stderr, "unknown property %q\n", *prop)
		os.Exit(2)
	}
	os.Exit(runProperty(pd, *tier, seed, *dump, !*noEvid, *goarch))
}

// runOne analyses one configuration and returns the report. A panic inside the
// checker is converted into an undecided obligation: a crashed analysis must fail.
func runOne(pd *Property, cfg LoadConfig, tier string) (rep *Report, prog *Program) {
	rep = newReport(pd.ID)
	p, err := Load(cfg)
	if err != nil {
		rep.undecided("LOAD", "load", "-", "load and type-check ./... of the repository", err.Error())
		return rep, nil
	}
	c := newCtx(p, tier)
	defer func() {
		for _, n := range anchorNotes {
			rep.note("%s", n)
		}
		anchorNotes = nil
		for _, n := range canonNotes {
			rep.note("%s", n)
		}
	}()
	for _, rd := range pd.Rules {
		func() {
			defer func() {
				if r := recover(); r != nil {
					rep.undecided(rd.ID, "checker-panic", "-", "rule execution", fmt.Sprintf("checker panicked: %v\n%s", r, debug.Stack()))
				}
			}()
			rd.Run(c, rep)
		}()
		if n := rep.count(rd.ID); n < rd.Floor {
			rep.undecided(rd.ID, "floor", "-", fmt.Sprintf("rule must match at least %d instances (confirmed by hand on the pinned tree)", rd.Floor),
				fmt.Sprintf("only %d instances found: the rule would pass vacuously", n))
		}
	}
	return rep, p
}

func cfgName(cfg LoadConfig) string {
	if cfg.GOARCH == "" {
		return "default"
	}
	return "GOARCH=" + cfg.GOARCH
}

func runProperty(pd *Property, tier string, seed int64, dump, writeEvidence bool, goarch string) int {
	start := time.Now()
	known, kerr := loadKnown()
	if kerr != nil {
		fmt.Printf("%s: cannot read known findings: %v\n", pd.ID, kerr)
		known = &KnownFile{}
	}

	cfgs := []LoadConfig{{GOARCH: goarch}}
	if tier == "thorough" && goarch == "" {
		cfgs = append(cfgs, LoadConfig{GOARCH: "386"}, LoadConfig{GOARCH: "arm64"})
	}

	type cfgResult struct {
		name string
		rep  *Report
	}
	var results []cfgResult
	for _, cfg := range cfgs {
		rep, _ := runOne(pd, cfg, tier)
		results = append(results, cfgResult{cfgName(cfg), rep})
	}

	// verdict
	nviol := 0
	var knownLines []string
	seenViol := map[string]bool{}
	var violLines []string
	for _, cr := range results {
		sortObs(cr.rep.Obs)
		for i := range cr.rep.Obs {
			o := &cr.rep.Obs[i]
			if o.Status != Violated && o.Status != Undecided {
				continue
			}
			if o.Status == Violated {
				if kf := known.match(pd.ID, *o); kf != nil {
					o.Known = true
					line := fmt.Sprintf("KNOWN-FINDING: property=%s %s: %s (%s %s)", pd.ID, o.Key, kf.What, o.Rule, o.Pos)
					if !seenViol[line] {
						seenViol[line] = true
						knownLines = append(knownLines, line)
					}
					continue
				}
			}
			id := o.Rule + "|" + o.Key + "|" + o.Status.String()
			if seenViol[id] {
				continue
			}
			seenViol[id] = true
			nviol++
			path := writeReplay(pd.ID, nviol, *o, cr.name)
			violLines = append(violLines,
				fmt.Sprintf("%s: rule %s: %s: %s: %s [%s, config %s]", o.Pos, o.Rule, o.Key, o.Desc, o.Why, o.Status, cr.name),
				fmt.Sprintf("VIOLATION property=%s replay=%s", pd.ID, path))
		}
	}

	// thorough: self-validation of the rules of this property
	var st *SelfTestSummary
	if tier == "thorough" {
		st = runSelfTest(pd, seed)
		for _, m := range st.Failures {
			nviol++
			o := Ob{Rule: "SELFTEST", Key: m, Pos: "-", Desc: "checker self-validation", Why: m, Status: Undecided}
			path := writeReplay(pd.ID, nviol, o, "selftest")
			violLines = append(violLines,
				fmt.Sprintf("selftest: %s", m),
				fmt.Sprintf("VIOLATION property=%s replay=%s", pd.ID, path))
		}
	}

	// print
	main := results[0].rep
	if dump {
		for _, o := range main.Obs {
			fmt.Printf("  %-12s %-22s %-28s %s — %s — %s\n", o.Status, o.Rule, o.Pos, o.Key, o.Desc, o.Why)
		}
	}
	perRule := map[string][3]int{}
	for _, o := range main.Obs {
		x := perRule[o.Rule]
		switch o.Status {
		case Discharged:
			x[0]++
		case Violated, Undecided:
			x[1]++
		case Info:
			x[2]++
		}
		perRule[o.Rule] = x
	}
	var rules []string
	for r := range perRule {
		rules = append(rules, r)
	}
	sort.Strings(rules)
	fmt.Printf("%s (%s tier, %d config(s), call graph %s): %s\n", pd.ID, tier, len(results), map[bool]string{true: "vta", false: "cha"}[tier == "thorough"], pd.Title)
	for _, r := range rules {
		x := perRule[r]
		fmt.Printf("  %-24s discharged=%d violated/undecided=%d not-decided(info)=%d\n", r, x[0], x[1], x[2])
	}
	for _, l := range knownLines {
		fmt.Println(l)
	}
	for _, l := range violLines {
		fmt.Println(l)
	}
	if st != nil {
		fmt.Printf("  self-test: %d breaking variants detected of %d, %d neutral variants silent of %d, %d stale\n",
			st.BreakingDetected, st.Breaking, st.NeutralSilent, st.Neutral, st.Stale)
	}

	wall := time.Since(start).Seconds()
	if writeEvidence {
		if err := writeEvidenceFile(pd, tier, seed, results[0].rep, func() []namedReport {
			var nr []namedReport
			for _, cr := range results {
				nr = append(nr, namedReport{cr.name, cr.rep})
			}
			return nr
		}(), st, nviol, len(knownLines), wall); err != nil {
			fmt.Printf("%s: cannot write evidence: %v\n", pd.ID, err)
			return 1
		}
	}
	if nviol > 0 {
		return 1
	}
	fmt.Printf("%s: OK (%.1fs)\n", pd.ID, wall)
	return 0
}

type namedReport struct {
	name string
	rep  *Report
}

// ---------------------------------------------------------------------------
// evidence

func writeEvidenceFile(pd *Property, tier string, seed int64, main *Report, all []namedReport, st *SelfTestSummary, nviol, nknown int, wall float64) error {
	obligations, discharged, nontrivial := 0, 0, 0
	distinct := map[string]bool{}
	var samples []interface{}
	perRule := map[string]map[string]interface{}{}
	perRuleSamples := map[string]int{}
	var notDecided []string
	for _, o := range main.Obs {
		pr := perRule[o.Rule]
		if pr == nil {
			pr = map[string]interface{}{"instances": 0, "discharged": 0, "violated": 0, "undecided": 0, "known_findings": 0}
			perRule[o.Rule] = pr
		}
		if o.Status == Info {
			notDecided = append(notDecided, fmt.Sprintf("%s %s %s: %s", o.Rule, o.Pos, o.Key, o.Why))
			continue
		}
		obligations++
		pr["instances"] = pr["instances"].(int) + 1
		switch o.Status {
		case Discharged:
			discharged++
			pr["discharged"] = pr["discharged"].(int) + 1
		case Violated:
			if o.Known {
				pr["known_findings"] = pr["known_findings"].(int) + 1
			} else {
				pr["violated"] = pr["violated"].(int) + 1
			}
		case Undecided:
			pr["undecided"] = pr["undecided"].(int) + 1
		}
		k := o.Rule + "|" + o.Key
		if o.Flow && !distinct[k] {
			distinct[k] = true
			nontrivial++
		}
		if perRuleSamples[o.Rule] < 4 {
			perRuleSamples[o.Rule]++
			samples = append(samples, fmt.Sprintf("%s %s %s: %s — %s [%s]", o.Pos, o.Rule, o.Key, o.Desc, o.Why, o.Status))
		}
	}
	for rule, what := range main.Analysed {
		if pr := perRule[rule]; pr != nil {
			pr["analysed"] = what
		}
	}
	var ruleIDs []string
	for _, r := range pd.Rules {
		ruleIDs = append(ruleIDs, r.ID)
	}
	configs := []string{}
	for _, nr := range all {
		configs = append(configs, nr.name)
	}
	cov := map[string]interface{}{
		"explanation": fmt.Sprintf("Static necessary-condition analysis of /repo's current source (type-checked program + SSA + per-function branch facts + call graph); nothing is executed. Rules run: %s. Decides: %s Does not decide: %s",
			strings.Join(ruleIDs, ", "), pd.Decides, pd.NotDecided),
		"obligations":         obligations,
		"discharged":          discharged,
		"evaluations":         obligations,
		"distinct_nontrivial": nontrivial,
		"rule":                "one evaluation = one rule instance (call site, store, table row, type pair, function) enumerated from the current source; non-trivial = its verdict needed a path, dataflow, type-set or call-graph argument rather than a syntactic match; distinct = distinct (rule, construct key)",
		"samples":             samples,
		"per_rule":            perRule,
		"not_decided":         notDecided,
		"configs":             configs,
		"call_graph":          map[bool]string{true: "vta", false: "cha"}[tier == "thorough"],
		"known_findings":      nknown,
		"packages_loaded":     packagesLoaded(main),
		"checker_cmd":         fmt.Sprintf("/verif/bin/pvcheck -p %s -tier %s", pd.ID, tier),
		"notes":               main.Notes,
		"exhaustive":          true,
	}
	if st != nil {
		cov["selftest"] = st
	}
	ev := map[string]interface{}{
		"property_id": pd.ID,
		"tier":        tier,
		"seed":        seed,
		"level":       "other",
		"coverage":    cov,
		"assumptions": append([]string{
			"go/types, go/ssa and the x/tools call-graph builders (v0.29.0) model the program faithfully",
			"the checked clause is a necessary condition of the property, not the behaviour itself (see DESIGN.md §4 " + pd.ID + ")",
			"bootstrap.pl (Prolog text) is not analysed",
		}, pd.Assumptions...),
		"wall_s":     wall,
		"violations": nviol,
	}
	b, err := json.MarshalIndent(ev, "", " ")
	if err != nil {
		return err
	}
	dir := filepath.Join(verifDir(), "evidence")
	if err := os.MkdirAll(dir, 0o755); err != nil {
		return err
	}
	return os.WriteFile(filepath.Join(dir, pd.ID+".json"), append(b, '\n'), 0o644)
}

func packagesLoaded(r *Report) int {
	for _, n := range r.Notes {
		var k int
		if _, err := fmt.Sscanf(n, "packages=%d", &k); err == nil {
			return k
		}
	}
	return 0
}

// ---------------------------------------------------------------------------
// replay

func runReplay(path string) int {
	b, err := os.ReadFile(path)
	if err != nil {
		fmt.Println("replay:", err)
		return 2
	}
	var rf ReplayFile
	if err := json.Unmarshal(b, &rf); err != nil {
		fmt.Println("replay:", err)
		return 2
	}
	pd := findProperty(rf.Property)
	if pd == nil {
		fmt.Println("replay: unknown property", rf.Property)
		return 2
	}
	cfg := LoadConfig{}
	if strings.HasPrefix(rf.Config, "GOARCH=") {
		cfg.GOARCH = strings.TrimPrefix(rf.Config, "GOARCH=")
	}
	// run only the rule named in the file
	one := *pd
	one.Rules = nil
	for _, r := range pd.Rules {
		if r.ID == rf.Rule {
			r.Floor = 0
			one.Rules = append(one.Rules, r)
		}
	}
	if rf.Rule == "LOAD" || len(one.Rules) == 0 {
		one.Rules = pd.Rules
	}
	rep, _ := runOne(&one, cfg, "quick")
	for _, o := range rep.Obs {
		if (o.Status == Violated || o.Status == Undecided) && o.Rule == rf.Rule && o.Key == rf.Key {
			fmt.Printf("%s: rule %s: %s: %s: %s [%s]\n", o.Pos, o.Rule, o.Key, o.Desc, o.Why, o.Status)
			fmt.Printf("VIOLATION property=%s replay=%s\n", rf.Property, path)
			return 1
		}
	}
	fmt.Printf("replay: %s %s %s no longer reported on the current tree\n", rf.Property, rf.Rule, rf.Key)
	return 0
}
