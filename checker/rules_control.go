package main

import (
	"fmt"
	"go/token"
	"go/types"
	"sort"
	"strings"

	"golang.org/x/tools/go/ssa"
)

// ---------------------------------------------------------------------------
// anchors

func (c *Ctx) promiseNamed() *types.Named { return c.engType("Promise") }

func (c *Ctx) isPromisePtr(t types.Type) bool {
	p, ok := t.Underlying().(*types.Pointer)
	return ok && isEngNamed(p.Elem(), "Promise") && !isPtr(p.Elem())
}

func (c *Ctx) isEnvPtr(t types.Type) bool {
	p, ok := t.Underlying().(*types.Pointer)
	return ok && isEngNamed(p.Elem(), "Env") && !isPtr(p.Elem())
}

func isContextType(t types.Type) bool {
	return isNamedIn(t, "context", "Context") && !isPtr(t)
}

func (c *Ctx) isContType(t types.Type) bool {
	return isEngNamed(t, "Cont") && !isPtr(t)
}

// trampoline: the method of Promise that loops over a promise stack polling ctx.Done().
func (c *Ctx) trampoline() *ssa.Function {
	var found []*ssa.Function
	for _, fn := range c.LibFuncs() {
		if fn.Signature.Recv() == nil || !c.isPromisePtr(fn.Signature.Recv().Type()) {
			continue
		}
		hasSelect := false
		eachInstr(fn, func(in ssa.Instruction) {
			if _, ok := in.(*ssa.Select); ok {
				hasSelect = true
			}
		})
		if hasSelect {
			found = append(found, fn)
		}
	}
	if len(found) == 1 {
		return found[0]
	}
	return c.method("Promise", "Force")
}

// errorCtor: the function `func(error) *Promise` that stores its argument into the err field.
func (c *Ctx) errorCtor() *ssa.Function {
	var found []*ssa.Function
	for _, fn := range c.LibFuncs() {
		sig := fn.Signature
		if fn.Parent() != nil || sig.Recv() != nil || sig.Params().Len() != 1 || sig.Results().Len() != 1 {
			continue
		}
		if !isErrorType(sig.Params().At(0).Type()) || !c.isPromisePtr(sig.Results().At(0).Type()) {
			continue
		}
		found = append(found, fn)
	}
	if len(found) == 1 {
		return found[0]
	}
	return c.fn("Error")
}

// thunkCtors: functions that build a promise with delayed alternatives (Delay, cut, repeat, catch).
func (c *Ctx) thunkCtors() []*ssa.Function {
	var out []*ssa.Function
	for _, s := range c.storesIntoStruct(enginePkgPath, "Promise") {
		if len(s.path) > 0 && s.path[0] == "delayed" && freshAlloc(s.base) {
			dup := false
			for _, f := range out {
				if f == s.fn {
					dup = true
				}
			}
			if !dup {
				out = append(out, s.fn)
			}
		}
	}
	return out
}

// forceCalls: every call of the trampoline in library code.
func (c *Ctx) forceCalls() []*ssa.Call {
	tr := c.trampoline()
	var out []*ssa.Call
	for _, fn := range c.LibFuncs() {
		eachInstr(fn, func(in ssa.Instruction) {
			if call, ok := in.(*ssa.Call); ok && call.Call.StaticCallee() == tr && tr != nil {
				out = append(out, call)
			}
		})
	}
	return out
}

// paramOfType returns the parameters of fn with a type satisfying pred.
func paramsWhere(fn *ssa.Function, pred func(types.Type) bool) []*ssa.Parameter {
	var out []*ssa.Parameter
	for _, p := range fn.Params {
		if pred(p.Type()) {
			out = append(out, p)
		}
	}
	return out
}

// originSet collects the origin leaves of v.
func (c *Ctx) originSet(v ssa.Value) []ssa.Value {
	var out []ssa.Value
	c.origins(v, func(l ssa.Value) { out = append(out, l) })
	return out
}

func sameLeafSet(a, b []ssa.Value) bool {
	if len(a) == 0 || len(b) == 0 {
		return false
	}
	in := func(x ssa.Value, s []ssa.Value) bool {
		for _, y := range s {
			if x == y {
				return true
			}
		}
		return false
	}
	for _, x := range a {
		if !in(x, b) {
			return false
		}
	}
	for _, y := range b {
		if !in(y, a) {
			return false
		}
	}
	return true
}

// subsetLeaves: a is non-empty and every leaf of a is a call result that is also a leaf of b.
func subsetLeaves(a, b []ssa.Value) bool {
	if len(a) == 0 {
		return false
	}
	for _, x := range a {
		if cl, _ := callOfValue(x); cl == nil {
			return false
		}
		found := false
		for _, y := range b {
			if x == y {
				found = true
			}
		}
		if !found {
			return false
		}
	}
	return true
}

// returnedLeaves: origin leaves of result i over all returns of fn.
func (c *Ctx) returnedLeaves(fn *ssa.Function, i int) []ssa.Value {
	var out []ssa.Value
	eachInstr(fn, func(in ssa.Instruction) {
		if ret, ok := in.(*ssa.Return); ok && i < len(ret.Results) {
			out = append(out, c.originSet(ret.Results[i])...)
		}
	})
	return out
}

// ---------------------------------------------------------------------------
// R-CUT-WRITERS / R-CUT-PARENT / R-CUT-LOCAL

func ruleCutWriters(c *Ctx, r *Report) {
	const rule = "R-CUT-WRITERS"
	tr := c.trampoline()
	ctors := map[*ssa.Function]bool{}
	n := 0
	for _, s := range c.storesIntoStruct(enginePkgPath, "Promise") {
		if len(s.path) == 0 || s.path[0] != "cutParent" {
			continue
		}
		n++
		key := fmt.Sprintf("%s/store(cutParent)", fname(s.fn))
		desc := "the cut barrier of a promise is set only at construction and cleared only by the trampoline"
		switch {
		case freshAlloc(s.base):
			ctors[s.fn] = true
			r.ok(rule, key, c.at(s.store), desc, "store into a promise allocated by this constructor", true)
		case s.fn == tr && isNilConst(s.store.Val):
			r.ok(rule, key, c.at(s.store), desc, "the trampoline clears the barrier after applying it", true)
		default:
			r.bad(rule, key, c.at(s.store), desc, "an existing promise gets a different cut barrier: cut would prune a different set of choice points")
		}
	}
	// call sites of the cut constructor(s)
	for ctor := range ctors {
		pidx := -1
		for i, p := range ctor.Params {
			if c.isPromisePtr(p.Type()) {
				pidx = i
			}
		}
		if pidx < 0 {
			r.undecided(rule, fname(ctor)+"/param", c.Pos(ctor.Pos()), "locate the barrier parameter of the cut constructor", "no *Promise parameter")
			continue
		}
		if c.usedAsValue(ctor) {
			r.bad(rule, fname(ctor)+"/value", c.Pos(ctor.Pos()), "cut constructor is only called directly", "used as a function value")
		}
		for _, cs := range c.callSitesOf(ctor) {
			top := topFunc(cs.Parent())
			arg := cs.Common().Args[pidx]
			key := fmt.Sprintf("%s/call %s", fname(cs.Parent()), ctor.Name())
			desc := "a cut is tagged with the barrier of the clause activation it belongs to"
			leaves := c.originSet(arg)
			// (i) the enclosing top-level function's own *Promise parameter, threaded
			allParam := len(leaves) > 0
			for _, l := range leaves {
				p, ok := l.(*ssa.Parameter)
				if !ok || p.Parent() != top || !c.isPromisePtr(p.Type()) {
					allParam = false
				}
			}
			if allParam {
				r.ok(rule, key, c.at(cs), desc, "barrier argument is the enclosing function's own *Promise parameter", true)
				continue
			}
			// (ii) the promise the enclosing top-level function itself returns
			if subsetLeaves(leaves, c.returnedLeaves(top, 0)) {
				r.ok(rule, key, c.at(cs), desc, "barrier argument is the promise that "+top.Name()+" itself returns (same origin)", true)
				continue
			}
			r.bad(rule, key, c.at(cs), desc, "barrier argument is neither the activation's own barrier parameter nor the promise returned by "+top.Name())
		}
	}
	r.analysed(rule, fmt.Sprintf("%d stores to Promise.cutParent, %d constructors", n, len(ctors)))
}

func ruleCutParent(c *Ctx, r *Report) {
	const rule = "R-CUT-PARENT"
	exec := c.method("VM", "exec")
	if exec == nil {
		r.undecided(rule, "anchor:exec", "-", "locate the bytecode interpreter", "not found")
		return
	}
	pidx := -1
	for i, p := range exec.Params {
		if c.isPromisePtr(p.Type()) {
			pidx = i
		}
	}
	if pidx < 0 {
		r.undecided(rule, "anchor:exec.cutParent", c.Pos(exec.Pos()), "locate the barrier parameter of exec", "not found")
		return
	}
	n := 0
	for _, fn := range c.LibFuncs() {
		if topFunc(fn) == exec {
			continue // recursion inside exec: R-PARAM-THREAD
		}
		eachInstr(fn, func(in ssa.Instruction) {
			ci, ok := in.(ssa.CallInstruction)
			if !ok || ci.Common().StaticCallee() != exec {
				return
			}
			n++
			top := topFunc(fn)
			key := fmt.Sprintf("%s/call exec.cutParent", fname(fn))
			desc := "each clause alternative runs with cutParent = the promise holding this call's alternatives"
			leaves := c.originSet(ci.Common().Args[pidx])
			ret := c.returnedLeaves(top, 0)
			if subsetLeaves(leaves, ret) {
				r.ok(rule, key, c.at(ci), desc, fmt.Sprintf("argument and the value returned by %s have the same origin (%s)", top.Name(), valName(leaves[0])), true)
			} else {
				r.bad(rule, key, c.at(ci), desc, "the barrier handed to the clause body is not the promise returned for this call: cut would remove too many or too few alternatives")
			}
		})
	}
	r.analysed(rule, fmt.Sprintf("%d entries into exec from outside exec", n))
}

func typeMentions(t types.Type, pred func(types.Type) bool, seen map[types.Type]bool) bool {
	if seen[t] {
		return false
	}
	seen[t] = true
	if pred(t) {
		return true
	}
	switch u := t.(type) {
	case *types.Named:
		if _, isStruct := u.Underlying().(*types.Struct); isStruct && seen[nil] {
			return false // shallow mode: named structs are examined field by field elsewhere
		}
		return typeMentions(u.Underlying(), pred, seen)
	case *types.Pointer:
		return typeMentions(u.Elem(), pred, seen)
	case *types.Slice:
		return typeMentions(u.Elem(), pred, seen)
	case *types.Array:
		return typeMentions(u.Elem(), pred, seen)
	case *types.Map:
		return typeMentions(u.Key(), pred, seen) || typeMentions(u.Elem(), pred, seen)
	case *types.Chan:
		return typeMentions(u.Elem(), pred, seen)
	case *types.Struct:
		for i := 0; i < u.NumFields(); i++ {
			if typeMentions(u.Field(i).Type(), pred, seen) {
				return true
			}
		}
	case *types.Signature:
		for i := 0; i < u.Params().Len(); i++ {
			if typeMentions(u.Params().At(i).Type(), pred, seen) {
				return true
			}
		}
	}
	return false
}

func ruleCutLocal(c *Ctx, r *Report) {
	const rule = "R-CUT-LOCAL"
	isProm := func(t types.Type) bool { return c.isPromisePtr(t) }
	desc := "a callee cannot see its caller's cut barrier (no *Promise travels into a predicate call)"
	// procedure.call
	if proc := c.engType("procedure"); proc != nil {
		iface := proc.Underlying().(*types.Interface)
		for i := 0; i < iface.NumMethods(); i++ {
			m := iface.Method(i)
			sig := m.Type().(*types.Signature)
			bad := false
			for j := 0; j < sig.Params().Len(); j++ {
				if typeMentions(sig.Params().At(j).Type(), isProm, map[types.Type]bool{nil: true}) && !c.isContType(sig.Params().At(j).Type()) {
					bad = true
				}
			}
			key := "procedure." + m.Name() + "/params"
			if bad {
				r.bad(rule, key, c.Pos(m.Pos()), desc, "the procedure interface takes a *Promise parameter")
			} else {
				r.ok(rule, key, c.Pos(m.Pos()), desc, "no parameter of the procedure interface is or contains a *Promise", false)
			}
		}
	} else {
		r.undecided(rule, "anchor:procedure", "-", desc, "interface procedure not found")
	}
	// Cont
	if ct := c.engType("Cont"); ct != nil {
		sig, _ := ct.Underlying().(*types.Signature)
		bad := false
		for j := 0; sig != nil && j < sig.Params().Len(); j++ {
			if typeMentions(sig.Params().At(j).Type(), isProm, map[types.Type]bool{nil: true}) {
				bad = true
			}
		}
		if bad {
			r.bad(rule, "Cont/params", c.Pos(ct.Obj().Pos()), desc, "the continuation type takes a *Promise")
		} else {
			r.ok(rule, "Cont/params", c.Pos(ct.Obj().Pos()), desc, "Cont takes only the environment", false)
		}
	}
	// VM fields, Env fields
	for _, tn := range []string{"VM", "Env"} {
		t := c.engType(tn)
		if t == nil {
			continue
		}
		st := t.Underlying().(*types.Struct)
		for i := 0; i < st.NumFields(); i++ {
			f := st.Field(i)
			key := tn + "." + f.Name()
			if _, isFunc := f.Type().Underlying().(*types.Signature); isFunc {
				continue // callback fields: their parameter types are not state
			}
			if typeMentions(f.Type(), isProm, map[types.Type]bool{nil: true}) {
				r.bad(rule, key, c.Pos(f.Pos()), desc, "a field of "+tn+" can hold a *Promise: the barrier could be shared between calls")
			}
		}
		r.ok(rule, tn+"/fields", c.Pos(t.Obj().Pos()), desc, fmt.Sprintf("none of the %d fields of %s holds a *Promise", st.NumFields(), tn), false)
	}
	r.analysed(rule, "procedure interface, Cont, VM and Env field types")
}

// ---------------------------------------------------------------------------
// R-BALL-COPY / R-CATCH-ENV

func ruleBallCopy(c *Ctx, r *Report) {
	const rule = "R-BALL-COPY"
	throw := c.registeredFn("throw", 1)
	errCtor := c.errorCtor()
	rc := c.fn("renamedCopy")
	if throw == nil || errCtor == nil || rc == nil {
		r.undecided(rule, "anchor", "-", "locate throw/1, the error constructor and renamedCopy", "not found")
		return
	}
	// (1) in throw/1 every raised error is an Exception built by a function that copies at construction time.
	makers := map[*ssa.Function]bool{}
	n := 0
	for _, f := range withAnon(throw) {
		eachInstr(f, func(in ssa.Instruction) {
			call, ok := in.(*ssa.Call)
			if !ok || call.Call.StaticCallee() != errCtor {
				return
			}
			n++
			key := fmt.Sprintf("%s/raise[%d]", fname(f), n)
			desc := "the ball raised by throw/1 is an Exception made at throw time"
			good := true
			for _, l := range c.originSet(call.Call.Args[0]) {
				cl, _ := callOfValue(l)
				if cl == nil || cl.Call.StaticCallee() == nil || !isEngNamed(cl.Call.StaticCallee().Signature.Results().At(0).Type(), "Exception") {
					good = false
					continue
				}
				makers[cl.Call.StaticCallee()] = true
				// the environment handed over must be throw's own
				for _, a := range cl.Call.Args {
					if !c.isEnvPtr(a.Type()) {
						continue
					}
					for _, el := range c.originSet(a) {
						if p, ok := el.(*ssa.Parameter); !ok || p.Parent() != throw {
							good = false
						}
					}
				}
			}
			if good {
				r.ok(rule, key, c.at(call), desc, "argument is the result of an Exception constructor called with throw's own environment", true)
			} else {
				r.bad(rule, key, c.at(call), desc, "the error value is not produced by an Exception constructor with the current environment: the ball would not be instantiated and copied before unwinding drops the bindings")
			}
		})
	}
	// (2) every composite Exception{term: X} in the library: X is a renamed copy, or a term built from atoms in place.
	ncomp := 0
	for _, fn := range c.LibFuncs() {
		eachInstr(fn, func(in ssa.Instruction) {
			st, ok := in.(*ssa.Store)
			if !ok {
				return
			}
			fa, ok := st.Addr.(*ssa.FieldAddr)
			if !ok || !isEngNamed(fa.X.Type(), "Exception") || fieldName(fa) != "term" {
				return
			}
			ncomp++
			key := fmt.Sprintf("%s/Exception{term}", fname(fn))
			desc := "an Exception's term is a renamed copy taken when the exception is created"
			kinds := map[string]bool{}
			for _, l := range c.originSet(st.Val) {
				cl, idx := callOfValue(l)
				switch {
				case cl != nil && cl.Call.StaticCallee() == rc && idx == 0:
					kinds["copy"] = true
				case cl != nil && cl.Call.StaticCallee() != nil && cl.Call.StaticCallee().Name() == "Apply":
					kinds["built"] = true
				default:
					kinds["other:"+valName(l)] = true
				}
			}
			var ks []string
			for k := range kinds {
				ks = append(ks, k)
			}
			sort.Strings(ks)
			switch {
			case len(ks) == 1 && ks[0] == "copy":
				r.ok(rule, key, c.at(st), desc, "term originates from renamedCopy(…)#0", true)
			case len(ks) == 1 && ks[0] == "built":
				r.ok(rule, key, c.at(st), desc, "term is a compound built in place by Atom.Apply (system/resource error: copying could itself fail)", true)
			default:
				r.bad(rule, key, c.at(st), desc, "term may be "+strings.Join(ks, ",")+": bindings made before the throw would be lost when the handler's older environment is used")
			}
		})
	}
	// (3) the constructor used by throw copies under the environment it is given
	for mk := range makers {
		eachInstr(mk, func(in ssa.Instruction) {
			call, ok := in.(*ssa.Call)
			if !ok || call.Call.StaticCallee() != rc {
				return
			}
			key := fmt.Sprintf("%s/renamedCopy-args", fname(mk))
			good := true
			for i, a := range call.Call.Args {
				if c.isEnvPtr(a.Type()) || i == 0 {
					for _, l := range c.originSet(a) {
						if p, ok := l.(*ssa.Parameter); !ok || p.Parent() != mk {
							good = false
						}
					}
				}
			}
			if good {
				r.ok(rule, key, c.at(call), "the copy is taken of the given term under the given environment", "term and env arguments are the constructor's own parameters", true)
			} else {
				r.bad(rule, key, c.at(call), "the copy is taken of the given term under the given environment", "an argument is not the constructor's parameter")
			}
		})
	}
	r.analysed(rule, fmt.Sprintf("%d raise sites in throw/1, %d Exception composites", n, ncomp))
}

func ruleCatchEnv(c *Ctx, r *Report) {
	const rule = "R-CATCH-ENV"
	catchFn := c.registeredFn("catch", 3)
	if catchFn == nil {
		r.undecided(rule, "anchor:catch/3", "-", "locate catch/3", "not registered")
		return
	}
	envParams := paramsWhere(catchFn, c.isEnvPtr)
	if len(envParams) != 1 {
		r.undecided(rule, "anchor:env", c.Pos(catchFn.Pos()), "locate the environment parameter of catch/3", "not unique")
		return
	}
	envP := envParams[0]
	unify := c.method("Env", "Unify")
	callFn := c.registeredFn("call", 1)
	// the recover callback: the closure of type func(error) *Promise created in catch/3
	var handler *ssa.Function
	for _, a := range catchFn.AnonFuncs {
		sig := a.Signature
		if sig.Params().Len() == 1 && isErrorType(sig.Params().At(0).Type()) && sig.Results().Len() == 1 && c.isPromisePtr(sig.Results().At(0).Type()) {
			handler = a
		}
	}
	if handler == nil || unify == nil || callFn == nil {
		r.undecided(rule, "anchor:handler", c.Pos(catchFn.Pos()), "locate the recover callback of catch/3, Env.Unify and call/1", "not found")
		return
	}
	var unifyCall *ssa.Call
	eachInstr(handler, func(in ssa.Instruction) {
		call, ok := in.(*ssa.Call)
		if !ok {
			return
		}
		switch call.Call.StaticCallee() {
		case unify:
			unifyCall = call
			key := fname(handler) + "/catcher-unify.env"
			desc := "the catcher is unified under the environment catch/3 was called with (later bindings are dropped)"
			good := true
			for _, l := range c.originSet(call.Call.Args[0]) {
				if l != ssa.Value(envP) {
					good = false
				}
			}
			if good {
				r.ok(rule, key, c.at(call), desc, "receiver originates only from catch/3's env parameter", true)
			} else {
				r.bad(rule, key, c.at(call), desc, "receiver is not the call-time environment")
			}
		case callFn:
			key := fname(handler) + "/recovery.env"
			desc := "Recovery runs under the call-time environment extended by the catcher unification only"
			good := unifyCall != nil
			for i, a := range call.Call.Args {
				if !c.isEnvPtr(a.Type()) {
					continue
				}
				_ = i
				for _, l := range c.originSet(a) {
					ex, ok := l.(*ssa.Extract)
					if !ok || ex.Tuple != ssa.Value(unifyCall) || ex.Index != 0 {
						good = false
					}
				}
			}
			if good {
				r.ok(rule, key, c.at(call), desc, "env argument is result #0 of the catcher unification", true)
			} else {
				r.bad(rule, key, c.at(call), desc, "env argument is not the result of the catcher unification")
			}
		}
	})
	// type-level: nothing later can be smuggled in
	if ex := c.engType("Exception"); ex != nil {
		st := ex.Underlying().(*types.Struct)
		bad := false
		for i := 0; i < st.NumFields(); i++ {
			if typeMentions(st.Field(i).Type(), c.isEnvPtr, map[types.Type]bool{}) {
				bad = true
			}
		}
		if bad {
			r.bad(rule, "Exception/fields", c.Pos(ex.Obj().Pos()), "an exception carries no environment", "Exception has an *Env field")
		} else {
			r.ok(rule, "Exception/fields", c.Pos(ex.Obj().Pos()), "an exception carries no environment", "no field of Exception holds an *Env", false)
		}
	}
	r.analysed(rule, fname(catchFn), fname(handler))
}

// ---------------------------------------------------------------------------
// R-COPY-ON-COLLECT / R-OUTER-ENV

func ruleCopyOnCollect(c *Ctx, r *Report) {
	const rule = "R-COPY-ON-COLLECT"
	findall := c.registeredFn("findall", 3)
	rc := c.fn("renamedCopy")
	if findall == nil || rc == nil {
		r.undecided(rule, "anchor", "-", "locate findall/3 and renamedCopy", "not found")
		return
	}
	n := 0
	for _, f := range withAnon(findall) {
		eachInstr(f, func(in ssa.Instruction) {
			call, ok := in.(*ssa.Call)
			if !ok || call.Call.StaticCallee() != rc {
				return
			}
			n++
			key := fmt.Sprintf("%s/renamedCopy", fname(f))
			desc := "each collected instance is a renamed copy of the template under the environment of that solution"
			// arg0: template parameter of findall; env arg: parameter of the enclosing continuation closure
			good, why := true, ""
			for _, l := range c.originSet(call.Call.Args[0]) {
				if p, ok := l.(*ssa.Parameter); !ok || p.Parent() != findall {
					good, why = false, "copied term is not findall's template parameter"
				}
			}
			for _, a := range call.Call.Args {
				if !c.isEnvPtr(a.Type()) {
					continue
				}
				for _, l := range c.originSet(a) {
					if p, ok := l.(*ssa.Parameter); !ok || p.Parent() != f || f == findall {
						good, why = false, "environment is not the solution environment handed to the continuation (it is "+valName(l)+"): the template would be copied without the solution's bindings"
					}
				}
			}
			// the copy must reach the answer list: result #0 is stored (into the variadic array of append)
			stored := false
			for _, ref := range *call.Referrers() {
				ex, ok := ref.(*ssa.Extract)
				if !ok || ex.Index != 0 {
					continue
				}
				for _, r2 := range *ex.Referrers() {
					if _, ok := r2.(*ssa.Store); ok {
						stored = true
					}
				}
			}
			if !stored {
				good, why = false, "the copy is not stored into the answer list"
			}
			if good {
				r.ok(rule, key, c.at(call), desc, "renamedCopy(template, _, solutionEnv)#0 is appended", true)
			} else {
				r.bad(rule, key, c.at(call), desc, why)
			}
		})
	}
	if n == 0 {
		r.bad(rule, fname(findall)+"/no-copy", c.Pos(findall.Pos()), "each collected instance is a renamed copy", "findall/3 does not call renamedCopy at all")
	}
	r.analysed(rule, fname(findall))
}

// ruleOuterEnv: in every function that runs a nested trampoline on behalf of a builtin (a thunk that
// forces), the continuation is resumed with the builtin's own environment parameter.
func ruleOuterEnv(c *Ctx, r *Report) {
	const rule = "R-OUTER-ENV"
	n := 0
	for _, fc := range c.forceCalls() {
		f := fc.Parent()
		top := topFunc(f)
		ks := paramsWhere(top, c.isContType)
		envs := paramsWhere(top, c.isEnvPtr)
		if len(ks) != 1 || len(envs) != 1 || f == top {
			continue // not a builtin thunk with (k, env)
		}
		k, envP := ks[0], envs[0]
		eachInstr(f, func(in ssa.Instruction) {
			call, ok := in.(*ssa.Call)
			if !ok {
				return
			}
			resumes := false
			if c.isContType(call.Call.Value.Type()) && !call.Call.IsInvoke() {
				if ok, _ := c.comesOnlyFrom(call.Call.Value, func(l ssa.Value) bool { return l == ssa.Value(k) }); ok {
					resumes = true
				}
			}
			for _, a := range call.Call.Args {
				if c.isContType(a.Type()) {
					if ok, _ := c.comesOnlyFrom(a, func(l ssa.Value) bool { return l == ssa.Value(k) }); ok {
						resumes = true
					}
				}
			}
			if !resumes {
				return
			}
			n++
			key := fmt.Sprintf("%s/resume[%d].env", fname(f), n)
			desc := "after the nested search the builtin continues with its own (outer) environment: no binding of the goal leaks"
			good := true
			var badv ssa.Value
			for _, a := range call.Call.Args {
				if !c.isEnvPtr(a.Type()) {
					continue
				}
				for _, l := range c.originSet(a) {
					if l != ssa.Value(envP) {
						good, badv = false, l
					}
				}
			}
			if good {
				r.ok(rule, key, c.at(call), desc, "env argument originates only from "+top.Name()+"'s env parameter", true)
			} else {
				r.bad(rule, key, c.at(call), desc, "env argument may be "+valName(badv)+": bindings made inside the nested goal would survive")
			}
		})
	}
	r.analysed(rule, fmt.Sprintf("%d trampoline calls examined", len(c.forceCalls())))
}

// ---------------------------------------------------------------------------
// R-FORCE-CTX / R-POLL-IN-LOOP

func (c *Ctx) isCtxBackground(v ssa.Value) bool {
	call, ok := v.(*ssa.Call)
	if !ok {
		return false
	}
	f := call.Call.StaticCallee()
	return f != nil && f.Pkg != nil && f.Pkg.Pkg.Path() == "context" && (f.Name() == "Background" || f.Name() == "TODO")
}

func ruleForceCtx(c *Ctx, r *Report) {
	const rule = "R-FORCE-CTX"
	calls := c.forceCalls()
	for i, fc := range calls {
		f := fc.Parent()
		key := fmt.Sprintf("%s/Force[%d]", fname(f), idxInFn(calls, i))
		desc := "a nested trampoline runs under the caller's context, so cancellation reaches it"
		ctxArg := fc.Call.Args[1]
		own := paramsWhere(f, isContextType)
		good, why := true, ""
		for _, l := range c.originSet(ctxArg) {
			p, isParam := l.(*ssa.Parameter)
			switch {
			case isParam && isContextType(p.Type()) && (len(own) == 0 || p.Parent() == f):
				// the enclosing function's own ctx, or (when it has none) a captured ctx parameter
			case isParam && isContextType(p.Type()):
				good, why = false, "uses a captured context instead of the thunk's own context parameter"
			case c.isCtxBackground(l):
				if ok, reason := c.forcedIsBounded(fc); ok {
					why = "fresh context accepted: " + reason
				} else {
					good, why = false, "forces with a fresh context.Background()/TODO(): the goal run here cannot be cancelled ("+reason+")"
				}
			default:
				good, why = false, "context argument originates from "+valName(l)
			}
		}
		if good {
			if why == "" {
				why = "context argument is the enclosing function's context parameter"
			}
			r.ok(rule, key, c.at(fc), desc, why, true)
		} else {
			r.bad(rule, key, c.at(fc), desc, why)
		}
	}
	r.analysed(rule, fmt.Sprintf("%d calls of the trampoline", len(calls)))
}

func idxInFn(calls []*ssa.Call, i int) int {
	n := 0
	for j := 0; j <= i; j++ {
		if calls[j].Parent() == calls[i].Parent() {
			n++
		}
	}
	return n
}

// forcedIsBounded: the forced promise is the direct result of a static call whose continuation argument
// is a plain function, and from which no thunk constructor and no predicate entry is reachable when the
// callee's use of its continuation parameter is bound to that function.
func (c *Ctx) forcedIsBounded(fc *ssa.Call) (bool, string) {
	recv, ok := fc.Call.Args[0].(*ssa.Call)
	if !ok || recv.Call.StaticCallee() == nil {
		return false, "forced promise is not the direct result of a static call"
	}
	callee := recv.Call.StaticCallee()
	var contFn *ssa.Function
	for _, a := range recv.Call.Args {
		if !c.isContType(a.Type()) {
			continue
		}
		v := a
		if ct, ok := v.(*ssa.ChangeType); ok {
			v = ct.X
		}
		f, ok := v.(*ssa.Function)
		if !ok {
			return false, "continuation is not a constant function"
		}
		contFn = f
	}
	if contFn == nil {
		return false, "no continuation argument"
	}
	bad := map[*ssa.Function]bool{}
	for _, t := range c.thunkCtors() {
		bad[t] = true
	}
	if a := c.method("VM", "Arrive"); a != nil {
		bad[a] = true
	}
	seen := map[*ssa.Function]bool{}
	var hit *ssa.Function
	var visit func(f *ssa.Function)
	visit = func(f *ssa.Function) {
		if f == nil || seen[f] || hit != nil {
			return
		}
		seen[f] = true
		if bad[f] {
			hit = f
			return
		}
		if !c.isLibPkg(funcPkg(f)) {
			return
		}
		for _, g := range withAnon(f)[1:] {
			visit(g)
		}
		eachInstr(f, func(in ssa.Instruction) {
			ci, ok := in.(ssa.CallInstruction)
			if !ok {
				return
			}
			// a call through a Cont-typed value is bound to the constant continuation
			if !ci.Common().IsInvoke() && c.isContType(ci.Common().Value.Type()) {
				visit(contFn)
				return
			}
			for _, g := range c.callees(ci) {
				visit(g)
			}
		})
	}
	visit(callee)
	if hit != nil {
		return false, callee.Name() + " can reach " + hit.Name()
	}
	return true, fmt.Sprintf("%s called with the constant continuation %s reaches no thunk constructor and no predicate entry (%d functions examined)", callee.Name(), contFn.Name(), len(seen))
}

func rulePollInLoop(c *Ctx, r *Report) {
	const rule = "R-POLL-IN-LOOP"
	tr := c.trampoline()
	if tr == nil {
		r.undecided(rule, "anchor:trampoline", "-", "locate the trampoline", "not found")
		return
	}
	ctxs := paramsWhere(tr, isContextType)
	var sel *ssa.Select
	eachInstr(tr, func(in ssa.Instruction) {
		s, ok := in.(*ssa.Select)
		if !ok {
			return
		}
		for _, st := range s.States {
			if st.Dir != types.RecvOnly {
				continue
			}
			if call, ok := st.Chan.(*ssa.Call); ok && call.Call.IsInvoke() && call.Call.Method.Name() == "Done" && len(ctxs) == 1 && call.Call.Value == ssa.Value(ctxs[0]) {
				sel = s
			}
		}
	})
	key := fname(tr) + "/poll"
	if sel == nil {
		r.bad(rule, key, c.Pos(tr.Pos()), "the trampoline polls ctx.Done()", "no select on the Done channel of the context parameter")
		return
	}
	if sel.Blocking {
		r.bad(rule, key, c.at(sel), "the poll does not block", "the select has no default case")
	} else {
		r.ok(rule, key, c.at(sel), "the trampoline polls ctx.Done() without blocking", "select with default on ctx.Done() of the context parameter", false)
	}
	// every cycle of the CFG passes through the select's block
	sb := sel.Block()
	cyc := cycleAvoiding(tr, sb)
	if cyc == nil {
		r.ok(rule, fname(tr)+"/cycles", c.at(sel), "every cycle of the trampoline passes through the poll", "the control-flow graph minus the polling block is acyclic", true)
	} else {
		r.bad(rule, fname(tr)+"/cycles", c.at(cyc.Instrs[0]), "every cycle of the trampoline passes through the poll", fmt.Sprintf("block %d lies on a cycle that avoids the poll: steps could run without ever observing cancellation", cyc.Index))
	}
	// the Done branch returns the context's error
	retOK := false
	eachInstr(tr, func(in ssa.Instruction) {
		ret, ok := in.(*ssa.Return)
		if !ok || len(ret.Results) < 2 {
			return
		}
		if call, ok := ret.Results[1].(*ssa.Call); ok && call.Call.IsInvoke() && call.Call.Method.Name() == "Err" && call.Call.Value == ssa.Value(ctxs[0]) {
			retOK = true
		}
	})
	if retOK {
		r.ok(rule, fname(tr)+"/err", c.at(sel), "cancellation is reported as the context's error", "a return yields ctx.Err()", false)
	} else {
		r.bad(rule, fname(tr)+"/err", c.at(sel), "cancellation is reported as the context's error", "no return yields ctx.Err()")
	}
	r.analysed(rule, fname(tr))
}

// cycleAvoiding returns a block on a CFG cycle that does not pass through `avoid`, or nil.
func cycleAvoiding(fn *ssa.Function, avoid *ssa.BasicBlock) *ssa.BasicBlock {
	color := map[*ssa.BasicBlock]int{}
	var found *ssa.BasicBlock
	var dfs func(b *ssa.BasicBlock)
	dfs = func(b *ssa.BasicBlock) {
		color[b] = 1
		for _, s := range b.Succs {
			if s == avoid || found != nil {
				continue
			}
			switch color[s] {
			case 0:
				dfs(s)
			case 1:
				found = s
			}
		}
		color[b] = 2
	}
	for _, b := range blocksOf(fn) {
		if b != avoid && color[b] == 0 {
			dfs(b)
		}
	}
	return found
}

// ---------------------------------------------------------------------------
// R-FRESH-VARS (C01): every clause activation gets its own, freshly numbered variable frame.

func ruleFreshVars(c *Ctx, r *Report) {
	const rule = "R-FRESH-VARS"
	exec := c.method("VM", "exec")
	newVar := c.fn("NewVariable")
	if exec == nil || newVar == nil {
		r.undecided(rule, "anchor", "-", "locate exec and NewVariable", "not found")
		return
	}
	vidx := -1
	for i, p := range exec.Params {
		if sl, ok := p.Type().Underlying().(*types.Slice); ok && isEngNamed(sl.Elem(), "Variable") {
			vidx = i
		}
	}
	if vidx < 0 {
		r.undecided(rule, "anchor:exec.vars", c.Pos(exec.Pos()), "locate the variable-frame parameter of exec", "no []Variable parameter")
		return
	}
	n := 0
	for _, fn := range c.LibFuncs() {
		if topFunc(fn) == exec {
			continue
		}
		eachInstr(fn, func(in ssa.Instruction) {
			ci, ok := in.(ssa.CallInstruction)
			if !ok || ci.Common().StaticCallee() != exec {
				return
			}
			n++
			key := fmt.Sprintf("%s/exec.vars", fname(fn))
			desc := "the variable frame handed to a clause body is allocated by the alternative itself (once per activation) and filled with new variables"
			var ms *ssa.MakeSlice
			good := true
			why := ""
			var leaves []ssa.Value
			aliases := map[ssa.Value]bool{}
			var expand func(v ssa.Value)
			expand = func(v ssa.Value) {
				for _, l := range c.originSet(v) {
					aliases[l] = true
					if sl, ok := l.(*ssa.Slice); ok {
						expand(sl.X) // re-slicing keeps the backing array
						continue
					}
					leaves = append(leaves, l)
				}
			}
			expand(ci.Common().Args[vidx])
			for _, l := range leaves {
				m, ok := l.(*ssa.MakeSlice)
				if !ok {
					good, why = false, "frame originates from "+valName(l)+", not from an allocation"
					continue
				}
				if m.Parent() != fn {
					good, why = false, "frame is allocated in "+fname(m.Parent())+" and shared by every activation that runs this alternative"
				}
				ms = m
			}
			if good && ms != nil {
				// the alternative must be a delayed thunk (runs per activation), and every element store is a new variable
				if fn.Parent() == nil {
					good, why = false, "frame is allocated when the call is set up, not when the alternative is tried"
				}
				stores := 0
				var refs []ssa.Instruction
				for al := range aliases {
					if al.Referrers() != nil {
						refs = append(refs, *al.Referrers()...)
					}
				}
				// loads of the local variable holding the frame are aliases too
				eachInstr(fn, func(in2 ssa.Instruction) {
					if ia, ok := in2.(*ssa.IndexAddr); ok {
						if ok2, _ := c.comesOnlyFrom(ia.X, func(l ssa.Value) bool { return aliases[l] }); ok2 {
							refs = append(refs, ia)
						}
					}
				})
				for _, ref := range refs {
					ia, ok := ref.(*ssa.IndexAddr)
					if !ok {
						continue
					}
					for _, r2 := range *ia.Referrers() {
						st, ok := r2.(*ssa.Store)
						if !ok {
							continue
						}
						stores++
						if call, ok := st.Val.(*ssa.Call); !ok || call.Call.StaticCallee() != newVar {
							good, why = false, "an element of the frame is not a NewVariable() result"
						}
					}
				}
				if stores == 0 {
					good, why = false, "the frame is never filled with variables"
				}
			}
			if good {
				r.ok(rule, key, c.at(ci), desc, "make([]Variable, …) inside the alternative, each element = NewVariable()", true)
			} else {
				r.bad(rule, key, c.at(ci), desc, why+": bindings of one activation would be visible in another (recursion, re-entry on backtracking)")
			}
		})
	}
	r.analysed(rule, fmt.Sprintf("%d entries into exec from outside exec", n))
}

// ---------------------------------------------------------------------------
// R-POP-INCLUSIVE (C03): applying a cut pops the choice-point stack down to and including the barrier.

func rulePopInclusive(c *Ctx, r *Report) {
	const rule = "R-POP-INCLUSIVE"
	tr := c.trampoline()
	if tr == nil {
		r.undecided(rule, "anchor:trampoline", "-", "locate the trampoline", "not found")
		return
	}
	// the function the trampoline calls with the promise's cutParent
	var popUntil *ssa.Function
	var site *ssa.Call
	eachInstr(tr, func(in ssa.Instruction) {
		call, ok := in.(*ssa.Call)
		if !ok || call.Call.StaticCallee() == nil {
			return
		}
		for _, a := range call.Call.Args {
			if _, ok := loadsField(a, "Promise", "cutParent"); ok {
				popUntil, site = call.Call.StaticCallee(), call
			}
		}
	})
	if popUntil == nil {
		r.bad(rule, fname(tr)+"/apply-cut", c.Pos(tr.Pos()), "the trampoline applies a cut by pruning the stack down to the barrier", "no call taking p.cutParent found in the trampoline")
		return
	}
	// the cut is applied only when a barrier is set, before the child is expanded
	if boolOrNilFact(c, site.Block(), "Promise", "cutParent", false) {
		r.ok(rule, fname(tr)+"/apply-cut", c.at(site), "the trampoline applies a cut by pruning the stack down to the barrier", "called with p.cutParent under p.cutParent != nil", true)
	} else {
		r.bad(rule, fname(tr)+"/apply-cut", c.at(site), "the trampoline applies a cut by pruning the stack down to the barrier", "not guarded by p.cutParent != nil")
	}
	// inside: the only comparison with the barrier is on a popped element, and equality leaves the loop
	var barrier *ssa.Parameter
	for _, p := range popUntil.Params {
		if c.isPromisePtr(p.Type()) {
			barrier = p
		}
	}
	pop := c.method("promiseStack", "pop")
	key := fname(popUntil) + "/until"
	desc := "frames are popped until the popped frame IS the barrier (the barrier's own remaining alternatives go too)"
	if barrier == nil {
		r.undecided(rule, key, c.Pos(popUntil.Pos()), desc, "no *Promise parameter")
		return
	}
	found := false
	eachInstr(popUntil, func(in ssa.Instruction) {
		bo, ok := in.(*ssa.BinOp)
		if !ok || (bo.Op != token.EQL && bo.Op != token.NEQ) {
			return
		}
		var other ssa.Value
		switch {
		case bo.X == ssa.Value(barrier):
			other = bo.Y
		case bo.Y == ssa.Value(barrier):
			other = bo.X
		default:
			return
		}
		found = true
		call, isCall := other.(*ssa.Call)
		popped := isCall && call.Call.StaticCallee() != nil && (call.Call.StaticCallee() == pop || strings.Contains(call.Call.StaticCallee().Name(), "pop"))
		// the equal edge must leave the loop (reach a return without another pop)
		var ifb *ssa.BasicBlock
		for _, ref := range *bo.Referrers() {
			if i, ok := ref.(*ssa.If); ok {
				ifb = i.Block()
			}
		}
		exits := false
		if ifb != nil {
			eqSucc := ifb.Succs[0]
			if bo.Op == token.NEQ {
				eqSucc = ifb.Succs[1]
			}
			// from eqSucc no further pop call is reachable
			reachesPop := false
			seen := map[*ssa.BasicBlock]bool{}
			st := []*ssa.BasicBlock{eqSucc}
			for len(st) > 0 {
				b := st[len(st)-1]
				st = st[:len(st)-1]
				if seen[b] {
					continue
				}
				seen[b] = true
				for _, i2 := range b.Instrs {
					if c2, ok := i2.(*ssa.Call); ok && c2.Call.StaticCallee() != nil && strings.Contains(c2.Call.StaticCallee().Name(), "pop") {
						reachesPop = true
					}
				}
				st = append(st, b.Succs...)
			}
			exits = !reachesPop
		}
		switch {
		case !popped:
			r.bad(rule, key, c.at(bo), desc, "the barrier is compared with something that was not popped (peek): the barrier frame itself stays on the stack and its remaining clauses are still tried after the cut")
		case !exits:
			r.bad(rule, key, c.at(bo), desc, "finding the barrier does not stop the popping: older choice points are removed as well")
		default:
			r.ok(rule, key, c.at(bo), desc, "compares pop() with the barrier and stops on equality", true)
		}
	})
	if !found {
		r.bad(rule, key, c.Pos(popUntil.Pos()), desc, "the barrier parameter is never compared with a frame")
	}
	r.analysed(rule, fname(tr), fname(popUntil))
}

// boolOrNilFact: facts at b contain load(<x>.typ.field) != nil (wantNil=false) or == nil (wantNil=true).
func boolOrNilFact(c *Ctx, b *ssa.BasicBlock, typ, field string, wantNil bool) bool {
	for f := range c.factsAt(b) {
		x, op, ok := nilCmp(f.cond)
		if !ok {
			continue
		}
		if _, ok := loadsField(x, typ, field); !ok {
			continue
		}
		isNil := (op == token.EQL) == f.pol
		if isNil == wantNil {
			return true
		}
	}
	return false
}

// ---------------------------------------------------------------------------
// R-REGS-RESET (added after seed C01): the continuation that resumes a clause body after a call starts
// with empty argument registers; it never re-uses (re-slices) the caller's argument buffer.

func ruleRegsReset(c *Ctx, r *Report) {
	const rule = "R-REGS-RESET"
	exec := c.method("VM", "exec")
	if exec == nil {
		r.undecided(rule, "anchor:exec", "-", "locate exec", "not found")
		return
	}
	var regIdx []int
	for i, p := range exec.Params {
		switch t := p.Type().Underlying().(type) {
		case *types.Slice:
			if isEngNamed(t.Elem(), "Term") {
				regIdx = append(regIdx, i) // args
			}
			if s2, ok := t.Elem().Underlying().(*types.Slice); ok && isEngNamed(s2.Elem(), "Term") {
				regIdx = append(regIdx, i) // astack
			}
		}
	}
	if len(regIdx) != 2 {
		r.undecided(rule, "anchor:registers", c.Pos(exec.Pos()), "locate the args/astack registers of exec", fmt.Sprintf("found %d", len(regIdx)))
		return
	}
	n := 0
	for _, f := range withAnon(exec)[1:] {
		if !c.isContType(f.Signature) && !(f.Signature.Params().Len() == 1 && c.isEnvPtr(f.Signature.Params().At(0).Type())) {
			continue // only continuations (func(*Env) *Promise)
		}
		eachInstr(f, func(in ssa.Instruction) {
			ci, ok := in.(ssa.CallInstruction)
			if !ok || ci.Common().StaticCallee() != exec {
				return
			}
			for _, ri := range regIdx {
				n++
				arg := ci.Common().Args[ri]
				key := fmt.Sprintf("%s/exec.%s", fname(f), exec.Params[ri].Name())
				desc := "after a call returns, the clause body continues with empty argument registers of its own"
				if isNilConst(arg) {
					r.ok(rule, key, c.at(ci), desc, "nil", false)
					continue
				}
				fresh := true
				for _, l := range c.originSet(arg) {
					switch x := l.(type) {
					case *ssa.MakeSlice, *ssa.Const:
					case *ssa.Slice:
						// make([]T, 0, constant) is lowered to a slice of a new array
						if al, ok := x.X.(*ssa.Alloc); !ok || al.Parent() != f {
							fresh = false
						}
					default:
						fresh = false
					}
				}
				if fresh {
					r.ok(rule, key, c.at(ci), desc, "freshly allocated in the continuation", true)
				} else {
					r.bad(rule, key, c.at(ci), desc, "the register is derived from the caller's buffer ("+valName(arg)+"): goals of different activations append into the same backing array, and a pending alternative later reads another goal's argument")
				}
			}
		})
	}
	r.analysed(rule, fmt.Sprintf("%d register arguments in continuations of exec", n))
}

// ---------------------------------------------------------------------------
// R-RECOVER-WRITERS (added after seed C04): a recovery handler lives on a frame of its own, created for it;
// it is never attached to a promise that exists for another purpose (e.g. the goal's clause alternatives,
// which a cut inside the goal removes).

func ruleRecoverWriters(c *Ctx, r *Report) {
	const rule = "R-RECOVER-WRITERS"
	n := 0
	for _, s := range c.storesIntoStruct(enginePkgPath, "Promise") {
		if len(s.path) == 0 || s.path[0] != "recover" {
			continue
		}
		n++
		key := fmt.Sprintf("%s/store(recover)", fname(s.fn))
		desc := "the handler of catch/3 is installed on a dedicated frame allocated for it"
		if !freshAlloc(s.base) {
			r.bad(rule, key, c.at(s.store), desc, "the handler is attached to an existing promise ("+valName(s.base)+"): if that promise is the goal's own (its cut barrier), a cut inside Goal pops the handler, and an error promise returned for Goal is popped before the handler is consulted")
			continue
		}
		// the dedicated frame delays the protected goal: the same allocation gets exactly one delayed alternative
		delayed := false
		for _, s2 := range c.storesIntoStruct(enginePkgPath, "Promise") {
			if s2.base == s.base && len(s2.path) > 0 && s2.path[0] == "delayed" {
				delayed = true
			}
		}
		if delayed {
			r.ok(rule, key, c.at(s.store), desc, "stored into a promise allocated by the constructor together with the delayed goal", true)
		} else {
			r.bad(rule, key, c.at(s.store), desc, "the frame carrying the handler has no delayed goal: the handler would not be on the stack while the goal runs")
		}
	}
	if n == 0 {
		r.bad(rule, "Promise.recover/writers", "-", "the handler of catch/3 is installed on a dedicated frame", "no store to Promise.recover found")
	}
	r.analysed(rule, fmt.Sprintf("%d stores to Promise.recover", n))
}

// ---------------------------------------------------------------------------
// R-RESOLVE-FIRST (added after seed C11): in the witness / free-variable machinery of bagof/setof every
// inspection of a term's shape is made on env.Resolve(term), at every level of the walk.

var witnessFuncs = []string{"newVariableSet", "newExistentialVariablesSet", "newFreeVariablesSet", "variant", "iteratedGoalTerm"}

func ruleResolveFirst(c *Ctx, r *Report) {
	const rule = "R-RESOLVE-FIRST"
	resolve := c.method("Env", "Resolve")
	if resolve == nil {
		r.undecided(rule, "anchor:Resolve", "-", "locate Env.Resolve", "not found")
		return
	}
	n := 0
	for _, name := range witnessFuncs {
		fn := c.fn(name)
		if fn == nil {
			r.undecided(rule, "anchor:"+name, "-", "locate "+name, "not found")
			continue
		}
		for _, f := range withAnon(fn) {
			seenKey := map[string]int{}
			eachInstr(f, func(in ssa.Instruction) {
				ta, ok := in.(*ssa.TypeAssert)
				if !ok || !isEngNamed(ta.X.Type(), "Term") {
					return
				}
				n++
				base := fmt.Sprintf("%s/%s.(%s)", fname(f), valName(ta.X), typeName(ta.AssertedType))
				seenKey[base]++
				key := fmt.Sprintf("%s[%d]", base, seenKey[base])
				desc := "the shape of a term is inspected only after resolving it under the current environment"
				good := true
				var bad ssa.Value
				for _, l := range c.originSet(ta.X) {
					call, _ := callOfValue(l)
					if call == nil || call.Call.StaticCallee() != resolve {
						good, bad = false, l
					}
				}
				if good {
					r.ok(rule, key, c.at(ta), desc, "operand is env.Resolve(…)", true)
				} else {
					r.bad(rule, base, c.at(ta), desc, "the operand may be "+valName(bad)+" unresolved: a sub-term reached through a bound variable is taken for a variable, so ^-quantification / witnesses are computed wrongly")
				}
			})
		}
	}
	r.analysed(rule, witnessFuncs...)
}

// ---------------------------------------------------------------------------
// R-CUT-REBASE (added with fix F13): a cut pops its barrier off the stack, so the rest of the clause body
// must not keep using that barrier. The thunk handed to the cut constructor resumes the body with the
// cut's own promise (the value the constructor returns, which stays on the stack) as the new barrier.

func ruleCutRebase(c *Ctx, r *Report) {
	const rule = "R-CUT-REBASE"
	exec := c.method("VM", "exec")
	if exec == nil {
		r.undecided(rule, "anchor:exec", "-", "locate exec", "not found")
		return
	}
	pidx := -1
	for i, p := range exec.Params {
		if c.isPromisePtr(p.Type()) {
			pidx = i
		}
	}
	// cut constructors: functions whose fresh promise gets a cutParent
	ctors := map[*ssa.Function]bool{}
	for _, s := range c.storesIntoStruct(enginePkgPath, "Promise") {
		if len(s.path) > 0 && s.path[0] == "cutParent" && freshAlloc(s.base) {
			ctors[s.fn] = true
		}
	}
	n := 0
	for _, f := range withAnon(exec) {
		eachInstr(f, func(in ssa.Instruction) {
			call, ok := in.(*ssa.Call)
			if !ok || !ctors[call.Call.StaticCallee()] {
				return
			}
			// the thunk argument
			var thunk *ssa.Function
			for _, a := range call.Call.Args {
				if mc, ok := a.(*ssa.MakeClosure); ok {
					thunk = mc.Fn.(*ssa.Function)
				}
			}
			if thunk == nil {
				return
			}
			eachInstr(thunk, func(in2 ssa.Instruction) {
				ci, ok := in2.(ssa.CallInstruction)
				if !ok || ci.Common().StaticCallee() != exec || pidx < 0 {
					return
				}
				n++
				key := fmt.Sprintf("%s/exec.cutParent-after-cut", fname(thunk))
				desc := "after a cut the body continues with the cut's own promise as barrier (the old barrier has just been popped)"
				good := true
				var other ssa.Value
				for _, l := range c.originSet(ci.Common().Args[pidx]) {
					if l != ssa.Value(call) {
						good, other = false, l
					}
				}
				if good {
					r.ok(rule, key, c.at(ci), desc, "the barrier argument is the promise returned by this cut", true)
				} else {
					r.bad(rule, key, c.at(ci), desc, "the body keeps barrier "+valName(other)+", which this cut removes from the stack: a second cut in the same body does not find it and pops the whole stack (older choice points and catch frames are lost)")
				}
			})
		})
	}
	if n == 0 {
		r.bad(rule, fname(exec)+"/no-cut-thunk", c.Pos(exec.Pos()), "after a cut the body continues with the cut's own promise as barrier", "no resumption of the body inside a cut thunk found")
	}
	r.analysed(rule, fname(exec))
}

// ---------------------------------------------------------------------------
// R-CONTROL-STATELESS (C03, C04; added after seed C04b): the state of a control construct lives on the
// promise stack and in the environment, both of which backtracking restores. A Go variable captured by the
// closures of catch/3, call/N or \+/1 and written from inside them is state that backtracking does NOT
// restore: once set by one solution it stays set when the goal is re-entered (a flag "the goal has exited"
// makes catch/3 decline the exceptions of every later solution). The closures of the control constructs
// write no captured variable; the solution counters/collectors of call_nth/2 and findall/3 are the
// confirmed accumulators and the only ones.

var controlStateless = map[string]map[string]string{
	"Catch": nil, "Call": nil, "callN": nil, "Negate": nil, "Throw": nil, "Repeat": nil,
	"Call1": nil, "Call2": nil, "Call3": nil, "Call4": nil, "Call5": nil, "Call6": nil, "Call7": nil,
	"CallNth": {"n": "the solution counter of call_nth/2: counting across backtracking is its purpose", "err": "overflow flag of the same counter"},
	"FindAll": {"answers": "the collector of findall/3: it must survive the failure-driven loop"},
}

func ruleControlStateless(c *Ctx, r *Report) {
	const rule = "R-CONTROL-STATELESS"
	desc := "the closures of a control construct write no captured Go variable (state that backtracking cannot restore)"
	n := 0
	var names []string
	for name := range controlStateless {
		names = append(names, name)
	}
	sort.Strings(names)
	for _, name := range names {
		top := c.fn(name)
		if top == nil {
			r.undecided(rule, "anchor:"+name, "-", "locate "+name, "not found")
			continue
		}
		allowed := controlStateless[name]
		writes := 0
		for _, f := range withAnon(top) {
			if f == top {
				continue
			}
			eachInstr(f, func(in ssa.Instruction) {
				st, ok := in.(*ssa.Store)
				if !ok {
					return
				}
				fv, ok := st.Addr.(*ssa.FreeVar)
				if !ok {
					return
				}
				writes++
				key := fmt.Sprintf("%s/%s", fname(f), fv.Name())
				if isRecoverSig(f.Signature) {
					// unwinding state: set and consumed by recovery handlers within one unwinding pass, during
					// which nothing backtracks
					r.ok(rule, key, c.at(in), desc, "written only from a recovery handler (func(error) *Promise): state of one unwinding pass, not of a solution", true)
					return
				}
				if why, ok := allowed[fv.Name()]; ok {
					r.ok(rule, key, c.at(in), desc, "confirmed accumulator: "+why, false)
				} else {
					r.bad(rule, key, c.at(in), desc, "the captured variable "+fv.Name()+" is written inside a closure of "+name+": it keeps its value when the goal is re-entered on backtracking")
				}
			})
		}
		n++
		if writes == 0 {
			r.ok(rule, fname(top)+"/no-captured-write", c.Pos(top.Pos()), desc, fmt.Sprintf("%d closures, none writes a captured variable", len(withAnon(top))-1), true)
		}
	}
	r.analysed(rule, fmt.Sprintf("%d control constructs", n))
}

// ---------------------------------------------------------------------------
// R-CATCH-SCOPE (C04; added with fix F17): "a catch/3 whose Goal has already exited does not intercept
// errors raised by later goals". A promise frame stays on the stack after its thunk has run, so whatever
// runs inside the protected thunk of the recovering frame - including the continuation, in CPS - is inside
// the scope of the handler. Therefore, in catch/3:
//   (1) inside the protected thunk the continuation k is never handed on as a value; it is only invoked,
//       and only from the thunk of a nested recovering frame (the marker);
//   (2) the marker's handler declines every error (returns nil on every path) and records the passage in a
//       captured variable;
//   (3) the handler of catch/3 reads that variable and declines (returns nil) on the branch where it is set.
// Before fix F17 the goal was called with k itself: catch(true,_,write(caught)), throw(x) printed caught.

func ruleCatchScope(c *Ctx, r *Report) {
	const rule = "R-CATCH-SCOPE"
	Catch := c.registeredFn("catch", 3)
	ctor := c.fn("catch")
	if Catch == nil || ctor == nil {
		r.undecided(rule, "anchor", "-", "locate catch/3 and the recovering-frame constructor", "not found")
		return
	}
	ks := paramsWhere(Catch, c.isContType)
	if len(ks) != 1 {
		r.undecided(rule, "anchor:k", c.Pos(Catch.Pos()), "locate the continuation parameter of catch/3", "not found")
		return
	}
	k := ssa.Value(ks[0])
	fromK := func(v ssa.Value) bool {
		for _, l := range c.originSet(v) {
			if l == k {
				return true
			}
		}
		return false
	}
	closureArg := func(v ssa.Value) *ssa.Function {
		var found *ssa.Function
		n := 0
		for _, l := range c.originSet(v) {
			n++
			switch x := l.(type) {
			case *ssa.MakeClosure:
				found = x.Fn.(*ssa.Function)
			case *ssa.Function:
				found = x
			default:
				return nil
			}
		}
		if n != 1 {
			return nil
		}
		return found
	}
	// the outer recovering frame: the catch(...) call made directly in Catch
	var outer *ssa.Call
	eachInstr(Catch, func(in ssa.Instruction) {
		if call, ok := in.(*ssa.Call); ok && call.Call.StaticCallee() == ctor && len(call.Call.Args) == 2 {
			outer = call
		}
	})
	key := fname(Catch)
	if outer == nil {
		r.bad(rule, key+"/frame", c.Pos(Catch.Pos()), "catch/3 installs a recovering frame", "no direct call of the constructor in catch/3")
		return
	}
	handler, thunk := closureArg(outer.Call.Args[0]), closureArg(outer.Call.Args[1])
	if handler == nil || thunk == nil {
		r.bad(rule, key+"/frame", c.at(outer), "the handler and the protected thunk of catch/3 are closures of catch/3", "an argument of the constructor is not a function literal: the protected goal would be built outside the frame")
		return
	}
	// markers: nested constructor calls inside the protected thunk
	markerThunks := map[*ssa.Function]*ssa.Function{} // thunk -> handler
	for _, f := range withAnon(thunk) {
		eachInstr(f, func(in ssa.Instruction) {
			if call, ok := in.(*ssa.Call); ok && call.Call.StaticCallee() == ctor && len(call.Call.Args) == 2 {
				if t, h := closureArg(call.Call.Args[1]), closureArg(call.Call.Args[0]); t != nil && h != nil {
					markerThunks[t] = h
				}
			}
		})
	}
	// (1)
	desc1 := "inside the protected thunk the continuation is only invoked, from the thunk of a nested marker frame"
	var offending ssa.Instruction
	why := ""
	invoked := 0
	for _, f := range withAnon(thunk) {
		eachInstr(f, func(in ssa.Instruction) {
			ci, ok := in.(ssa.CallInstruction)
			if !ok {
				return
			}
			cc := ci.Common()
			for _, a := range cc.Args {
				if c.isContType(a.Type()) && fromK(a) {
					offending, why = in, "the continuation is handed to "+calleeName(cc)+" inside the recovering frame: it runs within the scope of the handler, so errors raised after the goal has exited are intercepted"
				}
			}
			if !cc.IsInvoke() && cc.StaticCallee() == nil && fromK(cc.Value) {
				invoked++
				if markerThunks[f] == nil {
					offending, why = in, "the continuation is invoked inside the recovering frame without a marker frame of its own"
				}
			}
		})
	}
	switch {
	case offending != nil:
		r.bad(rule, key+"/continuation-under-marker", c.at(offending), desc1, why)
	case invoked == 0:
		r.bad(rule, key+"/continuation-under-marker", c.at(outer), desc1, "the continuation is never invoked after the goal")
	default:
		r.ok(rule, key+"/continuation-under-marker", c.at(outer), desc1, fmt.Sprintf("%d invocation(s), each in the thunk of a nested recovering frame", invoked), true)
	}
	// (2) and (3)
	var flags []*ssa.Alloc
	for _, h := range markerThunks {
		declines := true
		eachInstr(h, func(in ssa.Instruction) {
			switch x := in.(type) {
			case *ssa.Return:
				for _, res := range x.Results {
					if k, ok := res.(*ssa.Const); !ok || k.Value != nil {
						declines = false
					}
				}
			case *ssa.Store:
				if cell := c.varCell(x.Addr); cell != nil {
					flags = append(flags, cell)
				}
			}
		})
		if declines && len(flags) > 0 {
			r.ok(rule, key+"/marker-declines", c.Pos(h.Pos()), "the marker's handler declines every error and records the passage", "returns nil on every path; writes "+flags[0].Comment, true)
		} else {
			r.bad(rule, key+"/marker-declines", c.Pos(h.Pos()), "the marker's handler declines every error and records the passage", "the marker handles errors itself or records nothing")
		}
	}
	if len(markerThunks) > 0 {
		consumed := false
		eachInstr(handler, func(in ssa.Instruction) {
			ret, ok := in.(*ssa.Return)
			if !ok || len(ret.Results) != 1 {
				return
			}
			if k, ok := ret.Results[0].(*ssa.Const); !ok || k.Value != nil {
				return
			}
			for f := range c.factsAt(in.Block()) {
				if u, ok := f.cond.(*ssa.UnOp); ok && u.Op == token.MUL && f.pol {
					for _, fl := range flags {
						if c.varCell(u.X) == fl {
							consumed = true
						}
					}
				}
			}
		})
		if consumed {
			r.ok(rule, key+"/handler-lets-pass", c.Pos(handler.Pos()), "the handler of catch/3 declines an error that came through the marker", "returns nil under the fact that the marker's variable is set", true)
		} else {
			r.bad(rule, key+"/handler-lets-pass", c.Pos(handler.Pos()), "the handler of catch/3 declines an error that came through the marker", "no return of nil under the marker's variable: errors raised after the goal has exited are still handled here")
		}
	}
	r.analysed(rule, fname(Catch), fmt.Sprintf("%d marker frame(s)", len(markerThunks)))
}

func isRecoverSig(sig *types.Signature) bool {
	return sig.Recv() == nil && sig.Params().Len() == 1 && sig.Results().Len() == 1 && isErrorType(sig.Params().At(0).Type()) && isNamedIn(deref(sig.Results().At(0).Type()), enginePkgPath, "Promise")
}

// ---------------------------------------------------------------------------
// R-SEQ-FLATTEN (C03, C17; added with fix F20): a clause body is compiled goal by goal from the sequence
// iterator; whatever the iterator yields as ONE element is compiled as ONE call. Conjunction is
// associative - ((A, B), C) is the sequence A, B, C - so the iterator has to look at the LEFT operand of a
// conjunction too: a conjunction yielded as an element becomes a call of ','/2, inside which a cut is local.
// The DCG translation writes every non-final '!' as (!, S0 = S) on the left of a conjunction.
// Checked: in the iterator's Next there is an inspection of the resolved left operand (Arg(0)) of the
// sequence term for the functor ','/2. (Existence only: that the re-association is right is not decided.)

func ruleSeqFlatten(c *Ctx, r *Report) {
	// Second version (after seed C03c, which still inspected the left operand but yielded ITS left part
	// uninspected): every value the iterator stores as its current element is proven not to be a
	// conjunction. For a stored value v the tests "is v a ','/2 compound" are located (type assertion ok,
	// Functor() ==/!= ',', Arity() ==/!= 2 on the resolved v); the store must be unreachable from the entry,
	// within one iteration (back edges cut), once the edges that say "not a conjunction" are removed - i.e.
	// it is reached only when one of the tests failed. A stored X.Arg(0) needs such tests on the resolved
	// X.Arg(0).
	const rule = "R-SEQ-FLATTEN"
	next := c.method("seqIterator", "Next")
	comma := c.global("atomComma")
	resolve := c.method("Env", "Resolve")
	if next == nil || comma == nil || resolve == nil {
		r.undecided(rule, "anchor", "-", "locate seqIterator.Next, atomComma, Env.Resolve", "not found")
		return
	}
	type cond struct {
		v   ssa.Value
		neg int // successor index that implies "not a conjunction"
	}
	conds := map[ssa.Value][]cond{} // receiver (the Compound-typed value) -> tests
	strip := func(v ssa.Value) ssa.Value {
		for {
			switch x := v.(type) {
			case *ssa.MakeInterface:
				v = x.X
			case *ssa.ChangeInterface:
				v = x.X
			default:
				return v
			}
		}
	}
	eachInstr(next, func(in ssa.Instruction) {
		switch x := in.(type) {
		case *ssa.BinOp:
			if x.Op != token.EQL && x.Op != token.NEQ {
				return
			}
			for _, pair := range [][2]ssa.Value{{x.X, x.Y}, {x.Y, x.X}} {
				fc, ok := pair[0].(*ssa.Call)
				if !ok || !fc.Call.IsInvoke() {
					continue
				}
				isTest := false
				switch fc.Call.Method.Name() {
				case "Functor":
					if ld, ok := pair[1].(*ssa.UnOp); ok && ld.Op == token.MUL && ld.X == ssa.Value(comma) {
						isTest = true
					}
				case "Arity":
					if k, ok := constInt(pair[1]); ok && k == 2 {
						isTest = true
					}
				}
				if isTest {
					neg := 1
					if x.Op == token.NEQ {
						neg = 0
					}
					conds[fc.Call.Value] = append(conds[fc.Call.Value], cond{x, neg})
				}
			}
		case *ssa.Extract:
			if ta, ok := x.Tuple.(*ssa.TypeAssert); ok && x.Index == 1 && ta.CommaOk {
				// receiver = the extract #0 of the same assertion
				if refs := ta.Referrers(); refs != nil {
					for _, ref := range *refs {
						if e0, ok := ref.(*ssa.Extract); ok && e0.Index == 0 {
							conds[e0] = append(conds[e0], cond{x, 1})
						}
					}
				}
			}
		}
	})
	// the inspected value for "R.Arg(0)": extract0(TypeAssert(Resolve(R.Arg(0))))
	inspectedArg0 := func(recv ssa.Value) ssa.Value {
		var out ssa.Value
		eachInstr(next, func(in ssa.Instruction) {
			e0, ok := in.(*ssa.Extract)
			if !ok || e0.Index != 0 {
				return
			}
			ta, ok := e0.Tuple.(*ssa.TypeAssert)
			if !ok {
				return
			}
			for _, l := range c.originSet(ta.X) {
				rc, _ := callOfValue(l)
				if rc == nil || rc.Call.StaticCallee() != resolve || len(rc.Call.Args) < 2 {
					continue
				}
				for _, l2 := range c.originSet(rc.Call.Args[1]) {
					ac, _ := callOfValue(l2)
					if ac == nil || !ac.Call.IsInvoke() || ac.Call.Method.Name() != "Arg" || len(ac.Call.Args) != 1 || ac.Call.Value != recv {
						continue
					}
					if k, ok := constInt(ac.Call.Args[0]); ok && k == 0 {
						out = e0
					}
				}
			}
		})
		return out
	}
	desc := "whatever the sequence iterator yields as one element is not a conjunction (a conjunction, on either side, is part of the sequence)"
	n := 0
	eachInstr(next, func(in ssa.Instruction) {
		st, ok := in.(*ssa.Store)
		if !ok {
			return
		}
		fa, ok := st.Addr.(*ssa.FieldAddr)
		if !ok || fieldName(fa) != "current" {
			return
		}
		n++
		key := fmt.Sprintf("%s/current#%d", fname(next), n)
		v := strip(st.Val)
		var T ssa.Value
		what := valName(v)
		if ac, ok := v.(*ssa.Call); ok && ac.Call.IsInvoke() && ac.Call.Method.Name() == "Arg" {
			T = inspectedArg0(ac.Call.Value)
			if k, isK := constInt(ac.Call.Args[0]); !isK || k != 0 {
				T = nil
			}
			if T == nil {
				r.bad(rule, fmt.Sprintf("%s/current=%s", fname(next), stableName(v)), c.at(in), desc, "the element "+what+" is yielded without its resolved value having been tested for ','/2: if it is a conjunction it is compiled as a call of ','/2, in which a cut is local")
				return
			}
		} else {
			T = v
			if _, has := conds[T]; !has {
				// the interface value before a failed assertion (default arm of the type switch)
				eachInstr(next, func(in2 ssa.Instruction) {
					if e0, ok := in2.(*ssa.Extract); ok && e0.Index == 0 {
						if ta, ok := e0.Tuple.(*ssa.TypeAssert); ok && ta.X == v && isNamedIn(ta.AssertedType, enginePkgPath, "Compound") {
							T = e0
						}
					}
				})
			}
		}
		cs := conds[T]
		if len(cs) == 0 {
			r.bad(rule, fmt.Sprintf("%s/current=%s", fname(next), stableName(v)), c.at(in), desc, "no test of "+what+" for ','/2 found")
			return
		}
		reach := reachableFromAvoiding(next.Blocks[0], st.Block(), func(from *ssa.BasicBlock, i int, cnd ssa.Value) bool {
			if from.Succs[i].Dominates(from) {
				return true // back edge: one iteration at a time
			}
			for _, k := range cs {
				if cnd == k.v && i == k.neg {
					return true
				}
			}
			return false
		})
		// unconditional back edges (jump blocks) are not offered to cut: check them separately
		if reach {
			reach = seqReachNoBack(next.Blocks[0], st.Block(), func(from *ssa.BasicBlock, i int) bool {
				cnd := ifCond(from)
				for _, k := range cs {
					if cnd == k.v && i == k.neg {
						return true
					}
				}
				return false
			})
		}
		if reach {
			r.bad(rule, fmt.Sprintf("%s/current=%s", fname(next), stableName(v)), c.at(in), desc, "the store is reachable on a path on which every test says that "+what+" IS a conjunction")
		} else {
			r.ok(rule, key, c.at(in), desc, fmt.Sprintf("reached only across an edge on which one of the %d tests for ','/2 failed", len(cs)), true)
		}
	})
	if n == 0 {
		r.bad(rule, fname(next)+"/current", c.Pos(next.Pos()), desc, "no store to the current element found")
	}
	r.analysed(rule, fname(next), fmt.Sprintf("%d stores to the current element", n))
}

// seqReachNoBack: plain DFS from start to target that never follows a back edge (successor dominating its
// source) and never follows an edge rejected by cut.
func seqReachNoBack(start, target *ssa.BasicBlock, cut func(from *ssa.BasicBlock, succIdx int) bool) bool {
	seen := map[*ssa.BasicBlock]bool{}
	var dfs func(b *ssa.BasicBlock) bool
	dfs = func(b *ssa.BasicBlock) bool {
		if b == target {
			return true
		}
		if seen[b] {
			return false
		}
		seen[b] = true
		for i, s := range b.Succs {
			if s.Dominates(b) || cut(b, i) {
				continue
			}
			if dfs(s) {
				return true
			}
		}
		return false
	}
	return dfs(start)
}

// ---------------------------------------------------------------------------
// R-DONE-REPORTS (C13; added after seed C13c): "cancelling the context stops the execution" is observed by
// the host as ctx.Err(). A function of the library that itself observes cancellation - a receive, or a
// select case, on ctx.Done() - reports it as the context's error: on every path from that case to the
// function's exits there is a call of Err() on a context (whose value is returned or recorded). A helper
// that folds "the context is done" into a boolean that also means something else ("the consumer closed")
// loses the reason; before the search has started nobody downstream looks at the context again, and a
// cancelled query is reported as "no solutions".

func ruleDoneReports(c *Ctx, r *Report) {
	const rule = "R-DONE-REPORTS"
	desc := "a function that observes ctx.Done() reports the cancellation as the context's error"
	isDone := func(v ssa.Value) bool {
		for _, l := range c.originSet(v) {
			if call, ok := l.(*ssa.Call); ok && call.Call.IsInvoke() && call.Call.Method.Name() == "Done" && isContextType(call.Call.Value.Type()) {
				return true
			}
		}
		return false
	}
	isErrCall := func(in ssa.Instruction) bool {
		call, ok := in.(*ssa.Call)
		return ok && call.Call.IsInvoke() && call.Call.Method.Name() == "Err" && isContextType(call.Call.Value.Type())
	}
	isExit := func(in ssa.Instruction) bool {
		_, ok := in.(*ssa.Return)
		return ok
	}
	n := 0
	for _, fn := range c.LibFuncs() {
		seen := 0
		eachInstr(fn, func(in ssa.Instruction) {
			var start ssa.Instruction
			switch x := in.(type) {
			case *ssa.UnOp:
				if x.Op == token.ARROW && isDone(x.X) {
					start = in
				}
			case *ssa.Select:
				for k, st := range x.States {
					if st.Dir != types.RecvOnly || !isDone(st.Chan) {
						continue
					}
					// the block taken when the select's index equals k
					if refs := x.Referrers(); refs != nil {
						for _, ref := range *refs {
							ex, ok := ref.(*ssa.Extract)
							if !ok || ex.Index != 0 || ex.Referrers() == nil {
								continue
							}
							for _, r2 := range *ex.Referrers() {
								bo, ok := r2.(*ssa.BinOp)
								if !ok || bo.Op != token.EQL {
									continue
								}
								if kk, ok := constInt(bo.Y); !ok || int(kk) != k {
									continue
								}
								if iff, ok := bo.Block().Instrs[len(bo.Block().Instrs)-1].(*ssa.If); ok && iff.Cond == ssa.Value(bo) && len(bo.Block().Succs[0].Instrs) > 0 {
									start = bo.Block().Succs[0].Instrs[0]
								}
							}
						}
					}
				}
			}
			if start == nil {
				return
			}
			n++
			seen++
			key := fmt.Sprintf("%s/done#%d", fname(fn), seen)
			var miss ssa.Instruction
			switch {
			case isErrCall(start):
			case isExit(start):
				miss = start
			default:
				miss = instrReachAvoid(start, isExit, isErrCall)
			}
			if miss == nil {
				r.ok(rule, key, c.at(in), desc, "every path from the Done case to an exit passes through ctx.Err()", true)
			} else {
				r.bad(rule, fmt.Sprintf("%s/done", fname(fn)), c.at(miss), desc, "this exit is reached from the Done case without ctx.Err(): the reason (cancelled / deadline exceeded) is lost and the caller takes the result for something else")
			}
		})
	}
	if n == 0 {
		r.bad(rule, "scan/done", "-", desc, "no function of the library observes ctx.Done(): cancellation cannot stop anything")
	}
	r.analysed(rule, fmt.Sprintf("%d observations of ctx.Done() in the library", n))
}

// ---------------------------------------------------------------------------
// R-UNWIND-POPPED (C04; added after seed C04c): the handlers consulted for an error are those of the frames
// on the stack. The trampoline re-pushes a frame before it pushes the frame's child, so when an error
// promise is POPPED, its parent and all ancestors are below it. Unwinding is therefore started only for an
// error found in a popped promise: the argument of the stack's recover is the err field of a value
// obtained from the stack's pop. Starting to unwind with the error of a child that was never pushed skips
// the parent - which has just been popped and not pushed back - and with it the handler it may carry (the
// marker frame of an exited catch/3, or the frame of catch/3 itself when Goal is not callable).

func ruleUnwindPopped(c *Ctx, r *Report) {
	const rule = "R-UNWIND-POPPED"
	tr := c.trampoline()
	rec := c.method("promiseStack", "recover")
	pop := c.method("promiseStack", "pop")
	if tr == nil || rec == nil || pop == nil {
		r.undecided(rule, "anchor", "-", "locate the trampoline and the stack's recover/pop", "not found")
		return
	}
	desc := "unwinding starts only from an error promise popped off the stack (its ancestors are below it)"
	n := 0
	eachInstr(tr, func(in ssa.Instruction) {
		call, ok := in.(*ssa.Call)
		if !ok || call.Call.StaticCallee() != rec || len(call.Call.Args) < 2 {
			return
		}
		n++
		key := fmt.Sprintf("%s/recover#%d", fname(tr), n)
		good := true
		why := ""
		for _, l := range c.originSet(call.Call.Args[1]) {
			ld, ok := l.(*ssa.UnOp)
			if !ok || ld.Op != token.MUL {
				good, why = false, valName(l)
				continue
			}
			fa, ok := ld.X.(*ssa.FieldAddr)
			if !ok || fieldName(fa) != "err" {
				good, why = false, valName(l)
				continue
			}
			for _, b := range c.originSet(fa.X) {
				cl, _ := callOfValue(b)
				if cl == nil || cl.Call.StaticCallee() != pop {
					good, why = false, valName(b)+".err"
				}
			}
		}
		if good {
			r.ok(rule, key, c.at(in), desc, "the error handed to recover is the err field of the popped promise", true)
		} else {
			r.bad(rule, fmt.Sprintf("%s/recover", fname(tr)), c.at(in), desc, "unwinding is started with "+why+", which was not popped off the stack: its parent has been popped and not pushed back, so the parent's handler is skipped")
		}
	})
	if n == 0 {
		r.bad(rule, fname(tr)+"/recover", c.Pos(tr.Pos()), desc, "the trampoline never starts unwinding")
	}
	r.analysed(rule, fname(tr))
}

// ---------------------------------------------------------------------------
// R-CUT-TARGET-OWN (C03; added after seed C03d, which also exposed call_nth/2): a cut pops the promise stack
// down to and including its target, so the target must still be on the stack when the cut runs. The promise
// that Call(...) returns is the anonymous clause of the called goal - the barrier of the goal's OWN cuts: a
// cut inside the goal pops it. A built-in that cuts to that promise afterwards (`p = Call(…); … cut(p, …)`)
// finds nothing and empties the whole stack: every older choice point and every enclosing catch/3 is gone.
// The target of a cut is a barrier handed down as a parameter, or a frame the function built itself
// (Delay / cut / repeat / catch / &Promise{}), never the result of a call that runs a goal.

func ruleCutTargetOwn(c *Ctx, r *Report) {
	const rule = "R-CUT-TARGET-OWN"
	cutFn := c.fn("cut")
	if cutFn == nil {
		r.undecided(rule, "anchor:cut", "-", "locate the cut constructor", "not found")
		return
	}
	desc := "the target of a cut is a barrier received as a parameter or a frame built by the function itself"
	// constructors: functions whose every return is a fresh &Promise
	isCtor := func(f *ssa.Function) bool {
		if f == nil || f.Blocks == nil || !c.isLibPkg(funcPkg(f)) {
			return false
		}
		fresh := true
		nret := 0
		eachInstr(f, func(in ssa.Instruction) {
			ret, ok := in.(*ssa.Return)
			if !ok || len(ret.Results) != 1 {
				return
			}
			nret++
			for _, l := range c.originSet(ret.Results[0]) {
				if _, ok := l.(*ssa.Alloc); !ok {
					fresh = false
				}
			}
		})
		return fresh && nret > 0
	}
	n := 0
	for _, fn := range c.LibFuncs() {
		seen := 0
		eachInstr(fn, func(in ssa.Instruction) {
			call, ok := in.(*ssa.Call)
			if !ok || call.Call.StaticCallee() != cutFn || len(call.Call.Args) < 1 {
				return
			}
			n++
			seen++
			key := fmt.Sprintf("%s/cut#%d", fname(fn), seen)
			var offending ssa.Value
			for _, l := range c.originSet(call.Call.Args[0]) {
				switch x := l.(type) {
				case *ssa.Parameter, *ssa.Alloc:
				case *ssa.Const:
				case *ssa.Call:
					if !isCtor(x.Call.StaticCallee()) {
						offending = l
					}
				case *ssa.UnOp:
					// a field of a promise (p.cutParent) handed on
				default:
					offending = l
				}
			}
			if offending == nil {
				r.ok(rule, key, c.at(in), desc, "parameter, own frame or constructor result", true)
			} else {
				r.bad(rule, fmt.Sprintf("%s/cut-target", fname(fn)), c.at(in), desc, "the target is "+valName(offending)+", the promise of a goal that has been run: a cut inside that goal has already popped it, and this cut then empties the whole stack (older choice points and enclosing catch/3 frames are lost)")
			}
		})
	}
	r.analysed(rule, fmt.Sprintf("%d calls of the cut constructor", n))
}

// ---------------------------------------------------------------------------
// R-FORCE-ERR-PROPAGATED (C13; added after seed C13d): a nested trampoline reports cancellation the only way
// it can - as the error result of Force. Every call of the trampoline made by the library hands that error
// on: on every path from the call to an exit of the function, either the error is known to be nil, or the
// exit's results are computed from it (returned, wrapped in an Error promise, stored where the caller reads
// it). A handler that sorts errors by kind and has no arm for "anything else" (a type switch with
// `case Exception` and `case nil` only) lets context.Canceled fall through: the load goes on as if the
// hook had not applied and ExecContext returns nil.

func ruleForceErrPropagated(c *Ctx, r *Report) {
	const rule = "R-FORCE-ERR-PROPAGATED"
	tr := c.trampoline()
	if tr == nil {
		r.undecided(rule, "anchor:trampoline", "-", "locate the trampoline", "not found")
		return
	}
	desc := "the error of a nested trampoline is handed on unless it is known to be nil"
	n := 0
	for _, fn := range c.LibFuncs() {
		seen := 0
		eachInstr(fn, func(in ssa.Instruction) {
			call, ok := in.(*ssa.Call)
			if !ok || call.Call.StaticCallee() != tr {
				return
			}
			var errVal ssa.Value
			if refs := call.Referrers(); refs != nil {
				for _, ref := range *refs {
					if ex, ok := ref.(*ssa.Extract); ok && isErrorType(ex.Type()) {
						errVal = ex
					}
				}
			}
			n++
			seen++
			key := fmt.Sprintf("%s/Force#%d", fname(fn), seen)
			// rendering a term into a local buffer (for a message, for TermString) runs no search: the promise
			// comes straight from the write_term/3 built-in with the trivial continuation
			if wt := c.registeredFn("write_term", 3); wt != nil && len(call.Call.Args) > 0 {
				render := true
				for _, l := range c.originSet(call.Call.Args[0]) {
					if cl, _ := callOfValue(l); cl == nil || cl.Call.StaticCallee() != wt {
						render = false
					}
				}
				if render {
					r.ok(rule, key, c.at(in), desc, "not a search: write_term/3 rendering a term into a local buffer", false)
					return
				}
			}
			if errVal == nil {
				r.bad(rule, fmt.Sprintf("%s/Force", fname(fn)), c.at(in), desc, "the error result of the nested trampoline is dropped")
				return
			}
			derived := func(v ssa.Value) bool {
				hit := false
				seenV := map[ssa.Value]bool{}
				var walk func(x ssa.Value, d int)
				walk = func(x ssa.Value, d int) {
					if x == nil || seenV[x] || d > 16 || hit {
						return
					}
					seenV[x] = true
					if x == errVal {
						hit = true
						return
					}
					switch y := x.(type) {
					case *ssa.Phi:
						for _, e := range y.Edges {
							walk(e, d+1)
						}
					case *ssa.MakeInterface:
						walk(y.X, d+1)
					case *ssa.ChangeInterface:
						walk(y.X, d+1)
					case *ssa.TypeAssert:
						walk(y.X, d+1)
					case *ssa.Extract:
						walk(y.Tuple, d+1)
					case *ssa.Call:
						for _, a := range y.Call.Args {
							walk(a, d+1)
						}
					case *ssa.UnOp:
						walk(y.X, d+1)
						if cell := c.varCell(y.X); cell != nil {
							for _, st := range c.storesTo(cell) {
								walk(st.Val, d+1)
							}
						}
					}
				}
				walk(v, 0)
				return hit
			}
			// an exit that hands the error on: a return computed from it, or a store of it before the exit
			storesErr := map[*ssa.BasicBlock]bool{}
			eachInstr(fn, func(x ssa.Instruction) {
				if st, ok := x.(*ssa.Store); ok && derived(st.Val) {
					storesErr[st.Block()] = true
				}
			})
			isBadExit := func(x ssa.Instruction) bool {
				ret, ok := x.(*ssa.Return)
				if !ok {
					return false
				}
				for _, res := range ret.Results {
					if derived(res) {
						return false
					}
				}
				return true
			}
			avoid := func(x ssa.Instruction) bool {
				st, ok := x.(*ssa.Store)
				return ok && derived(st.Val)
			}
			miss := errStateReachX(in, errVal, isBadExit, avoid, false, nil, true)
			if miss == nil {
				r.ok(rule, key, c.at(in), desc, "every exit reachable with a possibly non-nil error is computed from it", true)
			} else {
				r.bad(rule, fmt.Sprintf("%s/Force", fname(fn)), c.at(miss), desc, "this exit is reachable while the error of the nested trampoline may be non-nil, and does not carry it: a cancelled context is taken for 'the goal did not apply'")
			}
		})
	}
	if n == 0 {
		r.bad(rule, "scan/nested-force", "-", desc, "the library never calls the trampoline")
	}
	r.analysed(rule, fmt.Sprintf("%d calls of the trampoline in the library", n))
}

// ---------------------------------------------------------------------------
// R-CATCH-DECLINES (C04; added after seed C04d): "errors raised by built-in predicates are caught in the same
// way as user balls". The handler of catch/3 declines an error (returns nil, so that the error travels on)
// for exactly two reasons: the error came through the marker of an exited goal, or the ball does not unify
// with the catcher. Every return of nil in the handler lies under the fact that the marker's variable is
// set or that the unification of the catcher failed. Declining by KIND of error (anything that is not an
// engine.Exception: a Go error from a stream, a loader diagnostic, a recovered panic) makes those errors
// invisible to every catch/3, catch-all included.

func ruleCatchDeclines(c *Ctx, r *Report) {
	const rule = "R-CATCH-DECLINES"
	Catch := c.registeredFn("catch", 3)
	ctor := c.fn("catch")
	unify := c.method("Env", "Unify")
	if Catch == nil || ctor == nil || unify == nil {
		r.undecided(rule, "anchor", "-", "locate catch/3, the recovering-frame constructor and Env.Unify", "not found")
		return
	}
	var handler *ssa.Function
	eachInstr(Catch, func(in ssa.Instruction) {
		if call, ok := in.(*ssa.Call); ok && call.Call.StaticCallee() == ctor && len(call.Call.Args) == 2 {
			for _, l := range c.originSet(call.Call.Args[0]) {
				if mc, ok := l.(*ssa.MakeClosure); ok {
					handler = mc.Fn.(*ssa.Function)
				}
			}
		}
	})
	if handler == nil {
		r.undecided(rule, "anchor:handler", c.Pos(Catch.Pos()), "locate the handler of catch/3", "not found")
		return
	}
	desc := "the handler of catch/3 declines only an error that came through the marker or a ball that does not unify with the catcher"
	n := 0
	eachInstr(handler, func(in ssa.Instruction) {
		ret, ok := in.(*ssa.Return)
		if !ok || len(ret.Results) != 1 {
			return
		}
		if k, isConst := ret.Results[0].(*ssa.Const); !isConst || k.Value != nil {
			return
		}
		n++
		key := fmt.Sprintf("%s/decline#%d", fname(handler), n)
		reason := ""
		for f := range c.factsAt(in.Block()) {
			v, pol := f.cond, f.pol
			if u, ok := v.(*ssa.UnOp); ok && u.Op == token.NOT {
				v, pol = u.X, !pol
			}
			// marker flag: load of a captured bool, true
			if ld, ok := v.(*ssa.UnOp); ok && ld.Op == token.MUL && pol {
				if _, isFree := ld.X.(*ssa.FreeVar); isFree {
					reason = "the marker's variable is set"
				}
			}
			// Unify(...) ok == false
			if ex, ok := v.(*ssa.Extract); ok && !pol {
				if call, ok := ex.Tuple.(*ssa.Call); ok && call.Call.StaticCallee() == unify {
					reason = "the catcher does not unify with the ball"
				}
			}
		}
		if reason != "" {
			r.ok(rule, key, c.at(in), desc, reason, true)
		} else {
			r.bad(rule, fmt.Sprintf("%s/decline", fname(handler)), c.at(in), desc, "the handler declines for another reason: such errors pass every catch/3, catch-all included, and end the query with the raw error")
		}
	})
	if n == 0 {
		r.bad(rule, fname(handler)+"/decline", c.Pos(handler.Pos()), desc, "the handler never declines: every catch/3 would take every ball")
	}
	// (after seed C04f) ... and it ACCEPTS only an error that did not come through the marker, whatever kind of
	// error it is: the unification with the catcher is reached only where the marker's variable is known unset.
	// A marker test that sits on the Exception branch alone lets an exited catch/3 take the Go errors (I/O
	// failures, recovered panics) of later goals.
	m := 0
	eachInstr(handler, func(in ssa.Instruction) {
		call, ok := in.(*ssa.Call)
		if !ok || call.Call.StaticCallee() != unify {
			return
		}
		m++
		key := fmt.Sprintf("%s/accept#%d", fname(handler), m)
		d2 := "the handler of catch/3 unifies the catcher only with an error that did not come through the marker of an exited goal"
		unset := false
		for f := range c.factsAt(in.Block()) {
			v, pol := f.cond, f.pol
			if u, ok := v.(*ssa.UnOp); ok && u.Op == token.NOT {
				v, pol = u.X, !pol
			}
			if ld, ok := v.(*ssa.UnOp); ok && ld.Op == token.MUL && !pol {
				if _, isFree := ld.X.(*ssa.FreeVar); isFree {
					unset = true
				}
			}
		}
		if unset {
			r.ok(rule, key, c.at(in), d2, "under the fact that the marker's variable is unset", true)
		} else {
			r.bad(rule, key, c.at(in), d2, "the catcher is unified on a path that never tested the marker: some kind of error raised after Goal has exited is caught by the exited catch/3")
		}
	})
	if m == 0 {
		r.undecided(rule, fname(handler)+"/accept", c.Pos(handler.Pos()), desc, "the handler never unifies the catcher")
	}
	r.analysed(rule, fname(handler))
}

// ---------------------------------------------------------------------------
// R-CONT-NOT-IN-LOOP (C12, C01; added after seed C12e): a built-in that offers several alternatives hands each
// of them to the trampoline as a delayed function; the continuation runs when the trampoline forces one.  A
// built-in that calls its continuation - directly or by passing it to Unify and the like - inside a loop of its
// own body runs the rest of the query once per iteration BEFORE it returns: the promises it collected are
// already evaluated, so the "stop" the consumer's continuation returns after Close is stored and ignored (goals
// run after Close, the goroutine blocks on the next answer), a cut in the continuation comes too late, and the
// answers are computed eagerly.  Checked: in every engine function with a continuation parameter, no call that
// invokes the continuation or receives it as an argument lies in a block that is part of a CFG cycle of that
// function's own body (closures are delayed code and are not looked at).
func ruleContNotInLoop(c *Ctx, r *Report) {
	const rule = "R-CONT-NOT-IN-LOOP"
	desc := "a built-in does not run its continuation from inside a loop of its own body"
	nfn, nbad := 0, 0
	for _, fn := range c.LibFuncs() {
		if funcPkg(fn) != c.Engine || fn.Parent() != nil {
			continue
		}
		ks := paramsWhere(fn, c.isContType)
		if len(ks) == 0 {
			continue
		}
		nfn++
		isK := func(v ssa.Value) bool {
			for _, l := range c.originSet(v) {
				for _, k := range ks {
					if l == ssa.Value(k) {
						return true
					}
				}
			}
			return false
		}
		seen := map[string]int{}
		eachInstr(fn, func(in ssa.Instruction) {
			call, ok := in.(*ssa.Call)
			if !ok {
				return
			}
			uses := !call.Call.IsInvoke() && isK(call.Call.Value)
			for _, a := range call.Call.Args {
				if c.isContType(a.Type()) && isK(a) {
					uses = true
				}
			}
			if !uses || !reachableFromSucc(in.Block(), in.Block()) {
				return
			}
			nbad++
			base := fname(fn) + "/" + calleeName(call.Common())
			seen[base]++
			r.bad(rule, fmt.Sprintf("%s#%d", base, seen[base]), c.at(in), desc, "the continuation is run (or handed to a callee that runs it) inside a loop: the rest of the query is executed once per iteration before the built-in returns, whatever the consumer asked for")
		})
	}
	if nfn == 0 {
		r.undecided(rule, "scan/builtins", "-", desc, "no function with a continuation parameter found")
		return
	}
	if nbad == 0 {
		r.ok(rule, "scan/builtins", "-", desc, fmt.Sprintf("%d functions with a continuation parameter examined; none uses it inside a loop of its own body", nfn), true)
	}
}

// ---------------------------------------------------------------------------
// R-ALT-SOURCE (C03; added after seed C03e): "if-then(-else) ... behave as ISO defines".  (C -> T ; E) is a
// special form recognised by its SHAPE: a ;/2 whose first argument is a ->/2.  The iterator over the
// alternatives of a disjunction applies that test to whatever it holds in its Alt field, round after round.
// So it may only ever hold what the source holds: the term it was given and right-hand subterms of it.  An
// iterator that BUILDS a disjunction (re-associating ((A ; B) ; C) into (A ; (B ; C)), say - harmless for
// conjunctions) can manufacture the shape: ((C -> T ; E) ; F) becomes (C -> T ; (E ; F)), an if-then-else the
// program does not contain, whose implicit cut discards F.  Checked: every value stored into altIterator.Alt
// is nil, the old value, or the result of Arg(...) - never a constructed term.  Conservative: a re-association
// that first excludes the special form would be reported as well.
func ruleAltSource(c *Ctx, r *Report) {
	const rule = "R-ALT-SOURCE"
	desc := "the alternatives iterator keeps only subterms of its source term (it builds no disjunction)"
	n := 0
	for _, fn := range c.LibFuncs() {
		if funcPkg(fn) != c.Engine {
			continue
		}
		k := 0
		eachInstr(fn, func(in ssa.Instruction) {
			st, ok := in.(*ssa.Store)
			if !ok {
				return
			}
			fa, ok := st.Addr.(*ssa.FieldAddr)
			if !ok || !isEngNamed(deref(fa.X.Type()), "altIterator") || fieldName(fa) != "Alt" {
				return
			}
			if _, fresh := fa.X.(*ssa.Alloc); fresh {
				return // construction of an iterator
			}
			n++
			k++
			key := fmt.Sprintf("%s/Alt-store#%d", fname(fn), k)
			bad := ""
			for _, l := range c.originSet(st.Val) {
				if mi, ok := l.(*ssa.MakeInterface); ok {
					l = mi.X
				}
				switch x := l.(type) {
				case *ssa.Const:
				case *ssa.Parameter:
				case *ssa.Call:
					if x.Call.IsInvoke() && x.Call.Method.Name() == "Arg" {
						continue
					}
					if callee := x.Call.StaticCallee(); callee != nil && callee.Name() == "Resolve" {
						continue
					}
					bad = "the result of " + calleeName(x.Common())
				case *ssa.Alloc:
					bad = "a term allocated here"
				case *ssa.UnOp:
					// a load of the iterator's own field or of a local
				default:
					bad = fmt.Sprintf("%T", l)
				}
			}
			if bad == "" {
				r.ok(rule, key, c.at(in), desc, "nil, or Arg(...) of the term held", true)
			} else {
				r.bad(rule, key, c.at(in), desc, "the iterator stores "+bad+": a disjunction built from parts of a nested one can have a (C -> T) from inside the nest as its first argument and is then taken for an if-then-else the program does not contain")
			}
		})
	}
	if n == 0 {
		r.undecided(rule, "anchor:altIterator.Alt", "-", desc, "no store into altIterator.Alt found")
	}
}

// ---------------------------------------------------------------------------
// R-CALL-ALL-CLAUSES (C01; added after seed C01e): "clauses tried in database order".  The function that turns
// the clauses of a procedure into the alternatives of a call makes one alternative per clause: in its loop
// over the clauses no iteration returns to the loop header without having created the closure that runs the
// clause (node-removal check).  A pre-filter ("this clause cannot match anyway") has to reproduce unification
// for every representation a head argument is compiled to - a double-quoted string is compiled as a constant
// and is a list - and is exactly where answers get lost.  Conservative: a sound first-argument index would be
// reported too; this checker cannot verify one.
func ruleCallAllClauses(c *Ctx, r *Report) {
	const rule = "R-CALL-ALL-CLAUSES"
	desc := "every clause of the procedure becomes an alternative of the call"
	call := c.method("clauses", "call")
	exec := c.method("VM", "exec")
	if call == nil || exec == nil {
		r.undecided(rule, "anchor:clauses.call/VM.exec", "-", "locate clauses.call and VM.exec", "not found")
		return
	}
	// the closure that runs a clause: an anonymous function of call that calls exec
	var mk *ssa.MakeClosure
	eachInstr(call, func(in ssa.Instruction) {
		m, ok := in.(*ssa.MakeClosure)
		if !ok {
			return
		}
		f, _ := m.Fn.(*ssa.Function)
		if f == nil {
			return
		}
		eachInstr(f, func(x ssa.Instruction) {
			if cl, ok := x.(*ssa.Call); ok && cl.Call.StaticCallee() == exec {
				mk = m
			}
		})
	})
	key := fname(call) + "/one-alternative-per-clause"
	if mk == nil {
		r.undecided(rule, key, c.Pos(call.Pos()), desc, "the closure that executes a clause was not recognised")
		return
	}
	found, skips := loopIterationSkips(call, mk.Block(), map[*ssa.BasicBlock]bool{mk.Block(): true})
	switch {
	case !found:
		r.bad(rule, key, c.at(mk), desc, "the closure is not created inside a loop over the clauses")
	case skips:
		r.bad(rule, key, c.at(mk), desc, "an iteration can return to the loop header without creating the alternative: that clause is never tried for this call")
	default:
		r.ok(rule, key, c.at(mk), desc, "node-removal check: without the block that creates the alternative the loop body cannot reach its back edge", true)
	}
	r.analysed(rule, fname(call))
}

// ---------------------------------------------------------------------------
// R-LOAD-POLLS-CTX (C13; added with fix F53): "cancelling the context ... makes the pending call return the
// context's error within a bounded delay".  Goals are cancelled in the trampoline; storing a clause runs no
// goal.  A loop that reads clause after clause from a text (a Parser.Term call inside a CFG cycle) in a function
// that has the context therefore looks at the context itself, inside the loop: an Err() or Done() call on the
// context parameter lies in a block of the same cycle.
func ruleLoadPollsCtx(c *Ctx, r *Report) {
	const rule = "R-LOAD-POLLS-CTX"
	desc := "the loop that reads the clauses of a text observes the context in every iteration"
	term := c.method("Parser", "Term")
	if term == nil {
		r.undecided(rule, "anchor:Parser.Term", "-", "locate Parser.Term", "not found")
		return
	}
	n := 0
	for _, fn := range c.LibFuncs() {
		if funcPkg(fn) != c.Engine {
			continue
		}
		var ctxParam *ssa.Parameter
		for _, p := range fn.Params {
			if isNamedIn(p.Type(), "context", "Context") {
				ctxParam = p
			}
		}
		eachInstr(fn, func(in ssa.Instruction) {
			call, ok := in.(*ssa.Call)
			if !ok || call.Call.StaticCallee() != term || !reachableFromSucc(call.Block(), call.Block()) {
				return
			}
			if ctxParam == nil {
				return // a reader without a context (read_term/3 reads one term per call)
			}
			n++
			key := fname(fn) + "/Parser.Term-in-loop"
			polled := false
			eachInstr(fn, func(x ssa.Instruction) {
				ci, ok := x.(ssa.CallInstruction)
				if !ok || !ci.Common().IsInvoke() {
					return
				}
				m := ci.Common().Method.Name()
				if (m != "Err" && m != "Done") || !isNamedIn(ci.Common().Value.Type(), "context", "Context") {
					return
				}
				fromParam := false
				for _, l := range c.originSet(ci.Common().Value) {
					if l == ssa.Value(ctxParam) {
						fromParam = true
					}
				}
				b := x.Block()
				if fromParam && (b == call.Block() || (reachableFromSucc(b, call.Block()) && reachableFromSucc(call.Block(), b))) {
					polled = true
				}
			})
			// (with fix F56) ... and before the first clause is asked for: an empty text, too, is "the pending call"
			if polled {
				more := c.method("Parser", "More")
				first := true
				eachInstr(fn, func(x ssa.Instruction) {
					rc, ok := x.(*ssa.Call)
					if !ok || (rc.Call.StaticCallee() != more && rc.Call.StaticCallee() != term) {
						return
					}
					dominated := false
					eachInstr(fn, func(y ssa.Instruction) {
						ci, ok := y.(ssa.CallInstruction)
						if !ok || !ci.Common().IsInvoke() || (ci.Common().Method.Name() != "Err" && ci.Common().Method.Name() != "Done") || !isNamedIn(ci.Common().Value.Type(), "context", "Context") {
							return
						}
						yb, xb := y.Block(), x.Block()
						if (yb == xb && instrIndex(y) < instrIndex(x)) || (yb != xb && yb.Dominates(xb)) {
							dominated = true
						}
					})
					if !dominated {
						first = false
					}
				})
				if first {
					r.ok(rule, key+"/before-first-read", c.at(in), "the context is observed before the first clause of a text is asked for", "a ctx.Err()/Done() call dominates every More/Term call", true)
				} else {
					r.bad(rule, key+"/before-first-read", c.at(in), "the context is observed before the first clause of a text is asked for", "the parser is asked for a clause on a path that has not looked at the context: an empty text returns nil under a cancelled context")
				}
			}
			// (after seed C13g) ... and what it sees has consequences: the edge taken when the context is done does not
			// lead back to the next clause. (`break` inside a select leaves the select, not the loop.)
			if polled {
				type edge struct {
					from *ssa.BasicBlock
					succ int
				}
				var cancelled []edge
				isCtxCall := func(v ssa.Value, method string) bool {
					for _, l := range c.originSet(v) {
						if e, ok := l.(*ssa.Extract); ok {
							l = e.Tuple
						}
						ci, ok := l.(*ssa.Call)
						if ok && ci.Call.IsInvoke() && ci.Call.Method.Name() == method && isNamedIn(ci.Call.Value.Type(), "context", "Context") {
							return true
						}
					}
					return false
				}
				for _, b := range blocksOf(fn) {
					cond := ifCond(b)
					if cond == nil || len(b.Succs) != 2 {
						continue
					}
					inCycle := b == call.Block() || (reachableFromSucc(b, call.Block()) && reachableFromSucc(call.Block(), b))
					if !inCycle {
						continue
					}
					if x, op, ok := nilCmp(cond); ok && isCtxCall(x, "Err") {
						if op == token.NEQ {
							cancelled = append(cancelled, edge{b, 0})
						} else {
							cancelled = append(cancelled, edge{b, 1})
						}
						continue
					}
					if x, op, k, ok := cmpConst(cond); ok && (op == token.EQL || op == token.NEQ) {
						if e, isE := x.(*ssa.Extract); isE && e.Index == 0 {
							if sel, isSel := e.Tuple.(*ssa.Select); isSel && !sel.Blocking && int(k) < len(sel.States) && k >= 0 && isCtxCall(sel.States[k].Chan, "Done") {
								if op == token.EQL {
									cancelled = append(cancelled, edge{b, 0})
								} else {
									cancelled = append(cancelled, edge{b, 1})
								}
							}
						}
					}
				}
				kk := key + "/cancelled-leaves-loop"
				d2 := "once the context is seen done, no further clause is read"
				switch {
				case len(cancelled) == 0:
					// does anything in the loop branch on what the context said?
					decides := false
					for _, b := range blocksOf(fn) {
						cond := ifCond(b)
						if cond == nil || !(b == call.Block() || (reachableFromSucc(b, call.Block()) && reachableFromSucc(call.Block(), b))) {
							continue
						}
						dataSlice(cond, func(v ssa.Value) bool {
							if ci, ok := v.(*ssa.Call); ok && ci.Call.IsInvoke() && (ci.Call.Method.Name() == "Err" || ci.Call.Method.Name() == "Done") && isNamedIn(ci.Call.Value.Type(), "context", "Context") {
								decides = true
							}
							return !decides
						})
					}
					if decides {
						r.ok(rule, kk, c.at(in), d2, "the branch on the context's state was not recognised: not decided", false)
					} else {
						r.bad(rule, kk, c.at(in), d2, "the context is looked at inside the loop but no branch of the loop depends on what it said (a `break` inside a select leaves the select, not the loop): the rest of the text is read after the cancellation")
					}
				default:
					var back *edge
					for i, e := range cancelled {
						t := e.from.Succs[e.succ]
						if t == call.Block() || reachableFromAvoiding2(t, call.Block()) {
							back = &cancelled[i]
						}
					}
					if back == nil {
						r.ok(rule, kk, c.at(in), d2, fmt.Sprintf("%d cancelled edge(s) in the loop, none leads back to the read", len(cancelled)), true)
					} else {
						last := back.from.Instrs[len(back.from.Instrs)-1]
						r.bad(rule, kk, c.at(last), d2, "from the branch taken when the context is done the loop still reaches the next Parser.Term call: the rest of the text is read (and its errors reported) after the cancellation")
					}
				}
			}
			if polled {
				r.ok(rule, key, c.at(in), desc, "ctx.Err()/Done() is called inside the loop", true)
			} else {
				r.bad(rule, key, c.at(in), desc, "nothing in the loop looks at the context: a text of facts is loaded to its end whatever the deadline, and with a context that is already cancelled")
			}
		})
	}
	if n == 0 {
		r.undecided(rule, "scan/reading-loop", "-", desc, "no clause-reading loop with a context found")
	}
}

// ---------------------------------------------------------------------------
// R-ENUM-UNIFIES (C18; added after seed C18f): "current_op/3 enumerates exactly the table."  A predicate that
// reports the entries of a table answers in every instantiation pattern by UNIFYING the pattern of its
// arguments with an entry: that is what makes check mode (all arguments bound) and enumeration mode agree.  In
// the enumerating built-ins listed here the continuation is used in one way only - as an argument of the
// unification built-in - and that call is given a term built from ALL of the predicate's arguments.  A shortcut
// that calls the continuation directly after comparing some of the arguments (a "fast path for the bound
// case") answers yes for entries that differ in the argument it did not compare.
var enumeratingBuiltins = []struct {
	name  string
	arity int
}{{"current_op", 3}, {"current_prolog_flag", 2}} // current_char_conversion/2 looks a bound first argument up as the key of its table: not of this shape

func ruleEnumUnifies(c *Ctx, r *Report) {
	const rule = "R-ENUM-UNIFIES"
	desc := "an enumerating built-in succeeds only by unifying the pattern of all its arguments with an entry"
	unify := c.fn("Unify")
	if unify == nil {
		r.undecided(rule, "anchor:Unify", "-", "locate engine.Unify", "not found")
		return
	}
	for _, eb := range enumeratingBuiltins {
		fn := c.registeredFn(eb.name, eb.arity)
		key := fmt.Sprintf("%s/%d", eb.name, eb.arity)
		if fn == nil {
			r.undecided(rule, key, "-", desc, "not registered")
			continue
		}
		ks := paramsWhere(fn, c.isContType)
		if len(ks) != 1 {
			r.undecided(rule, key, c.Pos(fn.Pos()), desc, "the continuation parameter was not recognised")
			continue
		}
		// the argument parameters: those of type Term
		var argParams []*ssa.Parameter
		for _, p := range fn.Params {
			if isEngNamed(p.Type(), "Term") {
				argParams = append(argParams, p)
			}
		}
		isK := func(v ssa.Value) bool {
			for _, l := range c.originSet(v) {
				if l == ssa.Value(ks[0]) {
					return true
				}
				if fv, ok := l.(*ssa.FreeVar); ok && fv.Name() == ks[0].Name() && c.isContType(fv.Type()) {
					return true
				}
			}
			return false
		}
		bad, why := ssa.Instruction(nil), ""
		uses := 0
		for _, f := range withAnon(fn) {
			eachInstr(f, func(in ssa.Instruction) {
				call, ok := in.(*ssa.Call)
				if !ok || bad != nil {
					return
				}
				if !call.Call.IsInvoke() && isK(call.Call.Value) {
					uses++
					bad, why = in, "the continuation is called directly"
					return
				}
				for _, a := range call.Call.Args {
					if !c.isContType(a.Type()) || !isK(a) {
						continue
					}
					uses++
					if call.Call.StaticCallee() != unify {
						bad, why = in, "the continuation is handed to "+calleeName(call.Common())+" instead of the unification"
						return
					}
					// one of the two terms unified mentions every argument
					covered := map[*ssa.Parameter]bool{}
					for _, t := range call.Call.Args[1:3] {
						seen := map[ssa.Value]bool{}
						var walk func(v ssa.Value, d int)
						walk = func(v ssa.Value, d int) {
							if v == nil || seen[v] || d > 12 {
								return
							}
							seen[v] = true
							for _, l := range c.originSet(v) {
								switch x := l.(type) {
								case *ssa.Parameter:
									for _, p := range argParams {
										if x == p {
											covered[p] = true
										}
									}
								case *ssa.FreeVar:
									for _, p := range argParams {
										if x.Name() == p.Name() {
											covered[p] = true
										}
									}
								case *ssa.Call:
									for _, a2 := range x.Call.Args {
										walk(a2, d+1)
										for _, e := range variadicElems(a2) {
											walk(e, d+1)
										}
									}
								}
							}
						}
						walk(t, 0)
					}
					if len(covered) != len(argParams) {
						bad, why = in, fmt.Sprintf("the terms unified mention %d of the %d arguments", len(covered), len(argParams))
					}
				}
			})
		}
		switch {
		case bad != nil:
			r.bad(rule, key, c.at(bad), desc, why+": an entry that differs in an argument that was not unified is answered as if it matched")
		case uses == 0:
			r.undecided(rule, key, c.Pos(fn.Pos()), desc, "no use of the continuation found")
		default:
			r.ok(rule, key, c.Pos(fn.Pos()), desc, fmt.Sprintf("%d uses of the continuation, each as the continuation of Unify over a term built from all %d arguments", uses, len(argParams)), true)
		}
	}
}

// ---------------------------------------------------------------------------
// R-LOOP-CAPTURE (C11, C01; added after seed C11f): the alternatives a built-in hands to the trampoline are
// closures that run LATER, after the loop that created them has finished.  A variable that is declared outside
// the loop, assigned anew in every iteration and captured by the closures made in that loop is one variable:
// every closure sees the value of the last iteration.  (Variables declared inside the loop body are fresh per
// iteration.)  Checked for every engine function: no closure created inside a CFG cycle captures a cell that is
// allocated outside the cycle and stored to inside it by the enclosing function.
func ruleLoopCapture(c *Ctx, r *Report) {
	const rule = "R-LOOP-CAPTURE"
	desc := "a closure created in a loop captures no variable that the loop itself reassigns"
	nmk, nbad := 0, 0
	for _, fn := range c.LibFuncs() {
		if funcPkg(fn) != c.Engine {
			continue
		}
		eachInstr(fn, func(in ssa.Instruction) {
			mk, ok := in.(*ssa.MakeClosure)
			if !ok || !reachableFromSucc(mk.Block(), mk.Block()) {
				return
			}
			nmk++
			inSameCycle := func(b *ssa.BasicBlock) bool {
				return b == mk.Block() || (reachableFromSucc(b, mk.Block()) && reachableFromSucc(mk.Block(), b))
			}
			for _, bnd := range mk.Bindings {
				cell, ok := bnd.(*ssa.Alloc)
				if !ok || inSameCycle(cell.Block()) {
					continue // not a cell, or a cell of its own per iteration
				}
				for _, ref := range *cell.Referrers() {
					st, ok := ref.(*ssa.Store)
					if !ok || st.Addr != ssa.Value(cell) || st.Parent() != fn || !inSameCycle(st.Block()) {
						continue
					}
					nbad++
					name := cell.Comment
					r.bad(rule, fmt.Sprintf("%s/%s", fname(fn), name), c.at(st), desc, "`"+name+"` is declared outside the loop, assigned in every iteration here and captured by the closure created at "+c.at(mk)+": when the closures run, all of them see the value of the last iteration")
					return
				}
			}
		})
	}
	if nbad == 0 {
		r.ok(rule, "scan/closures-in-loops", "-", desc, fmt.Sprintf("%d closures created inside loops examined", nmk), true)
	}
}

// ---------------------------------------------------------------------------
// R-PRED-ARGS-USED (C01; added after seed C01g): "a goal's answers are those of resolution" presupposes that
// the goal that runs is the goal that was written: a built-in predicate that never looks at one of its
// arguments computes a relation that cannot depend on it (call/8 that passes its 6th extra argument twice
// answers for a different goal, with the right arity and no error). For every Go function registered as a
// predicate, each Term parameter is referenced at least once, or is declared blank (`_`): the author's explicit
// statement that the argument is ignored.
func rulePredArgsUsed(c *Ctx, r *Report) {
	const rule = "R-PRED-ARGS-USED"
	desc := "a built-in predicate looks at every argument it is called with (or declares it ignored with _)"
	seen := map[*ssa.Function]bool{}
	nparams := 0
	for _, e := range c.registered() {
		fn := e.Fn
		if fn == nil || seen[fn] || len(fn.Blocks) == 0 {
			continue
		}
		seen[fn] = true
		for i, p := range fn.Params {
			if !isEngNamed(p.Type(), "Term") {
				continue
			}
			nparams++
			key := fmt.Sprintf("%s/param#%d", fname(fn), i)
			switch {
			case p.Name() == "_":
				r.ok(rule, key, c.Pos(p.Pos()), desc, "declared blank: ignored on purpose", false)
			case len(*p.Referrers()) > 0:
				r.ok(rule, key, c.Pos(p.Pos()), desc, fmt.Sprintf("%d uses", len(*p.Referrers())), true)
			default:
				r.bad(rule, key, c.Pos(p.Pos()), desc, "parameter "+p.Name()+" of "+e.Name+"/"+fmt.Sprint(e.Arity)+" is named but never used: the predicate's answers cannot depend on that argument (another argument was probably passed in its place)")
			}
		}
	}
	r.analysed(rule, fmt.Sprintf("%d registered predicate functions, %d Term parameters", len(seen), nparams))
}

// reachableFromAvoiding2: target reachable from start (start itself counts when equal).
func reachableFromAvoiding2(start, target *ssa.BasicBlock) bool {
	seen := map[*ssa.BasicBlock]bool{}
	var walk func(b *ssa.BasicBlock) bool
	walk = func(b *ssa.BasicBlock) bool {
		if b == target {
			return true
		}
		if seen[b] {
			return false
		}
		seen[b] = true
		for _, s := range b.Succs {
			if walk(s) {
				return true
			}
		}
		return false
	}
	return walk(start)
}

// ---------------------------------------------------------------------------
// R-FRAME-STAYS (C03, C04; added after seed C03g): "a cut discards precisely the alternatives created since the
// clause's predicate was called and nothing older". The frame of a promise whose child is about to run is the
// barrier of everything the child creates: a later cut of the same clause body pops down to the frame of the
// previous cut, catch/3 recovers at the frame that carries the handler, repeat re-enters through its frame. In the
// trampoline every promise that is asked for a child is put back on the stack BELOW that child: the value the
// child was taken from is appended to the stack before (or together with, at a lower index than) the child.
// Without the frame popUntil finds no barrier and empties the whole stack - every older choice point and handler.
func ruleFrameStays(c *Ctx, r *Report) {
	const rule = "R-FRAME-STAYS"
	desc := "the trampoline keeps the frame of a promise on the stack below the child it runs"
	tr := c.trampoline()
	if tr == nil {
		r.undecided(rule, "anchor:trampoline", "-", desc, "not found")
		return
	}
	// the child-taking calls: static calls in the trampoline of a method on *Promise that returns *Promise
	type litStore struct {
		arr ssa.Value
		idx int64
		st  *ssa.Store
	}
	var lits []litStore
	eachInstr(tr, func(in ssa.Instruction) {
		st, ok := in.(*ssa.Store)
		if !ok {
			return
		}
		ia, ok := st.Addr.(*ssa.IndexAddr)
		if !ok {
			return
		}
		if _, isAlloc := ia.X.(*ssa.Alloc); !isAlloc {
			return
		}
		if k, ok := constInt(ia.Index); ok && c.isPromisePtr(st.Val.Type()) {
			lits = append(lits, litStore{ia.X, k, st})
		}
	})
	n := 0
	eachInstr(tr, func(in ssa.Instruction) {
		call, ok := in.(*ssa.Call)
		if !ok {
			return
		}
		callee := call.Call.StaticCallee()
		if callee == nil || callee.Signature.Recv() == nil || !c.isPromisePtr(callee.Signature.Recv().Type()) || len(call.Call.Args) == 0 {
			return
		}
		if callee.Signature.Results().Len() != 1 || !c.isPromisePtr(callee.Signature.Results().At(0).Type()) {
			return
		}
		n++
		key := fmt.Sprintf("%s/%s#%d", fname(tr), c.stableFuncName(callee), n)
		recv := call.Call.Args[0]
		var pushes []*litStore
		for i, l := range lits {
			if l.st.Val == ssa.Value(call) {
				pushes = append(pushes, &lits[i])
			}
		}
		if len(pushes) == 0 {
			r.ok(rule, key, c.at(in), desc, "the child is not pushed with a slice literal: not decided", false)
			return
		}
		kept := true
		for _, childPush := range pushes { // every push of the child has the frame below it
			one := false
			for _, l := range lits {
				if !(l.st.Val == recv || c.sameVar(l.st.Val, recv)) {
					continue
				}
				switch {
				case l.arr == childPush.arr && l.idx < childPush.idx:
					one = true
				case l.arr != childPush.arr && (l.st.Block() == childPush.st.Block() && instrIndex(l.st) < instrIndex(childPush.st) || l.st.Block() != childPush.st.Block() && l.st.Block().Dominates(childPush.st.Block())):
					one = true
				}
			}
			if !one {
				kept = false
			}
		}
		if kept {
			r.ok(rule, key, c.at(in), desc, "the promise the child is taken from is appended below the child", true)
		} else {
			r.bad(rule, key, c.at(in), desc, "the child is pushed without the promise it was taken from: a later cut of the same body (whose barrier is this frame) pops the whole stack, and a handler or repeat carried by the frame is gone")
		}
	})
	if n == 0 {
		r.undecided(rule, fname(tr)+"/child", c.Pos(tr.Pos()), desc, "no call that takes a child promise found in the trampoline")
	}
	r.analysed(rule, fname(tr))
}

// ---------------------------------------------------------------------------
// R-GOAL-STACK (C01; added after seed C01h): "goals are selected left to right". An iterator over the goals of a
// body that goes DOWN the left operand of a conjunction and keeps the right operands for later has to give them
// back newest first - the operand kept last belongs to the innermost conjunction. Wherever a method of the goal
// iterators (seqIterator, altIterator) both appends to a slice field of the iterator and takes elements out of
// it, it takes them from the end: an element read at the constant index 0 together with a reslice from 1 is a
// queue, and ((A, B), C) runs as A, C, B.
func ruleGoalStack(c *Ctx, r *Report) {
	const rule = "R-GOAL-STACK"
	desc := "operands a goal iterator keeps for later come back newest first"
	n := 0
	for _, tn := range []string{"seqIterator", "altIterator"} {
		next := c.method(tn, "Next")
		if next == nil {
			r.undecided(rule, "anchor:"+tn+".Next", "-", desc, "not found")
			continue
		}
		// slice fields of the receiver that are appended to
		appended := map[int]bool{}
		recv := ssa.Value(next.Params[0])
		fieldOf := func(v ssa.Value) (int, bool) {
			ld, ok := v.(*ssa.UnOp)
			if !ok || ld.Op != token.MUL {
				return 0, false
			}
			fa, ok := ld.X.(*ssa.FieldAddr)
			if !ok || fa.X != recv {
				return 0, false
			}
			if _, isSlice := fa.Type().(*types.Pointer).Elem().Underlying().(*types.Slice); !isSlice {
				return 0, false
			}
			return fa.Field, true
		}
		eachInstr(next, func(in ssa.Instruction) {
			if call, ok := in.(*ssa.Call); ok {
				if b, ok := call.Call.Value.(*ssa.Builtin); ok && b.Name() == "append" {
					if f, ok := fieldOf(call.Call.Args[0]); ok {
						appended[f] = true
					}
				}
			}
		})
		for f := range appended {
			n++
			key := fmt.Sprintf("%s/field#%d", fname(next), f)
			var front ssa.Instruction
			eachInstr(next, func(in ssa.Instruction) {
				switch x := in.(type) {
				case *ssa.IndexAddr:
					if ff, ok := fieldOf(x.X); ok && ff == f {
						if k, isConst := constInt(x.Index); isConst && k == 0 {
							// ... together with a reslice from 1
							eachInstr(next, func(in2 ssa.Instruction) {
								if sl, ok := in2.(*ssa.Slice); ok && sl.Low != nil {
									if ff2, ok := fieldOf(sl.X); ok && ff2 == f {
										if k2, isConst := constInt(sl.Low); isConst && k2 == 1 {
											front = in
										}
									}
								}
							})
						}
					}
				}
			})
			if front == nil {
				r.ok(rule, key, c.Pos(next.Pos()), desc, "no element is taken from the front of the kept operands", true)
			} else {
				r.bad(rule, key, c.at(front), desc, "elements are appended at the end and taken from the front (index 0, reslice from 1): operands kept while going down the left of nested conjunctions come back oldest first, so ((A, B), C) runs as A, C, B")
			}
		}
	}
	if n == 0 {
		r.info(rule, "scan/kept-operands", "-", desc, "the goal iterators keep no operands in a slice (they re-associate the term instead)")
	}
}

// ---------------------------------------------------------------------------
// R-CALL-DELAYS (C13; added after seed C13i): "cancelling the context ... whatever the instant of cancellation" -
// including before the first step. engine.Call builds a promise; nothing of the goal runs until the trampoline,
// which looks at the context first, forces it. In Call's own body (outside the closures it hands to the promise
// constructors) no predicate is entered: there is no call of VM.Arrive. A fast path that dispatches a built-in at
// once runs it while the ARGUMENT of Force(ctx) is still being evaluated - under a context that is already done.
func ruleCallDelays(c *Ctx, r *Report) {
	const rule = "R-CALL-DELAYS"
	desc := "engine.Call enters no predicate before the trampoline forces its promise"
	call := c.fn("Call")
	arrive := c.method("VM", "Arrive")
	if call == nil || arrive == nil {
		r.undecided(rule, "anchor:Call/VM.Arrive", "-", desc, "not found")
		return
	}
	var bad ssa.Instruction
	eachInstr(call, func(in ssa.Instruction) {
		if ci, ok := in.(ssa.CallInstruction); ok && ci.Common().StaticCallee() == arrive {
			bad = in
		}
	})
	key := fname(call) + "/eager-arrive"
	if bad != nil {
		r.bad(rule, key, c.at(bad), desc, "Call enters a predicate in its own body: a built-in that does not delay itself runs - side effects included - before Force has looked at the context, so a query under a cancelled context is executed and answers")
	} else {
		r.ok(rule, key, c.Pos(call.Pos()), desc, "no call of VM.Arrive outside the closures handed to the promise constructors", true)
	}
}
