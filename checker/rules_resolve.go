package main

import (
	"fmt"
	"go/token"
	"go/types"
	"math"
	"path/filepath"
	"sort"
	"strings"

	"golang.org/x/tools/go/ssa"
)

// ---------------------------------------------------------------------------
// R-RESOLVE-ALL (added after the second seeding round, seeds C03b and C10b): wherever an environment is
// in scope, the dynamic type of a term is inspected (type assertion, type switch) only on a value that is
// known to be resolved: the result of Env.Resolve, a value whose concrete type is statically known, a
// field every store to which stores a resolved value, or the result of a function all of whose returns
// are resolved. Inspecting an unresolved term takes a bound variable for a variable: the goal is
// dispatched, compiled, type-checked or compared as if the binding did not exist.
//
// The rule is the whole-engine form of R-RESOLVE-FIRST. Sites the analysis cannot prove but that were read
// and confirmed are frozen in resolveAllow (function + operand + asserted type → reason); a new unproven
// site is reported.

type resolveScope struct {
	prop  string
	files []string // base names of engine source files
	funcs []string // top-level function names, or "Recv.Method"
}

// resolveScopes: which property answers for which part of the engine; the first match wins, functions are
// matched before files, and whatever is left in the engine package belongs to the last entry.
var resolveScopes = []resolveScope{
	{prop: "C03", files: []string{"iterator.go", "vm.go", "promise.go"},
		funcs: []string{"Repeat", "Negate", "Call", "Call1", "Call2", "Call3", "Call4", "Call5", "Call6", "Call7", "callN", "CallNth"}},
	{prop: "C04", files: []string{"exception.go"}, funcs: []string{"Throw", "Catch"}},
	{prop: "C10", files: []string{"clause.go", "text.go"},
		funcs: []string{"Assertz", "Asserta", "assertMerge", "Retract", "sameClause", "Abolish", "Clause", "rulify", "CurrentPredicate"}},
	{prop: "C11", files: []string{"variable.go"},
		funcs: []string{"BagOf", "SetOf", "collectionOf", "variant", "iteratedGoalTerm", "FindAll", "CopyTerm", "renamedCopy", "TermVariables"}},
	{prop: "C02", files: []string{"env.go", "compound.go", "term.go"},
		funcs: []string{"Unify", "UnifyWithOccursCheck", "SubsumesTerm", "AcyclicTerm", "cyclicTerm"}},
	{prop: "C07", files: []string{"number.go", "integer.go", "float.go"}},
	{prop: "C08", files: []string{"atom.go"}, funcs: []string{"Compare", "Sort", "KeySort"}},
	{prop: "C18", funcs: []string{"Op", "validateOp", "appendUniqNewAtom", "CurrentOp"}},
	{prop: "C17", files: []string{"dcg.go"}},
	{prop: "C16"}, // every other built-in
}

func (c *Ctx) resolveOwner(fn *ssa.Function) string {
	top := topFunc(fn)
	name := c.stableFuncName(top)
	if recv := top.Signature.Recv(); recv != nil {
		name = typeName(recv.Type()) + "." + name
	} else {
		for _, s := range resolveScopes {
			for _, n := range s.funcs {
				if n == name {
					return s.prop
				}
			}
		}
	}
	file := filepath.Base(c.Fset.Position(top.Pos()).Filename)
	for _, s := range resolveScopes {
		for _, f := range s.files {
			if f == file {
				return s.prop
			}
		}
	}
	return resolveScopes[len(resolveScopes)-1].prop
}

// resolveAllow: sites confirmed by reading, keyed "function/operand.(type)".
var resolveAllow = map[string]string{
	"engine.KeySort/elems[].(engine.Compound)":                       "every element was appended as the resolved Compound matched by the loop above (case Compound of env.Resolve(elem))",
	"engine.collectionOf/w[].(engine.Variable)":                      "w holds the keys of the free-variable set, Variables by construction",
	"engine.collectionOf/~[].(engine.Compound)":                      "the remaining elements of the same findall/3 result list (s re-sliced): fresh +/2 compounds",
	"engine.collectionOf/s[].(engine.Compound)":                      "s is the list findall/3 built from W+T copies: each element is a fresh +/2 compound",
	"engine.writeTermOptionVariableNames/Suffix().(engine.Variable)": "Suffix() after a completed Next() loop is the hare, resolved by Next",
	"engine.writeTermOptionVariableNames/Suffix().(engine.Atom)":     "Suffix() after a completed Next() loop is the hare, resolved by Next",
	"engine.NumberChars/Suffix().(engine.Variable)":                  "Suffix() after a completed Next() loop is the hare, resolved by Next",
	"engine.NumberCodes/Suffix().(engine.Variable)":                  "Suffix() after a completed Next() loop is the hare, resolved by Next",
	"engine.writeCompoundList/Suffix().(engine.Compound)":            "Suffix() after a completed Next() loop is the hare, resolved by Next",
	"(*engine.partial).Arg/Arg().(engine.Compound)":                  "the spine of a partial list is built by the constructor from Go slices: its cdr is a list cell or the tail variable, checked on the line above",
	"(*engine.Env).Resolve/t.(engine.Variable)":                      "this is the resolver: it follows the binding chain itself",
	"engine.contains/t.(engine.Variable)":                            "occurs check: follows bindings itself through env.lookup on the Variable case (R-OCCURS-DEEP checks that it does)",
	"engine.contains/t.(engine.Compound)":                            "occurs check: follows bindings itself through env.lookup on the Variable case (R-OCCURS-DEEP checks that it does)",
	"engine.contains/s.(engine.Atom)":                                "occurs check: compares identity only; s is the variable being bound",
	"engine.renamedCopy/renamedCopy()#0.(engine.Compound)":           "the copy of a Compound is a Compound: the recursive call received the resolved Compound of the enclosing case",
	"engine.simplify/simplify().(engine.Compound)":                   "simplify of a Compound argument returns a Compound (its own case Compound), the operand was resolved by the recursive call",
}

type resolveChecker struct {
	c       *Ctx
	resolve *ssa.Function
	memoFn  map[*ssa.Function]int // 0 unknown, 1 in progress, 2 yes, 3 no
	memoFld map[string]int
	memoPar map[*ssa.Parameter]int
	stores  map[string][]ssa.Value // "Type.field" -> stored values
	whole   map[string]bool        // struct types stored as a whole value somewhere
}

func newResolveChecker(c *Ctx) *resolveChecker {
	rc := &resolveChecker{c: c, resolve: c.method("Env", "Resolve"), memoFn: map[*ssa.Function]int{}, memoFld: map[string]int{}, memoPar: map[*ssa.Parameter]int{},
		stores: map[string][]ssa.Value{}, whole: map[string]bool{}}
	for _, fn := range c.LibFuncs() {
		eachInstr(fn, func(in ssa.Instruction) {
			st, ok := in.(*ssa.Store)
			if !ok {
				return
			}
			if fa, ok := st.Addr.(*ssa.FieldAddr); ok {
				rc.stores[fieldKey(fa)] = append(rc.stores[fieldKey(fa)], st.Val)
				return
			}
			if pt, ok := st.Addr.Type().Underlying().(*types.Pointer); ok {
				if n, ok := pt.Elem().(*types.Named); ok {
					if _, isStruct := n.Underlying().(*types.Struct); isStruct {
						if _, zero := st.Val.(*ssa.Const); !zero {
							rc.whole[n.Obj().Name()] = true
						}
					}
				}
			}
		})
	}
	return rc
}

func fieldKey(fa *ssa.FieldAddr) string {
	t := fa.X.Type().Underlying().(*types.Pointer).Elem()
	return typeName(t) + "." + fieldName(fa)
}

// resolved: is v known to be a resolved term (or a term of statically known concrete type)?
func (rc *resolveChecker) resolved(v ssa.Value, seen map[ssa.Value]bool, why *ssa.Value) bool {
	if seen[v] {
		return true
	}
	seen[v] = true
	fail := func() bool {
		if *why == nil {
			*why = v
		}
		return false
	}
	switch x := v.(type) {
	case *ssa.Const:
		return true // nil interface: no assertion succeeds on it
	case *ssa.Phi:
		for _, e := range x.Edges {
			if !rc.resolved(e, seen, why) {
				return false
			}
		}
		return true
	case *ssa.MakeInterface:
		if isEngNamed(x.X.Type(), "Variable") {
			return fail()
		}
		return true
	case *ssa.ChangeInterface:
		return rc.resolved(x.X, seen, why)
	case *ssa.ChangeType:
		return rc.resolved(x.X, seen, why)
	case *ssa.TypeAssert:
		return rc.resolved(x.X, seen, why)
	case *ssa.Extract:
		if ta, ok := x.Tuple.(*ssa.TypeAssert); ok && x.Index == 0 {
			return rc.resolved(ta.X, seen, why)
		}
		if call, ok := x.Tuple.(*ssa.Call); ok {
			if rc.callResolved(call, x.Index) {
				return true
			}
		}
		return fail()
	case *ssa.Call:
		if rc.callResolved(x, 0) {
			return true
		}
		return fail()
	case *ssa.Parameter:
		if rc.paramResolved(x) {
			return true
		}
		return fail()
	case *ssa.UnOp:
		if x.Op != token.MUL {
			return fail()
		}
		if cell := rc.c.varCell(x.X); cell != nil {
			sts := rc.c.reachingStores(cell, x)
			if len(sts) == 0 {
				return fail()
			}
			for _, s := range sts {
				if !rc.resolved(s.Val, seen, why) {
					return false
				}
			}
			return true
		}
		if fa, ok := x.X.(*ssa.FieldAddr); ok {
			if rc.fieldResolved(fa) {
				return true
			}
		}
		return fail()
	}
	return fail()
}

func (rc *resolveChecker) callResolved(call *ssa.Call, idx int) bool {
	callee := call.Call.StaticCallee()
	if callee == nil {
		return false
	}
	if callee == rc.resolve {
		return true
	}
	return rc.returnsResolved(callee, idx)
}

// returnsResolved: every return of fn yields a resolved value at result idx (greatest fixed point over
// recursion: a function returning only resolved values and results of its own recursion returns resolved values).
func (rc *resolveChecker) returnsResolved(fn *ssa.Function, idx int) bool {
	if fn.Blocks == nil || !rc.c.isLibPkg(funcPkg(fn)) {
		return false
	}
	if idx >= fn.Signature.Results().Len() || !isEngNamed(fn.Signature.Results().At(idx).Type(), "Term") {
		return false
	}
	if idx != 0 {
		// keep the memo simple: only the first result is summarised
		return false
	}
	switch rc.memoFn[fn] {
	case 1, 2:
		return true
	case 3:
		return false
	}
	rc.memoFn[fn] = 1
	good := true
	eachInstr(fn, func(in ssa.Instruction) {
		ret, ok := in.(*ssa.Return)
		if !ok || len(ret.Results) <= idx {
			return
		}
		var why ssa.Value
		if !rc.resolved(ret.Results[idx], map[ssa.Value]bool{}, &why) {
			good = false
		}
	})
	if good {
		rc.memoFn[fn] = 2
	} else {
		rc.memoFn[fn] = 3
	}
	return good
}

// paramResolved: the parameter of an unexported function that is only called directly, every call site
// passing a resolved value (so that a helper extracted from a built-in may rely on its caller).
func (rc *resolveChecker) paramResolved(p *ssa.Parameter) bool {
	fn := p.Parent()
	if fn.Parent() != nil || fn.Object() == nil || fn.Object().Exported() || rc.c.usedAsValue(fn) {
		return false
	}
	switch rc.memoPar[p] {
	case 1, 2:
		return true
	case 3:
		return false
	}
	rc.memoPar[p] = 1
	idx := -1
	for i, q := range fn.Params {
		if q == p {
			idx = i
		}
	}
	sites := rc.c.callSitesOf(fn)
	good := idx >= 0 && len(sites) > 0
	for _, ci := range sites {
		args := ci.Common().Args
		if idx >= len(args) {
			good = false
			continue
		}
		if _, isCall := ci.(*ssa.Call); !isCall {
			good = false // go/defer: not the plain helper idiom
			continue
		}
		var why ssa.Value
		if !rc.resolved(args[idx], map[ssa.Value]bool{}, &why) {
			good = false
		}
	}
	if good {
		rc.memoPar[p] = 2
	} else {
		rc.memoPar[p] = 3
	}
	return good
}

func (rc *resolveChecker) fieldResolved(fa *ssa.FieldAddr) bool {
	k := fieldKey(fa)
	switch rc.memoFld[k] {
	case 1, 2:
		return true
	case 3:
		return false
	}
	rc.memoFld[k] = 1
	good := len(rc.stores[k]) > 0 && !rc.whole[strings.SplitN(k, ".", 2)[0]]
	if strings.Contains(k, ".") && rc.whole[k[:strings.LastIndex(k, ".")]] {
		good = false
	}
	for _, v := range rc.stores[k] {
		var why ssa.Value
		if !rc.resolved(v, map[ssa.Value]bool{}, &why) {
			good = false
		}
	}
	if good {
		rc.memoFld[k] = 2
	} else {
		rc.memoFld[k] = 3
	}
	return good
}

// envInScope: can fn resolve at all? It has a value of type *Env (parameter, captured variable, call
// result, field load) in itself or in an enclosing function.
func (c *Ctx) envInScope(fn *ssa.Function) bool {
	for f := fn; f != nil; f = f.Parent() {
		for _, p := range f.Params {
			if c.isEnvPtr(p.Type()) {
				return true
			}
		}
		for _, p := range f.FreeVars {
			if c.isEnvPtr(p.Type()) || isPtrTo(p.Type(), c.isEnvPtr) {
				return true
			}
		}
		found := false
		eachInstr(f, func(in ssa.Instruction) {
			if v, ok := in.(ssa.Value); ok && (c.isEnvPtr(v.Type()) || isPtrTo(v.Type(), c.isEnvPtr)) {
				found = true
			}
		})
		if found {
			return true
		}
	}
	return false
}

func isPtrTo(t types.Type, pred func(types.Type) bool) bool {
	p, ok := t.Underlying().(*types.Pointer)
	return ok && pred(p.Elem())
}

func ruleResolveAll(prop string) func(c *Ctx, r *Report) {
	return func(c *Ctx, r *Report) {
		const rule = "R-RESOLVE-ALL"
		rc := newResolveChecker(c)
		if rc.resolve == nil {
			r.undecided(rule, "anchor:Resolve", "-", "locate Env.Resolve", "not found")
			return
		}
		desc := "the dynamic type of a term is inspected only on a resolved term (env.Resolve result, statically typed value, resolved field or summary)"
		nfn, nsite, nexempt := 0, 0, 0
		usedAllow := map[string]bool{}
		var fns []*ssa.Function
		for _, fn := range c.LibFuncs() {
			if funcPkg(fn) == nil || funcPkg(fn).Pkg.Path() != enginePkgPath || (prop != "*" && c.resolveOwner(fn) != prop) {
				continue
			}
			fns = append(fns, fn)
		}
		sort.Slice(fns, func(i, j int) bool { return fname(fns[i]) < fname(fns[j]) })
		for _, fn := range fns {
			nfn++
			inScope := c.envInScope(fn)
			seenKey := map[string]int{}
			eachInstr(fn, func(in ssa.Instruction) {
				ta, ok := in.(*ssa.TypeAssert)
				if !ok || !isEngNamed(ta.X.Type(), "Term") {
					return
				}
				if !inScope {
					nexempt++
					return
				}
				// compile-time operands of the bytecode are constants of the clause, not run-time terms
				if u, ok := ta.X.(*ssa.UnOp); ok && u.Op == token.MUL {
					if fa, ok := u.X.(*ssa.FieldAddr); ok && strings.HasPrefix(fieldKey(fa), "engine.instruction.") {
						nexempt++
						return
					}
				}
				nsite++
				base := fmt.Sprintf("%s/%s.(%s)", fname(fn), stableName(ta.X), typeName(ta.AssertedType))
				seenKey[base]++
				var why ssa.Value
				if rc.resolved(ta.X, map[ssa.Value]bool{}, &why) {
					r.ok(rule, fmt.Sprintf("%s[%d]", base, seenKey[base]), c.at(ta), desc, "operand is resolved", true)
					return
				}
				allowKey := fmt.Sprintf("%s/%s.(%s)", fname(topFunc(fn)), stableName(ta.X), typeName(ta.AssertedType))
				if reason, ok := resolveAllow[allowKey]; ok {
					usedAllow[allowKey] = true
					r.ok(rule, fmt.Sprintf("%s[%d]", base, seenKey[base]), c.at(ta), desc, "confirmed by reading: "+reason, false)
					return
				}
				w := "?"
				if why != nil {
					w = valName(why)
				}
				r.bad(rule, base, c.at(ta), desc, "the operand may be "+w+", not resolved under the current environment: a bound variable is taken for a variable (wrong dispatch, wrong type or instantiation error, wrong order)")
			})
		}
		r.analysed(rule, fmt.Sprintf("%d functions in scope, %d type inspections of terms checked, %d exempt (no environment in scope, or bytecode operand)", nfn, nsite, nexempt))
	}
}

// stableName is valName without SSA register numbers (keys must not change under unrelated edits).
func stableName(v ssa.Value) string {
	n := valName(v)
	i := 0
	for i < len(n) && n[i] >= '0' && n[i] <= '9' {
		i++
	}
	if i > 0 {
		return "~" + n[i:]
	}
	return n
}

// ---------------------------------------------------------------------------
// R-TRIM-CUTSET (C16; added after seed C16b): the cutset-taking functions of package strings/bytes (Trim,
// TrimLeft, TrimRight, IndexAny, LastIndexAny, ContainsAny) interpret their second argument as a SET of
// characters. Passing text that comes from a term (an atom's name, a prefix, a separator) as the cutset
// strips or finds every character of that text, not the text: atom_concat(ab, X, abba) would answer ''.
// Every call of such a function in the library has a constant cutset.

var cutsetFuncs = map[string]bool{"Trim": true, "TrimLeft": true, "TrimRight": true, "IndexAny": true, "LastIndexAny": true, "ContainsAny": true}

func ruleTrimCutset(c *Ctx, r *Report) {
	const rule = "R-TRIM-CUTSET"
	desc := "a cutset-taking strings/bytes function is given a constant set of characters, never text computed from a term"
	ncalls, ncut := 0, 0
	for _, fn := range c.LibFuncs() {
		eachInstr(fn, func(in ssa.Instruction) {
			ci, ok := in.(ssa.CallInstruction)
			if !ok {
				return
			}
			callee := ci.Common().StaticCallee()
			if callee == nil || callee.Pkg == nil {
				return
			}
			p := callee.Pkg.Pkg.Path()
			if p != "strings" && p != "bytes" {
				return
			}
			ncalls++
			if !cutsetFuncs[callee.Name()] || callee.Signature.Recv() != nil || len(ci.Common().Args) < 2 {
				return
			}
			ncut++
			key := fmt.Sprintf("%s/%s.%s", fname(fn), p, callee.Name())
			constant := true
			for _, l := range c.originSet(ci.Common().Args[1]) {
				if _, ok := l.(*ssa.Const); !ok {
					constant = false
				}
			}
			if constant {
				r.ok(rule, key, c.at(in), desc, "constant cutset", true)
			} else {
				r.bad(rule, key, c.at(in), desc, "the cutset is computed ("+valName(ci.Common().Args[1])+"): every character of that text is stripped/matched, not the text itself (use TrimPrefix/TrimSuffix/Index)")
			}
		})
	}
	if ncalls == 0 {
		r.undecided(rule, "scan/strings-calls", "-", desc, "no call into package strings or bytes found: the scan is not seeing the library")
	} else {
		r.ok(rule, "scan/strings-calls", "-", desc, fmt.Sprintf("%d calls into strings/bytes examined, %d of them cutset-taking", ncalls, ncut), false)
	}
	r.analysed(rule, fmt.Sprintf("%d calls into strings/bytes, %d cutset-taking", ncalls, ncut))
}

// ---------------------------------------------------------------------------
// R-MAP-COW (C06; added after seed C06b): a struct passed BY VALUE is a private copy of its scalar fields
// only - a map field still aliases the caller's map. The write options (and any other options struct
// handed down by value) are extended persistently: with…() returns a modified copy so that siblings and
// the caller keep theirs. A function that receives such a struct by value never updates, in place, a map
// it loaded from that copy; it updates a map it made itself (copy-on-write). Otherwise the set of
// terms "being written" leaks from one argument to its siblings and a term that merely occurs twice is
// taken for a cycle and written as '...'.

func ruleMapCOW(c *Ctx, r *Report) {
	const rule = "R-MAP-COW"
	desc := "a map reached through a struct received by value is never updated in place (copy-on-write)"
	nfn, nupd := 0, 0
	hasMapField := func(t types.Type) bool {
		st, ok := t.Underlying().(*types.Struct)
		if !ok {
			return false
		}
		for i := 0; i < st.NumFields(); i++ {
			if _, ok := st.Field(i).Type().Underlying().(*types.Map); ok {
				return true
			}
		}
		return false
	}
	for _, fn := range c.LibFuncs() {
		if fn.Parent() != nil {
			continue
		}
		// by-value struct parameters with map fields, and the local cells they are spilled to
		cells := map[ssa.Value]*ssa.Parameter{}
		for _, p := range fn.Params {
			if _, isNamed := p.Type().(*types.Named); isNamed && hasMapField(p.Type()) {
				cells[p] = p
				for _, ref := range *p.Referrers() {
					if st, ok := ref.(*ssa.Store); ok && st.Val == ssa.Value(p) {
						cells[st.Addr] = p
					}
				}
			}
		}
		if len(cells) == 0 {
			continue
		}
		nfn++
		updates := 0
		for _, f := range withAnon(fn) {
			eachInstr(f, func(in ssa.Instruction) {
				var m ssa.Value
				what := ""
				switch x := in.(type) {
				case *ssa.MapUpdate:
					m, what = x.Map, "assignment"
				case ssa.CallInstruction:
					if b, ok := x.Common().Value.(*ssa.Builtin); ok && (b.Name() == "delete" || b.Name() == "clear") && len(x.Common().Args) > 0 {
						if _, isMap := x.Common().Args[0].Type().Underlying().(*types.Map); isMap {
							m, what = x.Common().Args[0], b.Name()
						}
					}
				}
				if m == nil {
					return
				}
				updates++
				nupd++
				key := fmt.Sprintf("%s/map-%s#%d", fname(f), what, updates)
				var shared *ssa.Parameter
				field := ""
				for _, l := range c.originSet(m) {
					switch x := l.(type) {
					case *ssa.UnOp:
						if fa, ok := x.X.(*ssa.FieldAddr); ok && x.Op == token.MUL {
							if p := cells[fa.X]; p != nil {
								shared, field = p, fieldName(fa)
							}
						}
					case *ssa.Field:
						if p := cells[x.X]; p != nil {
							shared = p
						}
					}
				}
				if shared != nil && field != "" && c.fieldFreshlySet(f, cells, shared, field, in) {
					r.ok(rule, key, c.at(in), desc, "the field was first replaced by a map made in this function", true)
				} else if shared == nil {
					r.ok(rule, key, c.at(in), desc, "the updated map does not come from the by-value parameter", true)
				} else {
					r.bad(rule, fmt.Sprintf("%s/%s.%s", fname(f), shared.Name(), field), c.at(in), desc, fmt.Sprintf("%s of the map %s.%s: %s is a copy of the struct but the map is the caller's - the update is visible to the caller and to every sibling that received the same options", what, shared.Name(), field, shared.Name()))
				}
			})
		}
		if updates == 0 {
			r.ok(rule, fname(fn)+"/no-map-update", c.Pos(fn.Pos()), desc, "receives a struct with map fields by value and updates no map", false)
		}
	}
	r.analysed(rule, fmt.Sprintf("%d functions receiving a struct with map fields by value, %d map updates in them", nfn, nupd))
}

// fieldFreshlySet: every store into field `field` of the by-value copy stores a map made in this function,
// and one of those stores dominates the update.
func (c *Ctx) fieldFreshlySet(f *ssa.Function, cells map[ssa.Value]*ssa.Parameter, p *ssa.Parameter, field string, update ssa.Instruction) bool {
	dominated, all := false, true
	n := 0
	eachInstr(f, func(in ssa.Instruction) {
		st, ok := in.(*ssa.Store)
		if !ok {
			return
		}
		fa, ok := st.Addr.(*ssa.FieldAddr)
		if !ok || cells[fa.X] != p || fieldName(fa) != field {
			return
		}
		n++
		for _, l := range c.originSet(st.Val) {
			if _, ok := l.(*ssa.MakeMap); !ok {
				all = false
			}
		}
		sb, ub := st.Block(), update.Block()
		if (sb == ub && instrIndex(st) < instrIndex(update)) || (sb != ub && sb.Dominates(ub)) {
			dominated = true
		}
	})
	return n > 0 && all && dominated
}

// ---------------------------------------------------------------------------
// R-ANON-VAR (C06; added after seed C06c): the reader maps equal variable tokens of one term to one
// variable; only the token `_` denotes a fresh variable at each occurrence. In the parser's variable
// function every creation of a variable either lies under the fact that the token text equals "_", or is
// followed on every path by the recording of the name (a store into the parser's variable table), so that
// the next occurrence finds it. The writer prints an unnamed variable as _N and expresses "the same
// variable twice" only by repeating that token: a reader that takes every _Name for anonymous reads
// f(_1,_2,_1) back as f(_,_,_).

func ruleAnonVar(c *Ctx, r *Report) {
	const rule = "R-ANON-VAR"
	fn := c.method("Parser", "variable")
	newVar := c.fn("NewVariable")
	if fn == nil || newVar == nil || len(fn.Params) < 2 {
		r.undecided(rule, "anchor", "-", "locate Parser.variable and NewVariable", "not found")
		return
	}
	name := ssa.Value(fn.Params[1])
	desc := "a variable token other than `_` is recorded so that its next occurrence denotes the same variable"
	n := 0
	eachInstr(fn, func(in ssa.Instruction) {
		call, ok := in.(*ssa.Call)
		if !ok || call.Call.StaticCallee() != newVar {
			return
		}
		n++
		key := fmt.Sprintf("%s/NewVariable#%d", fname(fn), n)
		anon := false
		for f := range c.factsAt(in.Block()) {
			bo, ok := f.cond.(*ssa.BinOp)
			if !ok || (bo.Op != token.EQL && bo.Op != token.NEQ) || (bo.Op == token.EQL) != f.pol {
				continue
			}
			for _, pair := range [][2]ssa.Value{{bo.X, bo.Y}, {bo.Y, bo.X}} {
				if pair[0] != name {
					continue
				}
				if k, ok := pair[1].(*ssa.Const); ok && k.Value != nil && k.Value.ExactString() == `"_"` {
					anon = true
				}
			}
		}
		if anon {
			r.ok(rule, key, c.at(in), desc, "created under the fact token == \"_\"", true)
			return
		}
		isRecord := func(x ssa.Instruction) bool {
			st, ok := x.(*ssa.Store)
			if !ok {
				return false
			}
			fa, ok := st.Addr.(*ssa.FieldAddr)
			return ok && fieldName(fa) == "Vars"
		}
		miss := instrReachAvoid(in, func(x ssa.Instruction) bool { _, ok := x.(*ssa.Return); return ok }, isRecord)
		if miss == nil {
			r.ok(rule, key, c.at(in), desc, "every path from the creation to a return records the name in Parser.Vars", true)
		} else {
			r.bad(rule, fmt.Sprintf("%s/NewVariable", fname(fn)), c.at(in), desc, "a fresh variable is returned for a token that is not known to be `_` and the name is not recorded: two occurrences of the same token become two variables")
		}
	})
	if n == 0 {
		r.bad(rule, fname(fn)+"/NewVariable", c.Pos(fn.Pos()), desc, "no variable is created here")
	}
	r.analysed(rule, fname(fn))
}

// ---------------------------------------------------------------------------
// R-INT-CONVERT (C15; added after seed C15c): a Go integer enters Prolog as the Integer with the same
// value. Every conversion into engine.Integer from an unsigned 64-bit (or platform-sized unsigned) value
// is guarded by branch facts bounding it by the largest Integer; signed sources and narrower unsigned
// sources are value-preserving by type.

func ruleIntConvert(c *Ctx, r *Report) {
	const rule = "R-INT-CONVERT"
	desc := "a conversion of a Go integer into engine.Integer preserves the value"
	n, nuns := 0, 0
	for _, fn := range c.LibFuncs() {
		seen := 0
		eachInstr(fn, func(in ssa.Instruction) {
			cv, ok := in.(*ssa.Convert)
			if !ok || !isEngNamed(cv.Type(), "Integer") {
				return
			}
			src, ok := cv.X.Type().Underlying().(*types.Basic)
			if !ok || src.Info()&types.IsInteger == 0 {
				return
			}
			n++
			switch src.Kind() {
			case types.Uint64, types.Uint, types.Uintptr:
			default:
				return
			}
			nuns++
			seen++
			key := fmt.Sprintf("%s/Integer(%s)#%d", fname(fn), stableName(cv.X), seen)
			rg := c.rangeOfIndex(cv.X, in)
			if rg.hasHi && rg.hi <= math.MaxInt64 && rg.hi >= 0 {
				r.ok(rule, key, c.at(in), desc, "unsigned source bounded by branch facts", true)
			} else {
				r.bad(rule, fmt.Sprintf("%s/Integer(%s)", fname(fn), stableName(cv.X)), c.at(in), desc, "an unsigned 64-bit value is converted without a bound: values from 2^63 wrap to negative Integers (uint64(math.MaxUint64) arrives as -1)")
			}
		})
	}
	r.ok(rule, "scan/conversions", "-", desc, fmt.Sprintf("%d integer conversions into engine.Integer examined, %d from an unsigned 64-bit source", n, nuns), false)
	r.analysed(rule, fmt.Sprintf("%d conversions into engine.Integer", n))
}

// ---------------------------------------------------------------------------
// R-TAIL-CDR (C16, C02; added after seed C16c): a partial list [E1,...,En|T] is a proper-list spine whose
// final [] stands for T. In (*partial).Arg the tail is substituted only in the cdr position: the load of
// the tail lies under the fact n == 1. Substituting it for an ELEMENT that happens to be [] replaces that
// element by the tail (append([a,[],b],[c],Zs) answers [a,[c],b,c]).

func ruleTailCdr(c *Ctx, r *Report) {
	const rule = "R-TAIL-CDR"
	fn := c.method("partial", "Arg")
	if fn == nil || len(fn.Params) < 2 {
		r.undecided(rule, "anchor:partial.Arg", "-", "locate (*partial).Arg", "not found")
		return
	}
	idx := ssa.Value(fn.Params[1])
	desc := "the tail of a partial list replaces only the cdr ([] at argument 1), never an element"
	n := 0
	eachInstr(fn, func(in ssa.Instruction) {
		// uses of the tail: loads through the field `tail`, and constructions of a nested partial
		fa, ok := in.(*ssa.FieldAddr)
		if !ok || fieldName(fa) != "tail" {
			return
		}
		n++
		key := fmt.Sprintf("%s/tail#%d", fname(fn), n)
		cdr := false
		for f := range c.factsAt(in.Block()) {
			bo, ok := f.cond.(*ssa.BinOp)
			if !ok || (bo.Op != token.EQL && bo.Op != token.NEQ) || (bo.Op == token.EQL) != f.pol {
				continue
			}
			for _, pair := range [][2]ssa.Value{{bo.X, bo.Y}, {bo.Y, bo.X}} {
				if pair[0] != idx {
					continue
				}
				if k, ok := constInt(pair[1]); ok && k == 1 {
					cdr = true
				}
			}
		}
		if cdr {
			r.ok(rule, key, c.at(in), desc, "used under the fact n == 1", true)
		} else {
			r.bad(rule, fmt.Sprintf("%s/tail", fname(fn)), c.at(in), desc, "the tail is used without the fact n == 1: an element [] of the prefix is replaced by the tail")
		}
	})
	if n == 0 {
		r.bad(rule, fname(fn)+"/tail", c.Pos(fn.Pos()), desc, "the tail is never used in Arg")
	}
	r.analysed(rule, fname(fn))
}

// ---------------------------------------------------------------------------
// R-CODE-NARROW (C16, C05; added with fix F26): a Prolog integer that is used as a character code, a byte
// or any other narrow quantity is range-checked BEFORE it is converted to the narrow Go type: at every
// conversion in the engine from engine.Integer to a Go integer type of at most 32 bits the branch facts
// bound the Integer inside the target's range. Validating the truncated value instead (utf8.ValidRune of
// rune(n)) accepts every n that is a valid code modulo 2^32: char_code(C, 4294967393) answers C = a.

func ruleCodeNarrow(c *Ctx, r *Report) {
	const rule = "R-CODE-NARROW"
	desc := "an Integer is bounded by branch facts inside the range of the narrow type it is converted to"
	n := 0
	for _, fn := range c.LibFuncs() {
		if funcPkg(fn) != c.Engine {
			continue
		}
		seen := map[string]int{}
		eachInstr(fn, func(in ssa.Instruction) {
			cv, ok := in.(*ssa.Convert)
			if !ok || !isEngNamed(cv.X.Type(), "Integer") {
				return
			}
			dst, ok := cv.Type().Underlying().(*types.Basic)
			if !ok || dst.Info()&types.IsInteger == 0 {
				return
			}
			var lo, hi int64
			switch dst.Kind() {
			case types.Int8:
				lo, hi = math.MinInt8, math.MaxInt8
			case types.Uint8:
				lo, hi = 0, math.MaxUint8
			case types.Int16:
				lo, hi = math.MinInt16, math.MaxInt16
			case types.Uint16:
				lo, hi = 0, math.MaxUint16
			case types.Int32:
				lo, hi = math.MinInt32, math.MaxInt32
			case types.Uint32:
				lo, hi = 0, math.MaxUint32
			default:
				return
			}
			n++
			base := fmt.Sprintf("%s/%s(%s)", fname(fn), cv.Type().String(), stableName(cv.X))
			seen[base]++
			key := fmt.Sprintf("%s#%d", base, seen[base])
			rg := c.rangeOfIndex(cv.X, in)
			if rg.hasLo && rg.hasHi && rg.lo >= lo && rg.hi <= hi {
				r.ok(rule, key, c.at(in), desc, fmt.Sprintf("bounded to [%d,%d] on every path to the conversion", rg.lo, rg.hi), true)
			} else {
				r.bad(rule, base, c.at(in), desc, fmt.Sprintf("the Integer is converted to %s without being bounded to [%d,%d] first: values outside are truncated and then pass for valid", cv.Type().String(), lo, hi))
			}
		})
	}
	if n == 0 {
		r.bad(rule, "scan/narrowing", "-", desc, "no narrowing conversion of an Integer found in the engine")
	}
	r.analysed(rule, fmt.Sprintf("%d narrowing conversions of engine.Integer in the engine", n))
}

// ---------------------------------------------------------------------------
// R-CODE-VALID (C16; added with fix F42): a character code given as a Prolog integer becomes text only after
// utf8.ValidRune has accepted it.  Go turns an invalid code (a surrogate half) into U+FFFD when it is written
// to a strings.Builder or converted to a string, so atom_codes(A, [0xD800]) built an atom whose codes are not
// the given list.  At every use of rune(Integer) as text - an argument of WriteRune, a conversion to Atom or
// to string - the branch facts contain utf8.ValidRune(rune(that Integer)) == true.  char_code/2, atom_codes/2
// and number_codes/2 are siblings here.
func ruleCodeValid(c *Ctx, r *Report) {
	const rule = "R-CODE-VALID"
	desc := "a rune converted from an Integer is used as text only under utf8.ValidRune(rune) == true"
	n := 0
	for _, fn := range c.LibFuncs() {
		if funcPkg(fn) != c.Engine {
			continue
		}
		seen := map[string]int{}
		eachInstr(fn, func(in ssa.Instruction) {
			cv, ok := in.(*ssa.Convert)
			if !ok || !isEngNamed(cv.X.Type(), "Integer") {
				return
			}
			if b, ok := cv.Type().Underlying().(*types.Basic); !ok || b.Kind() != types.Int32 {
				return
			}
			for _, ref := range *cv.Referrers() {
				use := ""
				switch u := ref.(type) {
				case *ssa.Call:
					if callee := u.Call.StaticCallee(); callee != nil && callee.Name() == "WriteRune" {
						use = "WriteRune"
					}
				case *ssa.Convert:
					if isEngNamed(u.Type(), "Atom") {
						use = "Atom()"
					} else if b, ok := u.Type().Underlying().(*types.Basic); ok && b.Kind() == types.String {
						use = "string()"
					}
				}
				if use == "" {
					continue
				}
				n++
				base := fmt.Sprintf("%s/%s(rune(%s))", fname(fn), use, stableName(cv.X))
				seen[base]++
				key := fmt.Sprintf("%s#%d", base, seen[base])
				valid := false
				sameCode := func(arg ssa.Value) bool {
					if arg == ssa.Value(cv) || c.sameVar(arg, cv.X) {
						return true
					}
					acv, ok := arg.(*ssa.Convert)
					return ok && c.sameVar(acv.X, cv.X)
				}
				for f := range c.factsAt(ref.Block()) {
					call, ok := f.cond.(*ssa.Call)
					if !ok || !f.pol || !isValidRuneCall(call) {
						continue
					}
					if sameCode(call.Call.Args[0]) {
						valid = true
					}
				}
				// a helper that answers true only for codes utf8.ValidRune accepts
				for f := range c.factsAt(ref.Block()) {
					call, ok := f.cond.(*ssa.Call)
					if !ok || !f.pol || valid {
						continue
					}
					callee := call.Call.StaticCallee()
					if callee == nil || funcPkg(callee) != c.Engine {
						continue
					}
					for i, a := range call.Call.Args {
						if sameCode(a) && i < len(callee.Params) && c.trueImpliesValidRune(callee, callee.Params[i]) {
							valid = true
						}
					}
				}
				if valid {
					r.ok(rule, key, c.at(ref), desc, "under utf8.ValidRune of the same code", true)
				} else {
					r.bad(rule, base, c.at(ref), desc, "the code is used as text without utf8.ValidRune: a surrogate half (0xD800..0xDFFF) becomes U+FFFD, a character the caller did not give")
				}
			}
		})
	}
	if n == 0 {
		r.bad(rule, "scan/uses", "-", desc, "no use of rune(Integer) as text found in the engine")
	}
	r.analysed(rule, fmt.Sprintf("%d uses of rune(Integer) as text in the engine", n))
}

func isValidRuneCall(call *ssa.Call) bool {
	callee := call.Call.StaticCallee()
	return callee != nil && callee.Pkg != nil && callee.Pkg.Pkg.Path() == "unicode/utf8" && callee.Name() == "ValidRune" && len(call.Call.Args) == 1
}

// trueImpliesValidRune: fn returns one bool, and every value it can return other than the constant false is
// either utf8.ValidRune(param) itself or is returned where utf8.ValidRune(param) is known true.
func (c *Ctx) trueImpliesValidRune(fn *ssa.Function, param *ssa.Parameter) bool {
	if fn.Blocks == nil || fn.Signature.Results().Len() != 1 {
		return false
	}
	onParam := func(v ssa.Value) bool {
		if v == ssa.Value(param) {
			return true
		}
		cv, ok := v.(*ssa.Convert)
		return ok && cv.X == ssa.Value(param)
	}
	knownValid := func(b *ssa.BasicBlock) bool {
		for f := range c.factsAt(b) {
			if call, ok := f.cond.(*ssa.Call); ok && f.pol && isValidRuneCall(call) && onParam(call.Call.Args[0]) {
				return true
			}
		}
		return false
	}
	var okValue func(v ssa.Value, at *ssa.BasicBlock, depth int) bool
	okValue = func(v ssa.Value, at *ssa.BasicBlock, depth int) bool {
		if depth > 8 {
			return false
		}
		switch x := v.(type) {
		case *ssa.Const:
			if x.Value != nil && x.Value.String() == "false" {
				return true
			}
			return knownValid(at)
		case *ssa.Call:
			if isValidRuneCall(x) && onParam(x.Call.Args[0]) {
				return true
			}
			return knownValid(at)
		case *ssa.Phi:
			for i, e := range x.Edges {
				if !okValue(e, x.Block().Preds[i], depth+1) {
					return false
				}
			}
			return true
		}
		return knownValid(at)
	}
	found := false
	for _, b := range blocksOf(fn) {
		if ret, ok := b.Instrs[len(b.Instrs)-1].(*ssa.Return); ok {
			found = true
			if !okValue(ret.Results[0], b, 0) {
				return false
			}
		}
	}
	return found
}

// ---------------------------------------------------------------------------
// R-APPEND-SHORTCUT (C16; added after seeds C16g and C02g): append/3 "yields each tuple of the relation that
// matches the instantiated arguments". Its Go implementation answers deterministically, without the two-clause
// definition, only when the first argument is a proper list - which it knows after a ListIterator has walked it
// and reported no error. Every answer computed in the predicate function itself (a call of Unify there) lies
// under the fact that the iterator's Err() is nil; everything else goes through the relational definition.
// A shortcut taken before the walk answers append([a|T], [], Z) once with Z = [a|T], and append([a|b], [], Z)
// at all.
func ruleAppendShortcut(c *Ctx, r *Report) {
	const rule = "R-APPEND-SHORTCUT"
	desc := "append/3 answers without its relational definition only for a first argument that was walked as a proper list"
	fn := c.registeredFn("append", 3)
	unify := c.fn("Unify")
	if fn == nil || unify == nil {
		r.undecided(rule, "anchor:append/3", "-", desc, "append/3 or Unify not found")
		return
	}
	n := 0
	eachInstr(fn, func(in ssa.Instruction) {
		call, ok := in.(*ssa.Call)
		if !ok || call.Call.StaticCallee() != unify {
			return
		}
		n++
		key := fmt.Sprintf("%s/direct-answer#%d", fname(fn), n)
		walked := false
		for f := range c.factsAt(in.Block()) {
			// a value of one of the closed list representations is a proper list by construction
			if e, isE := f.cond.(*ssa.Extract); isE && e.Index == 1 && f.pol {
				if ta, isTA := e.Tuple.(*ssa.TypeAssert); isTA && (isEngNamed(ta.AssertedType, "list") || isEngNamed(ta.AssertedType, "charList") || isEngNamed(ta.AssertedType, "codeList")) {
					if _, isPtr := ta.AssertedType.(*types.Pointer); !isPtr {
						walked = true
					}
				}
			}
			x, op, ok := nilCmp(f.cond)
			if !ok || (op == token.EQL) != f.pol {
				continue
			}
			if e, isE := x.(*ssa.Extract); isE {
				x = e.Tuple
			}
			ec, isCall := x.(*ssa.Call)
			if !isCall {
				continue
			}
			callee := ec.Call.StaticCallee()
			if callee != nil && callee.Name() == "Err" && callee.Signature.Recv() != nil && isEngNamed(callee.Signature.Recv().Type(), "ListIterator") {
				walked = true
			}
		}
		if walked {
			r.ok(rule, key, c.at(in), desc, "under the fact ListIterator.Err() == nil", true)
		} else {
			r.bad(rule, key, c.at(in), desc, "this answer is computed where no list iterator is known to have finished without error: a partial list or a non-list first argument is answered as if it were a proper list (solutions are lost, or a non-list is accepted)")
		}
	})
	if n == 0 {
		r.info(rule, fname(fn)+"/direct-answer", c.Pos(fn.Pos()), desc, "the predicate function computes no answer itself")
	}
	r.analysed(rule, fname(fn))
}

// ---------------------------------------------------------------------------
// R-PIARG-CHECKED (C20, C05; added after seed C20i): piArg is the library's test for "is this a callable term, and
// which predicate does it name". Its error result says the term is not callable; "a non-callable clause" fails a
// load. Every call of piArg has its error result examined (the extracted error has a use).
var piArgDispatchOnly = map[string]string{
	"(*engine.VM).directive/piArg#1": "the indicator only selects the case of a directive the loader handles itself; a directive that is not callable matches none and is handed to Call, which raises type_error(callable, _)",
}

func rulePiArgChecked(c *Ctx, r *Report) {
	const rule = "R-PIARG-CHECKED"
	desc := "the error of the callable-term test is never thrown away"
	pa := c.fn("piArg")
	if pa == nil {
		r.undecided(rule, "anchor:piArg", "-", desc, "not found")
		return
	}
	errIdx := pa.Signature.Results().Len() - 1
	n := 0
	for _, fn := range c.LibFuncs() {
		k := 0
		eachInstr(fn, func(in ssa.Instruction) {
			call, ok := in.(*ssa.Call)
			if !ok || call.Call.StaticCallee() != pa {
				return
			}
			n++
			k++
			key := fmt.Sprintf("%s/piArg#%d", fname(fn), k)
			used := false
			for _, ref := range *call.Referrers() {
				if e, ok := ref.(*ssa.Extract); ok && e.Index == errIdx && len(*e.Referrers()) > 0 {
					used = true
				}
			}
			if why, ok := piArgDispatchOnly[stripOrdinals(key)]; ok && !used {
				r.ok(rule, key, c.at(in), desc, "confirmed by reading: "+why, false)
				return
			}
			if used {
				r.ok(rule, key, c.at(in), desc, "the error result is used", true)
			} else {
				r.bad(rule, key, c.at(in), desc, "the error result is discarded: a head or goal that is not callable (1 :- foo.) goes on as the zero predicate indicator instead of failing the load or raising type_error(callable, _)")
			}
		})
	}
	if n == 0 {
		r.undecided(rule, "scan/piArg-calls", "-", desc, "no call of piArg found")
	}
}

// ---------------------------------------------------------------------------
// R-SUBATOM-BOUNDS (C16; added after seed C16i): sub_atom/5 "yields each tuple of the relation": the sub-atoms of
// an atom of N characters start at 0..N and end at 0..N - both ends INCLUSIVE (the empty sub-atom after the last
// character is one of them). In the enumerating built-in every loop condition that compares an induction variable
// with len(characters) is `<=` (or its mirror), never `<`: a `for i := range rs` stops one short.
func ruleSubAtomBounds(c *Ctx, r *Report) {
	const rule = "R-SUBATOM-BOUNDS"
	desc := "the enumeration of sub-atoms runs both positions up to the length inclusive"
	fn := c.registeredFn("sub_atom", 5)
	if fn == nil {
		r.undecided(rule, "anchor:sub_atom/5", "-", desc, "not registered")
		return
	}
	n := 0
	for _, g := range withAnon(fn) {
		eachInstr(g, func(in ssa.Instruction) {
			bo, ok := in.(*ssa.BinOp)
			if !ok {
				return
			}
			isLen := func(v ssa.Value) bool {
				call, ok := v.(*ssa.Call)
				if !ok {
					return false
				}
				b, ok := call.Call.Value.(*ssa.Builtin)
				if !ok || b.Name() != "len" {
					return false
				}
				sl, ok := call.Call.Args[0].Type().Underlying().(*types.Slice)
				if !ok {
					return false
				}
				e, ok := sl.Elem().Underlying().(*types.Basic)
				return ok && e.Kind() == types.Int32
			}
			_, xPhi := bo.X.(*ssa.Phi)
			_, yPhi := bo.Y.(*ssa.Phi)
			var inclusive bool
			// the form go/ssa gives `for i := range rs`: (i + 1) < len(rs) - the index never reaches the length
			if add, ok := bo.X.(*ssa.BinOp); ok && add.Op == token.ADD && isLen(bo.Y) && (bo.Op == token.LSS || bo.Op == token.LEQ) {
				if _, isPhi := add.X.(*ssa.Phi); isPhi {
					if k1, ok := constInt(add.Y); ok && k1 == 1 {
						isCond := false
						for _, ref := range *bo.Referrers() {
							if _, ok := ref.(*ssa.If); ok {
								isCond = true
							}
						}
						if isCond {
							n++
							r.bad(rule, fmt.Sprintf("%s/position-loop#%d", fname(fn), n), c.at(in), desc, "a loop over the indices of the characters (range) stops below len(characters): the sub-atoms that start after the last character are never produced - sub_atom(abc, 3, 0, 0, S) fails")
						}
						return
					}
				}
			}
			switch {
			case xPhi && isLen(bo.Y) && (bo.Op == token.LEQ || bo.Op == token.LSS):
				inclusive = bo.Op == token.LEQ
			case yPhi && isLen(bo.X) && (bo.Op == token.GEQ || bo.Op == token.GTR):
				inclusive = bo.Op == token.GEQ
			default:
				return
			}
			// only loop conditions: the comparison decides a branch
			isCond := false
			for _, ref := range *bo.Referrers() {
				if _, ok := ref.(*ssa.If); ok {
					isCond = true
				}
			}
			if !isCond {
				return
			}
			n++
			key := fmt.Sprintf("%s/position-loop#%d", fname(fn), n)
			if inclusive {
				r.ok(rule, key, c.at(in), desc, "the position runs up to len(characters) inclusive", true)
			} else {
				r.bad(rule, key, c.at(in), desc, "the position stops below len(characters): the sub-atoms that start (or end) after the last character are never produced - sub_atom(abc, 3, 0, 0, S) fails")
			}
		})
	}
	if n == 0 {
		r.undecided(rule, fname(fn)+"/position-loops", c.Pos(fn.Pos()), desc, "no loop over character positions found")
	}
}
