package main

import (
	"fmt"
	"go/token"
	"go/types"
	"math"
	"sort"

	"golang.org/x/tools/go/ssa"
)

// ---------------------------------------------------------------------------
// C06: R-ESCAPE-VALIDATED — added with fix F44.  The text writeq produces for an atom that holds a character
// outside the directly writable set is a numeric escape ('\xfffd\'), and the reader turns the digits of an
// escape back into the character with string(rune(n)) - which yields U+FFFD for every n that is no character.
// So the lexer has to decide validity on the number, where the escape ends, and for every kind of token that
// may hold one (quoted atom, double-quoted list, 0'c): deciding it on the unquoted text (looking for U+FFFD)
// rejects the atom '\xFFFD\' that writeq has just written, and not deciding it at all lets "\xD800\" read as a
// different character.
//
// Discovery: the numeric-escape functions are the functions of the engine that take the token continuation
// (a parameter of type func() (Token, error)) and consume digits in a loop (a call of isOctalDigitChar or
// isHexadecimalDigitChar inside a CFG cycle), plus every function with such a parameter they statically call.
// Obligation, per call of the continuation parameter in those functions: the call happens only where a
// condition computed from utf8.ValidRune holds, or the kind of the token it returns is overwritten with
// tokenInvalid under a condition computed from utf8.ValidRune; and where the number is narrowed to a rune on
// the way into ValidRune, it comes from strconv.ParseInt/ParseUint with a bit size of at most 32 or is bounded
// by branch facts.  Not decided: the polarity of that condition, and that the digits parsed are the digits read.
func ruleEscapeValidated(c *Ctx, r *Report) {
	const rule = "R-ESCAPE-VALIDATED"
	desc := "a numeric escape sequence continues its token as valid only if utf8.ValidRune accepted its value"
	digitPreds := map[*ssa.Function]bool{}
	for _, name := range []string{"isOctalDigitChar", "isHexadecimalDigitChar"} {
		f := c.fn(name)
		if f == nil {
			r.undecided(rule, "anchor:"+name, "-", "locate the digit predicate", "not found")
			return
		}
		digitPreds[f] = true
	}
	isContType := func(t types.Type) bool {
		sig, ok := t.Underlying().(*types.Signature)
		if !ok || sig.Params().Len() != 0 || sig.Results().Len() != 2 {
			return false
		}
		return isEngNamed(sig.Results().At(0).Type(), "Token") && isErrorType(sig.Results().At(1).Type())
	}
	contParams := func(fn *ssa.Function) []*ssa.Parameter {
		var out []*ssa.Parameter
		for _, p := range fn.Params {
			if isContType(p.Type()) {
				out = append(out, p)
			}
		}
		return out
	}
	inCycle := func(b *ssa.BasicBlock) bool {
		seen := map[*ssa.BasicBlock]bool{}
		stack := append([]*ssa.BasicBlock{}, b.Succs...)
		for len(stack) > 0 {
			x := stack[len(stack)-1]
			stack = stack[:len(stack)-1]
			if x == b {
				return true
			}
			if seen[x] {
				continue
			}
			seen[x] = true
			stack = append(stack, x.Succs...)
		}
		return false
	}
	numeric := map[*ssa.Function]bool{}
	for _, fn := range c.LibFuncs() {
		if funcPkg(fn) != c.Engine || len(contParams(fn)) == 0 {
			continue
		}
		eachInstr(fn, func(in ssa.Instruction) {
			if call, ok := in.(*ssa.Call); ok && digitPreds[call.Call.StaticCallee()] && inCycle(in.Block()) {
				numeric[fn] = true
			}
		})
	}
	if len(numeric) < 2 {
		r.undecided(rule, "anchor:digit-loops", "-", "locate the octal and the hexadecimal escape loops", fmt.Sprintf("%d found", len(numeric)))
		return
	}
	// close under static calls of functions that take the continuation
	for changed := true; changed; {
		changed = false
		for fn := range numeric {
			eachInstr(fn, func(in ssa.Instruction) {
				if call, ok := in.(*ssa.Call); ok {
					if callee := call.Call.StaticCallee(); callee != nil && !numeric[callee] && funcPkg(callee) == c.Engine && len(contParams(callee)) > 0 {
						numeric[callee] = true
						changed = true
					}
				}
			})
		}
	}
	var names []string
	for fn := range numeric {
		names = append(names, fname(fn))
	}
	sort.Strings(names)
	r.analysed(rule, names...)

	validRuneIn := func(v ssa.Value) *ssa.Call {
		var found *ssa.Call
		dataSlice(v, func(x ssa.Value) bool {
			if call, ok := x.(*ssa.Call); ok && isValidRuneCall(call) {
				found = call
				return false
			}
			return found == nil
		})
		return found
	}
	factFromValidRune := func(b *ssa.BasicBlock) *ssa.Call {
		for f := range c.factsAt(b) {
			if call := validRuneIn(f.cond); call != nil {
				return call
			}
		}
		return nil
	}
	invalidKind, _ := c.Engine.Members["tokenInvalid"].(*ssa.NamedConst)
	if invalidKind == nil {
		r.undecided(rule, "anchor:tokenInvalid", "-", "locate tokenInvalid", "not found")
		return
	}
	invalidVal, _ := constInt(invalidKind.Value)

	total := 0
	for _, name := range names {
		var fn *ssa.Function
		for f := range numeric {
			if fname(f) == name {
				fn = f
			}
		}
		params := contParams(fn)
		k := 0
		eachInstr(fn, func(in ssa.Instruction) {
			call, ok := in.(*ssa.Call)
			if !ok || call.Call.IsInvoke() {
				return
			}
			isCont := false
			for _, p := range params {
				if call.Call.Value == ssa.Value(p) {
					isCont = true
				}
			}
			if !isCont {
				return
			}
			total++
			k++
			key := fmt.Sprintf("%s/cont()#%d", fname(fn), k)
			var vr *ssa.Call
			how := ""
			if vr = factFromValidRune(in.Block()); vr != nil {
				how = "the token continues only where a condition computed from utf8.ValidRune holds"
			} else {
				// the returned token's kind overwritten with tokenInvalid under a ValidRune-derived condition
				eachInstr(fn, func(x ssa.Instruction) {
					st, ok := x.(*ssa.Store)
					if !ok || vr != nil {
						return
					}
					fa, ok := st.Addr.(*ssa.FieldAddr)
					if !ok || !isEngNamed(deref(fa.X.Type()), "Token") || fieldName(fa) != "kind" {
						return
					}
					if v, ok := constInt(st.Val); !ok || v != invalidVal {
						return
					}
					// the token is the one the continuation returned
					fromCont := false
					if cell, ok := fa.X.(*ssa.Alloc); ok {
						for _, s := range c.storesTo(cell) {
							if ex, ok := s.Val.(*ssa.Extract); ok && ex.Tuple == ssa.Value(call) {
								fromCont = true
							}
						}
					}
					if !fromCont || !call.Block().Dominates(st.Block()) {
						return
					}
					if v := factFromValidRune(st.Block()); v != nil {
						vr = v
						how = "the kind of the token the continuation returns is set to tokenInvalid at " + c.at(st) + " under a condition computed from utf8.ValidRune"
					}
				})
			}
			if vr == nil {
				r.bad(rule, key, c.at(in), desc, "the token continues after the escape whatever its value: no condition computed from utf8.ValidRune guards the continuation or invalidates its token (an escape that denotes no character reads as U+FFFD, or validity is decided on the unquoted text, where '\\xFFFD\\' looks invalid)")
				return
			}
			// the number on its way into ValidRune
			narrowOK, why := true, ""
			dataSlice(vr.Call.Args[0], func(x ssa.Value) bool {
				cv, ok := x.(*ssa.Convert)
				if !ok {
					return true
				}
				src, ok1 := cv.X.Type().Underlying().(*types.Basic)
				dst, ok2 := cv.Type().Underlying().(*types.Basic)
				if !ok1 || !ok2 || dst.Kind() != types.Int32 || (src.Kind() != types.Int64 && src.Kind() != types.Int && src.Kind() != types.Uint64 && src.Kind() != types.Uint) {
					return true
				}
				bounded, parsed := false, false
				for _, l := range c.originSet(cv.X) {
					if ex, ok := l.(*ssa.Extract); ok {
						l = ex.Tuple
					}
					if pc, ok := l.(*ssa.Call); ok {
						if callee := pc.Call.StaticCallee(); callee != nil && callee.Pkg != nil && callee.Pkg.Pkg.Path() == "strconv" && (callee.Name() == "ParseInt" || callee.Name() == "ParseUint") && len(pc.Call.Args) == 3 {
							parsed = true
							if bits, ok := constInt(pc.Call.Args[2]); ok && bits > 0 && ((callee.Name() == "ParseInt" && bits <= 32) || bits <= 31) {
								bounded = true
							}
						}
					}
				}
				// digits carry no sign: for a parsed number the upper bound is the one that matters
				if rg := c.rangeOfIndex(cv.X, cv); rg.hasHi && rg.hi <= math.MaxInt32 && (parsed || (rg.hasLo && rg.lo >= math.MinInt32)) {
					bounded = true
				}
				if !bounded {
					narrowOK, why = false, "the number is narrowed to a rune at "+c.at(cv)+" without a bound: \\x100000041\\ would pass for 'A'"
				}
				return true
			})
			if !narrowOK {
				r.bad(rule, key, c.at(in), desc, why)
				return
			}
			r.ok(rule, key, c.at(in), desc, how, true)
		})
	}
	if total < 1 {
		r.undecided(rule, "floor:cont-calls", "-", desc, "no call of the continuation found in the numeric-escape functions")
	}
}

// ---------------------------------------------------------------------------
// C06: R-BRACKET-PRIORITY — added after seed C06e.  The writer emits a bare operator atom wherever the term
// stands alone between brackets - `{-}`, `(-)`, `- .` - because there the reader accepts a term of the full
// priority 1201 (6.3.1.3: an operator atom is a term of priority 1201).  The three places where the reader
// reads "a whole term up to a closing token" therefore use one and the same maximum priority: Parser.Term (up
// to the end token) and every Parser function that reads a term and then demands `)` or `}`.  Checked: the
// constant passed to Parser.term in each function that compares a token kind with tokenClose or
// tokenCloseCurly equals the constant Parser.Term passes.
func ruleBracketPriority(c *Ctx, r *Report) {
	const rule = "R-BRACKET-PRIORITY"
	desc := "a term enclosed in ( ) or { } is read with the same maximum priority as a whole read-term"
	term := c.method("Parser", "term")
	top := c.method("Parser", "Term")
	if term == nil || top == nil {
		r.undecided(rule, "anchor:Parser.term/Term", "-", "locate Parser.term and Parser.Term", "not found")
		return
	}
	closers := map[int64]string{}
	for _, name := range []string{"tokenClose", "tokenCloseCurly"} {
		k, ok := c.Engine.Members[name].(*ssa.NamedConst)
		if !ok {
			r.undecided(rule, "anchor:"+name, "-", "locate the token kind", "not found")
			return
		}
		v, _ := constInt(k.Value)
		closers[v] = name
	}
	constArg := func(fn *ssa.Function) (int64, ssa.Instruction, bool) {
		var k int64
		var at ssa.Instruction
		found := false
		eachInstr(fn, func(in ssa.Instruction) {
			call, ok := in.(*ssa.Call)
			if !ok || call.Call.StaticCallee() != term || len(call.Call.Args) < 2 {
				return
			}
			if v, ok := constInt(call.Call.Args[1]); ok {
				k, at, found = v, in, true
			}
		})
		return k, at, found
	}
	topK, _, ok := constArg(top)
	if !ok {
		r.undecided(rule, "anchor:Parser.Term/priority", c.Pos(top.Pos()), desc, "Parser.Term does not pass a constant priority")
		return
	}
	n := 0
	for _, fn := range c.LibFuncs() {
		if recvNamed(fn) != "Parser" || fn == top || fn.Parent() != nil {
			continue
		}
		k, at, ok := constArg(fn)
		if !ok {
			continue
		}
		closer := ""
		eachInstr(fn, func(in ssa.Instruction) {
			if x, _, kk, ok := cmpConst(valueOf(in)); ok && isEngNamed(x.Type(), "tokenKind") && closers[kk] != "" {
				// the closing token is demanded AFTER the term has been read
				ab, ib := at.Block(), in.Block()
				if (ab == ib && instrIndex(at) < instrIndex(in)) || (ab != ib && ab.Dominates(ib)) {
					closer = closers[kk]
				}
			}
		})
		if closer == "" {
			continue
		}
		n++
		key := fmt.Sprintf("%s/term-before-%s", fname(fn), closer)
		if k == topK {
			r.ok(rule, key, c.at(at), desc, fmt.Sprintf("priority %d, as in Parser.Term", k), false)
		} else {
			r.bad(rule, key, c.at(at), desc, fmt.Sprintf("priority %d, while Parser.Term reads with %d: a bare operator atom between these brackets - which the writer emits - is refused", k, topK))
		}
	}
	if n < 2 {
		r.undecided(rule, "floor:bracket-readers", "-", desc, fmt.Sprintf("only %d functions read a term and then demand a closing bracket", n))
	}
}

func valueOf(in ssa.Instruction) ssa.Value {
	if v, ok := in.(ssa.Value); ok {
		return v
	}
	return nil
}

// ---------------------------------------------------------------------------
// C06: R-INFIX-PRIORITY — added with fix F49.  The writer leaves out the parentheses around an operand exactly
// when the operand's priority does not exceed what the operator's specifier allows on that side.  The reader
// has to accept an operator after a left operand under the same two conditions - the term it makes (of the
// operator's own priority) fits the maximum, and the left operand's priority fits the operator's left side - or
// the text the writer produces reads back as another term (with op(201, xfx, foo): a^b foo c).  Checked in the
// Parser function that looks up the infix and postfix classes: every return of an operator with a nil error is
// under (a) a comparison that involves the operator's priority field and the maximum-priority parameter and
// (b) a comparison that involves the left result of bindingPriorities and another parameter.
func ruleInfixPriority(c *Ctx, r *Report) {
	const rule = "R-INFIX-PRIORITY"
	desc := "an infix or postfix operator is accepted only if its own priority fits the maximum and its left operand's priority fits its left side"
	infix := c.method("Parser", "infix")
	bp := c.method("operator", "bindingPriorities")
	if infix == nil || bp == nil {
		r.undecided(rule, "anchor:Parser.infix/bindingPriorities", "-", "locate Parser.infix and operator.bindingPriorities", "not found")
		return
	}
	if len(infix.Params) < 2 {
		r.undecided(rule, "anchor:Parser.infix/params", c.Pos(infix.Pos()), desc, "no maximum-priority parameter")
		return
	}
	involves := func(v ssa.Value, pred func(ssa.Value) bool) bool {
		found := false
		dataSlice(v, func(x ssa.Value) bool {
			if pred(x) {
				found = true
			}
			return !found
		})
		return found
	}
	isParam := func(x ssa.Value) (int, bool) {
		for i, p := range infix.Params {
			if x == ssa.Value(p) {
				return i, true
			}
		}
		return 0, false
	}
	n := 0
	eachInstr(infix, func(in ssa.Instruction) {
		ret, ok := in.(*ssa.Return)
		if !ok || len(ret.Results) != 2 || !isNilConst(ret.Results[1]) {
			return
		}
		n++
		key := fmt.Sprintf("%s/accept#%d", fname(infix), n)
		own, left := false, false
		for f := range c.factsAt(ret.Block()) {
			bo, ok := f.cond.(*ssa.BinOp)
			if !ok {
				continue
			}
			switch bo.Op {
			case token.LEQ, token.LSS, token.GEQ, token.GTR:
			default:
				continue
			}
			prio := involves(bo, func(x ssa.Value) bool {
				ld, ok := x.(*ssa.UnOp)
				if !ok || ld.Op != token.MUL {
					return false
				}
				fa, ok := ld.X.(*ssa.FieldAddr)
				return ok && fieldName(fa) == "priority" && isEngNamed(deref(fa.X.Type()), "operator")
			})
			lbp := involves(bo, func(x ssa.Value) bool {
				ex, ok := x.(*ssa.Extract)
				if !ok || ex.Index != 0 {
					return false
				}
				call, ok := ex.Tuple.(*ssa.Call)
				return ok && call.Call.StaticCallee() == bp
			})
			params := map[int]bool{}
			dataSlice(bo, func(x ssa.Value) bool {
				if i, ok := isParam(x); ok {
					params[i] = true
				}
				return true
			})
			if prio && len(params) > 0 {
				own = true
			}
			if lbp && len(params) > 0 && !prio {
				left = true
			}
		}
		switch {
		case own && left:
			r.ok(rule, key, c.at(ret), desc, "under a comparison of the operator's priority and one of its left binding priority, each with a parameter", true)
		case !own:
			r.bad(rule, key, c.at(ret), desc, "the operator's own priority is not compared with the maximum: an xfx/xfy/xf operator one level too high is accepted (a = b = c reads as a = (b = c))")
		default:
			r.bad(rule, key, c.at(ret), desc, "the left operand's priority is not compared with the operator's left side: the parentheses the writer rightly omits are not implied on reading")
		}
	})
	if n == 0 {
		r.undecided(rule, "anchor:accept", c.Pos(infix.Pos()), desc, "no successful return found in Parser.infix")
	}
}

// ---------------------------------------------------------------------------
// C06: R-ELLIPSIS-GUARDED — added after seed C06f.  The writer replaces a subterm by `...` in three
// situations only: the depth limit is exhausted (max_depth), the subterm is being written already (a cycle), or
// the rest of a list is still a list cell that the iterator refused (a cycle through the spine).  Anywhere else
// `...` silently drops a part of the term: [a|f(x)] written as [a|...] reads back as another term.  Every
// WriteTerm call on the ellipsis atom lies under a branch fact computed from WriteOptions.maxDepth, from a
// lookup in the visited set, or from a comparison of a Functor() with the list constructor.
func ruleEllipsisGuarded(c *Ctx, r *Report) {
	const rule = "R-ELLIPSIS-GUARDED"
	desc := "`...` stands in for a subterm only at the depth limit, on a cycle, or for a list tail that is still a list"
	ell := c.global("atomElipsis")
	dot := c.global("atomDot")
	if ell == nil || dot == nil {
		r.undecided(rule, "anchor:atomElipsis/atomDot", "-", "locate the atoms", "not found")
		return
	}
	n := 0
	for _, fn := range c.LibFuncs() {
		if funcPkg(fn) != c.Engine {
			continue
		}
		k := 0
		eachInstr(fn, func(in ssa.Instruction) {
			call, ok := in.(*ssa.Call)
			if !ok || len(call.Call.Args) == 0 {
				return
			}
			callee := call.Call.StaticCallee()
			if callee == nil || callee.Name() != "WriteTerm" {
				return
			}
			ld, ok := call.Call.Args[0].(*ssa.UnOp)
			if !ok || ld.X != ssa.Value(ell) {
				return
			}
			n++
			k++
			key := fmt.Sprintf("%s/ellipsis#%d", fname(fn), k)
			why := ""
			for f := range c.factsAt(in.Block()) {
				dataSlice(f.cond, func(x ssa.Value) bool {
					switch y := x.(type) {
					case *ssa.UnOp:
						if fa, ok := y.X.(*ssa.FieldAddr); ok && y.Op == token.MUL && fieldName(fa) == "maxDepth" {
							why = "the depth limit"
						}
						if y.X == ssa.Value(dot) && y.Op == token.MUL {
							why = "a functor compared with '.'"
						}
					case *ssa.Field:
						if st, ok := y.X.Type().Underlying().(*types.Struct); ok && st.Field(y.Field).Name() == "maxDepth" {
							why = "the depth limit"
						}
					case *ssa.Extract:
						if lk, ok := y.Tuple.(*ssa.Lookup); ok && lk.CommaOk {
							why = "a lookup in the set of terms being written"
						}
					}
					return why == ""
				})
			}
			if why != "" {
				r.ok(rule, key, c.at(in), desc, "under a condition computed from "+why, true)
			} else {
				r.bad(rule, key, c.at(in), desc, "`...` is written here without the depth limit, a cycle test or a test that the rest is still a list: a part of the term is dropped from the text, which then reads back as another term")
			}
		})
	}
	if n == 0 {
		r.undecided(rule, "scan/ellipsis", "-", desc, "no write of the ellipsis atom found")
	}
}

// ---------------------------------------------------------------------------
// C06: R-ATOM-ZERO-IS-AN-ATOM — added with fix F57.  A one-character atom is represented by its rune, so
// Atom(0) is the atom '\x0\' - a name like any other, which op/3 accepts.  "There is no operator here" is the
// zero value of the whole operator struct; a test of an operator's NAME against 0 takes the NUL operator for no
// operator (the blank before an opening parenthesis is left out and '\x0\'((a,b)) reads back with two
// arguments).  Checked: no comparison of the field operator.name with the constant 0 anywhere in the library.
func ruleAtomZeroIsAnAtom(c *Ctx, r *Report) {
	const rule = "R-ATOM-ZERO-IS-AN-ATOM"
	desc := "the absence of an operator is never decided by comparing its name with 0"
	n, bad := 0, 0
	for _, fn := range c.LibFuncs() {
		eachInstr(fn, func(in ssa.Instruction) {
			bo, ok := in.(*ssa.BinOp)
			if !ok {
				return
			}
			x, _, k, ok := cmpConst(bo)
			if !ok {
				return
			}
			isName := false
			switch y := x.(type) {
			case *ssa.UnOp:
				if fa, ok := y.X.(*ssa.FieldAddr); ok && y.Op == token.MUL && fieldName(fa) == "name" && isEngNamed(deref(fa.X.Type()), "operator") {
					isName = true
				}
			case *ssa.Field:
				if isEngNamed(y.X.Type(), "operator") {
					if st, ok := y.X.Type().Underlying().(*types.Struct); ok && st.Field(y.Field).Name() == "name" {
						isName = true
					}
				}
			}
			if !isName {
				return
			}
			n++
			if k == 0 {
				bad++
				r.bad(rule, fmt.Sprintf("%s/operator.name-vs-0", fname(fn)), c.at(in), desc, "operator.name is compared with 0: the operator named '\\x0\\' counts as no operator")
			}
		})
	}
	if bad == 0 {
		r.ok(rule, "scan/operator.name", "-", desc, fmt.Sprintf("%d comparisons of operator.name with a constant examined; none with 0", n), false)
	}
}

// ---------------------------------------------------------------------------
// R-POSTFIX-SENTINEL (C06; added after seed C06g): the reader tells a postfix operator from an infix one by the
// right binding priority that operator.bindingPriorities reports: "no operand on this side" is a sentinel above
// every real priority. Real priorities go up to 1200 (an xfy operator declared at 1200 binds 1200 to its right), so
// (1) every test that compares a binding priority with a constant to classify the operator puts the line at 1200
// or above - `rbp > T` with T >= 1200 - and (2) the sentinel lies above that line. With the line at 1199 the term
// a ==> b, written by writeq under op(1200, xfy, ==>), is refused by read_term under the same table.
func rulePostfixSentinel(c *Ctx, r *Report) {
	const rule = "R-POSTFIX-SENTINEL"
	const maxPriority = 1200 // ISO 6.3.4: priorities range over 1..1200
	desc := "the sentinel for `no operand on this side` and the tests that look for it lie above every real priority"
	bp := c.method("operator", "bindingPriorities")
	if bp == nil {
		r.undecided(rule, "anchor:operator.bindingPriorities", "-", desc, "not found")
		return
	}
	sentinels := map[int64]bool{}
	eachInstr(bp, func(in ssa.Instruction) {
		st, ok := in.(*ssa.Store)
		if !ok {
			return
		}
		if k, ok := constInt(st.Val); ok && k > 1 && isEngNamed(st.Val.Type(), "Integer") {
			sentinels[k] = true
		}
	})
	if len(sentinels) == 0 {
		r.undecided(rule, fname(bp)+"/sentinel", c.Pos(bp.Pos()), desc, "no constant binding priority is stored in bindingPriorities")
		return
	}
	minSentinel := int64(0)
	for k := range sentinels {
		if minSentinel == 0 || k < minSentinel {
			minSentinel = k
		}
	}
	if minSentinel > maxPriority {
		r.ok(rule, fname(bp)+"/sentinel", c.Pos(bp.Pos()), desc, fmt.Sprintf("sentinel %d > %d", minSentinel, maxPriority), true)
	} else {
		r.bad(rule, fname(bp)+"/sentinel", c.Pos(bp.Pos()), desc, fmt.Sprintf("the sentinel %d is a priority a real operator can have: an operator declared at %d is taken for one without an operand on that side", minSentinel, maxPriority))
	}
	n := 0
	for _, fn := range c.LibFuncs() {
		if funcPkg(fn) != c.Engine {
			continue
		}
		k := 0
		eachInstr(fn, func(in ssa.Instruction) {
			bo, ok := in.(*ssa.BinOp)
			if !ok {
				return
			}
			x, op, kv, ok := cmpConst(bo)
			if !ok {
				return
			}
			e, isE := x.(*ssa.Extract)
			if !isE {
				return
			}
			call, isCall := e.Tuple.(*ssa.Call)
			if !isCall || call.Call.StaticCallee() != bp {
				return
			}
			// normalise to: "sentinel side" is x > T
			var t int64
			switch op {
			case token.GTR, token.LEQ:
				t = kv
			case token.GEQ, token.LSS:
				t = kv - 1
			case token.EQL, token.NEQ:
				t = kv - 1
			default:
				return
			}
			n++
			k++
			key := fmt.Sprintf("%s/classify#%d", fname(fn), k)
			switch {
			case t < maxPriority:
				r.bad(rule, key, c.at(in), desc, fmt.Sprintf("the test separates at %d: a real binding priority of %d (xfy or yfx at %d) falls on the sentinel's side, so text the writer produces for such an operator is not read back", t, maxPriority, maxPriority))
			case minSentinel <= t:
				r.bad(rule, key, c.at(in), desc, fmt.Sprintf("the sentinel %d does not pass the test (line at %d): an operator without an operand on that side is never recognised", minSentinel, t))
			default:
				r.ok(rule, key, c.at(in), desc, fmt.Sprintf("line at %d: %d <= %d < sentinel %d", t, maxPriority, t, minSentinel), true)
			}
		})
	}
	if n == 0 {
		r.undecided(rule, "scan/classify", "-", desc, "no test of a binding priority against a constant found")
	}
	r.analysed(rule, fmt.Sprintf("%s, %d classification tests", fname(bp), n))
}

// ---------------------------------------------------------------------------
// R-OPERAND-KEEPS-RIGHT (C06; added after seed C06i): what decides whether a blank or a bracket is needed after a
// term is the operator that FOLLOWS it (WriteOptions.right). The rightmost operand of an operator term that is
// written without brackets ends where the whole term ends: it must be told what follows the whole term. In the
// prefix and infix operator writers the options given to the rightmost operand descend from the function's own
// options along at least one path that does not pass through withRight - the path taken when no brackets are
// written. With the right context cleared on every path, mod(-(a), b) is written -amod b.
func ruleOperandKeepsRight(c *Ctx, r *Report) {
	const rule = "R-OPERAND-KEEPS-RIGHT"
	desc := "the rightmost operand of an unbracketed operator term is told which operator follows"
	n := 0
	for _, w := range []struct {
		fn  string
		arg int64
	}{{"writeCompoundOpPrefix", 0}, {"writeCompoundOpInfix", 1}} {
		fn := c.fn(w.fn)
		if fn == nil {
			r.undecided(rule, "anchor:"+w.fn, "-", desc, "not found")
			continue
		}
		var optsParam *ssa.Parameter
		for _, p := range fn.Params {
			if isEngNamed(p.Type(), "WriteOptions") {
				optsParam = p
			}
		}
		eachInstr(fn, func(in ssa.Instruction) {
			call, ok := in.(*ssa.Call)
			if !ok || !call.Call.IsInvoke() || call.Call.Method.Name() != "WriteTerm" || len(call.Call.Args) < 2 {
				return
			}
			// the receiver is Arg(<rightmost>) of the compound
			recv, ok := call.Call.Value.(*ssa.Call)
			if !ok || !recv.Call.IsInvoke() || recv.Call.Method.Name() != "Arg" || len(recv.Call.Args) != 1 {
				return
			}
			if k, ok := constInt(recv.Call.Args[0]); !ok || k != w.arg {
				return
			}
			n++
			key := fmt.Sprintf("%s/Arg(%d).WriteTerm", fname(fn), w.arg)
			seen := map[ssa.Value]bool{}
			var reach func(v ssa.Value) bool
			reach = func(v ssa.Value) bool {
				if v == nil || seen[v] {
					return false
				}
				seen[v] = true
				switch x := v.(type) {
				case *ssa.Parameter:
					return x == optsParam
				case *ssa.Phi:
					for _, e := range x.Edges {
						if reach(e) {
							return true
						}
					}
				case *ssa.UnOp:
					if x.Op == token.MUL {
						if cell := c.varCell(x.X); cell != nil {
							for _, st := range c.storesTo(cell) {
								if reach(st.Val) {
									return true
								}
							}
							return false
						}
						return reach(x.X)
					}
				case *ssa.Call:
					callee := x.Call.StaticCallee()
					if callee == nil || recvNamed(callee) != "WriteOptions" || len(x.Call.Args) == 0 {
						return false
					}
					if c.stableFuncName(callee) == "withRight" {
						return false
					}
					return reach(x.Call.Args[0])
				}
				return false
			}
			if reach(call.Call.Args[1]) {
				r.ok(rule, key, c.at(in), desc, "a path from the function's options to the operand's options passes no withRight", true)
			} else {
				r.bad(rule, key, c.at(in), desc, "every path from the function's options to the operand's options passes through withRight: the operand is never told which operator follows the term, and the blank (or bracket) that separates them is not written")
			}
		})
	}
	if n == 0 {
		r.undecided(rule, "scan/rightmost-operand", "-", desc, "no WriteTerm call on the rightmost operand found in the operator writers")
	}
}
