package main

import (
	"fmt"
	"go/constant"
	"go/token"
	"go/types"
	"sort"
	"strings"

	"golang.org/x/tools/go/ssa"
)

// ---------------------------------------------------------------------------
// R-LOOKAHEAD (C05, C19): abstract interpretation of the number of pending (pushed-back, not yet
// re-read) items in a ring buffer of N slots. The buffer confuses "full" with "empty" (start == end),
// so the pending count must never reach N.
//
// Domain: sets of j in {0..N} (N = OVER, absorbing). Transfer: read -> max(j-1,0); backup -> j+1.
// Function summaries are relational (entry j -> set of exit j), computed to a global fixpoint over the
// call graph (static calls and calls through function values). A read may fail only when nothing is
// pending; not refining on that is sound (it only adds states with a smaller count).

type ringSpec struct {
	what    string
	n       int
	isRead  func(f *ssa.Function) bool
	isBack  func(f *ssa.Function) bool
	inScope func(f *ssa.Function) bool // functions whose bodies are interpreted
	roots   func() []*ssa.Function     // entry points called from outside the scope
}

type ringAnalysis struct {
	c       *Ctx
	spec    ringSpec
	entries map[*ssa.Function]uint32
	exits   map[*ssa.Function]map[int]uint32
	over    map[string]string // site key -> description
	overIn  map[*ssa.Function]bool
	maxSeen int
	changed bool
}

func bit(j int) uint32 { return 1 << uint(j) }

func (a *ringAnalysis) calleesOf(ci ssa.CallInstruction) []*ssa.Function {
	if f := ci.Common().StaticCallee(); f != nil {
		return []*ssa.Function{f}
	}
	if ci.Common().IsInvoke() {
		return nil // interface calls (io.RuneReader.ReadRune of the base reader) do not touch the ring
	}
	return a.c.callees(ci)
}

func (a *ringAnalysis) applyCall(ci ssa.CallInstruction, in uint32, fn *ssa.Function, jin int) uint32 {
	N := a.spec.n
	callees := a.calleesOf(ci)
	relevant := false
	var out uint32
	for _, callee := range callees {
		switch {
		case a.spec.isRead(callee):
			relevant = true
			for j := 0; j <= N; j++ {
				if in&bit(j) == 0 {
					continue
				}
				switch {
				case j == N:
					out |= bit(N)
				case j == 0:
					out |= bit(0)
				default:
					out |= bit(j - 1)
				}
			}
		case a.spec.isBack(callee):
			relevant = true
			for j := 0; j <= N; j++ {
				if in&bit(j) == 0 {
					continue
				}
				nj := j + 1
				if nj >= N {
					nj = N
					if j < N {
						a.overIn[fn] = true
						key := fmt.Sprintf("%s/backup@%s", fname(fn), a.c.at(ci))
						a.over[key] = fmt.Sprintf("backup with %d items already pending (entered %s with %d pending)", j, fname(fn), jin)
					}
				}
				if nj > a.maxSeen && nj < N {
					a.maxSeen = nj
				}
				out |= bit(nj)
			}
		case a.spec.inScope(callee) && callee.Blocks != nil:
			relevant = true
			for j := 0; j <= N; j++ {
				if in&bit(j) == 0 {
					continue
				}
				if a.entries[callee]&bit(j) == 0 {
					a.entries[callee] |= bit(j)
					a.changed = true
				}
				if ex := a.exits[callee]; ex != nil {
					out |= ex[j]
					// name the caller of a function in which the window is exceeded (one level up)
					if j < N && ex[j]&bit(N) != 0 && a.overIn[callee] {
						key := fmt.Sprintf("%s/call %s@%s", fname(fn), callee.Name(), a.c.at(ci))
						a.over[key] = fmt.Sprintf("calls %s with %d items pending, which exceeds the window (entered %s with %d pending)", callee.Name(), j, fname(fn), jin)
					}
				}
			}
		}
	}
	if !relevant {
		return in
	}
	return out
}

func (a *ringAnalysis) analyseFn(fn *ssa.Function, jin int) {
	state := map[*ssa.BasicBlock]uint32{fn.Blocks[0]: bit(jin)}
	work := []*ssa.BasicBlock{fn.Blocks[0]}
	var exit uint32
	for len(work) > 0 {
		b := work[len(work)-1]
		work = work[:len(work)-1]
		cur := state[b]
		for _, in := range b.Instrs {
			switch x := in.(type) {
			case *ssa.Call:
				cur = a.applyCall(x, cur, fn, jin)
			case *ssa.Defer:
				cur = a.applyCall(x, cur, fn, jin)
			case *ssa.Return:
				exit |= cur
			}
		}
		for _, s := range b.Succs {
			if state[s]|cur != state[s] {
				state[s] |= cur
				work = append(work, s)
			}
		}
	}
	if a.exits[fn] == nil {
		a.exits[fn] = map[int]uint32{}
	}
	if a.exits[fn][jin]|exit != a.exits[fn][jin] {
		a.exits[fn][jin] |= exit
		a.changed = true
	}
}

func (a *ringAnalysis) run() (entryStates uint32) {
	N := a.spec.n
	a.entries = map[*ssa.Function]uint32{}
	a.exits = map[*ssa.Function]map[int]uint32{}
	a.over = map[string]string{}
	a.overIn = map[*ssa.Function]bool{}
	E := bit(0)
	roots := a.spec.roots()
	for iter := 0; iter < 200; iter++ {
		a.changed = false
		for _, r := range roots {
			if a.entries[r]|E != a.entries[r] {
				a.entries[r] |= E
				a.changed = true
			}
		}
		// analyse every function for every entry state known so far
		var fns []*ssa.Function
		for f := range a.entries {
			fns = append(fns, f)
		}
		sort.Slice(fns, func(i, j int) bool { return fns[i].String() < fns[j].String() })
		for _, f := range fns {
			for j := 0; j <= N; j++ {
				if a.entries[f]&bit(j) != 0 {
					a.analyseFn(f, j)
				}
			}
		}
		for _, r := range roots {
			for j := 0; j <= N; j++ {
				if E&bit(j) != 0 && a.exits[r] != nil {
					if E|a.exits[r][j] != E {
						E |= a.exits[r][j]
						a.changed = true
					}
				}
			}
		}
		if !a.changed {
			break
		}
	}
	return E
}

func (c *Ctx) ringLen(typeName, field string) int {
	t := c.engType(typeName)
	if t == nil {
		return 0
	}
	st, ok := t.Underlying().(*types.Struct)
	if !ok {
		return 0
	}
	for i := 0; i < st.NumFields(); i++ {
		if st.Field(i).Name() == field {
			if arr, ok := st.Field(i).Type().Underlying().(*types.Array); ok {
				return int(arr.Len())
			}
		}
	}
	return 0
}

func recvNamed(f *ssa.Function) string {
	if f == nil {
		return ""
	}
	f = topFunc(f)
	if f.Signature.Recv() == nil {
		return ""
	}
	if n, ok := deref(f.Signature.Recv().Type()).(*types.Named); ok {
		return n.Obj().Name()
	}
	return ""
}

func states(m uint32, n int) string {
	var s []string
	for j := 0; j <= n; j++ {
		if m&bit(j) != 0 {
			if j == n {
				s = append(s, "OVER")
			} else {
				s = append(s, fmt.Sprint(j))
			}
		}
	}
	return "{" + strings.Join(s, ",") + "}"
}

func ruleLookahead(c *Ctx, r *Report) {
	const rule = "R-LOOKAHEAD"
	// ---- the lexer's rune ring
	n := c.ringLen("runeRingBuffer", "buf")
	if n < 2 {
		r.undecided(rule, "anchor:runeRingBuffer", "-", "read the ring size from the array type", "runeRingBuffer.buf not found")
		return
	}
	lexSpec := ringSpec{
		what: "lexer rune ring",
		n:    n,
		isRead: func(f *ssa.Function) bool {
			return recvNamed(f) == "runeRingBuffer" && f.Name() == "ReadRune"
		},
		isBack: func(f *ssa.Function) bool {
			return recvNamed(f) == "runeRingBuffer" && (f.Name() == "UnreadRune" || f.Name() == "backup")
		},
		inScope: func(f *ssa.Function) bool { return recvNamed(f) == "Lexer" },
		roots: func() []*ssa.Function {
			// methods of Lexer called from code that is not itself a method of Lexer
			seen := map[*ssa.Function]bool{}
			var out []*ssa.Function
			for _, fn := range c.LibFuncs() {
				if recvNamed(fn) == "Lexer" {
					continue
				}
				eachInstr(fn, func(in ssa.Instruction) {
					if ci, ok := in.(ssa.CallInstruction); ok {
						if f := ci.Common().StaticCallee(); f != nil && recvNamed(f) == "Lexer" && f.Parent() == nil && !seen[f] {
							seen[f] = true
							out = append(out, f)
						}
					}
				})
			}
			sort.Slice(out, func(i, j int) bool { return out[i].Name() < out[j].Name() })
			return out
		},
	}
	la := &ringAnalysis{c: c, spec: lexSpec}
	E := la.run()
	var rootNames []string
	for _, f := range lexSpec.roots() {
		rootNames = append(rootNames, f.Name())
	}
	nfn := len(la.entries)
	if nfn < 10 {
		r.undecided(rule, "lexer/scope", "-", "interpret the lexer's state functions", fmt.Sprintf("only %d functions reached from roots %v", nfn, rootNames))
		return
	}
	desc := fmt.Sprintf("the lexer never has %d runes pending in its %d-slot look-ahead ring (start==end would read as empty and drop them)", n, n)
	if len(la.over) == 0 {
		r.ok(rule, "lexer/ring-window", "-", desc,
			fmt.Sprintf("fixpoint over %d functions from roots %v: states between tokens %s, maximum pending %d", nfn, rootNames, states(E, n), la.maxSeen), true)
	}
	var keys []string
	for k := range la.over {
		keys = append(keys, k)
	}
	sort.Strings(keys)
	for _, k := range keys {
		pos := k[strings.LastIndex(k, "@")+1:]
		r.bad(rule, "lexer/"+k[:strings.LastIndex(k, "@")], pos, desc, la.over[k]+": the ring wraps, characters are lost or re-delivered")
	}
	// one obligation per interpreted function, so that the evidence shows what was covered
	var fns []*ssa.Function
	for f := range la.entries {
		fns = append(fns, f)
	}
	sort.Slice(fns, func(i, j int) bool { return fns[i].String() < fns[j].String() })
	for _, f := range fns {
		var ex uint32
		for _, m := range la.exits[f] {
			ex |= m
		}
		if ex&bit(n) == 0 {
			r.ok(rule, "lexer/"+fname(f), c.Pos(f.Pos()), "pending count stays inside the window in this state function", fmt.Sprintf("entry %s -> exit %s", states(la.entries[f], n), states(ex, n)), true)
		}
	}
	r.analysed(rule, fmt.Sprintf("lexer rune ring: N=%d, %d functions, roots %v", n, nfn, rootNames))

	// ---- the parser's token ring: same engine, reported for information only (see DESIGN §4 C05)
	pn := c.ringLen("tokenRingBuffer", "buf")
	if pn >= 2 {
		pSpec := ringSpec{
			what:   "parser token ring",
			n:      pn,
			isRead: func(f *ssa.Function) bool { return recvNamed(f) == "Parser" && f.Name() == "next" && f.Parent() == nil },
			isBack: func(f *ssa.Function) bool {
				return recvNamed(f) == "Parser" && f.Name() == "backup" && f.Parent() == nil
			},
			inScope: func(f *ssa.Function) bool { return recvNamed(f) == "Parser" },
			roots: func() []*ssa.Function {
				var out []*ssa.Function
				for _, nm := range []string{"Term", "More", "number", "atom"} {
					if f := c.method("Parser", nm); f != nil {
						out = append(out, f)
					}
				}
				return out
			},
		}
		pa := &ringAnalysis{c: c, spec: pSpec}
		pE := pa.run()
		if len(pa.over) == 0 {
			r.info(rule, "parser/ring-window", "-", "token ring window (information only)", fmt.Sprintf("closes: states between calls %s, maximum pending %d", states(pE, pn), pa.maxSeen))
		} else {
			var ks []string
			for k := range pa.over {
				ks = append(ks, k)
			}
			sort.Strings(ks)
			if len(ks) > 6 {
				ks = ks[:6]
			}
			r.info(rule, "parser/ring-window", "-", "token ring window (information only, not part of the verdict)",
				fmt.Sprintf("does not close without relating back-ups to what a failed sub-parse consumed (path-insensitive): %d sites can exceed the window, e.g. %s", len(pa.over), strings.Join(ks, "; ")))
		}
	}
}

// ---------------------------------------------------------------------------
// R-NEXT-ADVANCES (C05; added with fix F18): the parser's alternatives look ahead with next() and step
// back with backup() whether or not the read succeeded (`t, _ := p.next(); …; p.backup()` occurs a dozen
// times). That is only sound if next() moves the window by exactly one slot on EVERY return path,
// failures included: each path through the function that takes a token out of the ring passes through the
// ring's get(), and each path on which the ring was empty passes through put() first. Before fix F18 the
// error path returned without touching the ring; at the end of the input the following backup() exposed
// the previous token again and 'X = [-' recursed until the Go stack was exhausted.

func ruleNextAdvances(c *Ctx, r *Report) {
	const rule = "R-NEXT-ADVANCES"
	get := c.method("tokenRingBuffer", "get")
	put := c.method("tokenRingBuffer", "put")
	empty := c.method("tokenRingBuffer", "empty")
	if get == nil || put == nil || empty == nil {
		r.undecided(rule, "anchor:tokenRingBuffer", "-", "locate the token ring's get/put/empty", "not found")
		return
	}
	n := 0
	for _, fn := range c.LibFuncs() {
		calls := func(target *ssa.Function) []ssa.Instruction {
			var out []ssa.Instruction
			eachInstr(fn, func(in ssa.Instruction) {
				if ci, ok := in.(ssa.CallInstruction); ok && ci.Common().StaticCallee() == target {
					out = append(out, in)
				}
			})
			return out
		}
		gets := calls(get)
		if len(gets) == 0 || fn == get {
			continue
		}
		n++
		key := fname(fn)
		isCall := func(target *ssa.Function) func(ssa.Instruction) bool {
			return func(in ssa.Instruction) bool {
				ci, ok := in.(ssa.CallInstruction)
				return ok && ci.Common().StaticCallee() == target
			}
		}
		isReturn := func(in ssa.Instruction) bool { _, ok := in.(*ssa.Return); return ok }
		// (1) entry -> return avoiding get
		first := fn.Blocks[0].Instrs[0]
		var miss ssa.Instruction
		if isReturn(first) {
			miss = first
		} else if !isCall(get)(first) {
			miss = instrReachAvoid(first, isReturn, isCall(get))
		}
		desc := "the function that takes a token out of the parser's window moves the window on every return path"
		if miss == nil {
			r.ok(rule, key+"/always-get", c.Pos(fn.Pos()), desc, "every path to a return passes through the ring's get()", true)
		} else {
			r.bad(rule, key+"/always-get", c.at(miss), desc, "this return is reachable without get(): a failed read leaves the window where it was, and the callers' unconditional backup() then exposes the previous token again (endless re-parsing at the end of the input)")
		}
		// (2) empty() true edge -> get avoiding put
		for _, e := range calls(empty) {
			ev, _ := e.(ssa.Value)
			var tb *ssa.BasicBlock
			if iff, ok := e.Block().Instrs[len(e.Block().Instrs)-1].(*ssa.If); ok && iff.Cond == ev {
				tb = e.Block().Succs[0]
			}
			if tb == nil {
				r.undecided(rule, key+"/refill", c.at(e), "an empty window is refilled before it is read", "the result of empty() is not branched on directly")
				continue
			}
			var hit ssa.Instruction
			if len(tb.Instrs) > 0 {
				f0 := tb.Instrs[0]
				switch {
				case isCall(put)(f0):
				case isCall(get)(f0):
					hit = f0
				default:
					hit = instrReachAvoid(f0, isCall(get), isCall(put))
				}
			}
			if hit == nil {
				r.ok(rule, key+"/refill", c.at(e), "an empty window is refilled before it is read", "from the empty edge, get() is reachable only through put()", true)
			} else {
				r.bad(rule, key+"/refill", c.at(hit), "an empty window is refilled before it is read", "get() is reachable from the empty edge without put(): it would hand out a stale slot")
			}
		}
	}
	if n == 0 {
		r.bad(rule, "scan/readers", "-", "locate the reader of the token ring", "no function calls tokenRingBuffer.get")
	}
	r.analysed(rule, fmt.Sprintf("%d readers of the token ring", n))
}

// ---------------------------------------------------------------------------
// R-RING-STICKY (C19; added with fix F21): the lexer may ask for another rune after its source has
// reported the end (a token that ends at the end of the input is recognised by the failed look-ahead, and
// the layout before the end of file is skipped rune by rune). For a stream, the second physical read after
// the end IS "reading past the end": with eof_action(error) it raises the permission error during the very
// read that should have delivered end_of_file. So the lexer's window keeps the failure of its source:
//   (1) the source is read only under the fact that no failure has been recorded;
//   (2) every path on which the source's read failed records the failure before returning it.

func ruleRingSticky(c *Ctx, r *Report) {
	const rule = "R-RING-STICKY"
	n := 0
	for _, fn := range c.LibFuncs() {
		if fn.Signature.Recv() == nil || !isEngNamed(deref(fn.Signature.Recv().Type()), "runeRingBuffer") {
			continue
		}
		eachInstr(fn, func(in ssa.Instruction) {
			call, ok := in.(*ssa.Call)
			if !ok || !call.Call.IsInvoke() || call.Call.Method.Name() != "ReadRune" {
				return
			}
			n++
			key := fname(fn) + "/source-read"
			// (1)
			guarded := false
			var errField *ssa.FieldAddr
			for f := range c.factsAt(in.Block()) {
				bo, ok := f.cond.(*ssa.BinOp)
				if !ok || (bo.Op != token.EQL && bo.Op != token.NEQ) {
					continue
				}
				for _, pair := range [][2]ssa.Value{{bo.X, bo.Y}, {bo.Y, bo.X}} {
					ld, ok := pair[0].(*ssa.UnOp)
					if !ok || ld.Op != token.MUL {
						continue
					}
					fa, ok := ld.X.(*ssa.FieldAddr)
					if !ok || !isErrorType(ld.Type()) {
						continue
					}
					k, isConst := pair[1].(*ssa.Const)
					if isConst && k.Value == nil && (bo.Op == token.EQL) == f.pol {
						guarded = true
						errField = fa
					}
				}
			}
			desc1 := "the lexer's window reads its source only while no failure of the source has been recorded"
			if guarded {
				r.ok(rule, key, c.at(in), desc1, "reached only under <recorded failure> == nil", true)
			} else {
				r.bad(rule, key, c.at(in), desc1, "the source is read again after it has failed: on a stream the second read after the end is 'past the end' and eof_action(error) raises instead of end_of_file being delivered")
				return
			}
			// (2)
			var errVal ssa.Value
			if refs := call.Referrers(); refs != nil {
				for _, ref := range *refs {
					if ex, ok := ref.(*ssa.Extract); ok && isErrorType(ex.Type()) {
						errVal = ex
					}
				}
			}
			desc2 := "a failure of the source is recorded before it is returned"
			if errVal == nil {
				r.bad(rule, fname(fn)+"/record", c.at(in), desc2, "the error result of the source's read is dropped")
				return
			}
			isRecord := func(x ssa.Instruction) bool {
				st, ok := x.(*ssa.Store)
				if !ok {
					return false
				}
				fa, ok := st.Addr.(*ssa.FieldAddr)
				return ok && fa.Field == errField.Field && fa.X == errField.X && st.Val == errVal
			}
			miss := errStateReachX(in, errVal, func(x ssa.Instruction) bool {
				_, isRet := x.(*ssa.Return)
				return isRet
			}, isRecord, false, nil, true)
			if miss == nil {
				r.ok(rule, fname(fn)+"/record", c.at(in), desc2, "every return after a failed read passes through the store into the failure field", true)
			} else {
				r.bad(rule, fname(fn)+"/record", c.at(miss), desc2, "this return is reachable after a failed read without recording the failure")
			}
		})
	}
	if n == 0 {
		r.bad(rule, "scan/source-read", "-", "locate the read of the lexer's source", "no method of runeRingBuffer invokes ReadRune on its source")
	}
	r.analysed(rule, fmt.Sprintf("%d reads of the source in the lexer's window", n))
}

// ---------------------------------------------------------------------------
// R-UNREAD-EOF (C19; added with fix F21): looking ahead at the end of a stream (read_term/3 checks what
// follows the end token) takes the stream past its end; giving the look-ahead back has to take it back to
// "at the end", otherwise the stream is past its end although end_of_file was never delivered and
// eof_action(error) raises at the next read. Checked: Stream.UnreadRune stores endOfStreamAt into the
// end-of-stream state under the fact that the state is endOfStreamPast.

func ruleUnreadEOF(c *Ctx, r *Report) {
	const rule = "R-UNREAD-EOF"
	un := c.method("Stream", "UnreadRune")
	eos := c.engType("endOfStream")
	if un == nil || eos == nil {
		r.undecided(rule, "anchor", "-", "locate Stream.UnreadRune and the endOfStream enumeration", "not found")
		return
	}
	vals := map[string]int64{}
	if e := c.enumOf(eos); e != nil {
		for _, k := range e.consts {
			v, _ := constant.Int64Val(k.Val())
			vals[k.Name()] = v
		}
	}
	at, okAt := vals["endOfStreamAt"]
	past, okPast := vals["endOfStreamPast"]
	if !okAt || !okPast {
		r.undecided(rule, "anchor:endOfStreamAt", "-", "locate endOfStreamAt/endOfStreamPast", "not found")
		return
	}
	var hit ssa.Instruction
	eachInstr(un, func(in ssa.Instruction) {
		st, ok := in.(*ssa.Store)
		if !ok {
			return
		}
		fa, ok := st.Addr.(*ssa.FieldAddr)
		if !ok || fieldName(fa) != "endOfStream" {
			return
		}
		if k, ok := constInt(st.Val); !ok || k != at {
			return
		}
		for f := range c.factsAt(in.Block()) {
			bo, ok := f.cond.(*ssa.BinOp)
			if !ok || (bo.Op != token.EQL && bo.Op != token.NEQ) || (bo.Op == token.EQL) != f.pol {
				continue
			}
			for _, pair := range [][2]ssa.Value{{bo.X, bo.Y}, {bo.Y, bo.X}} {
				ld, ok := pair[0].(*ssa.UnOp)
				if !ok || ld.Op != token.MUL {
					continue
				}
				fa2, ok := ld.X.(*ssa.FieldAddr)
				if !ok || fieldName(fa2) != "endOfStream" {
					continue
				}
				if k, ok := constInt(pair[1]); ok && k == past {
					hit = in
				}
			}
		}
	})
	key := fname(un) + "/past-to-at"
	desc := "un-reading a look-ahead that found the end takes the stream from past-the-end back to at-the-end"
	if hit != nil {
		r.ok(rule, key, c.at(hit), desc, "endOfStream = endOfStreamAt under endOfStream == endOfStreamPast", true)
	} else {
		r.bad(rule, key, c.Pos(un.Pos()), desc, "no such transition: after 'foo.' directly followed by the end, the stream is past its end before end_of_file was delivered; with eof_action(error) the next read raises instead")
	}
	r.analysed(rule, fname(un))
}

// ---------------------------------------------------------------------------
// R-EOS-AT-EMPTY (C19; added after seed C19c): "end_of_stream is never at/past while input remains". The
// end-of-stream state is set to `at` only under a fact that nothing is buffered (Buffered() == 0) or that
// the stream was past its end (coming back from there, F21). A reader may hand over its last bytes together
// with io.EOF; the recorded EOF of the source alone does not mean that the buffered text has been read.

func ruleEosAtEmpty(c *Ctx, r *Report) {
	const rule = "R-EOS-AT-EMPTY"
	eos := c.engType("endOfStream")
	if eos == nil {
		r.undecided(rule, "anchor:endOfStream", "-", "locate the endOfStream enumeration", "not found")
		return
	}
	vals := map[string]int64{}
	if e := c.enumOf(eos); e != nil {
		for _, k := range e.consts {
			v, _ := constant.Int64Val(k.Val())
			vals[k.Name()] = v
		}
	}
	at, okAt := vals["endOfStreamAt"]
	past, okPast := vals["endOfStreamPast"]
	if !okAt || !okPast {
		r.undecided(rule, "anchor:endOfStreamAt", "-", "locate endOfStreamAt/endOfStreamPast", "not found")
		return
	}
	desc := "the end-of-stream state becomes `at` only when nothing is buffered (or when coming back from past-the-end)"
	n := 0
	for _, fn := range c.LibFuncs() {
		seen := 0
		eachInstr(fn, func(in ssa.Instruction) {
			st, ok := in.(*ssa.Store)
			if !ok {
				return
			}
			fa, ok := st.Addr.(*ssa.FieldAddr)
			if !ok || fieldName(fa) != "endOfStream" || !isEngNamed(deref(fa.X.Type()), "Stream") {
				return
			}
			if k, ok := constInt(st.Val); !ok || k != at {
				return
			}
			if _, fresh := fa.X.(*ssa.Alloc); fresh {
				return // constructor
			}
			n++
			seen++
			key := fmt.Sprintf("%s/at#%d", fname(fn), seen)
			good := ""
			for f := range c.factsAt(in.Block()) {
				bo, ok := f.cond.(*ssa.BinOp)
				if !ok || (bo.Op != token.EQL && bo.Op != token.NEQ) || (bo.Op == token.EQL) != f.pol {
					continue
				}
				for _, pair := range [][2]ssa.Value{{bo.X, bo.Y}, {bo.Y, bo.X}} {
					k, isK := constInt(pair[1])
					if !isK {
						continue
					}
					// Buffered() == 0
					for _, l := range c.originSet(pair[0]) {
						if call, ok := l.(*ssa.Call); ok && k == 0 {
							if f := call.Call.StaticCallee(); f != nil && f.Name() == "Buffered" {
								good = "Buffered() == 0"
							}
						}
					}
					// endOfStream == past
					if ld, ok := pair[0].(*ssa.UnOp); ok && ld.Op == token.MUL {
						if fa2, ok := ld.X.(*ssa.FieldAddr); ok && fieldName(fa2) == "endOfStream" && k == past {
							good = "endOfStream == endOfStreamPast"
						}
					}
				}
			}
			if good != "" {
				r.ok(rule, key, c.at(in), desc, "under the fact "+good, true)
			} else {
				r.bad(rule, fmt.Sprintf("%s/at", fname(fn)), c.at(in), desc, "set to `at` without knowing that the buffer is empty: with a reader that returns its last bytes together with io.EOF, at_end_of_stream succeeds while text remains")
			}
		})
	}
	if n == 0 {
		r.bad(rule, "scan/at", "-", desc, "the state `at` is never set")
	}
	r.analysed(rule, fmt.Sprintf("%d stores of endOfStreamAt", n))
}

// ---------------------------------------------------------------------------
// R-MORE-CLEAN-END (C20; added with fix F28): the loader reads clause after clause while the parser says
// there is more. "No more" may be said only at a clean end of the text; when the lexer fails in the middle
// of a token (an open quote, 0' at the end) the text is broken, not finished. The value returned by
// Parser.More therefore depends on the lexer's token buffer (how much of a token has been accepted), not
// only on whether reading a token failed. Before fix F28 any failure ended the loop and the load reported
// success for the clauses read so far.

func ruleMoreCleanEnd(c *Ctx, r *Report) {
	const rule = "R-MORE-CLEAN-END"
	more := c.method("Parser", "More")
	if more == nil {
		r.undecided(rule, "anchor:Parser.More", "-", "locate Parser.More", "not found")
		return
	}
	desc := "the parser says 'no more clauses' only when no part of a token has been accepted"
	// does v depend (data or control) on the lexer's buffer state?
	touchesLexerState := func(x ssa.Value) bool {
		switch y := x.(type) {
		case *ssa.UnOp:
			if fa, ok := y.X.(*ssa.FieldAddr); ok && (fieldName(fa) == "offset" || fieldName(fa) == "buf") && isEngNamed(deref(fa.X.Type()), "Lexer") {
				return true
			}
		case *ssa.Call:
			for _, a := range y.Call.Args {
				if fa, ok := a.(*ssa.FieldAddr); ok && fieldName(fa) == "buf" && isEngNamed(deref(fa.X.Type()), "Lexer") {
					return true
				}
			}
		}
		return false
	}
	depends := false
	eachInstr(more, func(in ssa.Instruction) {
		ret, ok := in.(*ssa.Return)
		if !ok || len(ret.Results) != 1 {
			return
		}
		seen := map[ssa.Value]bool{}
		var walk func(x ssa.Value, d int)
		walk = func(x ssa.Value, d int) {
			if x == nil || seen[x] || d > 16 {
				return
			}
			seen[x] = true
			if touchesLexerState(x) {
				depends = true
				return
			}
			switch y := x.(type) {
			case *ssa.Phi:
				for _, e := range y.Edges {
					walk(e, d+1)
				}
				// control dependence of a phi: the conditions of the blocks that choose the edge
				for _, p := range y.Block().Preds {
					if cnd := ifCond(p); cnd != nil {
						walk(cnd, d+1)
					}
				}
			case *ssa.BinOp:
				walk(y.X, d+1)
				walk(y.Y, d+1)
			case *ssa.UnOp:
				walk(y.X, d+1)
			case *ssa.Convert:
				walk(y.X, d+1)
			case *ssa.Extract:
				walk(y.Tuple, d+1)
			case *ssa.Call:
				for _, a := range y.Call.Args {
					walk(a, d+1)
				}
			}
		}
		walk(ret.Results[0], 0)
		// control dependence of the return itself
		for f := range c.factsAt(in.Block()) {
			walk(f.cond, 0)
		}
	})
	key := fname(more) + "/depends-on-token-buffer"
	if depends {
		r.ok(rule, key, c.Pos(more.Pos()), desc, "the result depends on the lexer's token buffer", true)
	} else {
		r.bad(rule, key, c.Pos(more.Pos()), desc, "the result depends only on whether a token could be read: a text that ends inside a token (foo(1). 'abc) is cut off there and the load reports success")
	}
	r.analysed(rule, fname(more))
}
