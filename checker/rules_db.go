package main

import (
	"fmt"
	"go/token"
	"go/types"
	"sort"
	"strings"

	"golang.org/x/tools/go/ssa"
)

// ---------------------------------------------------------------------------
// live-state writers

type writeSite struct {
	fn    *ssa.Function
	in    ssa.Instruction
	what  string // "VM.procedures", "userDefined.clauses", "VM.operators" …
	fresh bool   // target object allocated in the same function
}

// fieldOf: addr is &X.f for struct type `typ` -> returns (X, true).
func fieldAddrOf(addr ssa.Value, typ, field string) (ssa.Value, bool) {
	fa, ok := addr.(*ssa.FieldAddr)
	if !ok {
		return nil, false
	}
	if !isEngNamed(fa.X.Type(), typ) || fieldName(fa) != field {
		return nil, false
	}
	return fa.X, true
}

// loadsField: v is a load of field `field` of struct `typ` (possibly via embedded promotion).
func loadsField(v ssa.Value, typ, field string) (ssa.Value, bool) {
	ld, ok := v.(*ssa.UnOp)
	if !ok || ld.Op != token.MUL {
		return nil, false
	}
	return fieldAddrOf(ld.X, typ, field)
}

// stateWrites enumerates writes to a struct field that holds interpreter state: stores to the field
// itself, and map updates / deletes / element stores on the value loaded from it.
func (c *Ctx) stateWrites(typ, field string) []writeSite {
	var out []writeSite
	what := typ + "." + field
	for _, fn := range c.LibFuncs() {
		eachInstr(fn, func(in ssa.Instruction) {
			switch x := in.(type) {
			case *ssa.Store:
				if base, ok := fieldAddrOf(x.Addr, typ, field); ok {
					out = append(out, writeSite{fn, in, what, freshAlloc(base)})
					return
				}
				// element store into the slice loaded from the field
				if ia, ok := x.Addr.(*ssa.IndexAddr); ok {
					if _, ok := loadsField(ia.X, typ, field); ok {
						out = append(out, writeSite{fn, in, what + "[]", false})
					}
				}
			case *ssa.MapUpdate:
				if _, ok := loadsField(x.Map, typ, field); ok {
					out = append(out, writeSite{fn, in, what + "[k]=", false})
				}
			case *ssa.Call:
				if b, ok := x.Call.Value.(*ssa.Builtin); ok && b.Name() == "delete" {
					if _, ok := loadsField(x.Call.Args[0], typ, field); ok {
						out = append(out, writeSite{fn, in, what + " delete", false})
					}
				}
			}
		})
	}
	return out
}

// staticCallers: reverse static call graph (direct calls, plus closure creation: a function is
// considered to "call" the closures it creates).
func (c *Ctx) staticCallerMap() map[*ssa.Function][]*ssa.Function {
	m := map[*ssa.Function][]*ssa.Function{}
	add := func(callee, caller *ssa.Function) {
		for _, x := range m[callee] {
			if x == caller {
				return
			}
		}
		m[callee] = append(m[callee], caller)
	}
	for _, fn := range c.LibFuncs() {
		for _, a := range fn.AnonFuncs {
			add(a, fn)
		}
		eachInstr(fn, func(in ssa.Instruction) {
			if ci, ok := in.(ssa.CallInstruction); ok {
				if callee := ci.Common().StaticCallee(); callee != nil {
					add(callee, fn)
				}
			}
			// function values passed or stored (method values, callbacks)
			for _, op := range in.Operands(nil) {
				if op == nil || *op == nil {
					continue
				}
				if f, ok := (*op).(*ssa.Function); ok && c.isLibPkg(funcPkg(f)) {
					add(f, fn)
				}
			}
		})
	}
	return m
}

// staticAncestors: all functions from which fn is reachable over static calls, not passing through `stop`.
func (c *Ctx) staticAncestors(fn *ssa.Function, stop map[*ssa.Function]bool) map[*ssa.Function]bool {
	callers := c.staticCallerMap()
	seen := map[*ssa.Function]bool{fn: true}
	stack := []*ssa.Function{fn}
	for len(stack) > 0 {
		f := stack[len(stack)-1]
		stack = stack[:len(stack)-1]
		if stop[f] && f != fn {
			continue
		}
		for _, p := range callers[f] {
			if !seen[p] {
				seen[p] = true
				stack = append(stack, p)
			}
		}
	}
	return seen
}

// ruleStateWriters: every registered predicate from whose Go function a writer of the given state is
// statically reachable must be one of the Prolog predicates that ISO defines as updating that state.
func ruleStateWriters(rule string, fields [][2]string, allowed []string, desc string) func(c *Ctx, r *Report) {
	return func(c *Ctx, r *Report) {
		allow := map[string]bool{}
		for _, a := range allowed {
			allow[a] = true
		}
		regs := c.registered()
		n := 0
		for _, fld := range fields {
			for _, w := range c.stateWrites(fld[0], fld[1]) {
				if w.fresh {
					continue // initialising an object that is still private
				}
				n++
				anc := c.staticAncestors(w.fn, nil)
				var owners, intruders []string
				for _, e := range regs {
					if anc[e.Fn] {
						id := fmt.Sprintf("%s/%d", e.Name, e.Arity)
						if allow[id] {
							owners = append(owners, id)
						} else {
							intruders = append(intruders, id)
						}
					}
				}
				key := fmt.Sprintf("%s/write(%s)", fname(w.fn), w.what)
				if len(intruders) > 0 {
					sort.Strings(intruders)
					r.bad(rule, key, c.at(w.in), desc, "this write is statically reachable from "+strings.Join(intruders, ", ")+", which ISO does not define as updating this state")
				} else {
					sort.Strings(owners)
					who := strings.Join(owners, ", ")
					if who == "" {
						who = "no registered predicate (host API / loader only)"
					}
					r.ok(rule, key, c.at(w.in), desc, "reachable from: "+who, true)
				}
			}
		}
		r.analysed(rule, fmt.Sprintf("%d write sites; %d registered predicates", n, len(regs)))
	}
}

// ---------------------------------------------------------------------------
// R-SNAPSHOT

func (c *Ctx) isClauseSlice(t types.Type) bool {
	s, ok := t.Underlying().(*types.Slice)
	return ok && isEngNamed(s.Elem(), "clause") && !isPtr(s.Elem())
}

// dependsOnCapturedInt: the integer value is data-dependent on a load of a closure-captured variable.
func dependsOnCapturedInt(v ssa.Value) (bool, string) {
	dep, name := false, ""
	dataSlice(v, func(x ssa.Value) bool {
		if ld, ok := x.(*ssa.UnOp); ok && ld.Op == token.MUL {
			if fv, ok := ld.X.(*ssa.FreeVar); ok && isIntegerType(ld.Type()) {
				dep, name = true, fv.Name()
			}
			return false
		}
		return true
	})
	return dep, name
}

func ruleSnapshot(c *Ctx, r *Report) {
	const rule = "R-SNAPSHOT"
	n := 0
	for _, fn := range c.LibFuncs() {
		if fn.Parent() == nil {
			continue // only code that runs later than its creator
		}
		eachInstr(fn, func(in ssa.Instruction) {
			var idx []ssa.Value
			var x ssa.Value
			switch v := in.(type) {
			case *ssa.Slice:
				x = v.X
				for _, i := range []ssa.Value{v.Low, v.High, v.Max} {
					if i != nil {
						idx = append(idx, i)
					}
				}
			case *ssa.IndexAddr:
				x, idx = v.X, []ssa.Value{v.Index}
			case *ssa.Index:
				x, idx = v.X, []ssa.Value{v.Index}
			default:
				return
			}
			if !c.isClauseSlice(x.Type()) {
				return
			}
			// live list: loaded from the clauses field of a procedure
			if _, ok := loadsField(x, "userDefined", "clauses"); !ok {
				return
			}
			n++
			key := fmt.Sprintf("%s/index(u.clauses)[%d]", fname(fn), n)
			desc := "a delayed continuation does not address the live clause list by a position computed at call time"
			stale := ""
			for _, i := range idx {
				if dep, name := dependsOnCapturedInt(i); dep {
					stale = name
				}
			}
			// (after seed C09f) ... nor by a position found in a list taken at call time: a loop index applied to the
			// live list is bounded by the length of the live list, not by the length of a captured slice
			if stale == "" {
				isLive := func(v ssa.Value) bool { _, ok := loadsField(v, "userDefined", "clauses"); return ok }
				lenOf := func(v ssa.Value) (ssa.Value, bool) {
					call, ok := v.(*ssa.Call)
					if !ok {
						return nil, false
					}
					if b, ok := call.Call.Value.(*ssa.Builtin); !ok || b.Name() != "len" || len(call.Call.Args) != 1 {
						return nil, false
					}
					return call.Call.Args[0], true
				}
				for _, i := range idx {
					if _, isConst := i.(*ssa.Const); isConst {
						continue
					}
					fromLive := false
					dataSlice(i, func(x ssa.Value) bool {
						if l, ok := lenOf(x); ok && isLive(l) {
							fromLive = true
						}
						return !fromLive
					})
					if fromLive {
						continue
					}
					// strip i+1 / i-1
					base := i
					if bo, ok := base.(*ssa.BinOp); ok && (bo.Op == token.ADD || bo.Op == token.SUB) {
						if _, isK := constInt(bo.Y); isK {
							base = bo.X
						}
					}
					live, other := false, ""
					for f := range c.factsAt(in.Block()) {
						bo, ok := f.cond.(*ssa.BinOp)
						if !ok || !f.pol || (bo.Op != token.LSS && bo.Op != token.GTR) {
							continue
						}
						a, b := bo.X, bo.Y
						if bo.Op == token.GTR {
							a, b = b, a
						}
						if a != base {
							continue
						}
						if l, ok := lenOf(b); ok {
							if isLive(l) {
								live = true
							} else {
								other = valName(l)
							}
						}
					}
					if !live && other != "" {
						stale = "the position in `" + other + "`"
					}
				}
			}
			if stale != "" {
				r.bad(rule, fmt.Sprintf("%s/index(u.clauses)", fname(fn)), c.at(in), desc,
					"index depends on captured variable `"+stale+"`: after another update of the predicate the position is stale (wrong clause removed, or slice bounds out of range)")
			} else {
				r.ok(rule, key, c.at(in), desc, "index is computed from the live list inside the continuation", true)
			}
		})
	}
	// positive side: calls iterate copies taken eagerly
	if call := c.method("clauses", "call"); call != nil {
		eager := false
		eachInstr(call, func(in ssa.Instruction) {
			if ia, ok := in.(*ssa.IndexAddr); ok && c.isClauseSlice(ia.X.Type()) {
				eager = true
			}
		})
		for _, a := range call.AnonFuncs {
			eachInstr(a, func(in ssa.Instruction) {
				switch v := in.(type) {
				case *ssa.IndexAddr:
					if c.isClauseSlice(v.X.Type()) {
						eager = false
						r.bad(rule, fname(a)+"/lazy-index", c.at(in), "a call iterates clause copies captured when the call starts", "the alternative indexes the clause list when it is tried, so it sees later updates")
					}
				}
			})
		}
		if eager {
			r.ok(rule, fname(call)+"/eager-copy", c.Pos(call.Pos()), "a call iterates clause copies captured when the call starts", "the clause list is indexed only in the calling function, the alternatives capture the copy", true)
		}
	}
	r.analysed(rule, "all closures of the library that index a live clause list")
}

// ---------------------------------------------------------------------------
// R-RAW-CLOSED

func ruleRawClosed(c *Ctx, r *Report) {
	const rule = "R-RAW-CLOSED"
	closers := map[*ssa.Function]bool{}
	for _, f := range []*ssa.Function{c.fn("simplify"), c.method("Env", "simplify"), c.fn("renamedCopy")} {
		if f != nil {
			closers[f] = true
		}
	}
	n := 0
	for _, fn := range c.LibFuncs() {
		eachInstr(fn, func(in ssa.Instruction) {
			st, ok := in.(*ssa.Store)
			if !ok {
				return
			}
			if _, ok := fieldAddrOf(st.Addr, "clause", "raw"); !ok {
				return
			}
			n++
			key := fmt.Sprintf("%s/clause.raw[%d]", fname(fn), n)
			desc := "the stored clause term has the bindings of the asserting environment applied (closed copy)"
			good := true
			var bad ssa.Value
			for _, l := range c.originSet(st.Val) {
				cl, idx := callOfValue(l)
				if cl == nil || idx != 0 || !closers[cl.Call.StaticCallee()] {
					good, bad = false, l
				}
			}
			if good {
				r.ok(rule, key, c.at(st), desc, "value originates from simplify/renamedCopy", true)
			} else {
				r.bad(rule, fmt.Sprintf("%s/clause.raw(%s)", fname(fn), valName(bad)), c.at(st), desc,
					"stores the unresolved term "+valName(bad)+": clause/2 and retract/1 later resolve it under a different environment and see unbound variables where the clause was asserted with values")
			}
		})
	}
	r.analysed(rule, fmt.Sprintf("%d stores to clause.raw", n))
}

// ---------------------------------------------------------------------------
// R-FIELD-ASSERT

// typesStoredInField: static types of every value stored into struct field typ.field anywhere
// (stores through FieldAddr and composite literals, which go/ssa lowers to such stores).
func (c *Ctx) typesStoredInField(typ, field string) []types.Type {
	var out []types.Type
	for _, fn := range c.LibFuncs() {
		eachInstr(fn, func(in ssa.Instruction) {
			st, ok := in.(*ssa.Store)
			if !ok {
				return
			}
			if _, ok := fieldAddrOf(st.Addr, typ, field); !ok {
				return
			}
			c.origins(st.Val, func(l ssa.Value) {
				t := l.Type()
				if mi, ok := l.(*ssa.MakeInterface); ok {
					t = mi.X.Type()
				}
				out = append(out, t)
			})
		})
	}
	return out
}

func ruleFieldAssert(c *Ctx, r *Report) {
	const rule = "R-FIELD-ASSERT"
	n, ninfo := 0, 0
	for _, fn := range c.LibFuncs() {
		eachInstr(fn, func(in ssa.Instruction) {
			ta, ok := in.(*ssa.TypeAssert)
			if !ok || ta.CommaOk {
				return
			}
			if !c.termLikeIface(ta.X.Type()) {
				return
			}
			// operand loaded from a struct field?
			ld, ok := ta.X.(*ssa.UnOp)
			var fa *ssa.FieldAddr
			if ok && ld.Op == token.MUL {
				fa, _ = ld.X.(*ssa.FieldAddr)
			}
			if fa == nil {
				// go/ssa guards `switch x.(type)` arms with comma-ok asserts; a bare assert on a call
				// result or parameter needs value reasoning.
				if c.assertGuarded(ta) {
					return
				}
				ninfo++
				r.info(rule, fmt.Sprintf("%s/%s.(%s)", fname(fn), valName(ta.X), typeName(ta.AssertedType)), c.at(ta),
					"unchecked type assertion cannot fail", "operand is not a struct field (call result / parameter / element): needs value reasoning, not decided")
				return
			}
			owner := deref(fa.X.Type())
			on, _ := owner.(*types.Named)
			if on == nil {
				return
			}
			// the instruction.operand assertions are discharged by R-OPERAND-AGREE
			if on.Obj().Name() == "instruction" {
				return
			}
			n++
			field := fieldName(fa)
			key := fmt.Sprintf("%s/%s.%s.(%s)", fname(fn), on.Obj().Name(), field, typeName(ta.AssertedType))
			desc := "unchecked assertion on a struct field holds for every value ever stored into that field"
			var offending []string
			seen := map[string]bool{}
			for _, t := range c.typesStoredInField(on.Obj().Name(), field) {
				okT := false
				if ai, isI := ta.AssertedType.Underlying().(*types.Interface); isI {
					okT = types.Implements(t, ai)
				} else {
					okT = types.Identical(t, ta.AssertedType)
				}
				if !okT && !seen[typeName(t)] {
					seen[typeName(t)] = true
					offending = append(offending, typeName(t))
				}
			}
			sort.Strings(offending)
			if len(offending) == 0 {
				r.ok(rule, key, c.at(ta), desc, "every store into the field has a static type satisfying the assertion", true)
			} else {
				r.bad(rule, key, c.at(ta), desc, "values of static type "+strings.Join(offending, ", ")+" are stored into "+on.Obj().Name()+"."+field+" elsewhere: the assertion panics (interface conversion) for them")
			}
		})
	}
	if n == 0 {
		r.ok(rule, "scan/no-field-assertion", "-", "unchecked assertion on a struct field holds for every value ever stored into that field",
			fmt.Sprintf("no unchecked assertion on a Term-typed struct field exists in %d library functions (%d call-result assertions are listed as not decided)", len(c.LibFuncs()), ninfo), false)
	}
	r.analysed(rule, fmt.Sprintf("%d field assertions decided, %d call-result assertions listed as not decided", n, ninfo))
}

// assertGuarded: the assertion is dominated by a successful comma-ok assertion of the same operand to
// the same type (or sits in a type-switch arm for it).
func (c *Ctx) assertGuarded(ta *ssa.TypeAssert) bool {
	for f := range c.factsAt(ta.Block()) {
		if !f.pol {
			continue
		}
		ex, ok := f.cond.(*ssa.Extract)
		if !ok || ex.Index != 1 {
			continue
		}
		g, ok := ex.Tuple.(*ssa.TypeAssert)
		if !ok || !c.sameIfaceValue(g.X, ta.X) {
			continue
		}
		if types.Identical(g.AssertedType, ta.AssertedType) {
			return true
		}
	}
	return false
}

// ---------------------------------------------------------------------------
// R-SNAPSHOT, second part (added after seeds C05/C09): a delayed closure neither keeps a pointer into
// a clause array nor limits its search of the live list by a position computed at call time.

func ruleSnapshotPointers(c *Ctx, r *Report) {
	const rule = "R-SNAPSHOT"
	n := 0
	for _, fn := range c.LibFuncs() {
		eachInstr(fn, func(in ssa.Instruction) {
			ia, ok := in.(*ssa.IndexAddr)
			if !ok || !c.isClauseSlice(ia.X.Type()) {
				return
			}
			// is the element address retained by delayed code? (stored into a variable captured by a closure,
			// bound into a closure directly, or stored into a struct)
			for _, ref := range *ia.Referrers() {
				switch x := ref.(type) {
				case *ssa.Store:
					if x.Val != ssa.Value(ia) {
						continue
					}
					n++
					cell := c.varCell(x.Addr)
					captured := false
					if cell != nil {
						for _, r2 := range *cell.Referrers() {
							if _, ok := r2.(*ssa.MakeClosure); ok {
								captured = true
							}
						}
					}
					key := fmt.Sprintf("%s/&clauses[i]", fname(fn))
					if captured || cell == nil {
						r.bad(rule, key, c.at(x), "delayed alternatives hold copies of clauses, not pointers into the clause array",
							"the address of a clause-array element is kept for a closure: when the alternative is tried it reads whatever occupies that slot then (retract shifts and zeroes slots)")
					} else {
						r.ok(rule, fmt.Sprintf("%s/&clauses[i][%d]", fname(fn), n), c.at(x), "delayed alternatives hold copies of clauses, not pointers into the clause array", "element address stays in a local variable that no closure captures", true)
					}
				case *ssa.MakeClosure:
					n++
					r.bad(rule, fmt.Sprintf("%s/&clauses[i]", fname(fn)), c.at(x), "delayed alternatives hold copies of clauses, not pointers into the clause array", "a closure binds the address of a clause-array element")
				}
			}
		})
		// comparisons between a live-list index and a captured call-time position
		if fn.Parent() == nil {
			continue
		}
		liveIdx := map[ssa.Value]bool{}
		eachInstr(fn, func(in ssa.Instruction) {
			var x ssa.Value
			var idx []ssa.Value
			switch v := in.(type) {
			case *ssa.IndexAddr:
				x, idx = v.X, []ssa.Value{v.Index}
			case *ssa.Slice:
				x = v.X
				for _, i := range []ssa.Value{v.Low, v.High} {
					if i != nil {
						idx = append(idx, i)
					}
				}
			default:
				return
			}
			if !c.isClauseSlice(x.Type()) {
				return
			}
			if _, ok := loadsField(x, "userDefined", "clauses"); !ok {
				return
			}
			for _, i := range idx {
				dataSlice(i, func(v ssa.Value) bool {
					if _, isPhi := v.(*ssa.Phi); isPhi {
						liveIdx[v] = true
					}
					return true
				})
			}
		})
		eachInstr(fn, func(in ssa.Instruction) {
			bo, ok := in.(*ssa.BinOp)
			if !ok {
				return
			}
			switch bo.Op {
			case token.LSS, token.LEQ, token.GTR, token.GEQ, token.EQL, token.NEQ:
			default:
				return
			}
			var other ssa.Value
			switch {
			case liveIdx[bo.X]:
				other = bo.Y
			case liveIdx[bo.Y]:
				other = bo.X
			default:
				return
			}
			if dep, name := dependsOnCapturedInt(other); dep {
				n++
				r.bad(rule, fmt.Sprintf("%s/search-bound(%s)", fname(fn), name), c.at(bo), "a delayed continuation searches the whole live clause list",
					"the search index is compared with captured variable `"+name+"`, a position computed at call time: clauses that moved past it since then are not found")
			}
		})
	}
	r.analysed(rule, fmt.Sprintf("%d clause-element addresses / search bounds examined", n))
}

// ---------------------------------------------------------------------------
// R-SLICE-OWNER (added after seed C20): a clause list has one owner; what is stored into an owner's list
// field is built by append/merge/compile or re-sliced from the same owner, never another owner's slice.

func ruleSliceOwner(c *Ctx, r *Report) {
	const rule = "R-SLICE-OWNER"
	owners := [][2]string{{"userDefined", "clauses"}, {"text", "buf"}}
	n := 0
	for _, fn := range c.LibFuncs() {
		eachInstr(fn, func(in ssa.Instruction) {
			st, ok := in.(*ssa.Store)
			if !ok || !c.isClauseSlice(st.Val.Type()) {
				return
			}
			var ownT, ownF string
			for _, o := range owners {
				if _, ok := fieldAddrOf(st.Addr, o[0], o[1]); ok {
					ownT, ownF = o[0], o[1]
				}
			}
			if ownT == "" {
				return
			}
			n++
			key := fmt.Sprintf("%s/%s.%s=[%d]", fname(fn), ownT, ownF, n)
			desc := "a clause list stored into an owner is built by append/merge/compile or re-sliced from that same owner"
			bad := ""
			var walk func(v ssa.Value, depth int)
			walk = func(v ssa.Value, depth int) {
				if depth > 6 {
					return
				}
				for _, l := range c.originSet(v) {
					switch x := l.(type) {
					case *ssa.Slice:
						walk(x.X, depth+1) // re-slice keeps the array: look at what is re-sliced
					case *ssa.Call:
						// append / merge / compile results: new or same-owner memory
					case *ssa.Extract:
					case *ssa.Const, *ssa.MakeSlice, *ssa.Parameter:
					case *ssa.UnOp:
						for _, o := range owners {
							if _, ok := loadsField(x, o[0], o[1]); ok && (o[0] != ownT || o[1] != ownF) {
								bad = o[0] + "." + o[1]
							}
						}
					}
				}
			}
			walk(st.Val, 0)
			if bad == "" {
				r.ok(rule, key, c.at(st), desc, "no other owner's slice header flows into the store", true)
			} else {
				r.bad(rule, fmt.Sprintf("%s/%s.%s=%s", fname(fn), ownT, ownF, bad), c.at(st), desc,
					"the slice header of "+bad+" is stored as is: both now share one backing array (and its spare capacity), so a later append to one overwrites the clauses of the other")
			}
		})
	}
	r.analysed(rule, fmt.Sprintf("%d stores into clause-list owner fields", n))
}

// ---------------------------------------------------------------------------
// R-CLAUSE-BUILD (added after seed C10): the methods that grow a clause's bytecode/vars by append are
// applied only to a clause that was not initialised by copying another clause value.

func ruleClauseBuild(c *Ctx, r *Report) {
	const rule = "R-CLAUSE-BUILD"
	// growers: pointer-receiver methods of clause that store an append result into a slice field of the receiver,
	// directly or through other growers
	growers := map[*ssa.Function]bool{}
	changed := true
	for changed {
		changed = false
		for _, fn := range c.LibFuncs() {
			if growers[fn] || fn.Signature.Recv() == nil || !isEngNamed(fn.Signature.Recv().Type(), "clause") || !isPtr(fn.Signature.Recv().Type()) {
				continue
			}
			grows := false
			eachInstr(fn, func(in ssa.Instruction) {
				switch x := in.(type) {
				case *ssa.Store:
					fa, ok := x.Addr.(*ssa.FieldAddr)
					if !ok || fa.X != ssa.Value(fn.Params[0]) {
						return
					}
					if call, ok := x.Val.(*ssa.Call); ok {
						if b, ok := call.Call.Value.(*ssa.Builtin); ok && b.Name() == "append" {
							grows = true
						}
					}
				case *ssa.Call:
					if f := x.Call.StaticCallee(); f != nil && growers[f] && len(x.Call.Args) > 0 && x.Call.Args[0] == ssa.Value(fn.Params[0]) {
						grows = true
					}
				}
			})
			if grows {
				growers[fn], changed = true, true
			}
		}
	}
	if len(growers) < 3 {
		r.undecided(rule, "anchor:growers", "-", "locate the methods that append to a clause's bytecode/vars", fmt.Sprintf("only %d found", len(growers)))
		return
	}
	n := 0
	for _, fn := range c.LibFuncs() {
		eachInstr(fn, func(in ssa.Instruction) {
			call, ok := in.(*ssa.Call)
			if !ok || call.Call.StaticCallee() == nil || !growers[call.Call.StaticCallee()] {
				return
			}
			recv := call.Call.Args[0]
			if p, isParam := recv.(*ssa.Parameter); isParam && p.Parent().Signature.Recv() != nil {
				return // forwarded receiver inside another grower
			}
			n++
			key := fmt.Sprintf("%s/call %s", fname(fn), call.Call.StaticCallee().Name())
			desc := "a clause is grown by append only if its slices are its own (it did not start as a copy of another clause)"
			al, isAlloc := recv.(*ssa.Alloc)
			if !isAlloc {
				r.bad(rule, key, c.at(call), desc, "receiver is not a local clause variable")
				return
			}
			copied := false
			for _, ref := range *al.Referrers() {
				st, ok := ref.(*ssa.Store)
				if !ok || st.Addr != ssa.Value(al) {
					continue
				}
				// a whole-struct store: zero value is fine, a loaded clause value is a copy sharing its slices
				if _, isLoad := st.Val.(*ssa.UnOp); isLoad {
					copied = true
				}
				if _, isPhi := st.Val.(*ssa.Phi); isPhi {
					copied = true
				}
			}
			if copied {
				r.bad(rule, key, c.at(call), desc, "the clause was initialised by copying another clause value: bytecode/vars share spare capacity with the original, and a sibling built from the same original overwrites these instructions")
			} else {
				r.ok(rule, key, c.at(call), desc, "receiver is a zero-initialised local clause", true)
			}
		})
	}
	var gs []string
	for g := range growers {
		gs = append(gs, g.Name())
	}
	sort.Strings(gs)
	r.analysed(rule, "growers: "+strings.Join(gs, " "), fmt.Sprintf("%d external call sites", n))
}

// ---------------------------------------------------------------------------
// R-ASSERT-COPY (C10, C09; added with fix F24): "a stored clause is the clause that was given" - as it was
// when it was given. A function that compiles a term and stores the result into a procedure's clause list
// (the assert built-ins) compiles a renamed copy: the argument of the compiler originates from the copier.
// Otherwise the stored term shares variables with the asserting goal and bindings made AFTER the assert
// show through clause/2 and retract/1 (assertz(foo(X)), X = 1, clause(foo(Y), true) answers Y = 1).

func ruleAssertCopy(c *Ctx, r *Report) {
	const rule = "R-ASSERT-COPY"
	compile := c.fn("compile")
	copier := c.fn("renamedCopy")
	if compile == nil || copier == nil {
		r.undecided(rule, "anchor", "-", "locate compile and renamedCopy", "not found")
		return
	}
	desc := "a clause stored by an assert built-in is compiled from a renamed copy of the given term"
	n := 0
	for _, fn := range c.LibFuncs() {
		stores := false
		eachInstr(fn, func(in ssa.Instruction) {
			if st, ok := in.(*ssa.Store); ok {
				if base, ok := fieldAddrOf(st.Addr, "userDefined", "clauses"); ok {
					if _, fresh := base.(*ssa.Alloc); !fresh { // a one-off procedure built for call/N is not the database
						stores = true
					}
				}
			}
		})
		if !stores {
			continue
		}
		eachInstr(fn, func(in ssa.Instruction) {
			call, ok := in.(*ssa.Call)
			if !ok || call.Call.StaticCallee() != compile {
				return
			}
			n++
			key := fmt.Sprintf("%s/compile#%d", fname(fn), n)
			good := true
			var bad ssa.Value
			for _, l := range c.reachingOrigins(call.Call.Args[0], call) {
				cl, idx := callOfValue(l)
				if cl == nil || idx != 0 || cl.Call.StaticCallee() != copier {
					good, bad = false, l
				}
			}
			if good {
				r.ok(rule, key, c.at(in), desc, "the compiled term is the result of renamedCopy", true)
			} else {
				r.bad(rule, fmt.Sprintf("%s/compile", fname(fn)), c.at(in), desc, "the compiled term may be "+valName(bad)+", which shares variables with the caller: bindings made after the assert show through clause/2 and retract/1")
			}
		})
	}
	if n == 0 {
		r.bad(rule, "scan/assert-sites", "-", desc, "no function both compiles a term and stores into a clause list")
	}
	r.analysed(rule, fmt.Sprintf("%d compile calls in functions that store into a clause list", n))
}

// reachingOrigins is originSet with flow-sensitive treatment of local variable cells (reachingStores).
func (c *Ctx) reachingOrigins(v ssa.Value, at ssa.Instruction) []ssa.Value {
	var out []ssa.Value
	seen := map[ssa.Value]bool{}
	var walk func(x ssa.Value)
	walk = func(x ssa.Value) {
		if x == nil || seen[x] {
			return
		}
		seen[x] = true
		switch y := x.(type) {
		case *ssa.Phi:
			for _, e := range y.Edges {
				walk(e)
			}
		case *ssa.MakeInterface:
			walk(y.X)
		case *ssa.ChangeInterface:
			walk(y.X)
		case *ssa.UnOp:
			if y.Op == token.MUL {
				if cell := c.varCell(y.X); cell != nil {
					for _, st := range c.reachingStores(cell, y) {
						walk(st.Val)
					}
					return
				}
			}
			out = append(out, x)
		default:
			out = append(out, x)
		}
	}
	walk(v)
	return out
}

// ---------------------------------------------------------------------------
// R-VARS-PER-CLAUSE (C10; added with fix F25): the variables of a clause are local to it. The loader reads
// a text clause by clause with one parser; before each clause it empties the parser's table of variable
// names: inside the reading loop there is a store into Parser.Vars of a slice of that table whose upper
// bound is the constant 0, dominating the call that parses the clause. (The code used to re-slice the
// table to its full length: equally named variables of different clauses were one variable, and the
// stored terms of `foo(X). bar(X).` shared it.)

func ruleVarsPerClause(c *Ctx, r *Report) {
	const rule = "R-VARS-PER-CLAUSE"
	term := c.method("Parser", "Term")
	if term == nil {
		r.undecided(rule, "anchor:Parser.Term", "-", "locate Parser.Term", "not found")
		return
	}
	desc := "the loader empties the parser's variable table before it reads the next clause"
	n := 0
	for _, fn := range c.LibFuncs() {
		if funcPkg(fn) != c.Engine {
			continue
		}
		eachInstr(fn, func(in ssa.Instruction) {
			call, ok := in.(*ssa.Call)
			if !ok || call.Call.StaticCallee() != term {
				return
			}
			// only a Term() call inside a loop (a text of several clauses)
			if !reachableFromSucc(call.Block(), call.Block()) {
				return
			}
			n++
			key := fmt.Sprintf("%s/Parser.Term-in-loop", fname(fn))
			reset := false
			eachInstr(fn, func(x ssa.Instruction) {
				st, ok := x.(*ssa.Store)
				if !ok {
					return
				}
				fa, ok := st.Addr.(*ssa.FieldAddr)
				if !ok || fieldName(fa) != "Vars" {
					return
				}
				sl, ok := st.Val.(*ssa.Slice)
				if !ok || sl.High == nil {
					return
				}
				if k, ok := constInt(sl.High); !ok || k != 0 {
					return
				}
				sb, cb := st.Block(), call.Block()
				if (sb == cb && instrIndex(st) < instrIndex(call)) || (sb != cb && sb.Dominates(cb) && reachableFromSucc(sb, sb)) {
					reset = true
				}
			})
			if reset {
				r.ok(rule, key, c.at(in), desc, "Parser.Vars = Parser.Vars[:0] in the loop, before the clause is parsed", true)
			} else {
				r.bad(rule, key, c.at(in), desc, "the variable table is not emptied inside the loop: equally named variables of different clauses are the same variable")
			}
		})
	}
	if n == 0 {
		r.bad(rule, "scan/reading-loop", "-", desc, "no loop that parses clause after clause found")
	}
	r.analysed(rule, fmt.Sprintf("%d clause-reading loops", n))
}

func reachableFromSucc(from, to *ssa.BasicBlock) bool {
	seen := map[*ssa.BasicBlock]bool{}
	st := append([]*ssa.BasicBlock{}, from.Succs...)
	for len(st) > 0 {
		b := st[len(st)-1]
		st = st[:len(st)-1]
		if seen[b] {
			continue
		}
		seen[b] = true
		if b == to {
			return true
		}
		st = append(st, b.Succs...)
	}
	return false
}

// ---------------------------------------------------------------------------
// C09: R-ASSERT-ATOMIC — added with fix F40.  A database update that raises an error leaves the database as
// it was.  In every engine function that returns an `error` and writes VM.procedures or userDefined.clauses
// (assertMerge today), no return of a possibly non-nil error is reachable from the write: every check and every
// fallible step (renamedCopy, compile, the static-procedure test) comes before the first mutation.
func ruleAssertAtomic(c *Ctx, r *Report) {
	const rule = "R-ASSERT-ATOMIC"
	var sites []writeSite
	sites = append(sites, c.stateWrites("VM", "procedures")...)
	sites = append(sites, c.stateWrites("userDefined", "clauses")...)
	n := map[string]int{}
	funcs := map[*ssa.Function]bool{}
	var asserts []*ssa.Function
	for _, name := range []string{"asserta", "assertz"} {
		if f := c.registeredFn(name, 1); f != nil {
			asserts = append(asserts, f)
		}
	}
	if len(asserts) != 2 {
		r.undecided(rule, "anchor:assert", "-", "locate asserta/1 and assertz/1", "not registered")
		return
	}
	fromAssert := func(fn *ssa.Function) bool {
		for _, a := range asserts {
			if a == fn || c.staticallyReaches(a, fn) {
				return true
			}
		}
		return false
	}
	// a call of a function that writes the database is a write as well
	writers := map[*ssa.Function]bool{}
	for _, s := range sites {
		if !s.fresh {
			writers[s.fn] = true
		}
	}
	for _, fn := range c.LibFuncs() {
		if funcPkg(fn) != c.Engine || !fromAssert(fn) {
			continue
		}
		eachInstr(fn, func(in ssa.Instruction) {
			if call, ok := in.(*ssa.Call); ok {
				if callee := call.Call.StaticCallee(); callee != nil && callee != fn && writers[callee] {
					sites = append(sites, writeSite{fn, in, "call of " + fname(callee), false})
				}
			}
		})
	}
	for _, s := range sites {
		res := s.fn.Signature.Results()
		if res.Len() == 0 || !isErrorType(res.At(res.Len()-1).Type()) || funcPkg(s.fn) != c.Engine {
			continue
		}
		if st, ok := s.in.(*ssa.Store); ok {
			if _, ok := st.Val.(*ssa.MakeMap); ok {
				continue // an empty table in place of a nil one: not a change of the database
			}
		}
		if s.fresh || !fromAssert(s.fn) {
			continue // (*VM).Compile runs initialization goals after the text is loaded: their failure is an error after the commit by design
		}
		funcs[s.fn] = true
		n[fname(s.fn)+"/"+s.what]++
		key := fmt.Sprintf("%s/%s#%d", fname(s.fn), s.what, n[fname(s.fn)+"/"+s.what])
		desc := "no error return is reachable once the database has been written (check everything, then update)"
		var hit *ssa.Return
		seen := map[*ssa.BasicBlock]bool{}
		stack := []*ssa.BasicBlock{s.in.Block()}
		for len(stack) > 0 && hit == nil {
			b := stack[len(stack)-1]
			stack = stack[:len(stack)-1]
			if seen[b] {
				continue
			}
			seen[b] = true
			if ret, ok := b.Instrs[len(b.Instrs)-1].(*ssa.Return); ok && len(ret.Results) > 0 {
				for _, l := range c.originSet(ret.Results[len(ret.Results)-1]) {
					if k, ok := l.(*ssa.Const); ok && k.IsNil() {
						continue
					}
					hit = ret
				}
			}
			stack = append(stack, b.Succs...)
		}
		if hit != nil {
			r.bad(rule, key, c.at(s.in), desc, "an error return at "+c.at(hit)+" is reachable after this write: the failed update stays visible (an assert that raises type_error(callable, _) leaves an empty dynamic procedure behind)")
		} else {
			r.ok(rule, key, c.at(s.in), desc, "every return reachable from the write returns a nil error", true)
		}
	}
	var names []string
	for f := range funcs {
		names = append(names, fname(f))
	}
	sort.Strings(names)
	r.analysed(rule, names...)
}

// C09: R-ABSENT-NOT-STATIC — added with fix F41.  permission_error(_, static_procedure | private_procedure, PI)
// says that PI names a procedure of that kind; a built-in raises it only where the looked-up procedure exists
// (the comma-ok of the VM.procedures lookup is known true) or where an absent one has been replaced by a
// fresh dynamic procedure on the way (assertMerge).  abolish/1, retract/1, clause/2 and assert are siblings here.
func ruleAbsentNotStatic(c *Ctx, r *Report) {
	const rule = "R-ABSENT-NOT-STATIC"
	pe := c.fn("permissionError")
	if pe == nil {
		r.undecided(rule, "anchor:permissionError", "-", "locate permissionError", "not found")
		return
	}
	kinds := map[int64]string{}
	for _, name := range []string{"permissionTypeStaticProcedure", "permissionTypePrivateProcedure"} {
		k, ok := c.Engine.Members[name].(*ssa.NamedConst)
		if !ok {
			r.undecided(rule, "anchor:"+name, "-", "locate the constant", "not found")
			return
		}
		v, _ := constInt(k.Value)
		kinds[v] = name
	}
	n := map[string]int{}
	for _, fn := range c.LibFuncs() {
		eachInstr(fn, func(in ssa.Instruction) {
			call, ok := in.(*ssa.Call)
			if !ok || call.Call.StaticCallee() != pe || len(call.Call.Args) < 2 {
				return
			}
			v, ok := constInt(call.Call.Args[1])
			if !ok || kinds[v] == "" {
				return
			}
			n[fname(fn)]++
			key := fmt.Sprintf("%s/%s#%d", fname(fn), kinds[v], n[fname(fn)])
			desc := "permission_error(_, static/private_procedure, PI) is raised only for a procedure that exists"
			// (a) the lookup's comma-ok is known true here
			for f := range c.factsAt(in.Block()) {
				if ex, ok := f.cond.(*ssa.Extract); ok && ex.Index == 1 && f.pol {
					if lk, ok := ex.Tuple.(*ssa.Lookup); ok && lk.CommaOk {
						if _, ok := loadsField(lk.X, "VM", "procedures"); ok {
							r.ok(rule, key, c.at(in), desc, "under the comma-ok of the VM.procedures lookup at "+c.at(lk), true)
							return
						}
					}
				}
			}
			// (b) the tested procedure is the looked-up one or a fresh dynamic procedure that replaces an absent one
			var tas []*ssa.TypeAssert
			eachInstr(fn, func(x ssa.Instruction) {
				if ta, ok := x.(*ssa.TypeAssert); ok && ta.CommaOk && isEngNamed(deref(ta.AssertedType), "userDefined") && ta.Block().Dominates(in.Block()) {
					tas = append(tas, ta)
				}
			})
			for _, ta := range tas {
				fresh, looked := false, false
				for _, l := range c.originSet(ta.X) {
					if ex, ok := l.(*ssa.Extract); ok {
						l = ex.Tuple
					}
					if mi, ok := l.(*ssa.MakeInterface); ok {
						l = mi.X
					}
					switch x := l.(type) {
					case *ssa.Alloc:
						if isEngNamed(deref(x.Type()), "userDefined") {
							fresh = true
						}
					case *ssa.Lookup:
						if _, ok := loadsField(x.X, "VM", "procedures"); ok && x.CommaOk {
							looked = true
						}
					}
				}
				if fresh && looked {
					r.ok(rule, key, c.at(in), desc, "the tested procedure is the looked-up one or the fresh dynamic procedure that stands in for an absent one", true)
					return
				}
			}
			r.bad(rule, key, c.at(in), desc, "this error is also reached when VM.procedures has no entry for PI (a type assertion on the missing map value fails just like one on a built-in): a procedure that does not exist is reported as static/private")
		})
	}
}

// ---------------------------------------------------------------------------
// C20: R-FLAG-LIVE — added with fix F45.  "Runs directives at their position": a directive of the text being
// loaded may set a flag that governs how the rest of the text is read.  The parser reads the operator table
// through the VM's own map, but what NewParser copies BY VALUE from the VM (today: double_quotes) goes stale
// with the first directive that sets it.  For every field of Parser that NewParser initialises with the value
// of a VM field of a non-reference type, every clause-reading loop (a Parser.Term call inside a CFG cycle)
// stores the VM's current value into that field inside the loop, before the clause is parsed.
func ruleFlagLive(c *Ctx, r *Report) {
	const rule = "R-FLAG-LIVE"
	desc := "what the parser copies by value from the VM is refreshed before each clause of a text is read"
	term := c.method("Parser", "Term")
	np := c.fn("NewParser")
	if term == nil || np == nil {
		r.undecided(rule, "anchor:NewParser/Parser.Term", "-", "locate NewParser and Parser.Term", "not found")
		return
	}
	// Parser field <- VM field copies in NewParser
	copies := map[string]string{}
	eachInstr(np, func(in ssa.Instruction) {
		st, ok := in.(*ssa.Store)
		if !ok {
			return
		}
		fa, ok := st.Addr.(*ssa.FieldAddr)
		if !ok || !isEngNamed(deref(fa.X.Type()), "Parser") {
			return
		}
		ld, ok := st.Val.(*ssa.UnOp)
		if !ok || ld.Op != token.MUL {
			return
		}
		src, ok := ld.X.(*ssa.FieldAddr)
		if !ok || !isEngNamed(deref(src.X.Type()), "VM") {
			return
		}
		switch st.Val.Type().Underlying().(type) {
		case *types.Map, *types.Pointer, *types.Slice, *types.Chan, *types.Interface, *types.Signature:
			return // shared with the VM, not copied
		}
		copies[fieldName(fa)] = fieldName(src)
	})
	var fields []string
	for f := range copies {
		fields = append(fields, f)
	}
	sort.Strings(fields)
	loops := 0
	for _, fn := range c.LibFuncs() {
		if funcPkg(fn) != c.Engine {
			continue
		}
		eachInstr(fn, func(in ssa.Instruction) {
			call, ok := in.(*ssa.Call)
			if !ok || call.Call.StaticCallee() != term || !reachableFromSucc(call.Block(), call.Block()) {
				return
			}
			loops++
			if len(fields) == 0 {
				r.ok(rule, fname(fn)+"/Parser.Term-in-loop", c.at(in), desc, "NewParser copies nothing by value from the VM", false)
				return
			}
			for _, f := range fields {
				key := fmt.Sprintf("%s/Parser.Term-in-loop/%s", fname(fn), f)
				fresh := false
				eachInstr(fn, func(x ssa.Instruction) {
					st, ok := x.(*ssa.Store)
					if !ok {
						return
					}
					fa, ok := st.Addr.(*ssa.FieldAddr)
					if !ok || !isEngNamed(deref(fa.X.Type()), "Parser") || fieldName(fa) != f {
						return
					}
					ld, ok := st.Val.(*ssa.UnOp)
					if !ok || ld.Op != token.MUL {
						return
					}
					src, ok := ld.X.(*ssa.FieldAddr)
					if !ok || !isEngNamed(deref(src.X.Type()), "VM") || fieldName(src) != copies[f] {
						return
					}
					sb, cb := st.Block(), call.Block()
					if (sb == cb && instrIndex(st) < instrIndex(call) && instrIndex(ld) < instrIndex(call)) || (sb != cb && sb.Dominates(cb) && reachableFromSucc(sb, sb)) {
						fresh = true
					}
				})
				if fresh {
					r.ok(rule, key, c.at(in), desc, "Parser."+f+" = VM."+copies[f]+" in the loop, before the clause is parsed", true)
				} else {
					r.bad(rule, key, c.at(in), desc, "NewParser copies VM."+copies[f]+" into Parser."+f+" and the loop never refreshes it: a directive of the text that sets the flag has no effect on the clauses after it")
				}
			}
		})
	}
	if loops == 0 {
		r.bad(rule, "scan/reading-loop", "-", desc, "no loop that parses clause after clause found")
	}
	r.analysed(rule, fmt.Sprintf("%d clause-reading loops, by-value copies in NewParser: %v", loops, fields))
}

// ---------------------------------------------------------------------------
// C09: R-RETRACT-REMOVES — added after seed C09e.  "retract/1 removes exactly the clause it unified with ...
// every clause is removed at most once": retract/1 succeeds only by removing a clause.  In retract/1 and its
// closures every call of the continuation is dominated by a write of userDefined.clauses in the same function
// (the removal).  A continuation reached without the removal - the clause had already been removed by a nested
// retract or from another query - reports a second removal of the same clause.
func ruleRetractRemoves(c *Ctx, r *Report) {
	const rule = "R-RETRACT-REMOVES"
	retract := c.registeredFn("retract", 1)
	if retract == nil {
		r.undecided(rule, "anchor:retract/1", "-", "locate retract/1", "not registered")
		return
	}
	desc := "retract/1 calls its continuation only after it has removed a clause"
	ks := paramsWhere(retract, c.isContType)
	if len(ks) != 1 {
		r.undecided(rule, "anchor:continuation", c.Pos(retract.Pos()), desc, "the continuation parameter was not recognised")
		return
	}
	writes := map[*ssa.Function][]ssa.Instruction{}
	for _, w := range c.stateWrites("userDefined", "clauses") {
		writes[w.fn] = append(writes[w.fn], w.in)
	}
	n := 0
	for _, fn := range withAnon(retract) {
		eachInstr(fn, func(in ssa.Instruction) {
			call, ok := in.(*ssa.Call)
			if !ok || call.Call.IsInvoke() {
				return
			}
			isK := false
			for _, l := range c.originSet(call.Call.Value) {
				if l == ssa.Value(ks[0]) {
					isK = true
				}
				if fv, ok := l.(*ssa.FreeVar); ok && fv.Name() == ks[0].Name() && isEngNamed(fv.Type(), "Cont") {
					isK = true
				}
			}
			if !isK {
				return
			}
			n++
			key := fmt.Sprintf("%s/k()#%d", fname(fn), n)
			removed := false
			for _, w := range writes[fn] {
				if (w.Block() == in.Block() && instrIndex(w) < instrIndex(in)) || (w.Block() != in.Block() && w.Block().Dominates(in.Block())) {
					removed = true
				}
			}
			if removed {
				r.ok(rule, key, c.at(in), desc, "dominated by the write of userDefined.clauses that removes the clause", true)
			} else {
				r.bad(rule, key, c.at(in), desc, "the continuation is reachable without a clause having been removed: an alternative of an open retract/1 whose clause is already gone succeeds, and the clause counts as removed twice")
			}
		})
	}
	if n == 0 {
		r.undecided(rule, "anchor:k-calls", c.Pos(retract.Pos()), desc, "no call of the continuation found in retract/1")
	}
}

// ---------------------------------------------------------------------------
// C20: R-DIRECTIVE-FLUSH — added after seed C20e.  "Clauses of a predicate separated by others without a
// discontiguous declaration" make the load fail.  The loader notices the end of a run of consecutive clauses in
// two places: when a clause of another predicate arrives, and when a directive arrives.  Every directive ends
// the run - whichever it is: in the function that handles a directive the staging buffer is flushed on every
// path (the call of text.flush dominates every return).  A directive kind that is exempted "because it only
// queues a goal" lets foo(5). :- initialization(g). foo(6). bar(7). foo(8)... load as one run.
func ruleDirectiveFlush(c *Ctx, r *Report) {
	const rule = "R-DIRECTIVE-FLUSH"
	desc := "every directive ends the current run of clauses: the staging buffer is flushed on every path through the directive handler"
	dir := c.method("VM", "directive")
	flush := c.method("text", "flush")
	if dir == nil || flush == nil {
		r.undecided(rule, "anchor:VM.directive/text.flush", "-", "locate the directive handler and text.flush", "not found")
		return
	}
	var calls []*ssa.Call
	eachInstr(dir, func(in ssa.Instruction) {
		if call, ok := in.(*ssa.Call); ok && call.Call.StaticCallee() == flush {
			calls = append(calls, call)
		}
	})
	key := fname(dir) + "/flush-first"
	if len(calls) == 0 {
		r.bad(rule, key, c.Pos(dir.Pos()), desc, "the directive handler never flushes the staging buffer")
		return
	}
	var miss *ssa.Return
	eachInstr(dir, func(in ssa.Instruction) {
		ret, ok := in.(*ssa.Return)
		if !ok {
			return
		}
		dominated := false
		for _, call := range calls {
			if call.Block() == ret.Block() || call.Block().Dominates(ret.Block()) {
				dominated = true
			}
		}
		if !dominated && miss == nil {
			miss = ret
		}
	})
	if miss == nil {
		r.ok(rule, key, c.at(calls[0]), desc, "the call of text.flush dominates every return of the handler", true)
	} else {
		r.bad(rule, key, c.at(miss), desc, "this return is reachable without the flush: a directive of that kind between two clauses of one predicate does not end the run, and the discontiguity goes unnoticed")
	}
	r.analysed(rule, fname(dir))
}

// ---------------------------------------------------------------------------
// C09: R-ABOLISH-CLEARS — added with fix F51.  "Every clause is removed at most once."  An open retract/1 holds
// the procedure record it found at call time and looks its snapshot clauses up in that record's live clause
// list; a clause that is no longer there fails (R-RETRACT-REMOVES).  Removing a procedure from the table without
// emptying the record leaves the list intact for whoever still holds the record: the remaining alternatives of
// the open retract/1 "remove" clauses that abolish/1 has already removed.  Checked: every delete from
// VM.procedures is preceded, in the same function, by a store of nil into the clauses of a userDefined.
func ruleAbolishClears(c *Ctx, r *Report) {
	const rule = "R-ABOLISH-CLEARS"
	desc := "a procedure removed from the table is emptied first"
	n := 0
	for _, w := range c.stateWrites("VM", "procedures") {
		if !strings.HasSuffix(w.what, "delete") || funcPkg(w.fn) != c.Engine {
			continue
		}
		// the un-marking of a file that failed to load (VM.loaded) is another map; stateWrites is per field
		n++
		key := fmt.Sprintf("%s/delete#%d", fname(w.fn), n)
		cleared := false
		eachInstr(w.fn, func(in ssa.Instruction) {
			st, ok := in.(*ssa.Store)
			if !ok {
				return
			}
			fa, ok := st.Addr.(*ssa.FieldAddr)
			if !ok || fieldName(fa) != "clauses" || !isEngNamed(deref(fa.X.Type()), "userDefined") {
				return
			}
			empty := isNilConst(st.Val)
			if sl, ok := st.Val.(*ssa.Slice); ok {
				if k, ok := constInt(sl.High); ok && k == 0 {
					empty = true
				}
			}
			if !empty {
				return
			}
			sb, db := st.Block(), w.in.Block()
			if (sb == db && instrIndex(st) < instrIndex(w.in)) || (sb != db && sb.Dominates(db)) {
				cleared = true
			}
		})
		if cleared {
			r.ok(rule, key, c.at(w.in), desc, "the clauses of the record are set to nil before the delete", true)
		} else {
			r.bad(rule, key, c.at(w.in), desc, "the record keeps its clauses: an open retract/1 that still holds it goes on removing clauses of the abolished procedure and succeeds for each")
		}
	}
	if n == 0 {
		r.info(rule, "scan/deletes", "-", desc, "no delete from VM.procedures found")
	}
}

// ---------------------------------------------------------------------------
// C09: R-CLAUSE-IDENTITY — added for seed C09b (second round), which had been recorded as missed.  "retract/1
// removes exactly the clause it unified with ... every clause is removed at most once."  The open retract/1
// finds its snapshot clause in the live list by asking whether two clause values are ONE stored clause.  That
// is a question about storage, not about the clause's term: `foo. foo.` are two stored clauses with one term
// (an atom has no identity of its own).  Wherever both clauses have compiled code - every stored clause has -
// the answer must not be computed from the `raw` term: each return of the identity test whose value depends on
// the field `raw` lies under a fact that a bytecode length is zero.
func ruleClauseIdentity(c *Ctx, r *Report) {
	const rule = "R-CLAUSE-IDENTITY"
	desc := "two stored clauses are told apart by their storage, not by their term, whenever both have code"
	retract := c.registeredFn("retract", 1)
	if retract == nil {
		r.undecided(rule, "anchor:retract/1", "-", "locate retract/1", "not registered")
		return
	}
	// the identity test: a function with two *clause parameters and a bool result called from retract/1
	var same *ssa.Function
	for _, fn := range withAnon(retract) {
		eachInstr(fn, func(in ssa.Instruction) {
			call, ok := in.(*ssa.Call)
			if !ok {
				return
			}
			callee := call.Call.StaticCallee()
			if callee == nil || funcPkg(callee) != c.Engine || callee.Signature.Params().Len() != 2 || callee.Signature.Results().Len() != 1 {
				return
			}
			if !isEngNamed(deref(callee.Signature.Params().At(0).Type()), "clause") || !isEngNamed(deref(callee.Signature.Params().At(1).Type()), "clause") {
				return
			}
			same = callee
		})
	}
	if same == nil {
		r.undecided(rule, "anchor:identity-test", c.Pos(retract.Pos()), desc, "retract/1 calls no function of two clauses")
		return
	}
	// (after seed C10h) ... and every other function of the engine that answers a yes/no question about two
	// stored clauses (a "same source" test written next to the identity test repeats its old mistake)
	tests := []*ssa.Function{same}
	for _, fn := range c.LibFuncs() {
		if fn == same || fn.Parent() != nil || funcPkg(fn) != c.Engine || fn.Signature.Recv() != nil || fn.Signature.Params().Len() != 2 || fn.Signature.Results().Len() != 1 {
			continue
		}
		if !isEngNamed(deref(fn.Signature.Params().At(0).Type()), "clause") || !isEngNamed(deref(fn.Signature.Params().At(1).Type()), "clause") {
			continue
		}
		if b, ok := fn.Signature.Results().At(0).Type().Underlying().(*types.Basic); !ok || b.Kind() != types.Bool {
			continue
		}
		tests = append(tests, fn)
	}
	for _, same := range tests {
		same := same
		func() {
			readsField := func(v ssa.Value, field string) bool {
				found := false
				dataSlice(v, func(x ssa.Value) bool {
					switch y := x.(type) {
					case *ssa.UnOp:
						if fa, ok := y.X.(*ssa.FieldAddr); ok && y.Op == token.MUL && fieldName(fa) == field && isEngNamed(deref(fa.X.Type()), "clause") {
							found = true
						}
					case *ssa.Call:
						// id(a.raw): dataSlice walks the arguments itself
					}
					return !found
				})
				return found
			}
			n := 0
			eachInstr(same, func(in ssa.Instruction) {
				ret, ok := in.(*ssa.Return)
				if !ok || len(ret.Results) != 1 {
					return
				}
				n++
				key := fmt.Sprintf("%s/return#%d", fname(same), n)
				if !readsField(ret.Results[0], "raw") {
					r.ok(rule, key, c.at(ret), desc, "the value does not depend on the clause's term", true)
					return
				}
				noCode := false
				for f := range c.factsAt(ret.Block()) {
					x, op, k, ok := cmpConst(f.cond)
					if !ok || k != 0 {
						continue
					}
					if _, isLen := lenOfField(x, "clause", "bytecode"); !isLen {
						continue
					}
					empty := (op == token.EQL && f.pol) || ((op == token.GTR || op == token.NEQ) && !f.pol)
					if empty {
						noCode = true
					}
				}
				// `a && b` false: neither conjunct is known false on its own; accept the return that is NOT dominated by
				// "both lengths are positive"
				if !noCode {
					bothPositive := 0
					for f := range c.factsAt(ret.Block()) {
						x, op, k, ok := cmpConst(f.cond)
						if ok && k == 0 {
							if _, isLen := lenOfField(x, "clause", "bytecode"); isLen && ((op == token.GTR || op == token.NEQ) && f.pol) {
								bothPositive++
							}
						}
					}
					if bothPositive < 2 {
						// reached also when a length is zero; is it reachable when both are positive?  cut the edges that
						// say "positive" is false and see whether the return is still reachable only through them
						reach := reachableAvoiding(same, ret.Block(), func(from *ssa.BasicBlock, i int, cond ssa.Value) bool {
							x, op, k, ok := cmpConst(cond)
							if !ok || k != 0 {
								return false
							}
							if _, isLen := lenOfField(x, "clause", "bytecode"); !isLen {
								return false
							}
							// cut the edge on which this length is zero
							return ((op == token.GTR || op == token.NEQ) && i == 1) || (op == token.EQL && i == 0)
						})
						noCode = !reach
					}
				}
				if noCode {
					r.ok(rule, key, c.at(ret), desc, "the term is consulted only where a clause has no code", true)
				} else {
					r.bad(rule, key, c.at(ret), desc, "the answer is computed from the clauses' terms although both have code: `foo. foo.` are one clause to this test, so a retract/1 that was overtaken removes the wrong copy or counts one removal twice")
				}
			})
			if n == 0 {
				if same == tests[0] { // a further function of two clauses that never returns (a retired helper) has nothing to check
					r.undecided(rule, "anchor:returns", c.Pos(same.Pos()), desc, "the identity test has no return")
				}
			}
			r.analysed(rule, fname(same))
		}()
	}
}

// ---------------------------------------------------------------------------
// C20: R-STAGING-INIT-GUARDED — added after seed C20g.  The loader collects a text's clauses in a staging
// table that lives as long as the text is being loaded - across include/1, which re-enters the compile function
// with the SAME text.  The table is therefore created at most once: every store of a fresh map into text.clauses
// lies under the fact that the field is still nil.  An unconditional initialisation looks like a tidy-up and
// throws away, at every include/1, everything the text has defined so far (and the load reports success).
func ruleStagingInitGuarded(c *Ctx, r *Report) {
	const rule = "R-STAGING-INIT-GUARDED"
	desc := "the staging table of a text is created only where it does not exist yet"
	n := 0
	for _, fn := range c.LibFuncs() {
		if funcPkg(fn) != c.Engine {
			continue
		}
		k := 0
		eachInstr(fn, func(in ssa.Instruction) {
			st, ok := in.(*ssa.Store)
			if !ok {
				return
			}
			fa, ok := st.Addr.(*ssa.FieldAddr)
			if !ok || fieldName(fa) != "clauses" || !isEngNamed(deref(fa.X.Type()), "text") {
				return
			}
			if _, isMake := st.Val.(*ssa.MakeMap); !isMake {
				return
			}
			if _, fresh := fa.X.(*ssa.Alloc); fresh {
				return // the text is being constructed here
			}
			n++
			k++
			key := fmt.Sprintf("%s/text.clauses=make#%d", fname(fn), k)
			guarded := false
			for f := range c.factsAt(in.Block()) {
				x, op, ok := nilCmp(f.cond)
				if !ok || (op == token.EQL) != f.pol {
					continue
				}
				if ld, ok := x.(*ssa.UnOp); ok && ld.Op == token.MUL {
					if fa2, ok := ld.X.(*ssa.FieldAddr); ok && fa2.Field == fa.Field && isEngNamed(deref(fa2.X.Type()), "text") && c.sameVar(fa2.X, fa.X) {
						guarded = true
					}
				}
			}
			if guarded {
				r.ok(rule, key, c.at(in), desc, "under text.clauses == nil", true)
			} else {
				r.bad(rule, key, c.at(in), desc, "the table is replaced by an empty one unconditionally: a nested load of the same text (include/1) drops every clause and declaration collected before it")
			}
		})
	}
	if n == 0 {
		r.info(rule, "scan/stores", "-", desc, "no store of a fresh map into text.clauses outside a constructor")
	}
}

// ---------------------------------------------------------------------------
// R-MERGE-BLOCK (C10; added after seed C10g): one clause term with a top-level disjunction compiles into several
// stored clauses, and "calling the predicate behaves exactly as that term prescribes" only while these stay in
// their order. The merge callbacks of asserta/1 and assertz/1 (the closures handed to assertMerge) therefore place
// the new clauses as a block: inside a loop of such a callback nothing is written to a FIXED slot of a slice and
// nothing is shifted with copy - pushing the new clauses to the front one at a time reverses them
// (asserta((p(X) :- X = 1 ; X = 2)) answers 2 first, and a cut in the first alternative no longer guards the second).
func ruleMergeBlock(c *Ctx, r *Report) {
	const rule = "R-MERGE-BLOCK"
	desc := "the clauses compiled from one asserted term are placed as a block, in their order"
	am := c.fn("assertMerge")
	if am == nil {
		r.undecided(rule, "anchor:assertMerge", "-", desc, "assertMerge not found")
		return
	}
	n := 0
	for _, cs := range c.callSitesOf(am) {
		for _, a := range cs.Common().Args {
			var cb *ssa.Function
			switch x := a.(type) {
			case *ssa.MakeClosure:
				cb, _ = x.Fn.(*ssa.Function)
			case *ssa.Function:
				cb = x
			}
			if cb == nil || cb.Signature.Results().Len() != 1 {
				continue
			}
			n++
			key := fname(cb) + "/placement"
			inLoop := func(b *ssa.BasicBlock) bool {
				for _, s := range b.Succs {
					if s == b || reachableFromAvoiding(s, b, func(*ssa.BasicBlock, int, ssa.Value) bool { return false }) {
						return true
					}
				}
				return false
			}
			var bad ssa.Instruction
			why := ""
			for _, g := range withAnon(cb) {
				eachInstr(g, func(in ssa.Instruction) {
					if !inLoop(in.Block()) {
						return
					}
					switch x := in.(type) {
					case *ssa.Store:
						if ia, ok := x.Addr.(*ssa.IndexAddr); ok {
							if _, isLit := ia.X.(*ssa.Alloc); isLit {
								return // the array behind a slice literal or a variadic argument list
							}
							if _, isConst := ia.Index.(*ssa.Const); isConst {
								bad, why = in, "every round of the loop writes the same slot of the slice"
							}
						}
					case *ssa.Call:
						if b, ok := x.Call.Value.(*ssa.Builtin); ok && b.Name() == "copy" {
							bad, why = in, "every round of the loop shifts the slice with copy"
						}
						if b, ok := x.Call.Value.(*ssa.Builtin); ok && b.Name() == "append" && len(x.Call.Args) == 2 {
							// append(one, acc...) in a loop: what was collected so far goes BEHIND the new element
							tail := x.Call.Args[1]
							if _, isPhi := tail.(*ssa.Phi); isPhi {
								bad, why = in, "every round of the loop appends what was collected so far behind the next element"
							} else if u, isLoad := tail.(*ssa.UnOp); isLoad && u.Op == token.MUL {
								if cell := c.varCell(u.X); cell != nil {
									for _, st := range c.storesTo(cell) {
										if st.Val == ssa.Value(x) {
											bad, why = in, "every round of the loop appends what was collected so far behind the next element"
										}
									}
								}
							}
						}
					}
				})
			}
			if bad == nil {
				r.ok(rule, key, c.Pos(cb.Pos()), desc, "no loop of the callback writes a fixed slot or shifts the slice", true)
			} else {
				r.bad(rule, key, c.at(bad), desc, why+": the new clauses are pushed in one at a time and end up in reverse order")
			}
		}
	}
	if n == 0 {
		r.undecided(rule, "scan/merge-callbacks", "-", desc, "no merge callback passed to assertMerge")
	}
	r.analysed(rule, fmt.Sprintf("%d merge callbacks of assertMerge", n))
}

// ---------------------------------------------------------------------------
// R-RAW-RENAMED (C10, C09; added with fix F58): "clause/2 and retract/1 see a variant of exactly that term" -
// a variant, never the stored term itself: unifying with the stored term binds ITS variables in the caller's
// environment, and whatever else refers to that term (the sibling alternatives of a clause with a top-level
// disjunction share it) is seen instantiated. Outside the compiler, every read of a clause's source-term field
// flows only into the copier (renamedCopy) or into the identity function (id, used to recognise one and the same
// clause); nothing else - no unification, no rulify, no continuation - receives it.
func ruleRawRenamed(c *Ctx, r *Report) {
	const rule = "R-RAW-RENAMED"
	desc := "the stored source term of a clause leaves the database only as a renamed copy"
	copier, idf := c.fn("renamedCopy"), c.fn("id")
	if copier == nil || idf == nil {
		r.undecided(rule, "anchor:renamedCopy/id", "-", desc, "not found")
		return
	}
	n := 0
	for _, fn := range c.LibFuncs() {
		if funcPkg(fn) != c.Engine {
			continue
		}
		k := 0
		eachInstr(fn, func(in ssa.Instruction) {
			var v ssa.Value
			switch x := in.(type) {
			case *ssa.UnOp:
				if fa, ok := x.X.(*ssa.FieldAddr); ok && x.Op == token.MUL && isEngNamed(fa.X.Type(), "clause") && fieldName(fa) == "raw" {
					v = x
				}
			case *ssa.Field:
				if isEngNamed(x.X.Type(), "clause") {
					if st, ok := x.X.Type().Underlying().(*types.Struct); ok && st.Field(x.Field).Name() == "raw" {
						v = x
					}
				}
			}
			if v == nil {
				return
			}
			n++
			k++
			key := fmt.Sprintf("%s/clause.raw#%d", fname(fn), k)
			bad := ""
			var visit func(v ssa.Value, depth int)
			seen := map[ssa.Value]bool{}
			visit = func(v ssa.Value, depth int) {
				if seen[v] || depth > 8 || bad != "" {
					return
				}
				seen[v] = true
				for _, ref := range *v.Referrers() {
					switch x := ref.(type) {
					case *ssa.DebugRef:
					case *ssa.Phi:
						visit(x, depth+1)
					case *ssa.ChangeInterface, *ssa.MakeInterface, *ssa.ChangeType:
						visit(x.(ssa.Value), depth+1)
					case *ssa.Store:
						// a local (or captured) variable: follow its loads
						if cell := c.varCell(x.Addr); cell != nil && x.Val == v {
							for _, fn2 := range withAnon(topFunc(fn)) {
								eachInstr(fn2, func(i2 ssa.Instruction) {
									if ld, ok := i2.(*ssa.UnOp); ok && ld.Op == token.MUL && c.varCell(ld.X) == cell {
										visit(ld, depth+1)
									}
								})
							}
						} else {
							bad = "stored to " + valName(x.Addr)
						}
					case ssa.CallInstruction:
						callee := x.Common().StaticCallee()
						if callee == copier || callee == idf {
							continue
						}
						bad = "passed to " + calleeName(x.Common())
					case *ssa.MakeClosure:
						// captured by value: follow the free variable inside the closure
						if cl, ok := x.Fn.(*ssa.Function); ok {
							for i, b := range x.Bindings {
								if b == v && i < len(cl.FreeVars) {
									visit(cl.FreeVars[i], depth+1)
								}
							}
						}
					default:
						bad = fmt.Sprintf("used by %T", ref)
					}
				}
			}
			visit(v, 0)
			if bad == "" {
				r.ok(rule, key, c.at(in), desc, "flows only into renamedCopy / id", true)
			} else {
				r.bad(rule, key, c.at(in), desc, "the stored term is "+bad+" without being copied: a unification binds the variables of the stored term itself (retract((d(1) :- B)) instantiates what clause/2 then shows for the sibling alternative)")
			}
		})
	}
	if n == 0 {
		r.undecided(rule, "scan/clause.raw", "-", desc, "no read of clause.raw found")
	}
	r.analysed(rule, fmt.Sprintf("%d reads of clause.raw", n))
}

// ---------------------------------------------------------------------------
// R-PROC-IN-PLACE (C09; added after seed C09i): an open retract/1 (and an open call) holds the procedure RECORD it
// found when it was called; "further matches of the call-time snapshot on backtracking" are removed from that
// record's clause list. An assert in between therefore updates the record in place. In the functions the assert
// built-ins reach, a value stored into VM.procedures is the record that was looked up there, or a new record that
// is created only where the lookup found nothing. Installing a copy of an existing record leaves every open
// retract/1 with a stale one: it goes on "removing" clauses that stay in the database.
func ruleProcInPlace(c *Ctx, r *Report) {
	const rule = "R-PROC-IN-PLACE"
	desc := "an assert updates the procedure record in place; a new record is made only for a procedure that does not exist"
	var roots []*ssa.Function
	for _, nm := range []string{"asserta", "assertz"} {
		if fn := c.registeredFn(nm, 1); fn != nil {
			roots = append(roots, fn)
		}
	}
	if len(roots) == 0 {
		r.undecided(rule, "anchor:asserta/assertz", "-", desc, "not registered")
		return
	}
	seen := map[*ssa.Function]bool{}
	var fns []*ssa.Function
	var visit func(fn *ssa.Function, depth int)
	visit = func(fn *ssa.Function, depth int) {
		if fn == nil || seen[fn] || depth > 3 || !c.isLibPkg(funcPkg(fn)) {
			return
		}
		seen[fn] = true
		fns = append(fns, fn)
		for _, g := range withAnon(fn) {
			eachInstr(g, func(in ssa.Instruction) {
				if ci, ok := in.(ssa.CallInstruction); ok {
					visit(ci.Common().StaticCallee(), depth+1)
				}
			})
		}
	}
	for _, rt := range roots {
		visit(rt, 0)
	}
	n := 0
	for _, fn := range fns {
		eachInstr(fn, func(in ssa.Instruction) {
			mu, ok := in.(*ssa.MapUpdate)
			if !ok {
				return
			}
			if _, ok := loadsField(mu.Map, "VM", "procedures"); !ok {
				return
			}
			n++
			key := fmt.Sprintf("%s/procedures[]=#%d", fname(fn), n)
			bad := ""
			for _, l := range c.originSet(mu.Value) {
				if e, ok := l.(*ssa.Extract); ok {
					l = e.Tuple
				}
				switch x := l.(type) {
				case *ssa.Lookup:
					// the record found in the map
				case *ssa.Alloc:
					absent := false
					for f := range c.factsAt(x.Block()) {
						if e, ok := f.cond.(*ssa.Extract); ok && e.Index == 1 && !f.pol {
							if lk, ok := e.Tuple.(*ssa.Lookup); ok {
								if _, ok := loadsField(lk.X, "VM", "procedures"); ok {
									absent = true
								}
							}
						}
					}
					if !absent {
						bad = "a record allocated at " + c.at(x) + " where the procedure is not known to be absent"
					}
				case *ssa.Parameter:
				default:
					bad = "a value of " + valName(l)
				}
			}
			if bad == "" {
				r.ok(rule, key, c.at(in), desc, "the record that was looked up, or a new one made where the lookup found nothing", true)
			} else {
				r.bad(rule, key, c.at(in), desc, "what is installed is "+bad+": an open retract/1 keeps the old record and removes its further matches from a list the database no longer uses (the clauses stay and can be retracted again)")
			}
		})
	}
	if n == 0 {
		r.undecided(rule, "scan/procedures-writes", "-", desc, "the assert built-ins reach no store into VM.procedures")
	}
	r.analysed(rule, fmt.Sprintf("%d functions reached from asserta/assertz, %d stores into VM.procedures", len(fns), n))
}
