package main

import (
	"fmt"
	"go/constant"
	"go/token"
	"go/types"
	"math"
	"regexp"
	"sort"
	"strings"

	"golang.org/x/tools/go/ssa"
)

// ---------------------------------------------------------------------------
// registration table: Prolog name/arity -> Go function, read from the Register calls in New.

type regEntry struct {
	Name  string
	Arity int
	Fn    *ssa.Function
	Site  ssa.Instruction
}

func (c *Ctx) registered() []regEntry {
	var out []regEntry
	newAtom := c.fn("NewAtom")
	for _, fn := range c.LibFuncs() {
		if funcPkg(fn) != c.Root {
			continue
		}
		eachInstr(fn, func(in ssa.Instruction) {
			call, ok := in.(*ssa.Call)
			if !ok {
				return
			}
			callee := call.Call.StaticCallee()
			if callee == nil || !strings.HasPrefix(callee.Name(), "Register") || len(call.Call.Args) != 3 {
				return
			}
			ar := -1
			fmt.Sscanf(callee.Name(), "Register%d", &ar)
			if ar < 0 {
				return
			}
			nameCall, ok := call.Call.Args[1].(*ssa.Call)
			if !ok || nameCall.Call.StaticCallee() != newAtom || len(nameCall.Call.Args) != 1 {
				return
			}
			k, ok := nameCall.Call.Args[0].(*ssa.Const)
			if !ok || k.Value == nil || k.Value.Kind() != constant.String {
				return
			}
			var target *ssa.Function
			v := call.Call.Args[2]
			for target == nil {
				switch x := v.(type) {
				case *ssa.ChangeType:
					v = x.X
				case *ssa.Function:
					target = x
				case *ssa.MakeClosure:
					target = x.Fn.(*ssa.Function)
				default:
					return
				}
			}
			out = append(out, regEntry{constant.StringVal(k.Value), ar, target, in})
		})
	}
	sort.Slice(out, func(i, j int) bool {
		if out[i].Name != out[j].Name {
			return out[i].Name < out[j].Name
		}
		return out[i].Arity < out[j].Arity
	})
	return out
}

func (c *Ctx) registeredFn(name string, arity int) *ssa.Function {
	for _, e := range c.registered() {
		if e.Name == name && e.Arity == arity {
			return e.Fn
		}
	}
	return nil
}

// ---------------------------------------------------------------------------
// the integer primitives of the evaluation layer: functions whose parameters are all
// engine.Integer and whose first result is engine.Integer.

func (c *Ctx) integerPrims() []*ssa.Function {
	var out []*ssa.Function
	for _, fn := range c.LibFuncs() {
		if fn.Parent() != nil || funcPkg(fn) != c.Engine {
			continue
		}
		sig := fn.Signature
		if sig.Recv() != nil || sig.Params().Len() == 0 || sig.Results().Len() == 0 {
			continue
		}
		all := true
		for i := 0; i < sig.Params().Len(); i++ {
			if !isEngNamed(sig.Params().At(i).Type(), "Integer") || isPtr(sig.Params().At(i).Type()) {
				all = false
			}
		}
		if !all || !isEngNamed(sig.Results().At(0).Type(), "Integer") {
			continue
		}
		out = append(out, fn)
	}
	return out
}

func isPtr(t types.Type) bool {
	_, ok := t.Underlying().(*types.Pointer)
	return ok
}

// dataSlice visits the backward data-dependence slice of v inside its function:
// through phi, arithmetic, conversions, calls (result depends on every argument).
func dataSlice(v ssa.Value, visit func(ssa.Value) bool) {
	seen := map[ssa.Value]bool{}
	var walk func(ssa.Value)
	walk = func(v ssa.Value) {
		if v == nil || seen[v] {
			return
		}
		seen[v] = true
		if !visit(v) {
			return
		}
		switch x := v.(type) {
		case *ssa.Phi:
			for _, e := range x.Edges {
				walk(e)
			}
		case *ssa.BinOp:
			walk(x.X)
			walk(x.Y)
		case *ssa.UnOp:
			walk(x.X)
		case *ssa.Convert:
			walk(x.X)
		case *ssa.ChangeType:
			walk(x.X)
		case *ssa.MakeInterface:
			walk(x.X)
		case *ssa.Extract:
			walk(x.Tuple)
		case *ssa.Call:
			for _, a := range x.Call.Args {
				walk(a)
			}
		}
	}
	walk(v)
}

// R-INT-EXACT: an integer primitive's result is not data-dependent on an Integer -> float conversion.
func ruleIntExact(c *Ctx, r *Report) {
	const rule = "R-INT-EXACT"
	prims := c.integerPrims()
	var names []string
	for _, fn := range prims {
		names = append(names, fn.Name())
		var offending *ssa.Convert
		nret := 0
		eachInstr(fn, func(in ssa.Instruction) {
			ret, ok := in.(*ssa.Return)
			if !ok || len(ret.Results) == 0 {
				return
			}
			nret++
			dataSlice(ret.Results[0], func(v ssa.Value) bool {
				if cv, ok := v.(*ssa.Convert); ok && isFloatType(cv.Type()) && isIntegerType(cv.X.Type()) {
					if offending == nil {
						offending = cv
					}
				}
				return true
			})
		})
		key := fname(fn) + "/result"
		desc := "integer evaluable computes its result in integer arithmetic (no 53-bit float bottleneck)"
		if offending != nil {
			r.bad(rule, key, c.at(offending), desc,
				fmt.Sprintf("the returned Integer depends on %s(%s): values above 2^53 are rounded, the result is wrong although no error is raised", typeName(offending.Type()), valName(offending.X)))
		} else {
			r.ok(rule, key, c.Pos(fn.Pos()), desc, fmt.Sprintf("data slice of %d return(s) contains no integer->float conversion", nret), true)
		}
	}
	r.analysed(rule, "integer primitives: "+strings.Join(names, " "))
}

// ---------------------------------------------------------------------------
// R-OVERFLOW-GUARD

// isExceptionalConst reports whether v is the error value exceptionalValue(k) for the constant named name.
func (c *Ctx) isExceptional(v ssa.Value, name string) bool {
	mi, ok := v.(*ssa.MakeInterface)
	if !ok {
		return false
	}
	k, ok := mi.X.(*ssa.Const)
	if !ok || !isEngNamed(k.Type(), "exceptionalValue") || k.Value == nil {
		return false
	}
	obj, _ := c.Engine.Pkg.Scope().Lookup(name).(*types.Const)
	if obj == nil {
		return false
	}
	return constant.Compare(k.Value, token.EQL, obj.Val())
}

// returnsExceptional lists the blocks of fn that return the given exceptional value as error.
func (c *Ctx) returnsExceptional(fn *ssa.Function, name string) []*ssa.BasicBlock {
	var out []*ssa.BasicBlock
	for _, b := range blocksOf(fn) {
		ret, ok := b.Instrs[len(b.Instrs)-1].(*ssa.Return)
		if !ok {
			continue
		}
		for _, res := range ret.Results {
			if c.isExceptional(res, name) {
				out = append(out, b)
			}
		}
	}
	return out
}

func ruleOverflowGuard(c *Ctx, r *Report) {
	const rule = "R-OVERFLOW-GUARD"
	var names []string
	primSet := map[*ssa.Function]bool{}
	for _, fn := range c.integerPrims() {
		primSet[fn] = true
	}
	for _, fn := range c.integerPrims() {
		names = append(names, fn.Name())
		ovf := c.returnsExceptional(fn, "exceptionalValueIntOverflow")
		fromParam := func(v ssa.Value) bool {
			v = stripConv(v)
			_, ok := v.(*ssa.Parameter)
			return ok
		}
		eachInstr(fn, func(in ssa.Instruction) {
			var operands []ssa.Value
			var opname string
			var val ssa.Value
			switch x := in.(type) {
			case *ssa.BinOp:
				if x.Op != token.ADD && x.Op != token.SUB && x.Op != token.MUL {
					return
				}
				if !isEngNamed(x.Type(), "Integer") {
					return
				}
				operands, opname, val = []ssa.Value{x.X, x.Y}, x.Op.String(), x
			case *ssa.UnOp:
				if x.Op != token.SUB || !isEngNamed(x.Type(), "Integer") {
					return
				}
				operands, opname, val = []ssa.Value{x.X}, "neg", x
			default:
				return
			}
			key := fmt.Sprintf("%s/%s(%s)", fname(fn), opname, joinVals(operands))
			desc := "full-range integer operation is paired with a branch to evaluation_error(int_overflow)"
			full := true
			for _, o := range operands {
				if _, isK := o.(*ssa.Const); isK {
					continue
				}
				if !fromParam(o) {
					full = false
				}
			}
			if !full {
				// (after seed C07h) ... unless the wrapping result is handed to another checked primitive while one
				// operand is a full-range parameter: the callee's checks speak about a value that may already have
				// wrapped (x - (x mod y) handed to the checked division).
				hasParam := false
				for _, o := range operands {
					if fromParam(o) {
						hasParam = true
					}
				}
				if hasParam {
					var sink *ssa.Call
					seen := map[ssa.Value]bool{}
					var follow func(v ssa.Value)
					follow = func(v ssa.Value) {
						if seen[v] || v.Referrers() == nil {
							return
						}
						seen[v] = true
						for _, ref := range *v.Referrers() {
							switch x := ref.(type) {
							case *ssa.Phi:
								follow(x)
							case *ssa.ChangeType:
								follow(x)
							case *ssa.Call:
								if callee := x.Call.StaticCallee(); callee != nil && primSet[callee] {
									sink = x
								}
							}
						}
					}
					follow(val)
					if sink != nil {
						r.bad(rule, key, c.at(in), desc, "the unchecked result (one operand is the full-range parameter) is handed to "+sink.Call.StaticCallee().Name()+": that primitive's overflow and zero checks are made on a value that may already have wrapped around")
						return
					}
				}
				r.info(rule, key, c.at(in), desc, "an operand is a derived value (restricted range): absence of overflow needs value reasoning, not decided here")
				return
			}
			// pre-check: an If whose condition depends on an operand, one side reaching an overflow return,
			// lying on every path to the operation; or post-check: a condition depending on the result.
			blk := in.Block()
			guarded := false
			how := ""
			for _, d := range blocksOf(fn) {
				cond := ifCond(d)
				if cond == nil {
					continue
				}
				depOperand, depResult := false, false
				dataSlice(cond, func(v ssa.Value) bool {
					for _, o := range operands {
						if stripConv(v) == stripConv(o) {
							depOperand = true
						}
					}
					if v == val {
						depResult = true
					}
					return true
				})
				leadsToOvf := false
				for _, ob := range ovf {
					for _, s := range d.Succs {
						if s == ob || (s.Dominates(ob) && len(s.Preds) == 1) {
							leadsToOvf = true
						}
					}
				}
				if !leadsToOvf {
					continue
				}
				if depResult && blk.Dominates(d) {
					guarded, how = true, "result is tested by "+c.Pos(c.instrPos(d.Instrs[len(d.Instrs)-1]))+" which branches to int_overflow"
					break
				}
				if depOperand && d.Dominates(blk) && d != blk {
					guarded, how = true, "operand is tested at "+c.Pos(c.instrPos(d.Instrs[len(d.Instrs)-1]))+" which branches to int_overflow before the operation"
					break
				}
			}
			// a full-range product cannot be cleared by comparing the operands with constants: every return that
			// carries it must be dominated by a test of the product itself or of a quotient of the operands
			if guarded && opname == "*" {
				strong := false
				for _, d := range blocksOf(fn) {
					cond := ifCond(d)
					if cond == nil {
						continue
					}
					depRes, depQuo := false, false
					dataSlice(cond, func(v ssa.Value) bool {
						if v == val {
							depRes = true
						}
						if q, ok := v.(*ssa.BinOp); ok && (q.Op == token.QUO || q.Op == token.REM) {
							depQuo = true
						}
						return true
					})
					if !depRes && !depQuo {
						continue
					}
					leads := false
					for _, ob := range ovf {
						for _, s := range d.Succs {
							if s == ob || (s.Dominates(ob) && len(s.Preds) == 1) {
								leads = true
							}
						}
					}
					if !leads {
						continue
					}
					// every return carrying this product is dominated by d
					all := true
					eachInstr(fn, func(in2 ssa.Instruction) {
						ret, ok := in2.(*ssa.Return)
						if !ok || len(ret.Results) == 0 {
							return
						}
						carries := false
						for _, l := range c.originSet(ret.Results[0]) {
							if l == val {
								carries = true
							}
						}
						if carries && !(d.Dominates(ret.Block()) && d != ret.Block()) {
							all = false
						}
					})
					if all {
						strong = true
					}
				}
				if !strong {
					guarded = false
				}
			}
			if guarded {
				r.ok(rule, key, c.at(in), desc, how, true)
			} else {
				r.bad(rule, key, c.at(in), desc, "no branch to int_overflow is controlled by the operands or the result: the operation wraps silently for extreme operands")
			}
		})
	}
	r.analysed(rule, "integer primitives: "+strings.Join(names, " "))
}

func joinVals(vs []ssa.Value) string {
	var s []string
	for _, v := range vs {
		s = append(s, valName(v))
	}
	return strings.Join(s, ",")
}

// ---------------------------------------------------------------------------
// R-FTOI-RANGE

// constFloat folds v to a float64 constant: literals, conversions of constants, loads of package
// variables whose only store is a constant initialiser, negation.
func (c *Ctx) constFloat(v ssa.Value) (float64, bool) {
	switch x := v.(type) {
	case *ssa.Const:
		if x.Value == nil {
			return 0, false
		}
		switch x.Value.Kind() {
		case constant.Int, constant.Float:
			f, _ := constant.Float64Val(constant.ToFloat(x.Value))
			if isIntegerType(x.Type()) {
				// integer constant: exact value as float64 (rounded like a Go conversion)
				if i, ok := constant.Int64Val(x.Value); ok {
					return float64(i), true
				}
			}
			return f, true
		}
	case *ssa.Convert:
		f, ok := c.constFloat(x.X)
		if !ok {
			return 0, false
		}
		if isIntegerType(x.Type()) {
			return math.Trunc(f), true
		}
		return f, true
	case *ssa.ChangeType:
		return c.constFloat(x.X)
	case *ssa.UnOp:
		switch x.Op {
		case token.SUB:
			f, ok := c.constFloat(x.X)
			return -f, ok
		case token.MUL:
			if g, ok := x.X.(*ssa.Global); ok {
				if k := c.globalConstInit(g); k != nil {
					return c.constFloat(k)
				}
			}
		}
	}
	return 0, false
}

// globalConstInit returns the constant stored into g by the package initialiser when that is the
// only store to g in the whole program.
func (c *Ctx) globalConstInit(g *ssa.Global) *ssa.Const {
	var k *ssa.Const
	n := 0
	for _, r := range c.globalRefs(g) {
		switch in := r.(type) {
		case *ssa.Store:
			if in.Addr == g {
				n++
				if kk, ok := in.Val.(*ssa.Const); ok && strings.HasPrefix(in.Parent().Name(), "init") {
					k = kk
				}
			}
		case *ssa.UnOp:
			// load
		default:
			return nil // address escapes
		}
	}
	if n != 1 {
		return nil
	}
	return k
}

// globalRefs: all instructions in library functions that use global g as operand.
func (c *Ctx) globalRefs(g *ssa.Global) []ssa.Instruction {
	var out []ssa.Instruction
	for _, fn := range c.allFuncsWithInit() {
		eachInstr(fn, func(in ssa.Instruction) {
			for _, op := range in.Operands(nil) {
				if op != nil && *op == g {
					out = append(out, in)
					return
				}
			}
		})
	}
	return out
}

func (c *Ctx) allFuncsWithInit() []*ssa.Function {
	return c.LibFuncs()
}

func ruleFtoIRange(c *Ctx, r *Report) {
	const rule = "R-FTOI-RANGE"
	n := 0
	for _, fn := range c.LibFuncs() {
		eachInstr(fn, func(in ssa.Instruction) {
			cv, ok := in.(*ssa.Convert)
			if !ok || !isFloatType(cv.X.Type()) || !isIntegerType(cv.Type()) {
				return
			}
			if _, isK := cv.X.(*ssa.Const); isK {
				return
			}
			n++
			bits := c.Sizes.Sizeof(cv.Type()) * 8
			key := fmt.Sprintf("%s/%s(%s)", fname(fn), typeName(cv.Type()), valName(cv.X))
			desc := fmt.Sprintf("float -> %d-bit integer conversion happens only for values inside [-2^%d, 2^%d)", bits, bits-1, bits-1)
			lo, hi := math.Inf(-1), math.Inf(1)
			loIncl, hiIncl := true, true
			for f := range c.factsAt(cv.Block()) {
				bo, ok := f.cond.(*ssa.BinOp)
				if !ok {
					continue
				}
				op := bo.Op
				var k float64
				var isK bool
				switch {
				case c.sameVar(bo.X, cv.X):
					k, isK = c.constFloat(bo.Y)
				case c.sameVar(bo.Y, cv.X):
					k, isK = c.constFloat(bo.X)
					op = flipOp(op)
				}
				if !isK {
					continue
				}
				if !f.pol {
					op = negateOp(op)
				}
				switch op {
				case token.LSS:
					if k < hi || (k == hi && hiIncl) {
						hi, hiIncl = k, false
					}
				case token.LEQ:
					if k < hi {
						hi, hiIncl = k, true
					}
				case token.GTR:
					if k > lo || (k == lo && loIncl) {
						lo, loIncl = k, false
					}
				case token.GEQ:
					if k > lo {
						lo, loIncl = k, true
					}
				}
			}
			limit := math.Ldexp(1, int(bits-1))
			okHi := hi < limit || (hi == limit && !hiIncl)
			okLo := lo > -limit || (lo == -limit) // -2^(bits-1) itself is representable
			if okHi && okLo {
				r.ok(rule, key, c.at(cv), desc, fmt.Sprintf("branch facts bound the operand to %s%g, %g%s", brk(loIncl, true), lo, hi, brk(hiIncl, false)), true)
				return
			}
			why := fmt.Sprintf("surviving interval %s%g, %g%s is not inside the integer range", brk(loIncl, true), lo, hi, brk(hiIncl, false))
			if hi == limit && hiIncl {
				why += fmt.Sprintf(": the upper guard compares with float64(maxInt), which is 2^%d, so 2^%d itself passes and the conversion wraps", bits-1, bits-1)
			}
			r.bad(rule, key, c.at(cv), desc, why)
		})
	}
	r.analysed(rule, fmt.Sprintf("%d float->integer conversions in %d library functions", n, len(c.LibFuncs())))
}

func brk(incl, left bool) string {
	switch {
	case incl && left:
		return "["
	case !incl && left:
		return "("
	case incl:
		return "]"
	}
	return ")"
}

// ---------------------------------------------------------------------------
// R-DISPATCH-FAMILY: symbolic evaluation of the tiny comparison / mixed-mode helpers.

type sym struct {
	kind string // param | conv | rel | call | const | unknown
	idx  int    // param index
	op   token.Token
	args []*sym
	fn   *ssa.Function
}

func (s *sym) String() string {
	switch s.kind {
	case "param":
		return fmt.Sprintf("p%d", s.idx)
	case "conv":
		return "float(" + s.args[0].String() + ")"
	case "rel":
		return "(" + s.args[0].String() + " " + s.op.String() + " " + s.args[1].String() + ")"
	case "call":
		var a []string
		for _, x := range s.args {
			a = append(a, x.String())
		}
		return s.fn.Name() + "(" + strings.Join(a, ", ") + ")"
	case "const":
		return "const"
	}
	return "?"
}

// symEval evaluates value v of a straight-line helper in terms of the helper's parameters,
// inlining static calls to other straight-line library helpers (depth-bounded).
func (c *Ctx) symEval(v ssa.Value, env map[ssa.Value]*sym, depth int) *sym {
	if s, ok := env[v]; ok {
		return s
	}
	switch x := v.(type) {
	case *ssa.Const:
		return &sym{kind: "const"}
	case *ssa.ChangeType:
		return c.symEval(x.X, env, depth)
	case *ssa.Convert:
		in := c.symEval(x.X, env, depth)
		if isFloatType(x.Type()) && isIntegerType(x.X.Type()) {
			return &sym{kind: "conv", args: []*sym{in}}
		}
		return in
	case *ssa.BinOp:
		switch x.Op {
		case token.EQL, token.NEQ, token.LSS, token.LEQ, token.GTR, token.GEQ:
			return &sym{kind: "rel", op: x.Op, args: []*sym{c.symEval(x.X, env, depth), c.symEval(x.Y, env, depth)}}
		}
	case *ssa.Extract:
		if call, ok := x.Tuple.(*ssa.Call); ok && x.Index == 0 {
			return c.symEval(call, env, depth)
		}
	case *ssa.Call:
		callee := x.Call.StaticCallee()
		if callee == nil {
			return &sym{kind: "unknown"}
		}
		var args []*sym
		for _, a := range x.Call.Args {
			args = append(args, c.symEval(a, env, depth))
		}
		// inline single-result, straight-line library helpers (comparison chains, floatItoF); primitives
		// returning (value, error) stay symbolic calls.
		if depth > 0 && c.isLibPkg(funcPkg(callee)) && len(blocksOf(callee)) == 1 && callee.Signature.Results().Len() == 1 {
			ret, ok := callee.Blocks[0].Instrs[len(callee.Blocks[0].Instrs)-1].(*ssa.Return)
			if ok && len(ret.Results) == 1 {
				env2 := map[ssa.Value]*sym{}
				for i, p := range callee.Params {
					env2[p] = args[i]
				}
				return c.symEval(ret.Results[0], env2, depth-1)
			}
		}
		return &sym{kind: "call", fn: callee, args: args}
	}
	return &sym{kind: "unknown"}
}

func (c *Ctx) helperSym(fn *ssa.Function) *sym {
	if len(blocksOf(fn)) != 1 {
		return &sym{kind: "unknown"}
	}
	ret, ok := fn.Blocks[0].Instrs[len(fn.Blocks[0].Instrs)-1].(*ssa.Return)
	if !ok || len(ret.Results) == 0 {
		return &sym{kind: "unknown"}
	}
	env := map[ssa.Value]*sym{}
	for i, p := range fn.Params {
		env[p] = &sym{kind: "param", idx: i}
	}
	return c.symEval(ret.Results[0], env, 4)
}

// canonicalRel reduces a relation over (p0|float(p0)) and (p1|float(p1)) to the operator OP such that
// the helper computes  p0 OP p1  numerically; ok=false if the expression is not of that form.
func canonicalRel(s *sym) (token.Token, bool) {
	if s.kind != "rel" {
		return token.ILLEGAL, false
	}
	base := func(x *sym) int {
		if x.kind == "conv" {
			x = x.args[0]
		}
		if x.kind == "param" {
			return x.idx
		}
		return -1
	}
	a, b := base(s.args[0]), base(s.args[1])
	switch {
	case a == 0 && b == 1:
		return s.op, true
	case a == 1 && b == 0:
		return flipOp(s.op), true
	}
	return token.ILLEGAL, false
}

var isoCompareOps = map[string]token.Token{
	"=:=":  token.EQL,
	"=\\=": token.NEQ,
	"<":    token.LSS,
	"=<":   token.LEQ,
	">":    token.GTR,
	">=":   token.GEQ,
}

func kindOfNum(t types.Type) string {
	switch {
	case isEngNamed(t, "Integer"):
		return "I"
	case isEngNamed(t, "Float"):
		return "F"
	}
	return "?"
}

func ruleDispatchFamily(c *Ctx, r *Report) {
	const rule = "R-DISPATCH-FAMILY"
	// (1) arithmetic comparison predicates, located through their registered Prolog names.
	var names []string
	for n := range isoCompareOps {
		names = append(names, n)
	}
	sort.Strings(names)
	for _, name := range names {
		want := isoCompareOps[name]
		fn := c.registeredFn(name, 2)
		if fn == nil {
			r.undecided(rule, "registered/"+name, "-", "locate the Go function registered as "+name+"/2", "no Register2(NewAtom(\""+name+"\"), f) call found in the root package")
			continue
		}
		arms := map[string]*ssa.Call{}
		eachInstr(fn, func(in ssa.Instruction) {
			call, ok := in.(*ssa.Call)
			if !ok {
				return
			}
			callee := call.Call.StaticCallee()
			if callee == nil || callee.Signature.Params().Len() != 2 || callee.Signature.Results().Len() != 1 {
				return
			}
			if b, ok := callee.Signature.Results().At(0).Type().Underlying().(*types.Basic); !ok || b.Kind() != types.Bool {
				return
			}
			k := kindOfNum(callee.Signature.Params().At(0).Type()) + kindOfNum(callee.Signature.Params().At(1).Type())
			if strings.Contains(k, "?") {
				return
			}
			arms[k] = call
		})
		for _, k := range []string{"II", "IF", "FI", "FF"} {
			key := fmt.Sprintf("%s[%s]/%s", fname(fn), name, k)
			desc := fmt.Sprintf("arm (%s) of %s/2 computes  left %s right  numerically", k, name, want)
			call := arms[k]
			if call == nil {
				r.bad(rule, key, c.Pos(fn.Pos()), desc, "no helper call for this operand type combination: the predicate fails silently for it")
				continue
			}
			// the arm must pass (ev1, ev2) in order
			helper := call.Call.StaticCallee()
			s := c.helperSym(helper)
			op, ok := canonicalRel(s)
			if !ok {
				r.undecided(rule, key, c.at(call), desc, "helper "+helper.Name()+" is not a single comparison of its two parameters: "+s.String())
				continue
			}
			if op != want {
				r.bad(rule, key, c.at(call), desc, fmt.Sprintf("helper %s evaluates to %s, i.e. left %s right", helper.Name(), s, op))
				continue
			}
			r.ok(rule, key, c.at(call), desc, fmt.Sprintf("%s = %s", helper.Name(), s), true)
		}
	}

	// (2) mixed-mode arithmetic: the (I,F)/(F,I)/(I,I→F) helpers delegate to the (F,F) primitive with the
	// operands converted and kept in order.
	bin := c.global("binaryFunctors")
	_ = bin
	for _, disp := range c.arithDispatchers() {
		arms := map[string]*ssa.Call{}
		eachInstr(disp, func(in ssa.Instruction) {
			call, ok := in.(*ssa.Call)
			if !ok {
				return
			}
			callee := call.Call.StaticCallee()
			if callee == nil || callee.Signature.Params().Len() != 2 {
				return
			}
			k := kindOfNum(callee.Signature.Params().At(0).Type()) + kindOfNum(callee.Signature.Params().At(1).Type())
			if strings.Contains(k, "?") {
				return
			}
			arms[k] = call
		})
		ff := arms["FF"]
		if ff == nil || arms["IF"] == nil || arms["FI"] == nil {
			continue
		}
		prim := ff.Call.StaticCallee()
		for _, k := range []string{"IF", "FI", "II"} {
			call := arms[k]
			if call == nil {
				continue
			}
			helper := call.Call.StaticCallee()
			key := fmt.Sprintf("%s/%s", fname(disp), k)
			desc := fmt.Sprintf("mixed arm (%s) of %s delegates to the float primitive %s with operands converted, in order", k, disp.Name(), prim.Name())
			if kindOfNum(helper.Signature.Results().At(0).Type()) == "I" {
				continue // integer primitive, covered by R-INT-EXACT / R-OVERFLOW-GUARD
			}
			s := c.helperSym(helper)
			good := s.kind == "call" && c.sameOrDelegates(s.fn, prim) && len(s.args) == 2 && baseIdx(s.args[0]) == 0 && baseIdx(s.args[1]) == 1
			if good {
				r.ok(rule, key, c.at(call), desc, fmt.Sprintf("%s = %s", helper.Name(), s), true)
			} else {
				r.bad(rule, key, c.at(call), desc, fmt.Sprintf("%s evaluates to %s", helper.Name(), s))
			}
		}
	}
	r.analysed(rule, "comparison predicates "+strings.Join(names, " ")+"; arithmetic dispatchers with a 2x2 type switch")
}

func baseIdx(x *sym) int {
	if x.kind == "conv" {
		x = x.args[0]
	}
	if x.kind == "param" {
		return x.idx
	}
	return -1
}

// sameOrDelegates: f is prim, or f is a one-block helper whose result is prim(...) of its params in order.
func (c *Ctx) sameOrDelegates(f, prim *ssa.Function) bool {
	return f == prim
}

// arithDispatchers: functions stored in the binary functor table (func(Number, Number) (Number, error)).
func (c *Ctx) arithDispatchers() []*ssa.Function {
	var out []*ssa.Function
	seen := map[*ssa.Function]bool{}
	for _, fn := range c.LibFuncs() {
		if !strings.HasPrefix(fn.Name(), "init") || funcPkg(fn) != c.Engine {
			continue
		}
		eachInstr(fn, func(in ssa.Instruction) {
			mu, ok := in.(*ssa.MapUpdate)
			if !ok {
				return
			}
			v := mu.Value
			if ct, ok := v.(*ssa.ChangeType); ok {
				v = ct.X
			}
			f, ok := v.(*ssa.Function)
			if !ok || seen[f] || f.Signature.Params().Len() != 2 {
				return
			}
			if !isEngNamed(f.Signature.Params().At(0).Type(), "Number") {
				return
			}
			seen[f] = true
			out = append(out, f)
		})
	}
	sort.Slice(out, func(i, j int) bool { return out[i].Name() < out[j].Name() })
	return out
}

// ---------------------------------------------------------------------------
// R-INT-WRAP (added after seeds C08/C16): outside the checked primitives, Integer arithmetic on a
// user-controlled full-range value either has a constant partner and branch facts that keep the value away
// from the wrapping edge, or is listed with its reason.

var intWrapExempt = map[string]string{
	"engine.Length$/n-Resolve()": "both operands are non-negative (the length argument was domain-checked, skipped is a count of list cells)",
}

// userInteger: v is an Integer that comes straight from the user's term (a parameter of type Integer, or a
// type assertion / type switch on a resolved term), as opposed to a field, a counter or a computed value.
func (c *Ctx) userInteger(v ssa.Value) bool {
	resolve := c.method("Env", "Resolve")
	full := false
	for _, l := range c.originSet(v) {
		switch x := l.(type) {
		case *ssa.Parameter:
			if isEngNamed(x.Type(), "Integer") && !isPtr(x.Type()) {
				full = true
			}
			if types.IsInterface(x.Type()) {
				full = true // a Term/Number parameter narrowed by a type switch
			}
		case *ssa.Call:
			if x.Call.StaticCallee() == resolve && resolve != nil {
				full = true
			}
		}
	}
	return full
}

func ruleIntWrap(c *Ctx, r *Report) {
	const rule = "R-INT-WRAP"
	prims := map[*ssa.Function]bool{}
	for _, f := range c.integerPrims() {
		prims[f] = true
	}
	n := 0
	for _, fn := range c.LibFuncs() {
		if prims[fn] {
			continue
		}
		eachInstr(fn, func(in ssa.Instruction) {
			bo, ok := in.(*ssa.BinOp)
			if !ok || (bo.Op != token.ADD && bo.Op != token.SUB && bo.Op != token.MUL) || !isEngNamed(bo.Type(), "Integer") {
				return
			}
			// loop counters (phi incremented by a constant) are bounded by the data structure they count
			isCounter := func(v ssa.Value) bool {
				phi, ok := v.(*ssa.Phi)
				if !ok {
					return false
				}
				for _, e := range phi.Edges {
					if e == ssa.Value(bo) {
						return true
					}
				}
				return false
			}
			kx, xConst := constInt(bo.X)
			ky, yConst := constInt(bo.Y)
			ux, uy := !xConst && c.userInteger(bo.X) && !isCounter(bo.X), !yConst && c.userInteger(bo.Y) && !isCounter(bo.Y)
			if !ux && !uy {
				return
			}
			n++
			key := fmt.Sprintf("%s/%s%s%s", fname(fn), valName(bo.X), bo.Op, valName(bo.Y))
			desc := "Integer arithmetic on a user-supplied value outside the checked primitives cannot wrap"
			if why, ok := intWrapExempt[stripOrdinals(fmt.Sprintf("%s/%s%s%s", fname(fn), valName(bo.X), bo.Op, valName(bo.Y)))]; ok {
				r.ok(rule, key, c.at(bo), desc, "listed: "+why, true)
				return
			}
			switch {
			case ux && uy:
				r.bad(rule, key, c.at(bo), desc, "both operands are unconstrained user integers: the result wraps for operands far apart (e.g. max_integer and -1), silently changing sign")
			case bo.Op == token.MUL:
				r.bad(rule, key, c.at(bo), desc, "multiplication of a user integer outside mulI")
			default:
				v, k := bo.X, ky
				if uy {
					v, k = bo.Y, kx
				}
				up := (bo.Op == token.ADD) == (k > 0) // value moves up
				if uy && bo.Op == token.SUB {
					r.bad(rule, key, c.at(bo), desc, "constant minus a user integer")
					return
				}
				facts := c.factsWithCreation(bo.Block())
				rg := c.rangeFromFacts(facts, v)
				bounded := false
				// constant bounds, or any relational fact against another Integer (x < y implies x <= max-1)
				if up && rg.hasHi && rg.hi <= math.MaxInt64-abs64(k) {
					bounded = true
				}
				if !up && rg.hasLo && rg.lo >= math.MinInt64+abs64(k) {
					bounded = true
				}
				if !bounded && abs64(k) == 1 {
					// v <= y together with v != y (same y) is v < y
					var leq, geq, neq []ssa.Value
					for f := range facts {
						cmp, ok := f.cond.(*ssa.BinOp)
						if !ok {
							continue
						}
						op := cmp.Op
						var other ssa.Value
						switch {
						case c.sameVar(cmp.X, v):
							other = cmp.Y
						case c.sameVar(cmp.Y, v):
							other = cmp.X
							op = flipOp(op)
						default:
							continue
						}
						if !f.pol {
							op = negateOp(op)
						}
						switch op {
						case token.LEQ:
							leq = append(leq, other)
						case token.GEQ:
							geq = append(geq, other)
						case token.NEQ:
							neq = append(neq, other)
						}
					}
					for _, ne := range neq {
						for _, le := range leq {
							if up && c.sameVar(ne, le) {
								bounded = true
							}
						}
						for _, ge := range geq {
							if !up && c.sameVar(ne, ge) {
								bounded = true
							}
						}
					}
				}
				if !bounded && abs64(k) == 1 {
					for f := range facts {
						cmp, ok := f.cond.(*ssa.BinOp)
						if !ok {
							continue
						}
						op := cmp.Op
						var onLeft bool
						switch {
						case c.sameVar(cmp.X, v):
							onLeft = true
						case c.sameVar(cmp.Y, v):
							onLeft = false
							op = flipOp(op)
						default:
							continue
						}
						_ = onLeft
						if !f.pol {
							op = negateOp(op)
						}
						if up && op == token.LSS {
							bounded = true // v < something  =>  v+1 does not wrap
						}
						if !up && op == token.GTR {
							bounded = true
						}
					}
				}
				if bounded {
					r.ok(rule, key, c.at(bo), desc, "branch facts keep the operand away from the wrapping edge", true)
				} else {
					edge := "max_integer"
					if !up {
						edge = "min_integer"
					}
					r.bad(rule, key, c.at(bo), desc, "no dominating comparison bounds the operand: at "+edge+" the result wraps and the predicate continues with a value outside its relation")
				}
			}
		})
	}
	r.analysed(rule, fmt.Sprintf("%d arithmetic sites on user integers outside the primitives", n))
}

func abs64(k int64) int64 {
	if k < 0 {
		return -k
	}
	return k
}

// ---------------------------------------------------------------------------
// R-FLOAT-EXC (C07; added with fix F16): evaluation_error(float_overflow) is raised only when the IEEE
// result is infinite. At every return of the float_overflow value the branch facts contain
//   (a) a test of a computed value with math.IsInf (the repository's own idiom in power), or
//   (b) a pre-check by comparison in which no operand of the function has been moved across the
//       inequality by multiplication or division without its sign being known (a fact `p < 0`, `p > 0`, …
//       on that operand, or the operand wrapped in math.Abs): `x > Max/y` holds for every x when y is
//       negative, so a product with a negative right operand "overflows".
// A return of float_overflow under no numeric test at all is reported too.

func ruleFloatExc(c *Ctx, r *Report) {
	const rule = "R-FLOAT-EXC"
	desc := "float_overflow is raised only under a test of the result for infinity or a sign-aware pre-check"
	var ovf *types.Const
	if o := c.Engine.Pkg.Scope().Lookup("exceptionalValueFloatOverflow"); o != nil {
		ovf, _ = o.(*types.Const)
	}
	if ovf == nil {
		r.undecided(rule, "anchor:exceptionalValueFloatOverflow", "-", "locate the float_overflow value", "not found")
		return
	}
	isOvf := func(v ssa.Value) bool {
		for _, l := range c.originSet(v) {
			if k, ok := l.(*ssa.Const); ok && k.Value != nil && types.Identical(k.Type(), ovf.Type()) && constant.Compare(k.Value, token.EQL, ovf.Val()) {
				return true
			}
		}
		return false
	}
	stripNum := func(v ssa.Value) ssa.Value {
		for {
			switch x := v.(type) {
			case *ssa.Convert:
				v = x.X
			case *ssa.ChangeType:
				v = x.X
			default:
				return v
			}
		}
	}
	isZero := func(v ssa.Value) bool {
		k, ok := v.(*ssa.Const)
		return ok && k.Value != nil && (k.Value.Kind() == constant.Int || k.Value.Kind() == constant.Float) && constant.Sign(k.Value) == 0
	}
	n := 0
	for _, fn := range c.LibFuncs() {
		if funcPkg(fn) != c.Engine {
			continue
		}
		seen := 0
		eachInstr(fn, func(in ssa.Instruction) {
			ret, ok := in.(*ssa.Return)
			if !ok || len(ret.Results) == 0 {
				return
			}
			last := ret.Results[len(ret.Results)-1]
			if !isErrorType(last.Type()) || !isOvf(last) {
				return
			}
			// a return that merely forwards a callee's error is not a raise site
			if _, isConstPath := stripConvIface(last).(*ssa.Const); !isConstPath {
				if _, isPhi := last.(*ssa.Phi); !isPhi {
					return
				}
			}
			n++
			seen++
			key := fmt.Sprintf("%s/float_overflow#%d", fname(fn), seen)
			facts := c.factsAt(in.Block())
			hasIsInf, hasCmp := false, false
			var unsigned ssa.Value
			signKnown := func(p ssa.Value) bool {
				for f := range facts {
					bo, ok := f.cond.(*ssa.BinOp)
					if !ok {
						continue
					}
					switch bo.Op {
					case token.LSS, token.GTR, token.LEQ, token.GEQ:
						if (stripNum(bo.X) == p && isZero(bo.Y)) || (stripNum(bo.Y) == p && isZero(bo.X)) {
							return true
						}
					}
				}
				return false
			}
			var scan func(v ssa.Value, depth int)
			scan = func(v ssa.Value, depth int) {
				v = stripNum(v)
				bo, ok := v.(*ssa.BinOp)
				if !ok || depth > 4 {
					return
				}
				if bo.Op == token.MUL || bo.Op == token.QUO {
					for _, side := range []ssa.Value{bo.X, bo.Y} {
						s := stripNum(side)
						if _, isParam := s.(*ssa.Parameter); isParam && !signKnown(s) {
							unsigned = s
						}
					}
				}
				scan(bo.X, depth+1)
				scan(bo.Y, depth+1)
			}
			for f := range facts {
				switch x := f.cond.(type) {
				case *ssa.Call:
					if callee := x.Call.StaticCallee(); callee != nil && callee.Pkg != nil && callee.Pkg.Pkg.Path() == "math" && callee.Name() == "IsInf" && f.pol {
						hasIsInf = true
					}
				case *ssa.BinOp:
					switch x.Op {
					case token.LSS, token.GTR, token.LEQ, token.GEQ:
						if isFloatType(x.X.Type()) {
							hasCmp = true
							scan(x.X, 0)
							scan(x.Y, 0)
						}
					}
				}
			}
			switch {
			case hasIsInf:
				r.ok(rule, key, c.at(in), desc, "raised under math.IsInf(result)", true)
			case hasCmp && unsigned == nil:
				r.ok(rule, key, c.at(in), desc, "pre-check by comparison; no operand is multiplied or divided across the inequality without a sign fact", true)
			case hasCmp:
				r.bad(rule, fmt.Sprintf("%s/float_overflow", fname(fn)), c.at(in), desc, "the pre-check multiplies/divides the bound by "+valName(unsigned)+" whose sign is not known on this path: for a negative "+valName(unsigned)+" the inequality is reversed and a finite result is reported as overflow")
			default:
				r.bad(rule, fmt.Sprintf("%s/float_overflow", fname(fn)), c.at(in), desc, "float_overflow is returned under no numeric test")
			}
		})
	}
	r.analysed(rule, fmt.Sprintf("%d raise sites of float_overflow", n))
}

func stripConvIface(v ssa.Value) ssa.Value {
	for {
		switch x := v.(type) {
		case *ssa.MakeInterface:
			v = x.X
		case *ssa.ChangeInterface:
			v = x.X
		case *ssa.ChangeType:
			v = x.X
		default:
			return v
		}
	}
}

// ---------------------------------------------------------------------------
// R-FLOAT-FINITE (C06, C07, C08; added with fix F27): every Float that the reader produces is finite. The
// function that converts the text of a float token returns a value without an error only under the fact
// that math.IsInf of the converted value is false. Infinity (and the NaN that Inf - Inf gives) is not a
// Prolog number: it is written as text that does not read back, the arithmetic raises float_overflow /
// undefined for results, not for operands, and NaN compares equal to every float, so the standard order
// stops being an order.

func ruleFloatFinite(c *Ctx, r *Report) {
	const rule = "R-FLOAT-FINITE"
	fn := c.fn("float")
	if fn == nil {
		r.undecided(rule, "anchor:float", "-", "locate the float-literal conversion", "not found")
		return
	}
	desc := "the reader's float conversion returns a value only when it is finite"
	n := 0
	eachInstr(fn, func(in ssa.Instruction) {
		ret, ok := in.(*ssa.Return)
		if !ok || len(ret.Results) != 2 {
			return
		}
		if k, isConst := ret.Results[1].(*ssa.Const); !isConst || k.Value != nil {
			return // an error return
		}
		n++
		key := fmt.Sprintf("%s/return#%d", fname(fn), n)
		finite := false
		for f := range c.factsAt(in.Block()) {
			call, ok := f.cond.(*ssa.Call)
			if !ok || f.pol {
				continue
			}
			if callee := call.Call.StaticCallee(); callee != nil && callee.Pkg != nil && callee.Pkg.Pkg.Path() == "math" && callee.Name() == "IsInf" {
				finite = true
			}
		}
		if finite {
			r.ok(rule, key, c.at(in), desc, "returned under math.IsInf(value) == false", true)
		} else {
			r.bad(rule, fmt.Sprintf("%s/return", fname(fn)), c.at(in), desc, "a value is returned without a test for infinity: 1.0e999 reads as +Inf, and X - X then gives NaN")
		}
	})
	if n == 0 {
		r.bad(rule, fname(fn)+"/return", c.Pos(fn.Pos()), desc, "the conversion never returns a value")
	}
	// (added with fix F38) the other way in: a Go float passed for a placeholder. Every conversion of a Go
	// float64 into engine.Float outside the arithmetic (parser, API) is made under IsInf == false and IsNaN == false.
	if termOf := c.method("Parser", "termOf"); termOf != nil {
		m := 0
		eachInstr(termOf, func(in ssa.Instruction) {
			var cvType types.Type
			switch x := in.(type) {
			case *ssa.Convert:
				cvType = x.Type()
			case *ssa.ChangeType:
				cvType = x.Type()
			default:
				return
			}
			if !isEngNamed(cvType, "Float") {
				return
			}
			m++
			key := fmt.Sprintf("%s/Float(go-float)#%d", fname(termOf), m)
			notInf, notNaN := false, false
			for f := range c.factsAt(in.Block()) {
				call, ok := f.cond.(*ssa.Call)
				if !ok || f.pol {
					continue
				}
				if callee := call.Call.StaticCallee(); callee != nil && callee.Pkg != nil && callee.Pkg.Pkg.Path() == "math" {
					switch callee.Name() {
					case "IsInf":
						notInf = true
					case "IsNaN":
						notNaN = true
					}
				}
			}
			d2 := "a Go float becomes a Float only when it is finite and a number"
			if notInf && notNaN {
				r.ok(rule, key, c.at(in), d2, "under math.IsInf == false and math.IsNaN == false", true)
			} else {
				r.bad(rule, fmt.Sprintf("%s/Float(go-float)", fname(termOf)), c.at(in), d2, "a placeholder argument may be +-Inf or NaN: a NaN does not unify with itself, compares equal to every float and is dropped by sort/2")
			}
		})
		if m == 0 {
			r.bad(rule, fname(termOf)+"/Float(go-float)", c.Pos(termOf.Pos()), "a Go float becomes a Float only when it is finite and a number", "termOf converts no float")
		}
	}
	r.analysed(rule, fname(fn))
}

// ---------------------------------------------------------------------------
// R-INT-LITERAL-SIGNED (C06; added after seed C06d): the integers are -2^63 … 2^63-1: the magnitude of the
// smallest one does not fit. The reader's integer conversion therefore checks the range of the SIGNED value:
// the big value whose Int64() decides the representation error has had the sign applied (a call on the same
// value with an argument that depends on the sign parameter dominates the range check). Checking the
// magnitude first and multiplying afterwards rejects exactly one literal, -9223372036854775808 - which the
// writer emits for min_integer.

func ruleIntLiteralSigned(c *Ctx, r *Report) {
	const rule = "R-INT-LITERAL-SIGNED"
	fn := c.fn("integer")
	if fn == nil || len(fn.Params) < 2 {
		r.undecided(rule, "anchor:integer", "-", "locate the integer-literal conversion", "not found")
		return
	}
	sign := ssa.Value(fn.Params[0])
	desc := "the range of an integer literal is checked on the signed value"
	n := 0
	eachInstr(fn, func(in ssa.Instruction) {
		call, ok := in.(*ssa.Call)
		if !ok {
			return
		}
		callee := call.Call.StaticCallee()
		if callee == nil || callee.Pkg == nil || callee.Pkg.Pkg.Path() != "math/big" || (callee.Name() != "Int64" && callee.Name() != "IsInt64" && callee.Name() != "Int") || len(call.Call.Args) < 1 {
			return
		}
		n++
		key := fmt.Sprintf("%s/range-check#%d", fname(fn), n)
		recv := call.Call.Args[0]
		signed := false
		eachInstr(fn, func(x ssa.Instruction) {
			prev, ok := x.(*ssa.Call)
			if !ok || prev == call || len(prev.Call.Args) < 2 {
				return
			}
			touches := false
			for _, a := range prev.Call.Args {
				if a == recv {
					touches = true
				}
			}
			if !touches {
				return
			}
			dep := false
			for _, a := range prev.Call.Args {
				dataSlice(a, func(v ssa.Value) bool {
					if v == sign {
						dep = true
					}
					return true
				})
			}
			pb, cb := prev.Block(), call.Block()
			if dep && ((pb == cb && instrIndex(prev) < instrIndex(call)) || (pb != cb && pb.Dominates(cb))) {
				signed = true
			}
		})
		if signed {
			r.ok(rule, key, c.at(in), desc, "the checked value has been combined with the sign before the check", true)
		} else {
			r.bad(rule, fmt.Sprintf("%s/range-check", fname(fn)), c.at(in), desc, "the magnitude is range-checked before the sign is applied: -9223372036854775808 (min_integer, which the writer emits) is refused with a representation error")
		}
	})
	if n == 0 {
		r.bad(rule, fname(fn)+"/range-check", c.Pos(fn.Pos()), desc, "no range check of the literal found")
	}
	r.analysed(rule, fname(fn))
}

// ---------------------------------------------------------------------------
// R-FLOAT-RESULT-FINITE (C07; added with fix F37): "float operations yield the IEEE-754 double result and
// raise float_overflow … when that result is infinite". A pre-check by comparison rounds like the operation
// it guards and lets operands just past the rounded bound through, so the guarantee needs a look at the
// RESULT: in the evaluable functions every value that is produced by an operation able to overflow from
// finite operands - float + - * /, math.Exp, Pow, Sinh, Cosh, Exp2 - and returned without an error lies
// under the fact math.IsInf(value) == false.

func ruleFloatResultFinite(c *Ctx, r *Report) {
	const rule = "R-FLOAT-RESULT-FINITE"
	desc := "a float produced by an operation that can overflow is returned only under math.IsInf(result) == false"
	overflowing := map[string]bool{"Exp": true, "Pow": true, "Sinh": true, "Cosh": true, "Exp2": true, "Expm1": true, "Gamma": true}
	n := 0
	for _, fn := range c.LibFuncs() {
		if funcPkg(fn) != c.Engine || fn.Parent() != nil {
			continue
		}
		res := fn.Signature.Results()
		if res.Len() != 2 || !isErrorType(res.At(1).Type()) {
			continue
		}
		if !isEngNamed(res.At(0).Type(), "Float") && !isEngNamed(res.At(0).Type(), "Number") {
			continue
		}
		seen := 0
		eachInstr(fn, func(in ssa.Instruction) {
			ret, ok := in.(*ssa.Return)
			if !ok || len(ret.Results) != 2 {
				return
			}
			if k, isConst := ret.Results[1].(*ssa.Const); !isConst || k.Value != nil {
				return
			}
			// the producing operation
			var produced ssa.Value
			for _, l := range c.originSet(ret.Results[0]) {
				v := l
				for {
					if cv, ok := v.(*ssa.Convert); ok {
						v = cv.X
						continue
					}
					if ct, ok := v.(*ssa.ChangeType); ok {
						v = ct.X
						continue
					}
					break
				}
				switch x := v.(type) {
				case *ssa.BinOp:
					if isFloatType(x.Type()) {
						switch x.Op {
						case token.ADD, token.SUB, token.MUL, token.QUO:
							produced = l
						}
					}
				case *ssa.Call:
					if f := x.Call.StaticCallee(); f != nil && f.Pkg != nil && f.Pkg.Pkg.Path() == "math" && overflowing[f.Name()] {
						produced = l
					}
				}
			}
			if produced == nil {
				return
			}
			n++
			seen++
			key := fmt.Sprintf("%s/result#%d", fname(fn), seen)
			finite := false
			for f := range c.factsAt(in.Block()) {
				call, ok := f.cond.(*ssa.Call)
				if !ok || f.pol {
					continue
				}
				if callee := call.Call.StaticCallee(); callee != nil && callee.Pkg != nil && callee.Pkg.Pkg.Path() == "math" && callee.Name() == "IsInf" {
					finite = true
				}
			}
			if finite {
				r.ok(rule, key, c.at(in), desc, "returned under math.IsInf(result) == false", true)
			} else {
				r.bad(rule, fmt.Sprintf("%s/result", fname(fn)), c.at(in), desc, "the result "+valName(produced)+" is returned without a test for infinity: operands just past a rounded pre-check evaluate to +Inf without float_overflow")
			}
		})
	}
	if n == 0 {
		r.bad(rule, "scan/float-results", "-", desc, "no float result of an overflowing operation found")
	}
	r.analysed(rule, fmt.Sprintf("%d returned results of operations that can overflow", n))
}

// ---------------------------------------------------------------------------
// R-INT-ARM-NO-FLOAT (C07; added after seed C07f): "integers converted to float when mixed" - and only then.
// For the binary evaluables whose value on two integers is an integer (everything in the table of binary
// functors except the float-valued /, ** and atan2) no operand is converted to a float unless ANOTHER operand
// of the same function is a float: at every conversion site (a call of the Integer->Float primitive, or a
// conversion of an engine.Integer to a float type) in such a function or in a helper it statically calls, some
// other parameter of the enclosing function is a Float by its static type or by a type assertion known to have
// succeeded.  A helper with no other numeric parameter hands the obligation to its call sites.  Above 2^53
// neighbouring integers share a double: max(9007199254740992, 9007199254740993) compared through floats
// answers the wrong operand.
var floatValuedOnIntegers = map[string]string{
	"atomSlash":            "(/)/2 is float division in this system",
	"atomAsteriskAsterisk": "(**)/2 is float exponentiation in this system",
	"atomAtan2":            "atan2/2 is a float function",
}

func ruleIntArmNoFloat(c *Ctx, r *Report) {
	const rule = "R-INT-ARM-NO-FLOAT"
	desc := "an operand of an integer-valued binary evaluable is converted to float only when another operand is a float"
	table := c.global("binaryFunctors")
	itof := c.fn("floatItoF")
	if table == nil {
		r.undecided(rule, "anchor:binaryFunctors", "-", "locate the table of binary evaluables", "not found")
		return
	}
	// the table's entries: MapUpdate instructions in the package initialiser
	roots := map[*ssa.Function]string{}
	floatRoots := map[*ssa.Function]bool{} // the float-valued entries: another entry may delegate to them on its float arms
	for _, fn := range c.LibFuncs() {
		if !isInitFn(fn) {
			continue
		}
		eachInstr(fn, func(in ssa.Instruction) {
			mu, ok := in.(*ssa.MapUpdate)
			if !ok {
				return
			}
			isTable := false
			for _, l := range c.originSet(mu.Map) {
				if mm, ok := l.(*ssa.MakeMap); ok && mm.Referrers() != nil {
					for _, ref := range *mm.Referrers() {
						if st, ok := ref.(*ssa.Store); ok && st.Addr == ssa.Value(table) {
							isTable = true
						}
					}
				}
			}
			if !isTable {
				return
			}
			key := ""
			if ld, ok := mu.Key.(*ssa.UnOp); ok {
				if g, ok := ld.X.(*ssa.Global); ok {
					key = g.Name()
				}
			}
			var f *ssa.Function
			switch v := mu.Value.(type) {
			case *ssa.Function:
				f = v
			case *ssa.MakeClosure:
				f, _ = v.Fn.(*ssa.Function)
			case *ssa.ChangeType:
				f, _ = v.X.(*ssa.Function)
			}
			if f != nil && floatValuedOnIntegers[key] == "" {
				roots[f] = key
			} else if f != nil {
				floatRoots[f] = true
			}
		})
	}
	if len(roots) < 10 {
		r.undecided(rule, "anchor:table-entries", "-", desc, fmt.Sprintf("only %d integer-valued entries of binaryFunctors recognised", len(roots)))
		return
	}
	// scope: the roots and the engine functions they statically reach, except what only float-valued entries use
	scope := map[*ssa.Function]bool{}
	var add func(fn *ssa.Function, depth int)
	add = func(fn *ssa.Function, depth int) {
		if scope[fn] || depth > 4 || fn.Blocks == nil || funcPkg(fn) != c.Engine || fn == itof || floatRoots[fn] {
			return
		}
		scope[fn] = true
		eachInstr(fn, func(in ssa.Instruction) {
			if ci, ok := in.(ssa.CallInstruction); ok {
				if callee := ci.Common().StaticCallee(); callee != nil {
					add(callee, depth+1)
				}
			}
		})
	}
	for f := range roots {
		add(f, 0)
	}
	isNumT := func(t types.Type) string {
		switch {
		case isEngNamed(t, "Float") && !isPtr(t):
			return "F"
		case isEngNamed(t, "Integer") && !isPtr(t):
			return "I"
		case isEngNamed(t, "Number"):
			return "N"
		}
		return ""
	}
	var check func(fn *ssa.Function, site ssa.Instruction, converted ssa.Value, depth int) string
	check = func(fn *ssa.Function, site ssa.Instruction, converted ssa.Value, depth int) string {
		// which parameter is being converted
		var from *ssa.Parameter
		for _, l := range c.originSet(converted) {
			if p, ok := l.(*ssa.Parameter); ok {
				from = p
			}
		}
		others := 0
		for _, p := range fn.Params {
			if p == from {
				continue
			}
			switch isNumT(p.Type()) {
			case "F":
				return ""
			case "I":
				others++
			case "N":
				others++
				for f := range c.factsAt(site.Block()) {
					ex, ok := f.cond.(*ssa.Extract)
					if !ok || ex.Index != 1 || !f.pol {
						continue
					}
					ta, ok := ex.Tuple.(*ssa.TypeAssert)
					if !ok || !isEngNamed(ta.AssertedType, "Float") {
						continue
					}
					for _, l := range c.originSet(ta.X) {
						if l == ssa.Value(p) {
							return ""
						}
					}
				}
			}
		}
		if others == 0 && depth < 2 {
			// a unary helper: the question goes to its callers inside the scope
			bad := ""
			n := 0
			for _, cs := range c.callSitesOf(fn) {
				if !scope[cs.Parent()] {
					continue
				}
				n++
				for _, a := range cs.Common().Args {
					if isNumT(a.Type()) != "" || isEngNamed(a.Type(), "Number") {
						if w := check(cs.Parent(), cs, a, depth+1); w != "" {
							bad = w
						}
					}
				}
			}
			if n > 0 {
				return bad
			}
		}
		return "no other operand of " + fn.Name() + " is known to be a float here"
	}
	n := 0
	var fns []*ssa.Function
	for fn := range scope {
		fns = append(fns, fn)
	}
	sort.Slice(fns, func(i, j int) bool { return fname(fns[i]) < fname(fns[j]) })
	for _, fn := range fns {
		k := 0
		eachInstr(fn, func(in ssa.Instruction) {
			var converted ssa.Value
			switch x := in.(type) {
			case *ssa.Call:
				if itof != nil && x.Call.StaticCallee() == itof && len(x.Call.Args) == 1 {
					converted = x.Call.Args[0]
				}
			case *ssa.Convert:
				if isNumT(x.X.Type()) == "I" {
					if b, ok := x.Type().Underlying().(*types.Basic); ok && b.Info()&types.IsFloat != 0 {
						converted = x.X
					}
				}
			}
			if converted == nil {
				return
			}
			n++
			k++
			key := fmt.Sprintf("%s/int->float#%d", fname(fn), k)
			if why := check(fn, in, converted, 0); why == "" {
				r.ok(rule, key, c.at(in), desc, "another operand is a float (static type or successful assertion)", true)
			} else {
				r.bad(rule, key, c.at(in), desc, why+": on two integers the evaluable goes through float64, where integers above 2^53 lose their low bits")
			}
		})
	}
	if n == 0 {
		r.info(rule, "scan/conversions", "-", desc, "no integer-to-float conversion in the integer-valued binary evaluables")
	}
	var names []string
	for f, k := range roots {
		names = append(names, k+"="+f.Name())
	}
	sort.Strings(names)
	r.analysed(rule, names...)
}

// ---------------------------------------------------------------------------
// R-NO-SPURIOUS-OVERFLOW (C07; added after seed C07g): "yields the mathematically exact result whenever it fits
// the 64-bit integer range and otherwise raises int_overflow".  For some evaluables the result ALWAYS fits: the
// remainder and the modulus are smaller in magnitude than the divisor, max and min return an operand, the
// bitwise operations and the right shift stay inside the range.  These never raise int_overflow: no function
// statically reachable from their entry in the table of binary evaluables returns the int_overflow value.
// (Routing rem/2 through the checked division, which rightly refuses min_integer // -1, makes
// min_integer rem -1 an overflow although the remainder is 0.)
var alwaysFits = map[string]string{
	"atomRem":               "|x rem y| < |y|",
	"atomMod":               "|x mod y| < |y|",
	"atomMax":               "an operand",
	"atomMin":               "an operand",
	"atomBitwiseAnd":        "no bit outside the operands'",
	"atomBitwiseOr":         "no bit outside the operands'",
	"atomXor":               "no bit outside the operands'",
	"atomBitwiseRightShift": "magnitude does not grow",
}

func ruleNoSpuriousOverflow(c *Ctx, r *Report) {
	const rule = "R-NO-SPURIOUS-OVERFLOW"
	desc := "an evaluable whose result always fits never raises int_overflow"
	table := c.global("binaryFunctors")
	ovf := c.global("exceptionalValueIntOverflow")
	if table == nil {
		r.undecided(rule, "anchor:binaryFunctors", "-", "locate the table of binary evaluables", "not found")
		return
	}
	// the overflow value may be a constant of a named type rather than a variable
	isOverflow := func(v ssa.Value) bool {
		for _, l := range c.originSet(v) {
			if mi, ok := l.(*ssa.MakeInterface); ok {
				l = mi.X
			}
			if ld, ok := l.(*ssa.UnOp); ok && ovf != nil && ld.X == ssa.Value(ovf) {
				return true
			}
			if k, ok := l.(*ssa.Const); ok && isEngNamed(k.Type(), "exceptionalValue") {
				if nc, ok := c.Engine.Members["exceptionalValueIntOverflow"].(*ssa.NamedConst); ok {
					a, _ := constInt(k)
					b, _ := constInt(nc.Value)
					if a == b {
						return true
					}
				}
			}
		}
		return false
	}
	n := 0
	for _, fn := range c.LibFuncs() {
		if !isInitFn(fn) {
			continue
		}
		eachInstr(fn, func(in ssa.Instruction) {
			mu, ok := in.(*ssa.MapUpdate)
			if !ok {
				return
			}
			isTable := false
			for _, l := range c.originSet(mu.Map) {
				if mm, ok := l.(*ssa.MakeMap); ok && mm.Referrers() != nil {
					for _, ref := range *mm.Referrers() {
						if st, ok := ref.(*ssa.Store); ok && st.Addr == ssa.Value(table) {
							isTable = true
						}
					}
				}
			}
			if !isTable {
				return
			}
			key := ""
			if ld, ok := mu.Key.(*ssa.UnOp); ok {
				if g, ok := ld.X.(*ssa.Global); ok {
					key = g.Name()
					if old := c.loadAnchors().Atoms; old != nil {
						// a renamed atom variable keeps its baseline name
						for bn, text := range old {
							if t, ok := c.atomTexts()[key]; ok && t == text && alwaysFits[bn] != "" {
								key = bn
							}
						}
					}
				}
			}
			if alwaysFits[key] == "" {
				return
			}
			var root *ssa.Function
			switch v := mu.Value.(type) {
			case *ssa.Function:
				root = v
			case *ssa.ChangeType:
				root, _ = v.X.(*ssa.Function)
			}
			if root == nil {
				return
			}
			n++
			okey := fmt.Sprintf("%s=%s", key, c.stableFuncName(root))
			seen := map[*ssa.Function]bool{}
			var bad ssa.Instruction
			var walk func(f *ssa.Function, depth int)
			walk = func(f *ssa.Function, depth int) {
				if seen[f] || depth > 4 || f.Blocks == nil || funcPkg(f) != c.Engine || bad != nil {
					return
				}
				seen[f] = true
				eachInstr(f, func(x ssa.Instruction) {
					switch y := x.(type) {
					case *ssa.Return:
						for _, res := range y.Results {
							if isErrorType(res.Type()) && isOverflow(res) && bad == nil {
								bad = x
							}
						}
					case ssa.CallInstruction:
						if callee := y.Common().StaticCallee(); callee != nil {
							walk(callee, depth+1)
						}
					}
				})
			}
			walk(root, 0)
			if bad == nil {
				r.ok(rule, okey, c.Pos(root.Pos()), desc, fmt.Sprintf("no return of int_overflow in the %d functions reachable from it (%s)", len(seen), alwaysFits[key]), true)
			} else {
				r.bad(rule, okey, c.at(bad), desc, "a function this evaluable reaches returns int_overflow here: for some operands whose result fits ("+alwaysFits[key]+") an overflow is raised, min_integer rem -1 for one")
			}
		})
	}
	if n < 4 {
		r.undecided(rule, "floor:table-entries", "-", desc, fmt.Sprintf("only %d of the always-fitting entries of binaryFunctors recognised", n))
	}
}

// ---------------------------------------------------------------------------
// R-ARITH-NO-RECURSION (C05, C07; added after seed C05g): an evaluable functor's Go implementation works on
// machine numbers, where nothing gets structurally smaller: a recursion between such functions is bounded only
// by the VALUES, and an int64 has values that a "smaller" step maps to themselves (-min_integer is min_integer).
// Unlike a Prolog-level recursion this one does not pass through the trampoline: it ends in Go's fatal stack
// overflow, which no catch/3 and no recover() intercepts. In the static call graph restricted to the functions
// whose parameters are all numbers (Number, Integer, Float) and that return a number, no cycle is re-entered
// with the negation of an integer that the branch facts do not separate from min_integer. (Other recursions
// between such functions - a recursive gcd - are listed and not decided.)
func (c *Ctx) numericFuncs() []*ssa.Function {
	isNum := func(t types.Type) bool {
		return !isPtr(t) && (isEngNamed(t, "Number") || isEngNamed(t, "Integer") || isEngNamed(t, "Float"))
	}
	var out []*ssa.Function
	for _, fn := range c.LibFuncs() {
		if fn.Parent() != nil || funcPkg(fn) != c.Engine || len(fn.Blocks) == 0 {
			continue
		}
		sig := fn.Signature
		if sig.Recv() != nil || sig.Params().Len() == 0 || sig.Results().Len() == 0 || !isNum(sig.Results().At(0).Type()) {
			continue
		}
		all := true
		for i := 0; i < sig.Params().Len(); i++ {
			if !isNum(sig.Params().At(i).Type()) {
				all = false
			}
		}
		if all {
			out = append(out, fn)
		}
	}
	return out
}

func ruleArithNoRecursion(c *Ctx, r *Report) {
	const rule = "R-ARITH-NO-RECURSION"
	desc := "the Go functions that implement arithmetic on machine numbers do not call each other in a cycle"
	fns := c.numericFuncs()
	in := map[*ssa.Function]bool{}
	for _, f := range fns {
		in[f] = true
	}
	succ := map[*ssa.Function][]*ssa.Function{}
	site := map[[2]*ssa.Function]ssa.Instruction{}
	for _, f := range fns {
		for _, g := range withAnon(f) {
			eachInstr(g, func(i ssa.Instruction) {
				ci, ok := i.(ssa.CallInstruction)
				if !ok {
					return
				}
				if callee := ci.Common().StaticCallee(); callee != nil && in[callee] {
					succ[f] = append(succ[f], callee)
					if _, dup := site[[2]*ssa.Function{f, callee}]; !dup {
						site[[2]*ssa.Function{f, callee}] = i
					}
				}
			})
		}
	}
	// reach[f]: functions reachable from f by one or more calls
	for _, f := range fns {
		seen := map[*ssa.Function]bool{}
		var path []*ssa.Function
		var cyc []*ssa.Function
		var dfs func(g *ssa.Function) bool
		dfs = func(g *ssa.Function) bool {
			for _, h := range succ[g] {
				if h == f {
					cyc = append(append([]*ssa.Function{}, path...), g)
					return true
				}
				if seen[h] {
					continue
				}
				seen[h] = true
				path = append(path, g)
				if dfs(h) {
					return true
				}
				path = path[:len(path)-1]
			}
			return false
		}
		key := fname(f) + "/acyclic"
		if !dfs(f) {
			r.ok(rule, key, c.Pos(f.Pos()), desc, fmt.Sprintf("no call path back to itself among the %d numeric functions", len(fns)), true)
			continue
		}
		var names []string
		for _, g := range cyc {
			names = append(names, g.Name())
		}
		names = append(names, f.Name())
		next := f
		if len(cyc) > 1 {
			next = cyc[1]
		}
		// the call that enters the cycle: is one of its arguments the negation of an integer that may be min_integer?
		var offending ssa.Instruction
		for _, g := range withAnon(f) {
			eachInstr(g, func(i ssa.Instruction) {
				ci, ok := i.(ssa.CallInstruction)
				if !ok || ci.Common().StaticCallee() != next {
					return
				}
				for _, a := range ci.Common().Args {
					if mi, ok := a.(*ssa.MakeInterface); ok {
						a = mi.X
					}
					var x ssa.Value
					switch u := a.(type) {
					case *ssa.UnOp:
						if u.Op == token.SUB {
							x = u.X
						}
					case *ssa.BinOp:
						if k, ok := constInt(u.X); ok && k == 0 && u.Op == token.SUB {
							x = u.Y
						}
					}
					if x == nil || !isEngNamed(x.Type(), "Integer") {
						continue
					}
					rg := c.rangeAt(i.Block(), x)
					if (rg.hasLo && rg.lo > math.MinInt64) || rg.excludes(math.MinInt64) {
						continue
					}
					offending = i
				}
			})
		}
		if offending != nil {
			r.bad(rule, key, c.at(offending), desc, "call cycle "+strings.Join(names, " -> ")+" re-entered with the NEGATION of an integer that may be min_integer (-min_integer is min_integer: the recursion never gets anywhere): Go's stack overflow is fatal and cannot be caught")
		} else {
			r.ok(rule, key, c.Pos(f.Pos()), desc, "call cycle "+strings.Join(names, " -> ")+": no argument of the re-entering call is the negation of an integer that may be min_integer; the depth of this recursion is not decided by the rule", false)
		}
	}
	r.analysed(rule, fmt.Sprintf("%d numeric functions, %d call edges among them", len(fns), len(site)))
}

// stripOrdinals: closure ordinals ($1, $2$1) depend on how many closures stand before one in its function; allow-list
// keys name the enclosing function and the construct only.
func stripOrdinals(key string) string {
	return closureOrdinal.ReplaceAllString(key, "$$")
}

var closureOrdinal = regexp.MustCompile(`(\$\d+)+`)

// ---------------------------------------------------------------------------
// R-FLOAT-OVERFLOW-SIGNED (C07; added after seed C07i): "float_overflow is raised when the IEEE result is infinite".
// A sum leaves the range only when both operands pull the same way: a prediction made BEFORE adding has to know
// the direction. In a float primitive that adds or subtracts its parameters, every return of float_overflow lies
// under the fact that the result is infinite (math.IsInf true) or under a comparison of a parameter with 0 (its
// sign). A test of magnitudes alone (|x| > max - |y|) also fires when the operands cancel: 1.5e308 - 1.0e308.
func ruleFloatOverflowSigned(c *Ctx, r *Report) {
	const rule = "R-FLOAT-OVERFLOW-SIGNED"
	desc := "a float overflow predicted before an addition knows the direction of an operand"
	n := 0
	for _, fn := range c.numericFuncs() {
		allFloat := true
		for i := 0; i < fn.Signature.Params().Len(); i++ {
			if !isEngNamed(fn.Signature.Params().At(i).Type(), "Float") {
				allFloat = false
			}
		}
		if !allFloat {
			continue
		}
		adds := false
		eachInstr(fn, func(in ssa.Instruction) {
			if bo, ok := in.(*ssa.BinOp); ok && (bo.Op == token.ADD || bo.Op == token.SUB) && isEngNamed(bo.Type(), "Float") {
				if _, px := stripConv(bo.X).(*ssa.Parameter); px {
					if _, py := stripConv(bo.Y).(*ssa.Parameter); py {
						adds = true
					}
				}
			}
		})
		if !adds {
			continue
		}
		k := 0
		for _, b := range c.returnsExceptional(fn, "exceptionalValueFloatOverflow") {
			n++
			k++
			key := fmt.Sprintf("%s/overflow-return#%d", fname(fn), k)
			grounded := ""
			for f := range c.factsAt(b) {
				if call, ok := f.cond.(*ssa.Call); ok && f.pol {
					if callee := call.Call.StaticCallee(); callee != nil && callee.Pkg != nil && callee.Pkg.Pkg.Path() == "math" && callee.Name() == "IsInf" {
						grounded = "the result is known infinite"
					}
				}
				if x, _, kk, ok := cmpConst(f.cond); ok && kk == 0 {
					if _, isParam := stripConv(x).(*ssa.Parameter); isParam {
						grounded = "the sign of a parameter is known"
					}
				}
				if bo, ok := f.cond.(*ssa.BinOp); ok {
					// float constants are not integers: x > 0.0
					for _, pair := range [][2]ssa.Value{{bo.X, bo.Y}, {bo.Y, bo.X}} {
						if _, isParam := stripConv(pair[0]).(*ssa.Parameter); isParam {
							if kc, ok := pair[1].(*ssa.Const); ok && kc.Value != nil && constant.Sign(kc.Value) == 0 {
								grounded = "the sign of a parameter is known"
							}
						}
					}
				}
			}
			last := b.Instrs[len(b.Instrs)-1]
			if grounded != "" {
				r.ok(rule, key, c.at(last), desc, grounded, true)
			} else {
				r.bad(rule, key, c.at(last), desc, "float_overflow is returned where neither the result is known infinite nor the sign of an operand is known: a test of magnitudes alone also fires when the operands cancel (1.5e308 - 1.0e308 is finite)")
			}
		}
	}
	if n == 0 {
		r.undecided(rule, "scan/overflow-returns", "-", desc, "no float primitive that adds its parameters returns float_overflow")
	}
}
