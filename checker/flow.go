package main

import (
	"go/constant"
	"go/token"
	"go/types"

	"golang.org/x/tools/go/ssa"
)

// ---------------------------------------------------------------------------
// F-DOM: branch facts that must hold on entry to a block.
//
// fact = (condition value, polarity). facts_in(B) = ∩_{P∈preds(B)} (facts_in(P) ∪ edge(P→B)).
// This is a forward must-analysis; it subsumes "dominated by the true/false edge of an If"
// and additionally merges diamonds whose arms agree.

type fact struct {
	cond ssa.Value
	pol  bool
}

type guardInfo struct {
	in map[*ssa.BasicBlock]map[fact]bool
}

func (c *Ctx) guardsOf(fn *ssa.Function) *guardInfo {
	if g, ok := c.guards[fn]; ok {
		return g
	}
	g := &guardInfo{in: map[*ssa.BasicBlock]map[fact]bool{}}
	c.guards[fn] = g
	if len(fn.Blocks) == 0 {
		return g
	}
	// universe = all edge facts
	var top map[fact]bool // nil = TOP (unvisited)
	_ = top
	entry := fn.Blocks[0]
	g.in[entry] = map[fact]bool{}
	if fn.Recover != nil {
		g.in[fn.Recover] = map[fact]bool{}
	}
	changed := true
	for changed {
		changed = false
		for _, b := range blocksOf(fn) {
			if b == entry || b == fn.Recover {
				continue
			}
			var acc map[fact]bool
			first := true
			for _, p := range b.Preds {
				pin, ok := g.in[p]
				if !ok {
					continue // TOP: identity for intersection
				}
				out := map[fact]bool{}
				for f := range pin {
					out[f] = true
				}
				if ifi, ok := p.Instrs[len(p.Instrs)-1].(*ssa.If); ok && p.Succs[0] != p.Succs[1] {
					if p.Succs[0] == b {
						g.addCondFacts(out, ifi.Cond, true, 0)
					} else if p.Succs[1] == b {
						g.addCondFacts(out, ifi.Cond, false, 0)
					}
				}
				if first {
					acc, first = out, false
				} else {
					for f := range acc {
						if !out[f] {
							delete(acc, f)
						}
					}
				}
			}
			if first {
				continue // no visited pred yet
			}
			old, ok := g.in[b]
			if !ok || len(old) != len(acc) {
				g.in[b] = acc
				changed = true
				continue
			}
			for f := range acc {
				if !old[f] {
					g.in[b] = acc
					changed = true
					break
				}
			}
		}
	}
	return g
}

// addCondFacts records cond==pol, looking through boolean negation and through the phi nodes that
// go/ssa builds for `a && b` / `a || b` used as values (tag-less switch cases): when every constant
// edge of the phi has the opposite value, the phi having value pol means control came through the one
// non-constant edge, so that edge's value and the facts holding in its predecessor hold too.
func (g *guardInfo) addCondFacts(m map[fact]bool, cond ssa.Value, pol bool, depth int) {
	m[fact{cond, pol}] = true
	if depth > 6 {
		return
	}
	switch x := cond.(type) {
	case *ssa.UnOp:
		if x.Op == token.NOT {
			g.addCondFacts(m, x.X, !pol, depth+1)
		}
	case *ssa.Phi:
		nonConst := -1
		for i, e := range x.Edges {
			k, ok := e.(*ssa.Const)
			if !ok {
				if nonConst >= 0 {
					return
				}
				nonConst = i
				continue
			}
			if k.Value == nil || k.Value.Kind() != constant.Bool || constant.BoolVal(k.Value) == pol {
				return
			}
		}
		if nonConst < 0 {
			return
		}
		g.addCondFacts(m, x.Edges[nonConst], pol, depth+1)
		q := x.Block().Preds[nonConst]
		for f := range g.in[q] {
			m[f] = true
		}
	}
}

// factsWithCreation: the facts on entry to b plus, when b belongs to a closure, the facts that held where
// the closure was created (they speak about captured variables; callers compare operands with sameVar,
// which only identifies loads of a never-reassigned cell, so stale facts cannot match).
func (c *Ctx) factsWithCreation(b *ssa.BasicBlock) map[fact]bool {
	out := map[fact]bool{}
	for f := range c.factsAt(b) {
		out[f] = true
	}
	fn := b.Parent()
	for fn.Parent() != nil {
		parent := fn.Parent()
		var site *ssa.MakeClosure
		eachInstr(parent, func(in ssa.Instruction) {
			if mc, ok := in.(*ssa.MakeClosure); ok && mc.Fn == fn {
				site = mc
			}
		})
		if site == nil {
			break
		}
		for f := range c.factsAt(site.Block()) {
			out[f] = true
		}
		fn = parent
	}
	return out
}

// factsAt returns the branch facts that hold on entry to block b.
func (c *Ctx) factsAt(b *ssa.BasicBlock) map[fact]bool {
	base := c.guardsOf(b.Parent()).in[b]
	if c.noExpand > 1 {
		return base
	}
	if m, ok := c.expanded[b]; ok {
		return m
	}
	if c.expanded == nil {
		c.expanded = map[*ssa.BasicBlock]map[fact]bool{}
	}
	out := base
	copied := false
	for f := range base {
		for _, tf := range c.helperImplied(f) {
			if !copied {
				out = make(map[fact]bool, len(base)+4)
				for g := range base {
					out[g] = true
				}
				copied = true
			}
			out[tf] = true
		}
	}
	c.expanded[b] = out
	return out
}

// ---------------------------------------------------------------------------
// F-ORIGIN: backward value slice.

// Leaf kinds are the ssa values at which the walk stops.
type originWalker struct {
	c       *Ctx
	seen    map[ssa.Value]bool
	leaf    func(v ssa.Value)
	through func(v ssa.Value) bool // optional: return false to stop at v (treat as leaf)
}

// origins visits the leaves of the backward slice of v: parameters, constants,
// globals, call results, field/element loads, allocations. It looks through phi,
// extract, interface/type conversions, type assertions, and loads of local or
// closure-captured variables (all stores to the variable, in the declaring function
// and in every closure that captures it).
func (c *Ctx) origins(v ssa.Value, leaf func(ssa.Value)) {
	w := &originWalker{c: c, seen: map[ssa.Value]bool{}, leaf: leaf}
	w.walk(v)
}

func (w *originWalker) walk(v ssa.Value) {
	if v == nil || w.seen[v] {
		return
	}
	w.seen[v] = true
	switch x := v.(type) {
	case *ssa.Phi:
		for _, e := range x.Edges {
			w.walk(e)
		}
	case *ssa.Extract:
		// tuple sources: call, typeassert commaok, lookup commaok, next, select, recv commaok
		switch t := x.Tuple.(type) {
		case *ssa.TypeAssert:
			if x.Index == 0 {
				w.walk(t.X)
				return
			}
			w.leaf(v)
		default:
			w.leaf(v)
		}
	case *ssa.MakeInterface:
		w.walk(x.X)
	case *ssa.ChangeInterface:
		w.walk(x.X)
	case *ssa.ChangeType:
		w.walk(x.X)
	case *ssa.TypeAssert:
		w.walk(x.X)
	case *ssa.UnOp:
		if x.Op == token.MUL { // load
			if cell := w.c.varCell(x.X); cell != nil {
				for _, s := range w.c.storesTo(cell) {
					w.walk(s.Val)
				}
				if len(w.c.storesTo(cell)) == 0 {
					w.leaf(v)
				}
				return
			}
		}
		w.leaf(v)
	default:
		w.leaf(v)
	}
}

// varCell maps an address value to the Alloc that is the storage cell of a Go variable,
// looking through closure free variables. nil if the address is not a plain variable.
func (c *Ctx) varCell(addr ssa.Value) *ssa.Alloc {
	switch a := addr.(type) {
	case *ssa.Alloc:
		return a
	case *ssa.FreeVar:
		fn := a.Parent()
		parent := fn.Parent()
		if parent == nil {
			return nil
		}
		idx := -1
		for i, fv := range fn.FreeVars {
			if fv == a {
				idx = i
			}
		}
		if idx < 0 {
			return nil
		}
		// find the MakeClosure in parent creating fn
		var cell *ssa.Alloc
		eachInstr(parent, func(in ssa.Instruction) {
			mc, ok := in.(*ssa.MakeClosure)
			if !ok || mc.Fn != fn {
				return
			}
			if idx < len(mc.Bindings) {
				cell = c.varCell(mc.Bindings[idx])
			}
		})
		return cell
	}
	return nil
}

// storesTo returns every store into the variable cell, from the declaring function and
// from every nested closure that captures the cell.
func (c *Ctx) storesTo(cell *ssa.Alloc) []*ssa.Store {
	var out []*ssa.Store
	var visitAddr func(addr ssa.Value)
	seen := map[ssa.Value]bool{}
	visitAddr = func(addr ssa.Value) {
		if seen[addr] {
			return
		}
		seen[addr] = true
		for _, r := range *addr.Referrers() {
			switch in := r.(type) {
			case *ssa.Store:
				if in.Addr == addr {
					out = append(out, in)
				}
			case *ssa.MakeClosure:
				for i, b := range in.Bindings {
					if b == addr {
						fn := in.Fn.(*ssa.Function)
						visitAddr(fn.FreeVars[i])
					}
				}
			}
		}
	}
	visitAddr(cell)
	return out
}

// cellEscapes reports whether the variable's address is used other than by load, store and closure capture.
func (c *Ctx) cellEscapes(cell *ssa.Alloc) bool {
	esc := false
	seen := map[ssa.Value]bool{}
	var visit func(addr ssa.Value)
	visit = func(addr ssa.Value) {
		if seen[addr] {
			return
		}
		seen[addr] = true
		for _, r := range *addr.Referrers() {
			switch in := r.(type) {
			case *ssa.Store:
				if in.Val == addr {
					esc = true
				}
			case *ssa.UnOp:
			case *ssa.DebugRef:
			case *ssa.MakeClosure:
				for i, b := range in.Bindings {
					if b == addr {
						visit(in.Fn.(*ssa.Function).FreeVars[i])
					}
				}
			default:
				esc = true
			}
		}
	}
	visit(cell)
	return esc
}

// isParamValue reports whether every origin of v is the given parameter of fn (possibly
// through the spill cell of a captured parameter).
func (c *Ctx) comesOnlyFrom(v ssa.Value, ok func(leaf ssa.Value) bool) (bool, ssa.Value) {
	all := true
	var bad ssa.Value
	n := 0
	c.origins(v, func(l ssa.Value) {
		n++
		if !ok(l) {
			all = false
			if bad == nil {
				bad = l
			}
		}
	})
	if n == 0 {
		return false, v
	}
	return all, bad
}

// paramIndex returns the index of the parameter among fn.Params, or -1.
func paramIndex(fn *ssa.Function, v ssa.Value) int {
	for i, p := range fn.Params {
		if p == v {
			return i
		}
	}
	return -1
}

// enclosingParam: if leaf is a Parameter of some function, return (fn, index).
func enclosingParam(leaf ssa.Value) (*ssa.Function, int) {
	p, ok := leaf.(*ssa.Parameter)
	if !ok {
		return nil, -1
	}
	return p.Parent(), paramIndex(p.Parent(), p)
}

// staticCallee of a value that is a call.
func calleeOf(v ssa.Value) *ssa.Function {
	if call, ok := v.(*ssa.Call); ok {
		return call.Call.StaticCallee()
	}
	return nil
}

// callOfExtract: if v is Extract(call, i) or the call itself, returns call, index.
func callOfValue(v ssa.Value) (*ssa.Call, int) {
	switch x := v.(type) {
	case *ssa.Call:
		return x, 0
	case *ssa.Extract:
		if call, ok := x.Tuple.(*ssa.Call); ok {
			return call, x.Index
		}
	}
	return nil, -1
}

func isErrorType(t types.Type) bool {
	n, ok := t.(*types.Named)
	return ok && n.Obj().Pkg() == nil && n.Obj().Name() == "error"
}

// constInt returns the integer value of a constant ssa value.
func constInt(v ssa.Value) (int64, bool) {
	k, ok := v.(*ssa.Const)
	if !ok || k.Value == nil {
		return 0, false
	}
	if k.Value.Kind() != constant.Int {
		return 0, false
	}
	n, exact := constant.Int64Val(k.Value)
	return n, exact
}

// ---------------------------------------------------------------------------
// cut-set reachability: is `target` reachable from the entry block when the
// edges selected by `cut` are removed? Used for disjunctive guards ("every path to
// the target crosses one of these edges"), which must-facts cannot express.

type edge struct {
	from *ssa.BasicBlock
	succ int
}

func reachableAvoiding(fn *ssa.Function, target *ssa.BasicBlock, cut func(from *ssa.BasicBlock, succIdx int, cond ssa.Value) bool) bool {
	return reachableFromAvoiding(fn.Blocks[0], target, cut)
}

// The search runs over (block, incoming edge) states so that an If on a phi of the same block is
// resolved per incoming edge: a constant edge decides the branch, a non-constant edge becomes the
// effective condition handed to cut.
func reachableFromAvoiding(start, target *ssa.BasicBlock, cut func(from *ssa.BasicBlock, succIdx int, cond ssa.Value) bool) bool {
	type st struct {
		b    *ssa.BasicBlock
		pred int
	}
	seen := map[st]bool{{start, -1}: true}
	stack := []st{{start, -1}}
	for len(stack) > 0 {
		cur := stack[len(stack)-1]
		stack = stack[:len(stack)-1]
		b := cur.b
		if b == target {
			return true
		}
		cond := ifCond(b)
		if phi, ok := cond.(*ssa.Phi); ok && phi.Block() == b && cur.pred >= 0 && cur.pred < len(phi.Edges) {
			cond = phi.Edges[cur.pred]
		}
		for i, s := range b.Succs {
			if cond != nil {
				if k, ok := cond.(*ssa.Const); ok && k.Value != nil && k.Value.Kind() == constant.Bool {
					if constant.BoolVal(k.Value) != (i == 0) {
						continue // infeasible for this incoming edge
					}
				} else if cut != nil && cut(b, i, cond) {
					continue
				}
			}
			pi := -1
			for j, p := range s.Preds {
				if p == b {
					pi = j
					break
				}
			}
			n := st{s, pi}
			if !seen[n] {
				seen[n] = true
				stack = append(stack, n)
			}
		}
	}
	return false
}

// ifCond returns the condition if block b ends in an If.
func ifCond(b *ssa.BasicBlock) ssa.Value {
	if len(b.Instrs) == 0 {
		return nil
	}
	if i, ok := b.Instrs[len(b.Instrs)-1].(*ssa.If); ok {
		return i.Cond
	}
	return nil
}

// ---------------------------------------------------------------------------
// integer range knowledge from branch facts

type intRange struct {
	hasLo, hasHi bool
	lo, hi       int64 // inclusive
	ne           map[int64]bool
}

func (r *intRange) excludes(k int64) bool {
	if r.ne[k] {
		return true
	}
	if r.hasLo && k < r.lo {
		return true
	}
	if r.hasHi && k > r.hi {
		return true
	}
	return false
}

func (r *intRange) setLo(k int64) {
	if !r.hasLo || k > r.lo {
		r.hasLo, r.lo = true, k
	}
}

func (r *intRange) setHi(k int64) {
	if !r.hasHi || k < r.hi {
		r.hasHi, r.hi = true, k
	}
}

// sameVar reports whether a and b denote the same Go value: identical SSA values, or
// conversions (ChangeType / same-size Convert) of the same value, or loads of the same
// never-reassigned variable cell.
func (c *Ctx) sameVar(a, b ssa.Value) bool {
	a, b = stripConv(a), stripConv(b)
	if a == b {
		return true
	}
	la, ok1 := a.(*ssa.UnOp)
	lb, ok2 := b.(*ssa.UnOp)
	if ok1 && ok2 && la.Op == token.MUL && lb.Op == token.MUL {
		ca, cb := c.varCell(la.X), c.varCell(lb.X)
		if ca != nil && ca == cb && len(c.storesTo(ca)) <= 1 {
			return true
		}
	}
	return false
}

func stripConv(v ssa.Value) ssa.Value {
	for {
		switch x := v.(type) {
		case *ssa.ChangeType:
			v = x.X
		default:
			return v
		}
	}
}

// rangeAt derives what the branch facts on entry to block b say about integer value v
// compared with integer constants.
func (c *Ctx) rangeAt(b *ssa.BasicBlock, v ssa.Value) intRange {
	return c.rangeFromFacts(c.factsAt(b), v)
}

func (c *Ctx) rangeFromFacts(facts map[fact]bool, v ssa.Value) intRange {
	r := intRange{ne: map[int64]bool{}}
	for f := range facts {
		bo, ok := f.cond.(*ssa.BinOp)
		if !ok {
			continue
		}
		op := bo.Op
		var k int64
		var isK bool
		switch {
		case c.sameVar(bo.X, v):
			k, isK = constInt(bo.Y)
		case c.sameVar(bo.Y, v):
			k, isK = constInt(bo.X)
			op = flipOp(op)
		default:
			continue
		}
		if !isK {
			continue
		}
		if !f.pol {
			op = negateOp(op)
		}
		switch op {
		case token.EQL:
			r.setLo(k)
			r.setHi(k)
		case token.NEQ:
			r.ne[k] = true
		case token.LSS:
			r.setHi(k - 1)
		case token.LEQ:
			r.setHi(k)
		case token.GTR:
			r.setLo(k + 1)
		case token.GEQ:
			r.setLo(k)
		}
	}
	return r
}

// nilCmp: v is a comparison of something with the nil constant, in either operand order; x is the something.
func nilCmp(v ssa.Value) (x ssa.Value, op token.Token, ok bool) {
	bo, isBin := v.(*ssa.BinOp)
	if !isBin || (bo.Op != token.EQL && bo.Op != token.NEQ) {
		return nil, 0, false
	}
	switch {
	case isNilConst(bo.Y):
		return bo.X, bo.Op, true
	case isNilConst(bo.X):
		return bo.Y, bo.Op, true
	}
	return nil, 0, false
}

// cmpConst: v compares something with an integer constant, in either operand order; normalised to "x op k".
func cmpConst(v ssa.Value) (x ssa.Value, op token.Token, k int64, ok bool) {
	bo, isBin := v.(*ssa.BinOp)
	if !isBin {
		return nil, 0, 0, false
	}
	switch bo.Op {
	case token.EQL, token.NEQ, token.LSS, token.LEQ, token.GTR, token.GEQ:
	default:
		return nil, 0, 0, false
	}
	if k, isK := constInt(bo.Y); isK {
		if _, both := constInt(bo.X); !both {
			return bo.X, bo.Op, k, true
		}
	}
	if k, isK := constInt(bo.X); isK {
		return bo.Y, flipOp(bo.Op), k, true
	}
	return nil, 0, 0, false
}

func flipOp(op token.Token) token.Token {
	switch op {
	case token.LSS:
		return token.GTR
	case token.LEQ:
		return token.GEQ
	case token.GTR:
		return token.LSS
	case token.GEQ:
		return token.LEQ
	}
	return op
}

func negateOp(op token.Token) token.Token {
	switch op {
	case token.EQL:
		return token.NEQ
	case token.NEQ:
		return token.EQL
	case token.LSS:
		return token.GEQ
	case token.LEQ:
		return token.GTR
	case token.GTR:
		return token.LEQ
	case token.GEQ:
		return token.LSS
	}
	return token.ILLEGAL
}

// reachingStores: the stores to a variable cell that may supply the value read at `use` (a load in the
// declaring function or in a closure capturing the variable). A store in the declaring function that is
// overwritten on every path by a later store dominating the use (or the creation of the closure) is left
// out; stores made inside closures are always kept.
func (c *Ctx) reachingStores(cell *ssa.Alloc, use ssa.Instruction) []*ssa.Store {
	all := c.storesTo(cell)
	F := cell.Parent()
	var points []ssa.Instruction
	closure := false
	if use.Parent() == F {
		points = []ssa.Instruction{use}
	} else {
		closure = true
		g := use.Parent()
		for g != nil && g.Parent() != F {
			g = g.Parent()
		}
		if g == nil {
			return all
		}
		eachInstr(F, func(in ssa.Instruction) {
			if mc, ok := in.(*ssa.MakeClosure); ok && mc.Fn == g {
				points = append(points, mc)
			}
		})
	}
	if len(points) != 1 {
		return all
	}
	p := points[0]
	idx := func(in ssa.Instruction) int {
		for i, x := range in.Block().Instrs {
			if x == in {
				return i
			}
		}
		return -1
	}
	dominates := func(a, b ssa.Instruction) bool {
		if a.Block() == b.Block() {
			return idx(a) < idx(b)
		}
		return a.Block().Dominates(b.Block())
	}
	reach := func(a, b ssa.Instruction) bool {
		if a.Block() == b.Block() && idx(a) < idx(b) {
			return true
		}
		seen := map[*ssa.BasicBlock]bool{}
		work := append([]*ssa.BasicBlock{}, a.Block().Succs...)
		for len(work) > 0 {
			x := work[len(work)-1]
			work = work[:len(work)-1]
			if seen[x] {
				continue
			}
			seen[x] = true
			if x == b.Block() {
				return true
			}
			work = append(work, x.Succs...)
		}
		return false
	}
	var d *ssa.Store
	for _, s := range all {
		if s.Parent() != F || !dominates(s, p) {
			continue
		}
		if d == nil || dominates(d, s) {
			d = s
		}
	}
	if d == nil {
		return all
	}
	var out []*ssa.Store
	for _, s := range all {
		switch {
		case s == d, s.Parent() != F:
			out = append(out, s)
		case reach(d, s) && (closure || reach(s, p)):
			out = append(out, s)
		}
	}
	return out
}
