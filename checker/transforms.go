package main

import (
	"bytes"
	"go/ast"
	"go/parser"
	"go/printer"
	"go/token"
	"os"
	"path/filepath"
	"strings"
)

// Behaviour-preserving source-to-source rewrites applied to EVERY library file of the tree under test, in
// memory. They are the harshest neutral variants of the self-test: every rule of every property must stay
// silent on a tree that differs from today's only in spelling. (They are not "realistic edits" taken one by
// one - nobody rewrites a whole code base this way - but each single instance is, and a rule that trips on
// the family trips on the instance.)
type astTransform func(fset *token.FileSet, f *ast.File) int

var astTransforms = map[string]astTransform{
	// x == nil -> nil == x, a < b -> b > a, ... where both operands are free of side effects
	"flip-comparisons": flipComparisons,
	// if c { A } else { B } (no init statement, plain else block) -> if !c { B } else { A }
	"invert-if-else": invertIfElse,
	// if c { ... }  (no else, no init) -> switch { case c: ... }
	"if-to-switch": ifToSwitch,
	// if c { ...; return }; rest  ->  if c { ...; return } else { rest }
	"early-return-to-else": earlyReturnToElse,
	// return f(x) in a function with one result -> r0 := f(x); return r0
	"return-via-temp": returnViaTemp,
	// every identifier that a rule uses as an anchor by name (and that is distinctive enough to be renamed by
	// spelling alone) gets another name: the rules have to re-identify their functions (anchors.go)
	"rename-anchors": renameAnchors,
	// if a && b { S } (no else, no init) -> if a { if b { S } }
	"split-and-conditions": splitAndConditions,
	// if f(x) op y { ... } (a statement of a block, no init) -> c0tmp := f(x); if c0tmp op y { ... }
	"hoist-call-from-condition": hoistCallFromCondition,
	// every function that returns something starts with `defer func() {}()`: go/ssa then spills every returned
	// value through a slot (the shape a real `defer mu.Unlock()` gives a function; met with seed C05h)
	"add-noop-defer": addNoopDefer,
}

func addNoopDefer(fset *token.FileSet, f *ast.File) int {
	n := 0
	for _, d := range f.Decls {
		fd, ok := d.(*ast.FuncDecl)
		if !ok || fd.Body == nil || fd.Type.Results == nil || len(fd.Type.Results.List) == 0 {
			continue
		}
		// named results can be changed by a deferred closure: leave those functions alone (none would be, but the
		// spill is then not an exact no-op for the analysis)
		named := false
		for _, r := range fd.Type.Results.List {
			if len(r.Names) > 0 {
				named = true
			}
		}
		if named {
			continue
		}
		def := &ast.DeferStmt{Call: &ast.CallExpr{Fun: &ast.FuncLit{Type: &ast.FuncType{Params: &ast.FieldList{}}, Body: &ast.BlockStmt{}}}}
		fd.Body.List = append([]ast.Stmt{def}, fd.Body.List...)
		n++
	}
	return n
}

func splitAndConditions(fset *token.FileSet, f *ast.File) int {
	n := 0
	ast.Inspect(f, func(nd ast.Node) bool {
		is, ok := nd.(*ast.IfStmt)
		if !ok || is.Init != nil || is.Else != nil {
			return true
		}
		be, ok := is.Cond.(*ast.BinaryExpr)
		if !ok || be.Op != token.LAND {
			return true
		}
		inner := &ast.IfStmt{Cond: be.Y, Body: is.Body}
		is.Cond = be.X
		is.Body = &ast.BlockStmt{List: []ast.Stmt{inner}}
		n++
		return true
	})
	return n
}

func hoistCallFromCondition(fset *token.FileSet, f *ast.File) int {
	n := 0
	var rewrite func(list []ast.Stmt) []ast.Stmt
	rewrite = func(list []ast.Stmt) []ast.Stmt {
		var out []ast.Stmt
		for _, st := range list {
			is, ok := st.(*ast.IfStmt)
			if ok && is.Init == nil {
				if be, ok := is.Cond.(*ast.BinaryExpr); ok {
					switch be.Op {
					case token.EQL, token.NEQ, token.LSS, token.LEQ, token.GTR, token.GEQ:
						if ce, ok := be.X.(*ast.CallExpr); ok {
							// not for type conversions spelled as calls of a parenthesised or composite type, nor builtins
							if id, isId := ce.Fun.(*ast.Ident); !isId || (id.Name != "len" && id.Name != "cap" && id.Name != "new" && id.Name != "make") {
								if _, isParen := ce.Fun.(*ast.ParenExpr); !isParen {
									name := "c0tmp"
									out = append(out, &ast.BlockStmt{List: []ast.Stmt{
										&ast.AssignStmt{Lhs: []ast.Expr{ast.NewIdent(name)}, Tok: token.DEFINE, Rhs: []ast.Expr{ce}},
										&ast.IfStmt{Cond: &ast.BinaryExpr{X: ast.NewIdent(name), Op: be.Op, Y: be.Y}, Body: is.Body, Else: is.Else},
									}})
									n++
									continue
								}
							}
						}
					}
				}
			}
			out = append(out, st)
		}
		return out
	}
	ast.Inspect(f, func(nd ast.Node) bool {
		switch x := nd.(type) {
		case *ast.BlockStmt:
			// a block whose statements declare variables used later cannot have them wrapped: only the if itself is wrapped
			x.List = rewrite(x.List)
		case *ast.CaseClause:
			x.Body = rewrite(x.Body)
		}
		return true
	})
	return n
}

func endsInReturn(b *ast.BlockStmt) bool {
	if len(b.List) == 0 {
		return false
	}
	_, ok := b.List[len(b.List)-1].(*ast.ReturnStmt)
	return ok
}

func declares(list []ast.Stmt) bool {
	// moving statements into an else block changes the scope of what they declare; only safe when nothing after
	// them (there is nothing after them: they are the rest of the block) - so declarations are fine, but labels are not
	for _, st := range list {
		if _, ok := st.(*ast.LabeledStmt); ok {
			return true
		}
	}
	return false
}

func earlyReturnToElse(fset *token.FileSet, f *ast.File) int {
	n := 0
	var rewrite func(list []ast.Stmt) []ast.Stmt
	rewrite = func(list []ast.Stmt) []ast.Stmt {
		for i, st := range list {
			is, ok := st.(*ast.IfStmt)
			if !ok || is.Else != nil || !endsInReturn(is.Body) || i == len(list)-1 {
				continue
			}
			rest := list[i+1:]
			if declares(rest) {
				continue
			}
			// only at function level blocks whose last statement is a return (so that falling out of the else
			// block cannot reach a "missing return")
			if _, ok := rest[len(rest)-1].(*ast.ReturnStmt); !ok {
				continue
			}
			is.Else = &ast.BlockStmt{List: append([]ast.Stmt{}, rest...)}
			n++
			return append(list[:i:i], is)
		}
		return list
	}
	ast.Inspect(f, func(nd ast.Node) bool {
		switch x := nd.(type) {
		case *ast.FuncDecl:
			if x.Body != nil && x.Type.Results != nil && len(x.Type.Results.List) > 0 {
				x.Body.List = rewrite(x.Body.List)
			}
		case *ast.FuncLit:
			if x.Type.Results != nil && len(x.Type.Results.List) > 0 {
				x.Body.List = rewrite(x.Body.List)
			}
		}
		return true
	})
	return n
}

func returnViaTemp(fset *token.FileSet, f *ast.File) int {
	n := 0
	single := func(ft *ast.FuncType) bool {
		return ft.Results != nil && len(ft.Results.List) == 1 && len(ft.Results.List[0].Names) <= 1
	}
	var doBlock func(list []ast.Stmt) []ast.Stmt
	doBlock = func(list []ast.Stmt) []ast.Stmt {
		var out []ast.Stmt
		for _, st := range list {
			if rs, ok := st.(*ast.ReturnStmt); ok && len(rs.Results) == 1 {
				if ce, ok := rs.Results[0].(*ast.CallExpr); ok {
					if id, isId := ce.Fun.(*ast.Ident); !isId || (id.Name != "panic" && id.Name != "nil") {
						tmp := ast.NewIdent("r0tmp")
						out = append(out, &ast.AssignStmt{Lhs: []ast.Expr{tmp}, Tok: token.DEFINE, Rhs: []ast.Expr{ce}})
						out = append(out, &ast.ReturnStmt{Results: []ast.Expr{ast.NewIdent("r0tmp")}})
						n++
						continue
					}
				}
			}
			out = append(out, st)
		}
		return out
	}
	var visitFunc func(body *ast.BlockStmt)
	visitFunc = func(body *ast.BlockStmt) {
		ast.Inspect(body, func(nd ast.Node) bool {
			switch x := nd.(type) {
			case *ast.FuncLit:
				if single(x.Type) {
					visitFunc(x.Body)
				}
				return false
			case *ast.BlockStmt:
				x.List = doBlock(x.List)
			case *ast.CaseClause:
				x.Body = doBlock(x.Body)
			case *ast.CommClause:
				x.Body = doBlock(x.Body)
			}
			return true
		})
	}
	for _, d := range f.Decls {
		if fd, ok := d.(*ast.FuncDecl); ok && fd.Body != nil && single(fd.Type) {
			visitFunc(fd.Body)
		}
	}
	return n
}

func pureExpr(e ast.Expr) bool {
	switch x := e.(type) {
	case *ast.Ident, *ast.BasicLit:
		return true
	case *ast.SelectorExpr:
		return pureExpr(x.X)
	case *ast.ParenExpr:
		return pureExpr(x.X)
	case *ast.UnaryExpr:
		return x.Op != token.ARROW && x.Op != token.AND && pureExpr(x.X)
	case *ast.StarExpr:
		return false // may panic: evaluation order would be observable
	case *ast.CallExpr:
		if id, ok := x.Fun.(*ast.Ident); ok && (id.Name == "len" || id.Name == "cap") && len(x.Args) == 1 {
			return pureExpr(x.Args[0])
		}
		// conversions to a basic type spelled as a call: T(x)
		if id, ok := x.Fun.(*ast.Ident); ok && len(x.Args) == 1 {
			switch id.Name {
			case "int", "int8", "int16", "int32", "int64", "uint", "uint8", "uint16", "uint32", "uint64", "float32", "float64", "rune", "byte", "Integer", "Float":
				return pureExpr(x.Args[0])
			}
		}
	}
	return false
}

func flipComparisons(fset *token.FileSet, f *ast.File) int {
	n := 0
	flip := map[token.Token]token.Token{token.EQL: token.EQL, token.NEQ: token.NEQ, token.LSS: token.GTR, token.GTR: token.LSS, token.LEQ: token.GEQ, token.GEQ: token.LEQ}
	ast.Inspect(f, func(nd ast.Node) bool {
		be, ok := nd.(*ast.BinaryExpr)
		if !ok {
			return true
		}
		op, ok := flip[be.Op]
		if !ok || !pureExpr(be.X) || !pureExpr(be.Y) {
			return true
		}
		be.X, be.Y, be.Op = be.Y, be.X, op
		n++
		return true
	})
	return n
}

func invertIfElse(fset *token.FileSet, f *ast.File) int {
	n := 0
	ast.Inspect(f, func(nd ast.Node) bool {
		is, ok := nd.(*ast.IfStmt)
		if !ok || is.Init != nil || is.Else == nil {
			return true
		}
		eb, ok := is.Else.(*ast.BlockStmt)
		if !ok {
			return true // else-if chain
		}
		is.Cond = &ast.UnaryExpr{Op: token.NOT, X: &ast.ParenExpr{X: is.Cond}}
		is.Body, is.Else = eb, is.Body
		n++
		return true
	})
	return n
}

func ifToSwitch(fset *token.FileSet, f *ast.File) int {
	n := 0
	var rewrite func(list []ast.Stmt)
	rewrite = func(list []ast.Stmt) {
		for i, st := range list {
			is, ok := st.(*ast.IfStmt)
			if !ok || is.Init != nil || is.Else != nil {
				continue
			}
			// a break inside the body would now leave the switch instead of an enclosing loop
			hasBreak := false
			ast.Inspect(is.Body, func(x ast.Node) bool {
				switch b := x.(type) {
				case *ast.BranchStmt:
					if b.Tok == token.BREAK && b.Label == nil {
						hasBreak = true
					}
				case *ast.ForStmt, *ast.RangeStmt, *ast.SwitchStmt, *ast.TypeSwitchStmt, *ast.SelectStmt, *ast.FuncLit:
					return false
				}
				return true
			})
			if hasBreak {
				continue
			}
			list[i] = &ast.SwitchStmt{Body: &ast.BlockStmt{List: []ast.Stmt{&ast.CaseClause{List: []ast.Expr{is.Cond}, Body: is.Body.List}}}}
			n++
		}
	}
	ast.Inspect(f, func(nd ast.Node) bool {
		switch x := nd.(type) {
		case *ast.BlockStmt:
			rewrite(x.List)
		case *ast.CaseClause:
			rewrite(x.Body)
		case *ast.CommClause:
			rewrite(x.Body)
		}
		return true
	})
	return n
}

// transformOverlay applies the named transform to every non-test .go file of the library packages.
func transformOverlay(dir, name string) (map[string][]byte, bool) {
	if name == "extract-guards" {
		return extractGuardsOverlay(dir)
	}
	tr := astTransforms[name]
	if tr == nil {
		return nil, false
	}
	ov := map[string][]byte{}
	total := 0
	for _, sub := range []string{".", "engine"} {
		ents, err := os.ReadDir(filepath.Join(dir, sub))
		if err != nil {
			return nil, false
		}
		for _, e := range ents {
			if e.IsDir() || !strings.HasSuffix(e.Name(), ".go") || strings.HasSuffix(e.Name(), "_test.go") {
				continue
			}
			path := filepath.Join(dir, sub, e.Name())
			fset := token.NewFileSet()
			f, err := parser.ParseFile(fset, path, nil, parser.ParseComments)
			if err != nil {
				return nil, false
			}
			k := tr(fset, f)
			if k == 0 {
				continue
			}
			total += k
			var buf bytes.Buffer
			if err := printer.Fprint(&buf, fset, f); err != nil {
				return nil, false
			}
			ov[path] = buf.Bytes()
		}
	}
	return ov, total > 0
}

func init() {
	names := []string{"extract-guards"}
	for name := range astTransforms {
		names = append(names, name)
	}
	for _, name := range names {
		for _, pd := range properties {
			variants = append(variants, Variant{Name: name + "-" + pd.ID, Prop: pd.ID, Rule: "*", Breaking: false, Transform: name,
				Note: "behaviour-preserving rewrite of every library file: " + name})
		}
	}
}

var renamedAnchors = map[string]bool{}

func init() {
	for _, n := range strings.Fields("atomElipsis atomThen atomDot atomComma atomEqual atomNegation binaryFunctors bindingPriorities collectionOf dcgBody dcgCBody dcgNonTerminal dcgTerminals expandDCG floatItoF isSingleQuotedCharacter letterDigit graphic newRuneRingBuffer permissionError renamedCopy rootEnv simplify term0Atom termOf validateOp writeCompoundFunctionalNotation sameClause assertMerge prepareRead initRead numericEscape nth comparands") {
		renamedAnchors[n] = true
	}
}

func renameAnchors(fset *token.FileSet, f *ast.File) int {
	n := 0
	ast.Inspect(f, func(nd ast.Node) bool {
		if id, ok := nd.(*ast.Ident); ok && renamedAnchors[id.Name] {
			id.Name += "Renamed"
			n++
		}
		return true
	})
	return n
}
