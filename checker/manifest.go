package main

import (
	"encoding/json"
	"fmt"
	"os"
	"strings"
)

// pending lists properties of properties.jsonl that have no rule yet; they are
// reported under not_applicable with the reason given here.
var notClaimed = map[string]string{}

func allPropertyIDs() []string {
	var ids []string
	for i := 1; i <= 20; i++ {
		ids = append(ids, fmt.Sprintf("C%02d", i))
	}
	return ids
}

func writeManifest(path string) error {
	type level struct {
		Category  string `json:"category"`
		Text      string `json:"text"`
		DesignRef string `json:"design_ref"`
	}
	type check struct {
		PropertyID   string `json:"property_id"`
		QuickCmd     string `json:"quick_cmd"`
		ThoroughCmd  string `json:"thorough_cmd"`
		EvidenceFile string `json:"evidence_file"`
		ReplayCmd    string `json:"replay_cmd_template"`
		Engine       string `json:"engine"`
		Level        level  `json:"level_claimed"`
		LevelNote    string `json:"level_note"`
		Technique    string `json:"technique"`
	}
	type na struct {
		PropertyID string `json:"property_id"`
		Reason     string `json:"reason"`
	}
	var checks []check
	nas := []na{}
	var served []string
	for _, id := range allPropertyIDs() {
		pd := findProperty(id)
		if pd == nil || len(pd.Rules) == 0 {
			reason := notClaimed[id]
			if reason == "" {
				reason = "no sound static rule is implemented for this property yet; see DESIGN.md §7"
			}
			nas = append(nas, na{id, reason})
			continue
		}
		served = append(served, id)
		var rules []string
		for _, r := range pd.Rules {
			rules = append(rules, r.ID)
		}
		checks = append(checks, check{
			PropertyID:   id,
			QuickCmd:     fmt.Sprintf("/verif/bin/pvcheck -p %s -tier quick", id),
			ThoroughCmd:  fmt.Sprintf("/verif/bin/pvcheck -p %s -tier thorough", id),
			EvidenceFile: fmt.Sprintf("/verif/evidence/%s.json", id),
			ReplayCmd:    "/verif/bin/pvcheck -replay {path}",
			Engine:       "pvcheck",
			Level: level{
				Category:  "other",
				Text:      "Static necessary-condition analysis: every instance of the rules " + strings.Join(rules, ", ") + " is enumerated from the current source of /repo (type-checked program, SSA, branch facts, call graph) and discharged or reported. Decides: " + pd.Decides + " The verdict holds for every input/schedule at once for these structural clauses; it does not establish the behavioural core of the property.",
				DesignRef: "DESIGN.md §4 " + id,
			},
			LevelNote: "Not decided by this family: " + pd.NotDecided + " Trusted base: go/types, go/ssa, x/tools call graph (CHA quick, VTA thorough); bootstrap.pl is not analysed.",
			Technique: "static analysis: custom go/ssa + go/types rules (" + strings.Join(rules, ", ") + ")",
		})
	}
	m := map[string]interface{}{
		"version":   1,
		"setup_cmd": "cd /verif/checker && GOFLAGS=-mod=mod GOPROXY=off GOSUMDB=off GOTOOLCHAIN=local GOWORK=off go build -o /verif/bin/pvcheck .",
		"hooks": map[string]interface{}{
			"guard":            "verif",
			"enable":           "static analysis needs no instrumentation; the loader passes -tags=verif so that guarded files, if any are ever added, are analysed",
			"baseline_off_cmd": "cd /repo && GOFLAGS=-mod=mod GOPROXY=off GOSUMDB=off go test -json -vet=off -count=1 -timeout 25m ./...",
			"source_commits":   []string{},
			"add_only":         true,
		},
		"engines": []map[string]interface{}{{
			"name":              "pvcheck",
			"path":              "/verif/checker",
			"serves_properties": served,
			"kind_free_text":    "repository-specific static analyser (Go, golang.org/x/tools v0.29.0: go/packages, go/ssa, go/types, callgraph cha/vta); one rule family per structural clause; thorough tier adds GOARCH=386/arm64 builds, VTA call graph and overlay-based mutant self-validation",
		}},
		"checks":         checks,
		"not_applicable": nas,
		"notes":          "All claims are level 'other' (static necessary-condition analysis). Known findings: /verif/known_findings.json. Seeded changes: /verif/seeded/. See DESIGN.md.",
	}
	b, err := json.MarshalIndent(m, "", " ")
	if err != nil {
		return err
	}
	return os.WriteFile(path, append(b, '\n'), 0o644)
}
