package main

func buildProperties() []Property {
	return []Property{
		{
			ID: "C05", Title: "No input crashes or wedges the host; every failure is a Prolog error term",
			Decides:    "panic classes visible in code shape (zero divisor, negative shift, uncomparable interface comparison, missing table row)",
			NotDecided: "termination on arbitrary text, slice bounds in general, memory exhaustion",
			Rules: []RuleDef{
				{"R-DIV-GUARD", 3, ruleDivGuard},
				{"R-SHIFT-GUARD", 2, ruleShiftGuard},
				{"R-IFACE-EQ", 10, ruleIfaceEq},
				{"R-ENUM-TOTAL", 15, ruleEnumTotal},
			},
		},
	}
}
