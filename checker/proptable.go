package main

func buildProperties() []Property {
	return []Property{
		{
			ID: "C02", Title: "Unification yields a most general unifier, whatever the term representation",
			Decides:    "a failed unification leaves no binding (environments are persistent: every Env store targets a node private to the writer); unify_with_occurs_check applies the check at every depth and before every bind; atomic terms are compared with a total non-panicking equality; every slice/string encoding of a list reports './2 through the Compound interface.",
			NotDecided: "most-generality, symmetry, idempotence, and that Arg(n) of the four list encodings denotes the same abstract argument (algebraic laws over all term pairs).",
			Rules: []RuleDef{
				{"R-ENV-IMMUT", 9, ruleEnvImmut},
				{"R-PARAM-THREAD", 5, ruleParamThread(threadRowsFor("unify", "contains"))},
				{"R-OCCURS-SITE", 2, ruleOccursSite},
				{"R-IFACE-EQ", 10, ruleIfaceEq},
				{"R-COMPOUND-UNIFORM", 7, ruleCompoundUniform},
			},
		},
		{
			ID: "C07", Title: "Arithmetic is exact or raises an evaluation error; comparisons are numeric",
			Decides:    "integer evaluables never route through float64; full-range + - * neg are paired with an int_overflow branch; / % divisors and shift counts are guarded; float->integer conversions are range-guarded with the actual constants; the 2x2 type dispatch of the six comparison predicates and of the mixed-mode arithmetic computes the operator the ISO name prescribes.",
			NotDecided: "value correctness of guards that are present but wrong (the sign error in mulF/divF, O2), IEEE results of the float functions, deeper expression trees.",
			Rules: []RuleDef{
				{"R-INT-EXACT", 10, ruleIntExact},
				{"R-OVERFLOW-GUARD", 5, ruleOverflowGuard},
				{"R-DIV-GUARD", 3, ruleDivGuard},
				{"R-SHIFT-GUARD", 2, ruleShiftGuard},
				{"R-FTOI-RANGE", 4, ruleFtoIRange},
				{"R-DISPATCH-FAMILY", 30, ruleDispatchFamily},
			},
		},
		{
			ID: "C05", Title: "No input crashes or wedges the host; every failure is a Prolog error term",
			Decides:    "panic classes visible in code shape (zero divisor, negative shift, uncomparable interface comparison, missing table row)",
			NotDecided: "termination on arbitrary text, slice bounds in general, memory exhaustion",
			Rules: []RuleDef{
				{"R-DIV-GUARD", 3, ruleDivGuard},
				{"R-SHIFT-GUARD", 2, ruleShiftGuard},
				{"R-IFACE-EQ", 10, ruleIfaceEq},
				{"R-ENUM-TOTAL", 15, ruleEnumTotal},
			},
		},
	}
}

func threadRowsFor(fns ...string) []threadRow {
	var out []threadRow
	for _, r := range threadRows {
		for _, f := range fns {
			if r.fn == f {
				out = append(out, r)
			}
		}
	}
	return out
}
