package main

func buildProperties() []Property {
	return []Property{
		{
			ID: "C17", Title: "DCG translation preserves the language and the threading of the remainder",
			Decides:    "a necessary condition of 'leaves exactly the unconsumed remainder': in every entry of the construct table and in the non-terminal/terminal helpers the remainder is reachable from the input list over the hidden-argument pairs handed to sub-translations and constructed goals, every fresh difference-list variable is fed by that threading, and the rule translator connects head and body through its fresh variables. This is the thinnest claim of the set. The left operand of a generated conjunction never ends at the caller's remainder (steadfastness). A conjunction nested on the left (the shape the translation gives every non-final '!') is part of the clause body's sequence, so the cut is the clause's cut. The push-back terminals of `H, PB --> B` lead from the head's remainder to the body's remainder.",
			NotDecided: "language preservation, argument bindings, cut and negation semantics inside bodies.",
			Rules: []RuleDef{
				{"R-SEQ-FLATTEN", 1, ruleSeqFlatten},
				{"R-RESOLVE-ALL", 3, ruleResolveAll("C17")},
				{"R-DCG-THREAD", 14, ruleDCGThread},
				{"R-DCG-STEADFAST", 4, ruleDCGSteadfast},
				{"R-DCG-CBODY-TESTED", 1, ruleDCGCBodyTested},
				{"R-DCG-LOOKAHEAD", 1, ruleDCGLookahead},
			},
		},
		{
			ID: "C06", Title: "Text written by writeq/write_canonical reads back as the same term",
			Decides:    "agreement of the writer's and the reader's tables and exactness of the number paths: every escape the writer can emit is accepted by the lexer class, matched by the reader's pattern and mapped back to the same character; quote, backslash and control characters always trigger escaping; floats are written with the shortest round-tripping representation and read by one correctly rounding conversion; write_term/3 and read_term/3 use the VM's one operator table. The write options are extended copy-on-write: a map reached through an options struct received by value is never updated in place. Integer and Float agree on blanks and parentheses next to operators (zero and negative zero included); a character is written verbatim inside quotes only if the lexer's own predicate accepts it; the functor of functional notation is written without an operator table; only the token `_` is anonymous; the reader produces no infinite Float; the sign of an integer literal reaches its range test; a token continues as valid after a numeric escape only if utf8.ValidRune accepted the value of the escape (so the escape writeq emits for U+FFFD reads back, and an escape that denotes no character is refused in every kind of token). A term between ( ) or { } is read with the priority of a whole read-term; an infix or postfix operator is accepted only if its own priority fits the maximum and the left operand fits its left side; Float and Integer both write a blank before a letter-digit operator on their right.",
			NotDecided: "bracketing/spacing correctness for operator contexts - the heart of the round trip - which depends on pairs (context operator, operand) over all tables.",
			Rules: []RuleDef{
				{"R-INT-LITERAL-SIGNED", 1, ruleIntLiteralSigned},
				{"R-FUNCTOR-NOT-OPERAND", 1, ruleFunctorNotOperand},
				{"R-QUOTE-AGREES", 2, ruleQuoteAgrees},
				{"R-NUMBER-WRITE-SIBLINGS", 6, ruleNumberWriteSiblings},
				{"R-FLOAT-FINITE", 1, ruleFloatFinite},
				{"R-ANON-VAR", 2, ruleAnonVar},
				{"R-MAP-COW", 4, ruleMapCOW},
				{"R-ESCAPE-TABLES", 12, ruleEscapeTables},
				{"R-ESCAPE-VALIDATED", 1, ruleEscapeValidated},
				{"R-BRACKET-PRIORITY", 2, ruleBracketPriority},
				{"R-INFIX-PRIORITY", 2, ruleInfixPriority},
				{"R-ELLIPSIS-GUARDED", 5, ruleEllipsisGuarded},
				{"R-FLOAT-TEXT", 2, ruleFloatText},
				{"R-TEXT-RUNE", 8, ruleTextRune},
				{"R-OPS-SOURCE", 4, ruleOpsSource},
			},
		},
		{
			ID: "C16", Title: "Relational built-ins enumerate exactly their relation in every call mode",
			Decides:    "the clause 'text measured in characters, not bytes': in the atom-processing builtins (resolved from the registration calls) a string obtained from an atom is measured and indexed only through []rune or range offsets; its byte length feeds only capacities and zero tests; it is sliced only at offsets produced by ranging over the same string. Every built-in inspects the dynamic type of an argument only after resolving it (mode discrimination is made on the resolved term); no cutset-taking strings function is given computed text. A Prolog integer is bounded inside the range of the narrow Go type before it is converted (character codes, bytes), and a code becomes text only after utf8.ValidRune accepted it (char_code/2, atom_codes/2 and number_codes/2 agree: surrogate halves are refused). member/2 and select/3 in bootstrap.pl have pure clauses (token-level rule).",
			NotDecided: "completeness and exactly-once enumeration in every mode - behavioural.",
			Rules: []RuleDef{
				{"R-ATOM-CANONICAL", 1, ruleAtomCanonical},
				{"R-CODE-NARROW", 5, ruleCodeNarrow},
				{"R-CODE-VALID", 3, ruleCodeValid},
				{"R-BOOTSTRAP-PURE", 4, ruleBootstrapPure},
				{"R-BIND-RESOLVED", 2, ruleBindResolved},
				{"R-TAIL-CDR", 1, ruleTailCdr},
				{"R-TRIM-CUTSET", 1, ruleTrimCutset},
				{"R-RESOLVE-ALL", 130, ruleResolveAll("C16")},
				{"R-TEXT-RUNE", 8, ruleTextRune},
				{"R-INT-WRAP", 3, ruleIntWrap},
			},
		},
		{
			ID: "C19", Title: "A stream is one forward cursor: peeks do not consume, nothing skipped/repeated",
			Decides:    "the cursor bookkeeping (buffer, position, end-of-stream, last rune size) is touched only by the stream's own methods; each method that moves the underlying reader/writer moves `position` in the same direction by the amount transferred, on the success edge; peek_char/peek_byte install the matching un-read on every path after their read and get_* never un-read; read_term/3 un-reads exactly once on the stream its parser was built on. Byte-unit operations on the underlying reader run only under streamType == binary and rune-unit operations only under text. A peek gives back what it read before the continuation can run and only when the read succeeded; read_term/3 gives back its look-ahead rune before the continuation runs and does not give back a delivered end of file; the lexer's window never reads its source again after the source has failed; un-reading a look-ahead that found the end takes the stream back to at-the-end. The end-of-stream state becomes `at` only when nothing is buffered. The eof_action is applied only after mode and type of the operation have been checked (a refused operation leaves the stream as it is).",
			NotDecided: "that mixed operation sequences deliver consecutive data, the end-of-stream state machine, that one un-read is enough after read_term (would need the ring's contents, not its depth).",
			Rules: []RuleDef{
				{"R-EOS-AT-EMPTY", 2, ruleEosAtEmpty},
				{"R-STREAM-OWNER", 8, ruleStreamOwner},
				{"R-POSITION-PAIRING", 6, rulePositionPairing},
				{"R-PEEK-UNREAD", 5, rulePeekUnread},
				{"R-STREAM-TYPE-GUARD", 4, ruleStreamTypeGuard},
				{"R-RING-STICKY", 2, ruleRingSticky},
				{"R-UNREAD-EOF", 1, ruleUnreadEOF},
				{"R-EOF-ACTION-PAST", 1, ruleEOFActionPast},
				{"R-LOOKAHEAD", 20, ruleLookahead},
			},
		},
		{
			ID: "C08", Title: "Standard order is total and representation-independent; sorts obey it",
			Decides:    "for every ordered pair of concrete term representations the Compare method, partially evaluated under 'the resolved argument has that dynamic type', returns exactly the constant the documented class order dictates, antisymmetrically (cross-class totality and antisymmetry; transitivity follows from a consistent rank); same-class pairs reach a value comparison; keysort/2 uses a stable sort; sort/2 and setof/3 share one set constructor that orders and deduplicates with Term.Compare. While a consumer tests a Compare result against -1 or 1, every member of the Compare family returns only -1, 0, 1 or another member's result; comparison inspects terms only after resolution. The reader produces no infinite Float (hence no NaN); atoms have one representation per name. Compare of a compound representation asserts the other operand to no other concrete representation than its own.",
			NotDecided: "ordering within a class (atoms by text, compounds by arity/name/args, numeric values), and that different encodings of the same list compare equal.",
			Rules: []RuleDef{
				{"R-ATOM-CANONICAL", 1, ruleAtomCanonical},
				{"R-FLOAT-FINITE", 1, ruleFloatFinite},
				{"R-RESOLVE-ALL", 9, ruleResolveAll("C08")},
				{"R-COMPARE-MATRIX", 100, ruleCompareMatrix},
				{"R-STABLE-KEYSORT", 1, ruleStableKeysort},
				{"R-COMPARE-RANGE", 20, ruleCompareRange},
				{"R-SET-ORDER", 4, ruleSetOrder},
				{"R-COMPARE-ABSTRACT", 4, ruleCompareAbstract},
				{"R-ATOM-ORDER-BY-NAME", 2, ruleAtomOrderByName},
				{"R-COMPOUND-ORDER", 5, ruleCompoundOrder},
				{"R-INT-WRAP", 3, ruleIntWrap},
				{"R-COMPOUND-UNIFORM", 7, ruleCompoundUniform},
			},
		},
		{
			ID: "C14", Title: "Separate interpreters are isolated and run concurrently without data races",
			Decides:    "whole-program discipline for package-level state, recomputed from the source on every run: every run-time write to a package-level variable is under that variable's mutex or atomic; a variable written after init is read only under the lock or atomically; package-level maps are only read after init; no store can reach an object shared through a package-level variable (default write options, singleton promises, root environment). Hence the only state shared between two interpreters is guarded (no data race on library state for any schedule) and nothing one interpreter changes is reachable from another. Nothing that can block or call back (interface method calls, function values, channel operations, callees handed an interface) runs while a package-level lock is held.",
			NotDecided: "equality of answers with a sequential run; races inside host-provided readers/writers; the VM fields themselves (one goroutine per interpreter is assumed by the property).",
			Rules: []RuleDef{
				{"R-LOCK-LEAF", 2, ruleLockLeaf},
				{"R-ATOMIC-RMW", 1, ruleAtomicRMW},
				{"R-GLOBAL-WRITES", 10, only("R-GLOBAL-WRITES", ruleGlobalState)},
				{"R-GLOBAL-READS", 3, only("R-GLOBAL-READS", ruleGlobalState)},
				{"R-GLOBAL-TABLES", 4, only("R-GLOBAL-TABLES", ruleGlobalState)},
				{"R-GLOBAL-ESCAPE", 10, ruleGlobalEscape},
				{"R-INSERT-RECHECK", 1, ruleInsertRecheck},
				{"R-ENV-IMMUT", 9, ruleEnvImmut},
			},
		},
		{
			ID: "C12", Title: "The Solutions iterator never blocks, counts answers exactly and stops on Close",
			Decides:    "typestate of the iterator: no send on the request channel after Close, Close closes it at most once and reports the repeat, no blocking send once the answer channel was found closed (Next after exhaustion returns false instead of blocking), every blocking receive of the search goroutine is released by Close and the answer channel is closed by a deferred close; the answer Scan reads is replaced only by an answer that was received (Scan after exhaustion reports the last one). No built-in runs its continuation from inside a loop of its own body (a stop returned after Close would be stored and ignored).",
			NotDecided: "exactly-once delivery of answers, interleaving of two iterations, promptness, goroutine counts - histories and schedules.",
			Rules: []RuleDef{
				{"R-SCAN-OVERWRITES", 8, ruleScanOverwrites},
				{"R-CLOSE-ONCE", 2, only("R-CLOSE-ONCE", ruleSolutionsTypestate)},
				{"R-NO-SEND-AFTER-CLOSE", 1, only("R-NO-SEND-AFTER-CLOSE", ruleSolutionsTypestate)},
				{"R-NO-SEND-WHEN-EXHAUSTED", 1, only("R-NO-SEND-WHEN-EXHAUSTED", ruleSolutionsTypestate)},
				{"R-GOROUTINE-RELEASE", 2, only("R-GOROUTINE-RELEASE", ruleSolutionsTypestate)},
				{"R-CLOSE-STOPS", 1, ruleCloseStops},
				{"R-ANSWER-KEPT", 1, ruleAnswerKept},
				{"R-CONT-NOT-IN-LOOP", 1, ruleContNotInLoop},
			},
		},
		{
			ID: "C15", Title: "Go values cross the API as data: placeholders = literals, Scan exact or error",
			Decides:    "every narrowing conversion of an answer value in Scan is guarded by an exactness/range test with an error edge (sizes from the analysed build, thorough tier repeats with 32-bit int); placeholder arguments never flow into a reader, lexer or parser constructor (they enter the grammar only as finished terms); a term is returned only when the argument queue is empty and the queue is indexed only when non-empty. The destination of each element conversion into a slice is computed per element inside the loop. An unsigned 64-bit Go integer is converted to Integer only under a bound; left-over placeholder arguments are reported by Term outside text mode and by the loader at the end of a text; reflect.Value.Interface is applied to struct fields only when they are exported, Addr only to fields of an addressable struct, SetMapIndex only to a non-nil map; every typed Scan helper overwrites its destination on every path without error; placeholders and literals are converted under the same double_quotes value (arguments are converted where the placeholder stands; eager conversion would be accepted only if the flag of an existing parser never changed); a float placeholder is finite. The Term types a Scan helper accepts through a Go interface are the text-like ones (computed from the type-checked program); an argument is substituted only for an unquoted placeholder token.",
			NotDecided: "that termOf(v) equals the literal denoting v under every double_quotes setting.",
			Rules: []RuleDef{
				{"R-FLOAT-FINITE", 2, ruleFloatFinite},
				{"R-PLACEHOLDER-FLAG", 1, rulePlaceholderFlag},
				{"R-SCAN-OVERWRITES", 8, ruleScanOverwrites},
				{"R-REFLECT-EXPORTED", 2, ruleReflectExported},
				{"R-INT-CONVERT", 1, ruleIntConvert},
				{"R-SCAN-FRESH-DEST", 1, ruleScanFreshDest},
				{"R-NARROWING", 6, ruleNarrowing},
				{"R-PLACEHOLDER-TAINT", 2, rulePlaceholderTaint},
				{"R-ARGS-CONSUMED", 2, ruleArgsConsumed},
				{"R-SUBST-LAST", 1, ruleSubstLast},
				{"R-STRING-SOURCES", 1, ruleStringSources},
				{"R-PLACEHOLDER-UNQUOTED", 1, rulePlaceholderUnquoted},
			},
		},
		{
			ID: "C09", Title: "Database updates follow the logical update view; retract removes its match",
			Decides:    "no delayed continuation addresses the live clause list by a position computed at call time (the mechanism behind the wrong deletions and the slice-bounds panic); calls iterate clause copies captured eagerly; the live database is written only from code statically reachable from asserta/assertz/retract/abolish/consult, the loader and the registration API. The assert built-ins compile a renamed copy of the given clause and write the database only after the last step that can fail; permission_error(_, static_procedure/private_procedure, _) is raised only for a procedure that exists (abolish/1 of an absent one succeeds). retract/1 calls its continuation only after it has removed a clause; abolish/1 empties the record before it deletes the table entry.",
			NotDecided: "that the final database equals the sequential reference model for every history; front/end insertion order.",
			Rules: []RuleDef{
				{"R-BOOTSTRAP-RETRACTALL", 1, ruleBootstrapRetractall},
				{"R-ASSERT-COPY", 1, ruleAssertCopy},
				{"R-ASSERT-ATOMIC", 1, ruleAssertAtomic},
				{"R-ABSENT-NOT-STATIC", 3, ruleAbsentNotStatic},
				{"R-RETRACT-REMOVES", 1, ruleRetractRemoves},
				{"R-ABOLISH-CLEARS", 1, ruleAbolishClears},
				{"R-CLAUSE-IDENTITY", 1, ruleClauseIdentity},
				{"R-SNAPSHOT", 2, func(c *Ctx, r *Report) { ruleSnapshot(c, r); ruleSnapshotPointers(c, r) }},
				{"R-SLICE-OWNER", 4, ruleSliceOwner},
				{"R-DB-WRITERS", 6, ruleStateWriters("R-DB-WRITERS", [][2]string{{"VM", "procedures"}, {"userDefined", "clauses"}},
					[]string{"asserta/1", "assertz/1", "retract/1", "abolish/1", "consult/1"}, "the clause database is updated only by the database-updating predicates, the loader and the registration API")},
			},
		},
		{
			ID: "C10", Title: "A stored clause is the clause that was given, and it executes as that clause",
			Decides:    "the term kept for clause/2 and retract/1 is a closed copy (bindings applied) on every compile path; the operand types the compiler emits are the types the interpreter asserts; every emitted structure opcode is closed by exactly one pop; head and body argument compilers treat each term representation with opcodes of the same kind; unchecked assertions on struct fields hold for every value stored there; every opcode has a handler; copies keep variable sharing. The compiler and the database built-ins inspect a term's shape only after resolution and pair functor-name tests with arity. The assert built-ins compile a renamed copy of the given clause and the loader empties the parser's variable table before each clause.",
			NotDecided: "that the bytecode denotes the source term (argument order, variable numbering) for every clause - a translation-validation question.",
			Rules: []RuleDef{
				{"R-PARTIAL-COUNT-EMIT", 1, rulePartialCountEmit},
				{"R-VARS-PER-CLAUSE", 1, ruleVarsPerClause},
				{"R-ASSERT-COPY", 1, ruleAssertCopy},
				{"R-FUNCTOR-ARITY", 35, ruleFunctorArity},
				{"R-RESOLVE-ALL", 25, ruleResolveAll("C10")},
				{"R-RAW-CLOSED", 2, ruleRawClosed},
				{"R-CLAUSE-BUILD", 2, ruleClauseBuild},
				{"R-OPERAND-AGREE", 14, ruleOperandAgree},
				{"R-PUSH-POP", 6, rulePushPop},
				{"R-HEAD-BODY-SIBLINGS", 5, ruleHeadBodySiblings},
				{"R-FIELD-ASSERT", 1, ruleFieldAssert},
				{"R-ENUM-TOTAL", 15, ruleEnumTotal},
				{"R-PARAM-THREAD", 8, ruleParamThread(threadRowsFor("simplify", "renamedCopy"))},
			},
		},
		{
			ID: "C18", Title: "The operator table evolves as op/3 defines; failed updates change nothing",
			Decides:    "op/3 validates everything before it mutates anything (no error exit is reachable after a mutation); the operator table is written only from code reachable from op/3 and the parser/VM initialisers; write_term/3 and every term-reading parser use the VM's one table. Every iteration of the commit loop of op/3 reaches define (a skip is allowed only across a whole-operator comparison); op/3 inspects its arguments after resolution. The decision about the operator ',' does not depend on the requested priority or specifier. The loop of op/3 that applies the request to each name is left only at its header.",
			NotDecided: "that current_op/3 enumerates exactly the ISO table after every history (class exclusion, priority-0 removal are value-level).",
			Rules: []RuleDef{
				{"R-OPS-CLASS-LOCAL", 1, ruleOpsClassLocal},
				{"R-COMMA-FIXED", 1, ruleCommaFixed},
				{"R-RESOLVE-ALL", 8, ruleResolveAll("C18")},
				{"R-OP-ATOMIC", 1, ruleOpAtomic},
				{"R-ENUM-UNIFIES", 2, ruleEnumUnifies},
				{"R-OP-DEFINES-ALL", 1, ruleOpDefinesAll},
				{"R-OPS-WRITERS", 2, ruleOpsWriters},
				{"R-OPS-SOURCE", 4, ruleOpsSource},
			},
		},
		{
			ID: "C20", Title: "Loading defines clauses in source order; a failed load defines nothing",
			Decides:    "every write of the loader to the live database is dominated by the success edges of both staging steps and the commit loop has no early return; nothing statically reachable from the staging steps (short of a nested load) writes the live database. Every iteration of the commit loop writes the predicate to the database; ensure_loaded/1 un-marks the file on every error exit. The parser says \"no more clauses\" only when no part of a token has been accepted; whatever the parser copies by value from the VM (double_quotes) is refreshed before each clause, so a directive that sets it governs the rest of the text; the discontiguity test does not depend on other declarations of the predicate. Every directive ends the current run of clauses (text.flush dominates every return of the directive handler).",
			NotDecided: "source order, multifile/discontiguous semantics, effects of directives executed during a load that later fails (by design they run at once).",
			Rules: []RuleDef{
				{"R-DISCONTIGUOUS-INDEP", 1, ruleDiscontiguousIndep},
				{"R-FLAG-LIVE", 1, ruleFlagLive},
				{"R-DIRECTIVE-FLUSH", 1, ruleDirectiveFlush},
				{"R-MORE-CLEAN-END", 1, ruleMoreCleanEnd},
				{"R-COMMIT-AFTER-SUCCESS", 3, ruleCommitAfterSuccess},
				{"R-STAGING-LOCAL", 1, ruleStagingLocal},
				{"R-COMMIT-ALL", 1, ruleCommitAll},
				{"R-MARK-ROLLBACK", 1, ruleMarkRollback},
				{"R-SLICE-OWNER", 4, ruleSliceOwner},
			},
		},
		{
			ID: "C01", Title: "Answers are those of depth-first, left-to-right SLD resolution, in order",
			Decides:    "each clause activation runs on a persistent environment (no binding leaks between activations, sibling branches or successive answers: every Env store targets a private node); the interpreter threads its variable frame, continuation and cut barrier unchanged through its own re-entries; every opcode has a handler. A functor-name comparison is always paired with an examination of the same value's arity. Every clause of a procedure becomes an alternative of a call (no pre-filter); no built-in runs its continuation from inside a loop of its own body.",
			NotDecided: "that the answer sequence equals the reference SLD sequence (clause order, goal order, completeness, termination reporting) - a statement about the dynamic shape of the promise stack for every program.",
			Rules: []RuleDef{
				{"R-LOOP-CAPTURE", 1, ruleLoopCapture},
				{"R-CALL-ALL-CLAUSES", 1, ruleCallAllClauses},
				{"R-CONT-NOT-IN-LOOP", 1, ruleContNotInLoop},
				{"R-ANON-VAR", 2, ruleAnonVar},
				{"R-FUNCTOR-ARITY", 35, ruleFunctorArity},
				{"R-ENV-IMMUT", 9, ruleEnvImmut},
				{"R-PARAM-THREAD", 5, ruleParamThread(threadRowsFor("exec"))},
				{"R-ENUM-TOTAL", 15, ruleEnumTotal},
				{"R-CUT-PARENT", 1, ruleCutParent},
				{"R-FRESH-VARS", 1, ruleFreshVars},
				{"R-REGS-RESET", 2, ruleRegsReset},
				{"R-GLOBAL-ESCAPE", 10, ruleGlobalEscape},
			},
		},
		{
			ID: "C03", Title: "Cut removes exactly the clause-level choice points; call/N makes it local",
			Decides:    "cut-barrier discipline: the barrier field is written only at construction and cleared only by the trampoline; a cut is tagged with the activation's own barrier; each clause alternative gets the promise holding this call's alternatives as barrier; no *Promise can travel into a callee (procedure interface, Cont, VM fields), so every goal entered through call/N, \\+, findall, catch gets a fresh barrier. Control constructs inspect the shape of a goal only after resolving it and their closures write no captured Go variable (no state that backtracking cannot restore). The sequence iterator looks at the left operand of a conjunction, so a conjunction nested on the left is not compiled as a call of ','/2 (in which a cut would be local). The alternatives iterator keeps only subterms of its source term (it builds no disjunction, so it cannot manufacture an if-then-else).",
			NotDecided: "that popUntil prunes exactly the right frames for every dynamic stack; the derived semantics of ->, once, \\+ in bootstrap.pl.",
			Rules: []RuleDef{
				{"R-ALT-SOURCE", 2, ruleAltSource},
				{"R-CUT-TARGET-OWN", 2, ruleCutTargetOwn},
				{"R-SEQ-FLATTEN", 1, ruleSeqFlatten},
				{"R-CONTROL-STATELESS", 12, ruleControlStateless},
				{"R-RESOLVE-ALL", 10, ruleResolveAll("C03")},
				{"R-CUT-WRITERS", 4, ruleCutWriters},
				{"R-CUT-PARENT", 1, ruleCutParent},
				{"R-CUT-LOCAL", 4, ruleCutLocal},
				{"R-POP-INCLUSIVE", 2, rulePopInclusive},
				{"R-CUT-REBASE", 1, ruleCutRebase},
				{"R-PARAM-THREAD", 5, ruleParamThread(threadRowsFor("exec"))},
			},
		},
		{
			ID: "C04", Title: "throw/1 unwinds to the innermost still-executing catch/3, undoing bindings",
			Decides:    "the ball is instantiated and copied at throw time (throw/1 raises only Exceptions whose term is renamedCopy(ball, env) of its own arguments); the catcher is unified and Recovery called under the environment catch/3 was called with, so all later bindings are undone (with R-ENV-IMMUT); variable sharing inside the ball is kept. The closures of catch/3 and throw/1 write no captured Go variable. Inside the protected thunk of catch/3 the continuation is only invoked under a nested marker frame whose handler declines every error and tells the handler of catch/3 to let that error pass: a catch/3 whose goal has exited does not intercept later errors. Unwinding starts only from an error found in a popped promise (all ancestors, the parent included, are on the stack).",
			NotDecided: "which catch frame is selected - in particular that a catch/3 whose Goal has exited no longer intercepts (observation O1: it does on this tree; a property of the runtime promise stack).",
			Rules: []RuleDef{
				{"R-CATCH-DECLINES", 2, ruleCatchDeclines},
				{"R-UNWIND-POPPED", 1, ruleUnwindPopped},
				{"R-CATCH-SCOPE", 3, ruleCatchScope},
				{"R-CONTROL-STATELESS", 12, ruleControlStateless},
				{"R-BALL-COPY", 6, ruleBallCopy},
				{"R-CATCH-ENV", 3, ruleCatchEnv},
				{"R-RECOVER-WRITERS", 1, ruleRecoverWriters},
				{"R-ENV-IMMUT", 9, ruleEnvImmut},
				{"R-PARAM-THREAD", 4, ruleParamThread(threadRowsFor("renamedCopy"))},
			},
		},
		{
			ID: "C11", Title: "findall/bagof/setof collect exactly the solutions, as copies, grouped by witness",
			Decides:    "every collected instance is a renamed copy of the template taken under that solution's environment; after the nested search findall/3 and \\+/1 continue with their own outer environment (no goal binding is left behind, with R-ENV-IMMUT); copies keep variable sharing. The whole collection machinery inspects terms only after resolution. Every witness group of the grouping loop becomes an alternative; the variant test keeps the variable correspondence in both directions. The free-variable walk cannot skip the tail of a partial list (whoever reads partial.Compound reads partial.tail).",
			NotDecided: "free-variable computation, witness variance, partition into groups, solution order.",
			Rules: []RuleDef{
				{"R-VARIANT-DESCENDS", 1, ruleVariantDescends},
				{"R-PARTIAL-BOTH-PARTS", 3, rulePartialBothParts},
				{"R-LOOP-CAPTURE", 1, ruleLoopCapture},
				{"R-VARIANT-BIJECTIVE", 1, ruleVariantBijective},
				{"R-GROUP-ALL", 1, ruleGroupAll},
				{"R-RESOLVE-ALL", 18, ruleResolveAll("C11")},
				{"R-COPY-ON-COLLECT", 1, ruleCopyOnCollect},
				{"R-OUTER-ENV", 2, ruleOuterEnv},
				{"R-RESOLVE-FIRST", 6, ruleResolveFirst},
				{"R-ENV-IMMUT", 9, ruleEnvImmut},
				{"R-PARAM-THREAD", 4, ruleParamThread(threadRowsFor("renamedCopy"))},
			},
		},
		{
			ID: "C13", Title: "Cancelling the context stops any execution promptly; interpreter stays usable",
			Decides:    "every nested trampoline runs under the caller's context (no fresh Background context around a goal, no captured context inside a thunk); every cycle of the trampoline passes through a non-blocking poll of ctx.Done() and cancellation is returned as ctx.Err(). ensure_loaded/1 un-marks the file on every error exit after marking it (a cancelled load can be repeated). A function that observes ctx.Done() passes through ctx.Err() on every path to an exit. The loop that reads the clauses of a text observes the context in every iteration.",
			NotDecided: "the delay bound (Go-level loops between polls are bounded by term size, not by a constant), and that the interpreter stays usable afterwards.",
			Rules: []RuleDef{
				{"R-FORCE-ERR-PROPAGATED", 6, ruleForceErrPropagated},
				{"R-LOAD-POLLS-CTX", 1, ruleLoadPollsCtx},
				{"R-DONE-REPORTS", 1, ruleDoneReports},
				{"R-FORCE-CTX", 8, ruleForceCtx},
				{"R-POLL-IN-LOOP", 3, rulePollInLoop},
				{"R-MARK-ROLLBACK", 1, ruleMarkRollback},
			},
		},
		{
			ID: "C02", Title: "Unification yields a most general unifier, whatever the term representation",
			Decides:    "a failed unification leaves no binding (environments are persistent: every Env store targets a node private to the writer); unify_with_occurs_check applies the check at every depth and before every bind; atomic terms are compared with a total non-panicking equality; every slice/string encoding of a list reports './2 through the Compound interface. The occurs check recurses into the referent of a bound variable and into every argument; the dynamic type of a term is inspected only after resolution; functor-name comparisons are paired with arity. unify never re-enters itself through a wrapper that fixes the occurs-check flag; the tail of a partial list replaces only the cdr; every one-character name, U+FFFD included, has the rune as its only representation. A function that reads the prefix field of a partial list reads its tail too; the byte length of a compact text list never serves as an element count.",
			NotDecided: "most-generality, symmetry, idempotence, and that Arg(n) of the four list encodings denotes the same abstract argument (algebraic laws over all term pairs).",
			Rules: []RuleDef{
				{"R-BIND-RESOLVED", 2, ruleBindResolved},
				{"R-TEXT-RUNE", 8, ruleTextRune},
				{"R-PARTIAL-BOTH-PARTS", 3, rulePartialBothParts},
				{"R-FLOAT-FINITE", 2, ruleFloatFinite},
				{"R-PARTIAL-SPINE", 1, rulePartialSpine},
				{"R-UNIFY-ABSTRACT", 1, ruleUnifyAbstract},
				{"R-ATOM-CANONICAL", 1, ruleAtomCanonical},
				{"R-TAIL-CDR", 1, ruleTailCdr},
				{"R-FUNCTOR-ARITY", 35, ruleFunctorArity},
				{"R-RESOLVE-ALL", 24, ruleResolveAll("C02")},
				{"R-ENV-IMMUT", 9, ruleEnvImmut},
				{"R-PARAM-THREAD", 5, ruleParamThread(threadRowsFor("unify", "contains"))},
				{"R-OCCURS-SITE", 2, ruleOccursSite},
				{"R-OCCURS-DEEP", 2, ruleOccursDeep},
				{"R-IFACE-EQ", 10, ruleIfaceEq},
				{"R-COMPOUND-UNIFORM", 7, ruleCompoundUniform},
			},
		},
		{
			ID: "C07", Title: "Arithmetic is exact or raises an evaluation error; comparisons are numeric",
			Decides:    "integer evaluables never route through float64; full-range + - * neg are paired with an int_overflow branch; / % divisors and shift counts are guarded; float->integer conversions are range-guarded with the actual constants; the 2x2 type dispatch of the six comparison predicates and of the mixed-mode arithmetic computes the operator the ISO name prescribes. Arithmetic inspects operand types only after resolution. float_overflow is raised only under a test of the computed result for infinity or under a pre-check that knows the sign of every operand it multiplies or divides the bound by.",
			NotDecided: "value correctness of guards that are present but wrong (the sign error in mulF/divF, O2), IEEE results of the float functions, deeper expression trees.",
			Rules: []RuleDef{
				{"R-FLOAT-RESULT-FINITE", 4, ruleFloatResultFinite},
				{"R-FLOAT-FINITE", 1, ruleFloatFinite},
				{"R-RESOLVE-ALL", 6, ruleResolveAll("C07")},
				{"R-INT-EXACT", 10, ruleIntExact},
				{"R-INT-ARM-NO-FLOAT", 4, ruleIntArmNoFloat},
				{"R-OVERFLOW-GUARD", 5, ruleOverflowGuard},
				{"R-DIV-GUARD", 3, ruleDivGuard},
				{"R-SHIFT-GUARD", 2, ruleShiftGuard},
				{"R-FTOI-RANGE", 4, ruleFtoIRange},
				{"R-FLOAT-EXC", 5, ruleFloatExc},
				{"R-DISPATCH-FAMILY", 30, ruleDispatchFamily},
				{"R-INT-WRAP", 3, ruleIntWrap},
			},
		},
		{
			ID: "C05", Title: "No input crashes or wedges the host; every failure is a Prolog error term",
			Decides:    "panic classes visible in code shape (zero divisor, negative shift, uncomparable interface comparison, missing table row) Every computed index into a fixed-size array is proven in range (enumeration, range loop, branch facts, or ring cursor by interval interpretation). The parser's next() moves its token window by one slot on every return path, failures included, so the unconditional backup() of its callers is symmetric (no endless re-parsing at the end of the input). A memoising mark of the loader precedes every call that runs goals, and a file-driven recursion (include/1) records and tests what is being loaded. Every use of a nilable field of VM (FS, input, output, Unknown) that needs it non-nil is under a non-nil fact: the zero VM is a valid VM.",
			NotDecided: "termination on arbitrary text, slice bounds in general, memory exhaustion",
			Rules: []RuleDef{
				{"R-PARTIAL-SPINE", 1, rulePartialSpine},
				{"R-INCLUDE-GUARD", 1, ruleIncludeGuard},
				{"R-MARK-ROLLBACK", 2, ruleMarkRollback},
				{"R-NEXT-ADVANCES", 2, ruleNextAdvances},
				{"R-ARRAY-INDEX", 20, ruleArrayIndex},
				{"R-DIV-GUARD", 3, ruleDivGuard},
				{"R-SHIFT-GUARD", 2, ruleShiftGuard},
				{"R-IFACE-EQ", 10, ruleIfaceEq},
				{"R-ENUM-TOTAL", 15, ruleEnumTotal},
				{"R-ZERO-VM", 3, ruleZeroVM},
				{"R-PANIC-BARRIER", 4, rulePanicBarrier},
				{"R-ERR-ISO", 250, ruleErrIso},
				{"R-LOOKAHEAD", 20, ruleLookahead},
				{"R-SNAPSHOT", 2, func(c *Ctx, r *Report) { ruleSnapshot(c, r); ruleSnapshotPointers(c, r) }},
			},
		},
	}
}

func threadRowsFor(fns ...string) []threadRow {
	var out []threadRow
	for _, r := range threadRows {
		for _, f := range fns {
			if r.fn == f {
				out = append(out, r)
			}
		}
	}
	return out
}

// only runs a multi-rule analysis and keeps the obligations of one rule id.
func only(id string, f func(c *Ctx, r *Report)) func(c *Ctx, r *Report) {
	return func(c *Ctx, r *Report) {
		tmp := newReport(r.Prop)
		f(c, tmp)
		for _, o := range tmp.Obs {
			if o.Rule == id {
				r.Obs = append(r.Obs, o)
			}
		}
		for k, v := range tmp.Analysed {
			if k == id {
				r.Analysed[k] = append(r.Analysed[k], v...)
			}
		}
		r.Notes = append(r.Notes, tmp.Notes...)
	}
}
