package main

import (
	"bytes"
	"encoding/json"
	"fmt"
	"go/ast"
	"go/parser"
	"go/printer"
	"go/token"
	"os"
	"path/filepath"
	"sort"
	"strings"

	"golang.org/x/tools/go/ast/astutil"
)

// Canonicalisation of NEW predicate helpers (loader step).
//
// The largest source of false alarms met while building the checker was one refactoring: a guard moves out of the
// function a rule looks at into a helper (`if n < 0 || n > max {` becomes `if outOfRange(n, max) {`). The fact
// engine follows known helpers (helperfacts.go), but rules that match a comparison by its shape do not see it.
// Rather than teach every rule, the loader undoes the refactoring for the case that can be undone exactly:
//
//   a function or method that is NOT in the committed baseline (anchors.json: every function of the tree the
//   rules were written against), has the single result bool and a body that is one `return <expr>`,
//
// is analysed INLINE: every call `h(a, b)` whose arguments are free of side effects is replaced, in memory, by
// `((<expr>)[a, b / params])` on the same line (line numbers in reports stay those of the real file). Nothing of
// today's tree is touched (every function of today's tree is in the baseline); a helper that a later fix: commit
// adds joins the baseline when anchors.json is regenerated, together with whatever the rules need to follow it.
// Inlining is refused - the call stays a call - whenever exactness is in doubt: an argument with a call in it, a
// name of the helper's body that the calling function declares itself, an import the calling file lacks, a method
// name that is not unique in the package, a baseline function that disappeared with the same number of parameters
// (the helper may be that function renamed). What was inlined is listed in the evidence.

var canonNotes []string

type canonHelper struct {
	name    string
	recv    string // receiver parameter name ("" for a function)
	method  bool
	params  []string
	expr    ast.Expr
	free    map[string]bool   // package-level / universe names the body mentions
	imports map[string]string // qualifier -> import path used by the body
	file    string
}

func baselineFuncKeys() map[string]string {
	b, err := os.ReadFile(filepath.Join(verifDir(), "anchors.json"))
	if err != nil {
		return nil
	}
	var af struct {
		Funcs map[string]struct {
			Sig string `json:"sig"`
		} `json:"funcs"`
	}
	if json.Unmarshal(b, &af) != nil || len(af.Funcs) == 0 {
		return nil
	}
	out := map[string]string{}
	for k, v := range af.Funcs {
		out[k] = v.Sig
	}
	return out
}

func declKey(pkg string, fd *ast.FuncDecl) string {
	if fd.Recv != nil && len(fd.Recv.List) == 1 {
		t := fd.Recv.List[0].Type
		if s, ok := t.(*ast.StarExpr); ok {
			t = s.X
		}
		if id, ok := t.(*ast.Ident); ok {
			return pkg + ".(" + id.Name + ")." + fd.Name.Name
		}
		return pkg + ".(?)." + fd.Name.Name
	}
	return pkg + "." + fd.Name.Name
}

func nparams(fd *ast.FuncDecl) int {
	n := 0
	for _, f := range fd.Type.Params.List {
		if len(f.Names) == 0 {
			n++
		}
		n += len(f.Names)
	}
	return n
}

// canonicalOverlay returns base plus the files in which calls of new predicate helpers were inlined.
func canonicalOverlay(dir string, base map[string][]byte) map[string][]byte {
	canonNotes = nil
	baseline := baselineFuncKeys()
	if baseline == nil {
		return base
	}
	out := base
	copied := false
	for _, sub := range []struct{ dir, pkg string }{{"engine", "engine"}, {".", "root"}} {
		ents, err := os.ReadDir(filepath.Join(dir, sub.dir))
		if err != nil {
			continue
		}
		type src struct {
			path string
			data []byte
		}
		var srcs []src
		for _, e := range ents {
			if e.IsDir() || !strings.HasSuffix(e.Name(), ".go") || strings.HasSuffix(e.Name(), "_test.go") {
				continue
			}
			path := filepath.Join(dir, sub.dir, e.Name())
			data, ok := base[path]
			if !ok {
				if data, err = os.ReadFile(path); err != nil {
					continue
				}
			}
			srcs = append(srcs, src{path, data})
		}
		for round := 0; round < 3; round++ {
			fset := token.NewFileSet()
			files := make([]*ast.File, len(srcs))
			parsedOK := true
			for i, s := range srcs {
				f, err := parser.ParseFile(fset, s.path, s.data, 0)
				if err != nil {
					parsedOK = false
					break
				}
				files[i] = f
			}
			if !parsedOK {
				break // the type checker will say what is wrong with the tree
			}
			// names declared in the package, to decide uniqueness of method names
			nameCount := map[string]int{}
			present := map[string]bool{}
			var decls []*ast.FuncDecl
			declFile := map[*ast.FuncDecl]*ast.File{}
			for _, f := range files {
				for _, d := range f.Decls {
					if fd, ok := d.(*ast.FuncDecl); ok {
						nameCount[fd.Name.Name]++
						present[declKey(sub.pkg, fd)] = true
						decls = append(decls, fd)
						declFile[fd] = f
					}
				}
				ast.Inspect(f, func(n ast.Node) bool {
					switch x := n.(type) {
					case *ast.StructType:
						for _, fl := range x.Fields.List {
							for _, nm := range fl.Names {
								nameCount[nm.Name]++
							}
						}
					case *ast.InterfaceType:
						for _, fl := range x.Methods.List {
							for _, nm := range fl.Names {
								nameCount[nm.Name]++
							}
						}
					}
					return true
				})
			}
			// baseline functions of this package that are gone: a new helper with as many parameters may be one renamed
			// (a baseline predicate that is gone may be what a "new" helper is: the rules re-identify renamed
			// functions themselves, anchors.go)
			goneAny := false
			for k, sig := range baseline {
				if strings.HasPrefix(k, sub.pkg+".") && !present[k] && strings.HasSuffix(sig, ") bool") {
					goneAny = true
				}
			}
			helpers := map[string]*canonHelper{}
			for _, fd := range decls {
				if _, known := baseline[declKey(sub.pkg, fd)]; known || goneAny {
					continue
				}
				if h := asCanonHelper(fd, declFile[fd]); h != nil && nameCount[h.name] == 1 {
					h.file = fset.Position(fd.Pos()).Filename
					helpers[h.name] = h
				}
			}
			if len(helpers) == 0 {
				break
			}
			changed := false
			for i, f := range files {
				data, n := inlineHelpers(fset, f, srcs[i].data, helpers)
				if n > 0 {
					srcs[i].data = data
					changed = true
					if !copied {
						copied = true
						out = map[string][]byte{}
						for k, v := range base {
							out[k] = v
						}
					}
					out[srcs[i].path] = data
				}
			}
			if !changed {
				datas := make([][]byte, len(srcs))
				for i := range srcs {
					datas[i] = srcs[i].data
				}
				for i, data := range retireInlinedHelpers(fset, files, datas, helpers) {
					srcs[i].data = data
					if !copied {
						copied = true
						out = map[string][]byte{}
						for k, v := range base {
							out[k] = v
						}
					}
					out[srcs[i].path] = data
				}
				break
			}
		}
	}
	if len(canonNotes) > 0 {
		sort.Strings(canonNotes)
	}
	return out
}

// retireInlinedHelpers: a new helper that is no longer mentioned anywhere but in its own declaration is dead code
// after the inlining; its body would still be analysed - without the facts its callers had established. The
// return statement is replaced by a panic (same number of lines).
func retireInlinedHelpers(fset *token.FileSet, files []*ast.File, datas [][]byte, helpers map[string]*canonHelper) map[int][]byte {
	refs := map[string]int{}
	for _, f := range files {
		ast.Inspect(f, func(n ast.Node) bool {
			if id, ok := n.(*ast.Ident); ok && helpers[id.Name] != nil {
				refs[id.Name]++
			}
			return true
		})
	}
	out := map[int][]byte{}
	for i, f := range files {
		type cut struct{ from, to int }
		var cuts []cut
		for _, d := range f.Decls {
			fd, ok := d.(*ast.FuncDecl)
			if !ok || helpers[fd.Name.Name] == nil || refs[fd.Name.Name] != 1 || fd.Body == nil || len(fd.Body.List) != 1 {
				continue
			}
			ret := fd.Body.List[0]
			cuts = append(cuts, cut{fset.Position(ret.Pos()).Offset, fset.Position(ret.End()).Offset})
		}
		if len(cuts) == 0 {
			continue
		}
		sort.Slice(cuts, func(a, b int) bool { return cuts[a].from > cuts[b].from })
		data := append([]byte{}, datas[i]...)
		for _, c := range cuts {
			nl := bytes.Count(data[c.from:c.to], []byte("\n"))
			repl := "panic(\"analysed inline at every call\")" + strings.Repeat("\n", nl)
			data = append(data[:c.from], append([]byte(repl), data[c.to:]...)...)
		}
		out[i] = data
	}
	return out
}

// asCanonHelper: fd is `func [recv] name(params) bool { return <expr> }` with an expression that can be moved.
func asCanonHelper(fd *ast.FuncDecl, f *ast.File) *canonHelper {
	if fd.Body == nil || len(fd.Body.List) != 1 || fd.Type.TypeParams != nil {
		return nil
	}
	res := fd.Type.Results
	if res == nil || len(res.List) != 1 || len(res.List[0].Names) > 0 {
		return nil
	}
	if id, ok := res.List[0].Type.(*ast.Ident); !ok || id.Name != "bool" {
		return nil
	}
	ret, ok := fd.Body.List[0].(*ast.ReturnStmt)
	if !ok || len(ret.Results) != 1 {
		return nil
	}
	if ast.IsExported(fd.Name.Name) {
		return nil // part of the API: it has callers the analysis does not see
	}
	h := &canonHelper{name: fd.Name.Name, expr: ret.Results[0], free: map[string]bool{}, imports: map[string]string{}}
	if fd.Recv != nil {
		if len(fd.Recv.List) != 1 || len(fd.Recv.List[0].Names) != 1 {
			return nil
		}
		h.method = true
		h.recv = fd.Recv.List[0].Names[0].Name
	}
	for _, p := range fd.Type.Params.List {
		if _, variadic := p.Type.(*ast.Ellipsis); variadic || len(p.Names) == 0 {
			return nil
		}
		for _, nm := range p.Names {
			h.params = append(h.params, nm.Name)
		}
	}
	bound := map[string]bool{h.recv: h.recv != ""}
	for _, p := range h.params {
		bound[p] = true
	}
	imports := map[string]string{}
	for _, is := range f.Imports {
		p := strings.Trim(is.Path.Value, `"`)
		nm := p[strings.LastIndex(p, "/")+1:]
		if is.Name != nil {
			nm = is.Name.Name
		}
		imports[nm] = p
	}
	movable := true
	var visit func(e ast.Node)
	visit = func(e ast.Node) {
		ast.Inspect(e, func(n ast.Node) bool {
			switch x := n.(type) {
			case *ast.FuncLit:
				movable = false
				return false
			case *ast.CompositeLit:
				// T{}, T{k: v}: the type and the values are visited, the keys of a struct literal are field names
				if x.Type != nil {
					visit(x.Type)
				}
				for _, el := range x.Elts {
					if kv, ok := el.(*ast.KeyValueExpr); ok {
						if _, isIdent := kv.Key.(*ast.Ident); !isIdent {
							visit(kv.Key)
						} else if bound[kv.Key.(*ast.Ident).Name] {
							movable = false // a parameter named like a field: ambiguous without types
						}
						visit(kv.Value)
					} else {
						visit(el)
					}
				}
				return false
			case *ast.BasicLit:
				if x.Kind == token.STRING && strings.HasPrefix(x.Value, "`") {
					movable = false
				}
			case *ast.SelectorExpr:
				if id, ok := x.X.(*ast.Ident); ok && !bound[id.Name] {
					if p, isImp := imports[id.Name]; isImp {
						h.imports[id.Name] = p
						return false
					}
				}
				visit(x.X)
				return false
			case *ast.Ident:
				if !bound[x.Name] {
					h.free[x.Name] = true
				}
			}
			return true
		})
	}
	visit(h.expr)
	if !movable {
		return nil
	}
	return h
}

// declaredNames: every identifier the function declares (parameters, results, :=, var, range, type switch,
// labels are irrelevant), nested function literals included.
func declaredNames(fd *ast.FuncDecl) map[string]bool {
	out := map[string]bool{}
	fields := func(fl *ast.FieldList) {
		if fl == nil {
			return
		}
		for _, f := range fl.List {
			for _, n := range f.Names {
				out[n.Name] = true
			}
		}
	}
	fields(fd.Recv)
	ast.Inspect(fd, func(n ast.Node) bool {
		switch x := n.(type) {
		case *ast.FuncType:
			fields(x.Params)
			fields(x.Results)
		case *ast.AssignStmt:
			if x.Tok == token.DEFINE {
				for _, l := range x.Lhs {
					if id, ok := l.(*ast.Ident); ok {
						out[id.Name] = true
					}
				}
			}
		case *ast.ValueSpec:
			for _, n := range x.Names {
				out[n.Name] = true
			}
		case *ast.TypeSpec:
			out[x.Name.Name] = true
		case *ast.RangeStmt:
			if x.Tok == token.DEFINE {
				for _, e := range []ast.Expr{x.Key, x.Value} {
					if id, ok := e.(*ast.Ident); ok {
						out[id.Name] = true
					}
				}
			}
		}
		return true
	})
	return out
}

func exprText(fset *token.FileSet, e ast.Expr) string {
	var buf bytes.Buffer
	_ = printer.Fprint(&buf, fset, e)
	return strings.Join(strings.Fields(buf.String()), " ")
}

func inlineHelpers(fset *token.FileSet, f *ast.File, data []byte, helpers map[string]*canonHelper) ([]byte, int) {
	fileImports := map[string]string{}
	for _, is := range f.Imports {
		p := strings.Trim(is.Path.Value, `"`)
		nm := p[strings.LastIndex(p, "/")+1:]
		if is.Name != nil {
			nm = is.Name.Name
		}
		fileImports[nm] = p
	}
	type repl struct {
		from, to int
		text     string
		name     string
	}
	var repls []repl
	for _, d := range f.Decls {
		fd, ok := d.(*ast.FuncDecl)
		if !ok || fd.Body == nil {
			continue
		}
		if _, isHelper := helpers[fd.Name.Name]; isHelper {
			continue
		}
		var declared map[string]bool
		ast.Inspect(fd.Body, func(n ast.Node) bool {
			call, ok := n.(*ast.CallExpr)
			if !ok {
				return true
			}
			var h *canonHelper
			var recvArg ast.Expr
			switch fn := call.Fun.(type) {
			case *ast.Ident:
				if hh := helpers[fn.Name]; hh != nil && !hh.method {
					h = hh
				}
			case *ast.SelectorExpr:
				if hh := helpers[fn.Sel.Name]; hh != nil && hh.method {
					h, recvArg = hh, fn.X
				}
			}
			if h == nil || len(call.Args) != len(h.params) || call.Ellipsis.IsValid() {
				return true
			}
			if declared == nil {
				declared = declaredNames(fd)
			}
			if declared[h.name] {
				return true
			}
			for nm := range h.free {
				if declared[nm] {
					return true // the calling function has a name of its own for that: it would capture
				}
			}
			for q, p := range h.imports {
				if fileImports[q] != p || declared[q] {
					return true
				}
			}
			args := map[string]ast.Expr{}
			if h.method {
				if !pureExpr(recvArg) {
					return true
				}
				args[h.recv] = recvArg
			}
			for i, a := range call.Args {
				if !pureExpr(a) {
					return true
				}
				args[h.params[i]] = a
			}
			// substitute on a copy of the helper's expression
			cp, err := parser.ParseExpr(exprText(fset, h.expr))
			if err != nil {
				return true
			}
			okSubst := true
			res := astutil.Apply(cp, func(c *astutil.Cursor) bool {
				id, ok := c.Node().(*ast.Ident)
				if !ok {
					return true
				}
				if c.Name() == "Sel" {
					return true
				}
				if _, isKV := c.Parent().(*ast.KeyValueExpr); isKV && c.Name() == "Key" {
					return true
				}
				a, isParam := args[id.Name]
				if !isParam {
					return true
				}
				at, err := parser.ParseExpr(exprText(fset, a))
				if err != nil {
					okSubst = false
					return false
				}
				c.Replace(&ast.ParenExpr{X: at})
				return false
			}, nil)
			if !okSubst {
				return true
			}
			text := "(" + exprText(token.NewFileSet(), res.(ast.Expr)) + ")"
			from, to := fset.Position(call.Pos()).Offset, fset.Position(call.End()).Offset
			if from < 0 || to > len(data) || from >= to || bytes.Contains(data[from:to], []byte("\n")) {
				return true // a call spread over several lines: replacing it would move line numbers
			}
			repls = append(repls, repl{from, to, text, h.name})
			return false // calls nested in the arguments wait for the next round
		})
	}
	if len(repls) == 0 {
		return data, 0
	}
	sort.Slice(repls, func(i, j int) bool { return repls[i].from > repls[j].from })
	out := append([]byte{}, data...)
	for _, r := range repls {
		out = append(out[:r.from], append([]byte(r.text), out[r.to:]...)...)
		canonNotes = append(canonNotes, fmt.Sprintf("%s:%d: call of the new predicate helper %s analysed inline", shortPath(fset.Position(token.Pos(1)).Filename, f, fset), lineOf(data, r.from), r.name))
	}
	return out, len(repls)
}

func lineOf(data []byte, off int) int {
	return 1 + bytes.Count(data[:off], []byte("\n"))
}

func shortPath(_ string, f *ast.File, fset *token.FileSet) string {
	p := fset.Position(f.Pos()).Filename
	if i := strings.Index(p, "/engine/"); i >= 0 {
		return "engine/" + filepath.Base(p)
	}
	return filepath.Base(p)
}
