package main

import (
	"fmt"
	"go/token"
	"go/types"
	"sort"
	"strings"

	"golang.org/x/tools/go/ssa"
)

// ---------------------------------------------------------------------------
// R-PANIC-BARRIER (C05)

// recoverWrapper: the function `func(**Promise)` that calls recover() and stores an error promise.
func (c *Ctx) recoverWrapper() *ssa.Function {
	for _, fn := range c.LibFuncs() {
		if fn.Parent() != nil || len(fn.Params) != 1 {
			continue
		}
		pp, ok := fn.Params[0].Type().Underlying().(*types.Pointer)
		if !ok || !c.isPromisePtr(pp.Elem()) {
			continue
		}
		hasRecover := false
		eachInstr(fn, func(in ssa.Instruction) {
			if call, ok := in.(*ssa.Call); ok {
				if b, ok := call.Call.Value.(*ssa.Builtin); ok && b.Name() == "recover" {
					hasRecover = true
				}
			}
		})
		if hasRecover {
			return fn
		}
	}
	return nil
}

// hasBarrier: fn defers the recover wrapper on the address of its own promise result.
func (c *Ctx) hasBarrier(fn *ssa.Function, wrapper *ssa.Function) bool {
	ok := false
	eachInstr(fn, func(in ssa.Instruction) {
		d, isD := in.(*ssa.Defer)
		if !isD || d.Call.StaticCallee() != wrapper || len(d.Call.Args) != 1 {
			return
		}
		if al, isAlloc := d.Call.Args[0].(*ssa.Alloc); isAlloc && c.isPromisePtr(deref2(al.Type())) {
			// the alloc is the named result: it is what the function returns
			for _, ref := range *al.Referrers() {
				if ld, isLd := ref.(*ssa.UnOp); isLd && ld.Op == token.MUL {
					for _, r2 := range *ld.Referrers() {
						if _, isRet := r2.(*ssa.Return); isRet {
							ok = true
						}
					}
				}
			}
		}
	})
	return ok
}

func deref2(t types.Type) types.Type {
	if p, ok := t.Underlying().(*types.Pointer); ok {
		return p.Elem()
	}
	return t
}

func rulePanicBarrier(c *Ctx, r *Report) {
	const rule = "R-PANIC-BARRIER"
	wrapper := c.recoverWrapper()
	if wrapper == nil {
		r.undecided(rule, "anchor:recover-wrapper", "-", "locate the recover wrapper", "no func(**Promise) calling recover() found")
		return
	}
	// the wrapper turns the panic into an error promise
	errCtor := c.errorCtor()
	stores := false
	eachInstr(wrapper, func(in ssa.Instruction) {
		st, ok := in.(*ssa.Store)
		if !ok || st.Addr != ssa.Value(wrapper.Params[0]) {
			return
		}
		if call, ok := st.Val.(*ssa.Call); ok && call.Call.StaticCallee() == errCtor {
			stores = true
		}
	})
	if stores {
		r.ok(rule, fname(wrapper)+"/converts", c.Pos(wrapper.Pos()), "a recovered panic becomes an error promise", "stores Error(...) through its parameter", false)
	} else {
		r.bad(rule, fname(wrapper)+"/converts", c.Pos(wrapper.Pos()), "a recovered panic becomes an error promise", "the wrapper does not store an error promise")
	}
	proc := c.engType("procedure")
	n := 0
	for _, fn := range c.LibFuncs() {
		eachInstr(fn, func(in ssa.Instruction) {
			call, ok := in.(*ssa.Call)
			if !ok {
				return
			}
			kind := ""
			switch {
			case call.Call.IsInvoke() && proc != nil && types.Identical(call.Call.Value.Type(), proc):
				kind = "predicate entry through the procedure interface"
			case !call.Call.IsInvoke() && call.Call.StaticCallee() == nil:
				// invocation of a delayed thunk: a value loaded from Promise.delayed
				isThunk := false
				for _, l := range c.originSet(call.Call.Value) {
					if ld, ok := l.(*ssa.UnOp); ok && ld.Op == token.MUL {
						if ia, ok := ld.X.(*ssa.IndexAddr); ok {
							if _, ok := loadsField(ia.X, "Promise", "delayed"); ok {
								isThunk = true
							}
						}
					}
				}
				if isThunk {
					kind = "invocation of a delayed alternative"
				}
			}
			if kind == "" {
				return
			}
			n++
			key := fmt.Sprintf("%s/%s", fname(fn), strings.Fields(kind)[0])
			desc := "user-reachable code (predicates, delayed alternatives) is entered only under a deferred recover that yields an error promise"
			if c.hasBarrier(topFunc(fn), wrapper) && fn.Parent() == nil {
				r.ok(rule, key, c.at(call), desc, kind+" inside a function that defers "+wrapper.Name()+"(&result)", true)
			} else {
				r.bad(rule, key, c.at(call), desc, kind+" outside any recover barrier: a panic in a predicate would abort the host process")
			}
		})
	}
	// call/1, the entry used by every meta-call, is itself a barrier
	if callFn := c.registeredFn("call", 1); callFn != nil {
		n++
		if c.hasBarrier(callFn, wrapper) {
			r.ok(rule, fname(callFn)+"/barrier", c.Pos(callFn.Pos()), "call/1 converts panics raised while preparing a goal", "defers the recover wrapper", true)
		} else {
			r.bad(rule, fname(callFn)+"/barrier", c.Pos(callFn.Pos()), "call/1 converts panics raised while preparing a goal", "no deferred recover wrapper")
		}
	}
	r.analysed(rule, fmt.Sprintf("%d entry sites; wrapper %s", n, fname(wrapper)))
}

// ---------------------------------------------------------------------------
// R-ERR-ISO (C05): provenance of every error handed to the error constructor.

type labelSet map[string]bool

func (l labelSet) add(o labelSet) bool {
	ch := false
	for k := range o {
		if !l[k] {
			l[k], ch = true, true
		}
	}
	return ch
}

func (l labelSet) String() string {
	var ks []string
	for k := range l {
		ks = append(ks, k)
	}
	sort.Strings(ks)
	return strings.Join(ks, ",")
}

type errAnalysis struct {
	c         *Ctx
	ret       map[*ssa.Function]map[int]labelSet // callee return summaries for error-typed results
	param     map[*ssa.Parameter]labelSet        // labels flowing into error-typed parameters
	field     map[string]labelSet                // labels stored into error-typed struct fields "T.f"
	tramp     *ssa.Function
	changed   bool
	fnsByName map[string]*ssa.Function
}

func isErrorish(t types.Type) bool { return isErrorType(t) }

func (a *errAnalysis) labelOfConcrete(t types.Type) string {
	switch {
	case isEngNamed(t, "Exception") && !isPtr(t):
		return "EXC"
	case isEngNamed(t, "exceptionalValue"):
		return "EV"
	}
	return "ADHOC(" + typeName(t) + ")"
}

// labels computes the provenance labels of an error-typed value.
func (a *errAnalysis) labels(v ssa.Value, seen map[ssa.Value]bool) labelSet {
	out := labelSet{}
	if v == nil || seen[v] {
		return out
	}
	seen[v] = true
	c := a.c
	switch x := v.(type) {
	case *ssa.Const:
		if x.Value == nil {
			out["NIL"] = true
		}
	case *ssa.MakeInterface:
		out[a.labelOfConcrete(x.X.Type())] = true
	case *ssa.ChangeInterface:
		out.add(a.labels(x.X, seen))
	case *ssa.ChangeType:
		out.add(a.labels(x.X, seen))
	case *ssa.Phi:
		for _, e := range x.Edges {
			out.add(a.labels(e, seen))
		}
	case *ssa.TypeAssert:
		if !types.IsInterface(x.AssertedType) {
			out[a.labelOfConcrete(x.AssertedType)] = true
		} else {
			out.add(a.labels(x.X, seen))
		}
	case *ssa.Extract:
		switch t := x.Tuple.(type) {
		case *ssa.Call:
			out.add(a.callLabels(t, x.Index))
		case *ssa.TypeAssert:
			if x.Index == 0 {
				if !types.IsInterface(t.AssertedType) {
					out[a.labelOfConcrete(t.AssertedType)] = true
				} else {
					out.add(a.labels(t.X, seen))
				}
			}
		case *ssa.UnOp: // v, ok := <-ch
			out["EXTERNAL"] = true
		default:
			out["UNKNOWN("+fmt.Sprintf("%T", t)+")"] = true
		}
	case *ssa.Call:
		out.add(a.callLabels(x, 0))
	case *ssa.Parameter:
		if ls, ok := a.param[x]; ok {
			out.add(ls)
		}
	case *ssa.UnOp:
		if x.Op != token.MUL {
			out["UNKNOWN(unop)"] = true
			break
		}
		switch ad := x.X.(type) {
		case *ssa.Global:
			if ad.Pkg != nil && c.isLibPkg(ad.Pkg) {
				out["SENTINEL("+ad.Name()+")"] = true
			} else {
				out["EXTERNAL"] = true // io.EOF and friends
			}
		case *ssa.FieldAddr:
			out.add(a.fieldLabels(ad))
		default:
			if cell := c.varCell(x.X); cell != nil {
				for _, st := range c.storesTo(cell) {
					out.add(a.labels(st.Val, seen))
				}
				// named result rewritten by a deferred errors.As conversion
				a.applyDeferredAs(cell, out)
			} else {
				out["UNKNOWN(load)"] = true
			}
		}
	default:
		out[fmt.Sprintf("UNKNOWN(%T)", v)] = true
	}
	return out
}

// applyDeferredAs: if the cell is a named error result of a function that defers a closure doing
// `if errors.As(err, &v) { err = <converted> }`, the type of v is removed from the result labels.
func (a *errAnalysis) applyDeferredAs(cell *ssa.Alloc, out labelSet) {
	fn := cell.Parent()
	eachInstr(fn, func(in ssa.Instruction) {
		d, ok := in.(*ssa.Defer)
		if !ok {
			return
		}
		mc, ok := d.Call.Value.(*ssa.MakeClosure)
		if !ok {
			return
		}
		cl := mc.Fn.(*ssa.Function)
		eachInstr(cl, func(in2 ssa.Instruction) {
			call, ok := in2.(*ssa.Call)
			if !ok || !isErrorsFn(&call.Call, "As") {
				return
			}
			// first arg loads the same cell?
			ld, ok := call.Call.Args[0].(*ssa.UnOp)
			if !ok || a.c.varCell(ld.X) != cell {
				return
			}
			// the true edge stores into the cell
			storesOnTrue := false
			eachInstr(cl, func(in3 ssa.Instruction) {
				st, ok := in3.(*ssa.Store)
				if !ok || a.c.varCell(st.Addr) != cell {
					return
				}
				for f := range a.c.factsAt(st.Block()) {
					if f.cond == ssa.Value(call) && f.pol {
						storesOnTrue = true
					}
				}
			})
			if storesOnTrue {
				if t := asTargetType(call); t != nil {
					delete(out, a.labelOfConcrete(t))
				}
			}
		})
	})
}

func isErrorsFn(cc *ssa.CallCommon, name string) bool {
	f := cc.StaticCallee()
	return f != nil && f.Pkg != nil && f.Pkg.Pkg.Path() == "errors" && f.Name() == name
}

// asTargetType: the element type of the pointer passed as errors.As target.
func asTargetType(call *ssa.Call) types.Type {
	tv := call.Call.Args[1]
	if mi, ok := tv.(*ssa.MakeInterface); ok {
		if p, ok := mi.X.Type().Underlying().(*types.Pointer); ok {
			return p.Elem()
		}
	}
	return nil
}

func (a *errAnalysis) fieldLabels(fa *ssa.FieldAddr) labelSet {
	key := typeName(deref(fa.X.Type())) + "." + fieldName(fa)
	if ls, ok := a.field[key]; ok {
		return ls
	}
	return labelSet{}
}

func (a *errAnalysis) callLabels(call *ssa.Call, idx int) labelSet {
	out := labelSet{}
	c := a.c
	cc := &call.Call
	if callee := cc.StaticCallee(); callee != nil {
		if callee == a.tramp {
			out["PROPAGATED"] = true
			return out
		}
		if !c.isLibPkg(funcPkg(callee)) || callee.Blocks == nil {
			switch {
			case callee.Pkg != nil && (callee.Pkg.Pkg.Path() == "fmt" || callee.Pkg.Pkg.Path() == "errors") && (callee.Name() == "Errorf" || callee.Name() == "New"):
				out["ADHOC("+callee.Pkg.Pkg.Name()+"."+callee.Name()+")"] = true
			default:
				out["EXTERNAL"] = true
			}
			return out
		}
		if m := a.ret[callee]; m != nil {
			out.add(m[idx])
		}
		return out
	}
	if cc.IsInvoke() {
		// interface method: library implementers' summaries; foreign interfaces are external
		recvT := cc.Value.Type()
		if n, ok := recvT.(*types.Named); ok && n.Obj().Pkg() != nil && !strings.HasPrefix(n.Obj().Pkg().Path(), rootPkgPath) {
			out["EXTERNAL"] = true
			return out
		}
		for _, f := range c.callees(call) {
			if m := a.ret[f]; m != nil {
				out.add(m[idx])
			} else if !c.isLibPkg(funcPkg(f)) {
				out["EXTERNAL"] = true
			}
		}
		if _, isAnon := recvT.Underlying().(*types.Interface); isAnon && len(out) == 0 {
			out["EXTERNAL"] = true
		}
		return out
	}
	// function value: union over call-graph callees
	cs := c.callees(call)
	if len(cs) == 0 {
		out["UNKNOWN(dynamic call)"] = true
	}
	for _, f := range cs {
		if m := a.ret[f]; m != nil {
			out.add(m[idx])
		} else if !c.isLibPkg(funcPkg(f)) {
			out["EXTERNAL"] = true
		}
	}
	return out
}

// filter removes labels excluded by the branch facts holding at block b for value v.
func (a *errAnalysis) filter(ls labelSet, v ssa.Value, b *ssa.BasicBlock) labelSet {
	c := a.c
	out := labelSet{}
	out.add(ls)
	same := func(x ssa.Value) bool {
		if x == v || c.sameVar(x, v) {
			return true
		}
		return c.sameIfaceValue(x, v)
	}
	sentinelOf := func(x ssa.Value) string {
		if ld, ok := x.(*ssa.UnOp); ok && ld.Op == token.MUL {
			if g, ok := ld.X.(*ssa.Global); ok {
				if g.Pkg != nil && c.isLibPkg(g.Pkg) {
					return "SENTINEL(" + g.Name() + ")"
				}
			}
		}
		return ""
	}
	for f := range c.factsAt(b) {
		switch x := f.cond.(type) {
		case *ssa.BinOp:
			if x.Op != token.EQL && x.Op != token.NEQ {
				continue
			}
			equal := (x.Op == token.EQL) == f.pol
			var other ssa.Value
			switch {
			case same(x.X):
				other = x.Y
			case same(x.Y):
				other = x.X
			default:
				continue
			}
			if s := sentinelOf(other); s != "" && !equal {
				delete(out, s)
			}
			if isNilConst(other) && !equal {
				delete(out, "NIL")
			}
			if isNilConst(other) && equal {
				return labelSet{"NIL": true} // the value is known to be nil here
			}
		case *ssa.Call:
			if isErrorsFn(&x.Call, "Is") && !f.pol && same(x.Call.Args[0]) {
				if s := sentinelOf(x.Call.Args[1]); s != "" {
					delete(out, s)
				}
			}
			if isErrorsFn(&x.Call, "As") && !f.pol && same(x.Call.Args[0]) {
				if t := asTargetType(x); t != nil {
					delete(out, a.labelOfConcrete(t))
				}
			}
		case *ssa.Extract:
			// failed comma-ok assertion to a concrete type removes that type's label
			if ta, ok := x.Tuple.(*ssa.TypeAssert); ok && x.Index == 1 && !f.pol && same(ta.X) && !types.IsInterface(ta.AssertedType) {
				delete(out, a.labelOfConcrete(ta.AssertedType))
			}
		}
	}
	return out
}

func (a *errAnalysis) run() {
	c := a.c
	a.ret = map[*ssa.Function]map[int]labelSet{}
	a.param = map[*ssa.Parameter]labelSet{}
	a.field = map[string]labelSet{}
	a.tramp = c.trampoline()
	for iter := 0; iter < 12; iter++ {
		a.changed = false
		for _, fn := range c.LibFuncs() {
			sig := fn.Signature
			// return summaries
			for i := 0; i < sig.Results().Len(); i++ {
				if !isErrorish(sig.Results().At(i).Type()) {
					continue
				}
				if a.ret[fn] == nil {
					a.ret[fn] = map[int]labelSet{}
				}
				if a.ret[fn][i] == nil {
					a.ret[fn][i] = labelSet{}
				}
				eachInstr(fn, func(in ssa.Instruction) {
					ret, ok := in.(*ssa.Return)
					if !ok || i >= len(ret.Results) {
						return
					}
					ls := a.labels(ret.Results[i], map[ssa.Value]bool{})
					ls = a.filter(ls, ret.Results[i], ret.Block())
					if a.ret[fn][i].add(ls) {
						a.changed = true
					}
				})
			}
			eachInstr(fn, func(in ssa.Instruction) {
				switch x := in.(type) {
				case ssa.CallInstruction:
					cc := x.Common()
					callee := cc.StaticCallee()
					if callee == nil || !c.isLibPkg(funcPkg(callee)) || callee.Blocks == nil {
						return
					}
					for i, arg := range cc.Args {
						if i >= len(callee.Params) || !isErrorish(callee.Params[i].Type()) {
							continue
						}
						ls := a.filter(a.labels(arg, map[ssa.Value]bool{}), arg, in.Block())
						p := callee.Params[i]
						if a.param[p] == nil {
							a.param[p] = labelSet{}
						}
						if a.param[p].add(ls) {
							a.changed = true
						}
					}
				case *ssa.Store:
					fa, ok := x.Addr.(*ssa.FieldAddr)
					if !ok || !isErrorish(x.Val.Type()) {
						return
					}
					key := typeName(deref(fa.X.Type())) + "." + fieldName(fa)
					if a.field[key] == nil {
						a.field[key] = labelSet{}
					}
					ls := a.filter(a.labels(x.Val, map[ssa.Value]bool{}), x.Val, x.Block())
					if a.field[key].add(ls) {
						a.changed = true
					}
				}
			})
			// callbacks of type func(error) *Promise receive whatever travelled up the promise stack
			if fn.Parent() != nil && len(fn.Params) == 1 && isErrorish(fn.Params[0].Type()) && sig.Results().Len() == 1 && c.isPromisePtr(sig.Results().At(0).Type()) {
				p := fn.Params[0]
				if a.param[p] == nil {
					a.param[p] = labelSet{}
				}
				if !a.param[p]["PROPAGATED"] {
					a.param[p]["PROPAGATED"], a.changed = true, true
				}
			}
		}
		if !a.changed {
			break
		}
	}
}

// exemptions: one symbol each, with the reason.
var errIsoExempt = map[string]string{
	"engine.ensurePromise": "the recover wrapper is the panic residue channel itself; absence of panics is the business of the other rules",
	"engine.Consult":       "consult/1 returns loader diagnostics (errors about the file's contents, not about the call's arguments)",
}

func ruleErrIso(c *Ctx, r *Report) {
	const rule = "R-ERR-ISO"
	errCtor := c.errorCtor()
	if errCtor == nil {
		r.undecided(rule, "anchor:Error", "-", "locate the error constructor", "not found")
		return
	}
	a := &errAnalysis{c: c}
	a.run()
	allowed := func(l string) bool {
		switch l {
		case "EXC", "EXTERNAL", "PROPAGATED", "NIL":
			return true
		}
		return false
	}
	n, direct := 0, 0
	perFn := map[string]int{}
	for _, fn := range c.LibFuncs() {
		eachInstr(fn, func(in ssa.Instruction) {
			call, ok := in.(*ssa.Call)
			if !ok || call.Call.StaticCallee() != errCtor {
				return
			}
			n++
			perFn[fname(fn)]++
			key := fmt.Sprintf("%s/raise[%d]", fname(fn), perFn[fname(fn)])
			desc := "an error raised by a predicate is an error(Formal, Context) term, not a bare Go error"
			arg := call.Call.Args[0]
			raw := a.labels(arg, map[ssa.Value]bool{})
			if len(raw) == 0 {
				r.undecided(rule, key, c.at(call), desc, "no provenance could be computed for the argument "+valName(arg)+" (analysis gap): not reported as holding")
				return
			}
			ls := a.filter(raw, arg, call.Block())
			var bad []string
			for l := range ls {
				if !allowed(l) {
					bad = append(bad, l)
				}
			}
			sort.Strings(bad)
			isDirect := len(ls) == 1 && ls["EXC"]
			if isDirect {
				direct++
			}
			if len(bad) == 0 {
				r.ok(rule, key, c.at(call), desc, "provenance {"+ls.String()+"}", !isDirect)
				return
			}
			top := fname(topFunc(fn))
			if why, ok := errIsoExempt[top]; ok {
				r.ok(rule, key, c.at(call), desc, "provenance {"+ls.String()+"}; exempt: "+why, true)
				return
			}
			// arity-mismatch guard of the PredicateN adapters: unreachable (Arrive looks the procedure up under len(args))
			if strings.HasPrefix(strings.TrimPrefix(top, "(engine."), "Predicate") && len(bad) == 1 && strings.Contains(bad[0], "wrongNumberOfArgumentsError") {
				r.ok(rule, key, c.at(call), desc, "provenance {"+ls.String()+"}; exempt: the arity guard of a PredicateN adapter is unreachable (procedures are looked up under name/len(args))", true)
				return
			}
			r.bad(rule, fmt.Sprintf("%s/raise(%s)", fname(fn), strings.Join(bad, ",")), c.at(call), desc,
				"the error may be {"+strings.Join(bad, ",")+"}: the caller sees a Go error / exceptional value instead of an ISO error term (catch/3 cannot match it as error(Formal, _))")
		})
	}
	r.analysed(rule, fmt.Sprintf("%d calls of the error constructor, %d of them with a directly constructed Exception; interprocedural summaries for %d functions", n, direct, len(a.ret)))
}
