package main

// RuleDef binds a rule implementation to a property with its vacuity floor.
type RuleDef struct {
	ID    string
	Floor int // minimum number of instances (confirmed by hand on the pinned tree, minus tolerance)
	Run   func(c *Ctx, r *Report)
}

type Property struct {
	ID          string
	Title       string
	Decides     string
	NotDecided  string
	Assumptions []string
	Rules       []RuleDef
}

func findProperty(id string) *Property {
	for i := range properties {
		if properties[i].ID == id {
			return &properties[i]
		}
	}
	return nil
}

var properties []Property

func init() {
	properties = buildProperties()
}
