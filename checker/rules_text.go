package main

import (
	"fmt"
	"go/ast"
	"go/constant"
	"go/types"
	"regexp"
	"sort"
	"strings"

	"golang.org/x/tools/go/ssa"
)

// ---------------------------------------------------------------------------
// R-ESCAPE-TABLES (C06): the writer's and the reader's escape tables agree.

type strSwitch struct {
	fd      *ast.FuncDecl
	cases   map[string]string // case constant -> returned constant
	deflt   *ast.CaseClause
	hasDef  bool
	defFmt  string // constant format string used in the default arm, if any
	nonStr  int    // arms whose return is not a constant
	caseSeq []string
}

// stringSwitches finds functions `func(string) string` whose body is a switch over the parameter with
// constant string cases.
func (c *Ctx) stringSwitches() []*strSwitch {
	var out []*strSwitch
	info := c.EngPkg.TypesInfo
	for _, file := range c.EngPkg.Syntax {
		for _, d := range file.Decls {
			fd, ok := d.(*ast.FuncDecl)
			if !ok || fd.Body == nil || fd.Recv != nil || fd.Type.Params.NumFields() != 1 || fd.Type.Results.NumFields() != 1 {
				continue
			}
			if !isStringType(info.TypeOf(fd.Type.Params.List[0].Type)) || !isStringType(info.TypeOf(fd.Type.Results.List[0].Type)) {
				continue
			}
			var sw *ast.SwitchStmt
			for _, st := range fd.Body.List {
				if s, ok := st.(*ast.SwitchStmt); ok && s.Tag != nil {
					if id, ok := s.Tag.(*ast.Ident); ok && len(fd.Type.Params.List[0].Names) == 1 && id.Name == fd.Type.Params.List[0].Names[0].Name {
						sw = s
					}
				}
			}
			if sw == nil {
				continue
			}
			ss := &strSwitch{fd: fd, cases: map[string]string{}}
			for _, st := range sw.Body.List {
				cc := st.(*ast.CaseClause)
				if cc.List == nil {
					ss.hasDef, ss.deflt = true, cc
					ast.Inspect(cc, func(n ast.Node) bool {
						if call, ok := n.(*ast.CallExpr); ok {
							if sel, ok := call.Fun.(*ast.SelectorExpr); ok && sel.Sel.Name == "Sprintf" && len(call.Args) > 0 {
								if tv := info.Types[call.Args[0]]; tv.Value != nil && tv.Value.Kind() == constant.String {
									ss.defFmt = constant.StringVal(tv.Value)
								}
							}
						}
						return true
					})
					continue
				}
				var ret string
				isConst := false
				if len(cc.Body) == 1 {
					if rs, ok := cc.Body[0].(*ast.ReturnStmt); ok && len(rs.Results) == 1 {
						if tv := info.Types[rs.Results[0]]; tv.Value != nil && tv.Value.Kind() == constant.String {
							ret, isConst = constant.StringVal(tv.Value), true
						}
					}
				}
				if !isConst {
					ss.nonStr++
					continue
				}
				for _, e := range cc.List {
					if tv := info.Types[e]; tv.Value != nil && tv.Value.Kind() == constant.String {
						k := constant.StringVal(tv.Value)
						ss.cases[k] = ret
						ss.caseSeq = append(ss.caseSeq, k)
					}
				}
			}
			if len(ss.cases) >= 5 {
				out = append(out, ss)
			}
		}
	}
	return out
}

// regexpVars: package-level `var x = regexp.MustCompile(<const>)`.
func (c *Ctx) regexpVars() map[string]string {
	out := map[string]string{}
	info := c.EngPkg.TypesInfo
	for _, file := range c.EngPkg.Syntax {
		for _, d := range file.Decls {
			gd, ok := d.(*ast.GenDecl)
			if !ok {
				continue
			}
			for _, sp := range gd.Specs {
				vs, ok := sp.(*ast.ValueSpec)
				if !ok {
					continue
				}
				for i, v := range vs.Values {
					call, ok := v.(*ast.CallExpr)
					if !ok || len(call.Args) != 1 || i >= len(vs.Names) {
						continue
					}
					sel, ok := call.Fun.(*ast.SelectorExpr)
					if !ok || sel.Sel.Name != "MustCompile" {
						continue
					}
					if tv := info.Types[call.Args[0]]; tv.Value != nil && tv.Value.Kind() == constant.String {
						out[vs.Names[i].Name] = constant.StringVal(tv.Value)
					}
				}
			}
		}
	}
	return out
}

// runeClassConst: for `func f(r rune) bool { return strings.ContainsRune(<const>, r) }` returns the constant.
func (c *Ctx) runeClassConst(name string) (string, bool) {
	fn := c.fn(name)
	if fn == nil {
		return "", false
	}
	res := ""
	ok := false
	eachInstr(fn, func(in ssa.Instruction) {
		call, isCall := in.(*ssa.Call)
		if !isCall {
			return
		}
		f := call.Call.StaticCallee()
		if f == nil || f.Pkg == nil || f.Pkg.Pkg.Path() != "strings" || f.Name() != "ContainsRune" {
			return
		}
		if k, isK := call.Call.Args[0].(*ssa.Const); isK && k.Value != nil && k.Value.Kind() == constant.String {
			res, ok = constant.StringVal(k.Value), true
		}
	})
	return res, ok
}

func ruleEscapeTables(c *Ctx, r *Report) {
	const rule = "R-ESCAPE-TABLES"
	sws := c.stringSwitches()
	var writer *strSwitch
	var readers []*strSwitch
	for _, s := range sws {
		esc := 0
		for _, v := range s.cases {
			if strings.HasPrefix(v, `\`) {
				esc++
			}
		}
		keysEsc := 0
		for k := range s.cases {
			if strings.HasPrefix(k, `\`) {
				keysEsc++
			}
		}
		switch {
		case esc >= len(s.cases)-1 && esc > 0:
			writer = s
		case keysEsc >= len(s.cases)-2:
			readers = append(readers, s)
		}
	}
	if writer == nil || len(readers) == 0 {
		r.undecided(rule, "anchor:tables", "-", "locate the writer's escape switch and the readers' unescape switches", fmt.Sprintf("writer found=%v readers=%d", writer != nil, len(readers)))
		return
	}
	sort.Slice(readers, func(i, j int) bool { return readers[i].fd.Name.Name < readers[j].fd.Name.Name })
	rx := c.regexpVars()
	meta, okM := c.runeClassConst("isMetaChar")
	ctrl, okC := c.runeClassConst("isSymbolicControlChar")
	if !okM || !okC {
		r.undecided(rule, "anchor:lexer-classes", "-", "locate the lexer's accepted escape letters", "isMetaChar/isSymbolicControlChar constants not found")
		return
	}
	// which pattern drives which reader: the regexp var whose name shares the reader's stem; fall back to "matches all keys"
	patFor := func(rd *strSwitch) (*regexp.Regexp, string) {
		for name, src := range rx {
			re, err := regexp.Compile(src)
			if err != nil {
				continue
			}
			all := true
			for k := range rd.cases {
				if re.FindString(k) != k {
					all = false
				}
			}
			if all {
				return re, name
			}
		}
		return nil, ""
	}
	// the reader that handles single-quoted items: the one with the '' key
	var qreader *strSwitch
	for _, rd := range readers {
		if _, ok := rd.cases["''"]; ok {
			qreader = rd
		}
	}
	if qreader == nil {
		qreader = readers[0]
	}
	qre, qname := patFor(qreader)
	var trig *regexp.Regexp
	trigName := ""
	for name, src := range rx {
		re, err := regexp.Compile(src)
		if err != nil {
			continue
		}
		all := true
		for k := range writer.cases {
			if !re.MatchString(k) {
				all = false
			}
		}
		if all && len(writer.cases) > 0 {
			trig, trigName = re, name
		}
	}
	pos := c.Pos(writer.fd.Pos())
	var keys []string
	for k := range writer.cases {
		keys = append(keys, k)
	}
	sort.Strings(keys)
	for _, ch := range keys {
		esc := writer.cases[ch]
		key := fmt.Sprintf("%s/%q->%q", writer.fd.Name.Name, ch, esc)
		desc := "an escape sequence the writer emits is accepted by the lexer, matched by the reader's pattern and mapped back to the same character"
		var probs []string
		if back, ok := qreader.cases[esc]; !ok {
			probs = append(probs, "reader "+qreader.fd.Name.Name+" has no case for it (its fallback parses the body as an octal/hex number)")
		} else if back != ch {
			probs = append(probs, fmt.Sprintf("reader maps it to %q", back))
		}
		if qre == nil {
			probs = append(probs, "no reader pattern found")
		} else if qre.FindString(esc) != esc {
			probs = append(probs, "reader pattern "+qname+" does not match it")
		}
		if len(esc) == 2 && !strings.ContainsRune(meta+ctrl, rune(esc[1])) {
			probs = append(probs, fmt.Sprintf("the lexer accepts only \\ followed by one of %q, an octal digit or x", meta+ctrl))
		}
		if len(probs) == 0 {
			r.ok(rule, key, pos, desc, "lexer class, reader pattern "+qname+" and reader table agree", true)
		} else {
			r.bad(rule, key, pos, desc, strings.Join(probs, "; ")+": writeq output containing this character does not read back")
		}
	}
	// fallback \xH..\
	if writer.defFmt != "" {
		sample := strings.Replace(writer.defFmt, "%x", "1f", 1)
		key := writer.fd.Name.Name + "/default"
		if qre != nil && qre.FindString(sample) == sample && strings.HasPrefix(sample, `\x`) {
			r.ok(rule, key, pos, "the writer's numeric fallback is a hexadecimal escape the reader pattern accepts", fmt.Sprintf("format %q -> sample %q matched by %s", writer.defFmt, sample, qname), true)
		} else {
			r.bad(rule, key, pos, "the writer's numeric fallback is a hexadecimal escape the reader pattern accepts", fmt.Sprintf("format %q -> sample %q is not matched", writer.defFmt, sample))
		}
	} else {
		r.bad(rule, writer.fd.Name.Name+"/default", pos, "the writer has a numeric fallback for other control characters", "no Sprintf fallback found in the default arm")
	}
	// the trigger covers the characters that cannot appear raw inside a quoted atom
	if trig != nil {
		var miss []string
		for _, must := range []string{"'", `\`, "\n", "\t", "\x00", "\x7f"} {
			if !trig.MatchString(must) {
				miss = append(miss, fmt.Sprintf("%q", must))
			}
		}
		if len(miss) == 0 {
			r.ok(rule, trigName+"/trigger", pos, "quote, backslash and control characters are always escaped", "pattern matches ', \\, newline, tab, NUL, DEL", true)
		} else {
			r.bad(rule, trigName+"/trigger", pos, "quote, backslash and control characters are always escaped", "pattern does not match "+strings.Join(miss, ", "))
		}
	} else {
		r.bad(rule, "trigger", pos, "quote, backslash and control characters are always escaped", "no pattern found that matches every character the writer has a case for")
	}
	// the reader tables agree on their common keys
	if len(readers) >= 2 {
		a, b := readers[0], readers[1]
		var common []string
		for k := range a.cases {
			if _, ok := b.cases[k]; ok {
				common = append(common, k)
			}
		}
		sort.Strings(common)
		for _, k := range common {
			key := fmt.Sprintf("%s~%s/%q", a.fd.Name.Name, b.fd.Name.Name, k)
			if a.cases[k] == b.cases[k] {
				r.ok(rule, key, c.Pos(a.fd.Pos()), "quoted-atom and double-quoted readers decode a shared escape identically", fmt.Sprintf("both -> %q", a.cases[k]), false)
			} else {
				r.bad(rule, key, c.Pos(a.fd.Pos()), "quoted-atom and double-quoted readers decode a shared escape identically", fmt.Sprintf("%q vs %q", a.cases[k], b.cases[k]))
			}
		}
	}
	r.analysed(rule, writer.fd.Name.Name, fmt.Sprintf("%d reader tables, %d regexps, lexer classes %q %q", len(readers), len(rx), meta, ctrl))
}

// ---------------------------------------------------------------------------
// R-FLOAT-TEXT (C06)

func ruleFloatText(c *Ctx, r *Report) {
	const rule = "R-FLOAT-TEXT"
	// (1) the float writer: FormatFloat(…, -1, 64)
	fw := c.method("Float", "WriteTerm")
	if fw == nil {
		r.undecided(rule, "anchor:Float.WriteTerm", "-", "locate the float writer", "not found")
	} else {
		found := false
		// the writer itself and the library functions it statically calls (the formatting may live in a helper)
		scope := []*ssa.Function{fw}
		for _, fn := range c.LibFuncs() {
			if fn != fw && fn.Parent() == nil && c.isLibPkg(funcPkg(fn)) && c.staticallyReaches(fw, fn) {
				scope = append(scope, fn)
			}
		}
		for _, sfn := range scope {
			sfn := sfn
			eachInstr(sfn, func(in ssa.Instruction) {
				call, ok := in.(*ssa.Call)
				if !ok {
					return
				}
				f := call.Call.StaticCallee()
				if f == nil || f.Pkg == nil || f.Pkg.Pkg.Path() != "strconv" || f.Name() != "FormatFloat" {
					return
				}
				found = true
				prec, okP := constInt(call.Call.Args[2])
				bits, okB := constInt(call.Call.Args[3])
				key := fname(sfn) + "/FormatFloat"
				if okP && okB && prec == -1 && bits == 64 {
					r.ok(rule, key, c.at(call), "floats are written with the shortest representation that reads back to the same float64", "strconv.FormatFloat(_, _, -1, 64)", false)
				} else {
					r.bad(rule, key, c.at(call), "floats are written with the shortest representation that reads back to the same float64", fmt.Sprintf("precision=%d bitSize=%d: a fixed precision loses bits, so the text does not read back bit-for-bit", prec, bits))
				}
			})
		}
		if !found {
			r.bad(rule, fname(fw)+"/FormatFloat", c.Pos(fw.Pos()), "floats are written with strconv.FormatFloat", "no FormatFloat call in the float writer")
		}
	}
	// (2) the float reader: functions that take a string and return an engine.Float
	n := 0
	for _, fn := range c.LibFuncs() {
		if fn.Parent() != nil || funcPkg(fn) != c.Engine {
			continue
		}
		sig := fn.Signature
		if sig.Results().Len() == 0 || !isEngNamed(sig.Results().At(0).Type(), "Float") || isPtr(sig.Results().At(0).Type()) {
			continue
		}
		hasStr := false
		for i := 0; i < sig.Params().Len(); i++ {
			if isStringType(sig.Params().At(i).Type()) {
				hasStr = true
			}
		}
		if !hasStr {
			continue
		}
		n++
		key := fname(fn) + "/text->float64"
		desc := "a float literal is converted to float64 by one correctly rounding conversion"
		verdict, why := "", ""
		eachInstr(fn, func(in ssa.Instruction) {
			call, ok := in.(*ssa.Call)
			if !ok {
				return
			}
			f := call.Call.StaticCallee()
			if f == nil || f.Pkg == nil {
				return
			}
			switch f.Pkg.Pkg.Path() + "." + f.Name() {
			case "strconv.ParseFloat":
				if bits, ok := constInt(call.Call.Args[1]); ok && bits == 64 {
					if verdict == "" {
						verdict, why = "ok", "strconv.ParseFloat(s, 64) rounds correctly"
					}
				} else {
					verdict, why = "bad", "strconv.ParseFloat with bitSize != 64"
				}
			case "math/big.Float64":
				verdict, why = "bad", "goes through a big.Float parsed at finite precision and then (*big.Float).Float64(): two roundings, the result can be 1 ulp off the nearest double"
			}
		})
		switch verdict {
		case "ok":
			r.ok(rule, key, c.Pos(fn.Pos()), desc, why, true)
		case "bad":
			r.bad(rule, key, c.Pos(fn.Pos()), desc, why)
		default:
			r.undecided(rule, key, c.Pos(fn.Pos()), desc, "no recognised text-to-float conversion found")
		}
	}
	r.analysed(rule, fmt.Sprintf("%d float reader(s)", n))
}

var _ = types.Typ
