package main

import (
	"fmt"
	"go/token"
	"go/types"

	"golang.org/x/tools/go/callgraph"
	"golang.org/x/tools/go/ssa"
)

// ---------------------------------------------------------------------------
// R-MARK-ROLLBACK (C13, C20; added after seed C13b): a function that marks a key in a map of the VM before
// a fallible step and un-marks it (delete on the same map) when the step fails — ensure_loaded/1 marking the
// file as loaded before compiling it — un-marks it on every exit that can return an error after the mark:
//   (1) every path from the insertion to a return whose error result is not the constant nil passes
//       through the delete, or
//   (2) the delete sits in a deferred closure under the guard `v != nil`, and the error the function
//       returns is read back from that same variable v (a named result).
// Otherwise a load that fails — or is cancelled — leaves the file marked: the next ensure_loaded of it
// silently does nothing.

type vmMapOp struct {
	in    ssa.Instruction
	field string
	fn    *ssa.Function
}

// vmFieldOfMap: m is a load of a VM field (vm.loaded): returns the field name.
func (c *Ctx) vmFieldOfMap(m ssa.Value) string {
	for _, l := range c.originSet(m) {
		if u, ok := l.(*ssa.UnOp); ok && u.Op == token.MUL {
			if fa, ok := u.X.(*ssa.FieldAddr); ok && isEngNamed(deref(fa.X.Type()), "VM") {
				return fieldName(fa)
			}
		}
	}
	return ""
}

func instrReachAvoid(start ssa.Instruction, target, avoid func(ssa.Instruction) bool) ssa.Instruction {
	seen := map[*ssa.BasicBlock]bool{}
	var found ssa.Instruction
	var scan func(b *ssa.BasicBlock, from int)
	scan = func(b *ssa.BasicBlock, from int) {
		for i := from; i < len(b.Instrs) && found == nil; i++ {
			in := b.Instrs[i]
			if avoid(in) {
				return
			}
			if target(in) {
				found = in
				return
			}
		}
		for _, s := range b.Succs {
			if !seen[s] && found == nil {
				seen[s] = true
				scan(s, 0)
			}
		}
	}
	scan(start.Block(), instrIndex(start)+1)
	return found
}

func ruleMarkRollback(c *Ctx, r *Report) {
	const rule = "R-MARK-ROLLBACK"
	desc := "a key marked in a VM map before a fallible step is un-marked on every exit that can return an error"
	n := 0
	for _, top := range c.LibFuncs() {
		if top.Parent() != nil {
			continue
		}
		var inserts, deletes []vmMapOp
		for _, f := range withAnon(top) {
			eachInstr(f, func(in ssa.Instruction) {
				switch x := in.(type) {
				case *ssa.MapUpdate:
					if fld := c.vmFieldOfMap(x.Map); fld != "" {
						inserts = append(inserts, vmMapOp{in, fld, f})
					}
				case ssa.CallInstruction:
					if b, ok := x.Common().Value.(*ssa.Builtin); ok && b.Name() == "delete" {
						if fld := c.vmFieldOfMap(x.Common().Args[0]); fld != "" {
							deletes = append(deletes, vmMapOp{in, fld, f})
						}
					}
				}
			})
		}
		for _, ins := range inserts {
			var dels []vmMapOp
			for _, d := range deletes {
				if d.field == ins.field {
					dels = append(dels, d)
				}
			}
			if ins.fn == top {
				gkey := fmt.Sprintf("%s/VM.%s/guard", fname(top), ins.field)
				// a memoising insertion (the same map is looked up in this function) is also the re-entrancy
				// guard: it precedes every call that runs goals (statically reaches the trampoline), because a
				// goal may call this function again (a file that loads itself)
				lookedUp := false
				eachInstr(top, func(in ssa.Instruction) {
					if lk, ok := in.(*ssa.Lookup); ok && lk.CommaOk && c.vmFieldOfMap(lk.X) == ins.field {
						lookedUp = true
					}
				})
				var late ssa.Instruction
				nre := 0
				if lookedUp {
					eachInstr(top, func(in ssa.Instruction) {
						ci, ok := in.(ssa.CallInstruction)
						if !ok {
							return
						}
						callee := ci.Common().StaticCallee()
						if callee == nil || !c.isLibPkg(funcPkg(callee)) {
							return
						}
						if tr := c.trampoline(); tr == nil || !c.staticallyReaches(callee, tr) {
							return
						}
						nre++
						ib, mb := in.Block(), ins.in.Block()
						dominated := (ib == mb && instrIndex(ins.in) < instrIndex(in)) || (ib != mb && mb.Dominates(ib))
						if !dominated && late == nil {
							late = in
						}
					})
				}
				if nre > 0 {
					n++
					if late != nil {
						r.bad(rule, gkey, c.at(late), "the memoising mark precedes every call that runs goals (re-entrancy guard)", "this call runs goals and is not dominated by the insertion into VM."+ins.field+": a file that loads itself recurses until the Go stack is exhausted (fatal, not recoverable)")
					} else {
						r.ok(rule, gkey, c.at(ins.in), "the memoising mark precedes every call that runs goals (re-entrancy guard)", fmt.Sprintf("%d goal-running call(s), each dominated by the insertion", nre), true)
					}
				}
			}
			if len(dels) == 0 || ins.fn != top {
				continue // a plain insertion, no rollback protocol in this function
			}
			key := fmt.Sprintf("%s/VM.%s", fname(top), ins.field)
			// error result index
			eidx := -1
			res := top.Signature.Results()
			for i := 0; i < res.Len(); i++ {
				if isErrorType(res.At(i).Type()) {
					eidx = i
				}
			}
			if eidx < 0 {
				continue // no error to roll back on: not this protocol
			}
			n++
			// form (2): deferred closure with a guarded delete
			var guardCell *ssa.Alloc
			for _, d := range dels {
				if d.fn == top {
					continue
				}
				deferred := false
				eachInstr(top, func(in ssa.Instruction) {
					if df, ok := in.(*ssa.Defer); ok {
						if mc, ok := df.Call.Value.(*ssa.MakeClosure); ok && mc.Fn == ssa.Value(d.fn) {
							deferred = true
						}
					}
				})
				if !deferred {
					continue
				}
				for f := range c.factsAt(d.in.Block()) {
					bo, ok := f.cond.(*ssa.BinOp)
					if !ok || !((bo.Op == token.NEQ && f.pol) || (bo.Op == token.EQL && !f.pol)) {
						continue
					}
					for _, side := range []ssa.Value{bo.X, bo.Y} {
						if u, ok := side.(*ssa.UnOp); ok && u.Op == token.MUL && isErrorType(u.Type()) {
							if cell := c.varCell(u.X); cell != nil {
								guardCell = cell
							}
						}
					}
				}
			}
			isDelete := func(in ssa.Instruction) bool {
				for _, d := range dels {
					if d.in == in {
						return true
					}
				}
				return false
			}
			var offending ssa.Instruction
			why := ""
			bad := instrReachAvoid(ins.in, func(in ssa.Instruction) bool {
				ret, ok := in.(*ssa.Return)
				if !ok || eidx >= len(ret.Results) {
					return false
				}
				v := ret.Results[eidx]
				if k, ok := v.(*ssa.Const); ok && k.Value == nil {
					return false
				}
				if guardCell != nil {
					if u, ok := v.(*ssa.UnOp); ok && u.Op == token.MUL && c.varCell(u.X) == guardCell {
						return false // the deferred closure sees exactly the error that is returned
					}
				}
				allNil := true
				for _, l := range c.originSet(v) {
					if k, ok := l.(*ssa.Const); !ok || k.Value != nil {
						allNil = false
					}
				}
				if allNil {
					return false
				}
				offending = in
				return true
			}, isDelete)
			if bad == nil {
				form := "every error exit after the mark passes through the delete"
				if guardCell != nil {
					form = "the deferred delete is guarded by the variable the function returns its error through"
				}
				r.ok(rule, key, c.at(ins.in), desc, form, true)
			} else {
				why = fmt.Sprintf("the return at %s can carry an error and is reached from the mark without the delete", c.at(offending))
				if guardCell != nil {
					why += " (the deferred delete tests " + guardCell.Comment + ", which is not the value returned there)"
				}
				r.bad(rule, key, c.at(ins.in), desc, why+": a failed or cancelled load leaves the file marked as loaded")
			}
		}
	}
	r.analysed(rule, fmt.Sprintf("%d mark/un-mark protocols on VM maps", n))
}

// ---------------------------------------------------------------------------
// R-GROUP-ALL (C11; added after seed C11c): bagof/3 and setof/3 offer one alternative per witness group.
// In the grouping loop of their common implementation every iteration reaches the append of an
// alternative; no group is dropped by a test made beforehand (a "quick reject by length" is wrong for
// setof/3, whose aggregate removes duplicates).

func ruleGroupAll(c *Ctx, r *Report) {
	const rule = "R-GROUP-ALL"
	fn := c.fn("collectionOf")
	if fn == nil {
		r.undecided(rule, "anchor:collectionOf", "-", "locate collectionOf", "not found")
		return
	}
	desc := "every witness group produced by the grouping loop becomes an alternative"
	n := 0
	for _, f := range withAnon(fn) {
		eachInstr(f, func(in ssa.Instruction) {
			call, ok := in.(*ssa.Call)
			if !ok {
				return
			}
			b, ok := call.Call.Value.(*ssa.Builtin)
			if !ok || b.Name() != "append" || len(call.Call.Args) != 2 {
				return
			}
			// appending a thunk (func(context.Context) *Promise) to the list of alternatives
			sl, ok := call.Call.Args[0].Type().Underlying().(*types.Slice)
			if !ok {
				return
			}
			sig, ok := sl.Elem().Underlying().(*types.Signature)
			if !ok || sig.Params().Len() != 1 || !isContextType(sig.Params().At(0).Type()) {
				return
			}
			n++
			key := fmt.Sprintf("%s/alternatives#%d", fname(f), n)
			found, skips := loopIterationSkips(f, call.Block(), map[*ssa.BasicBlock]bool{call.Block(): true})
			switch {
			case !found:
				r.bad(rule, key, c.at(in), desc, "the append of the alternative is not inside the grouping loop")
			case skips:
				r.bad(rule, key, c.at(in), desc, "an iteration of the grouping loop can return to the loop header without appending its alternative: that witness group is never offered")
			default:
				r.ok(rule, key, c.at(in), desc, "node-removal check: without the appending block the body entry cannot reach the back edge", true)
			}
		})
	}
	if n == 0 {
		r.bad(rule, fname(fn)+"/alternatives", c.Pos(fn.Pos()), desc, "no append of an alternative found")
	}
	r.analysed(rule, fname(fn))
}

// reachesFn: can `to` be reached from `from` in the call graph?
func (c *Ctx) reachesFn(cg *callgraph.Graph, from, to *ssa.Function) bool {
	start := cg.Nodes[from]
	if start == nil {
		return false
	}
	seen := map[*callgraph.Node]bool{}
	st := []*callgraph.Node{start}
	for len(st) > 0 {
		n := st[len(st)-1]
		st = st[:len(st)-1]
		if seen[n] {
			continue
		}
		seen[n] = true
		if n.Func == to {
			return true
		}
		for _, e := range n.Out {
			st = append(st, e.Callee)
		}
	}
	return false
}

// staticallyReaches: `to` is reachable from `from` over static calls and the closures created on the way.
func (c *Ctx) staticallyReaches(from, to *ssa.Function) bool {
	seen := map[*ssa.Function]bool{}
	st := []*ssa.Function{from}
	for len(st) > 0 {
		f := st[len(st)-1]
		st = st[:len(st)-1]
		if f == nil || seen[f] {
			continue
		}
		seen[f] = true
		if f == to {
			return true
		}
		if f.Blocks == nil {
			continue
		}
		eachInstr(f, func(in ssa.Instruction) {
			switch x := in.(type) {
			case ssa.CallInstruction:
				if cal := x.Common().StaticCallee(); cal != nil {
					st = append(st, cal)
				}
			case *ssa.MakeClosure:
				st = append(st, x.Fn.(*ssa.Function))
			}
		})
	}
	return false
}
